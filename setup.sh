#!/bin/sh
# Build the framework from files on disk only (offline): regenerate the leaves from /repo, build model, proofs, driver.
set -e
cd "$(dirname "$0")"
/venv/bin/python tools/reflect_consts.py "${J1939_REPO:-/repo}" lean/J1939/Gen
/venv/bin/python tools/py2lean.py "${J1939_REPO:-/repo}" lean/J1939/Gen
cd lean
lake build J1939 driver
