"""End-to-end oracles for DM14 memory access (C17, C18, C19) on real stacks: see dm14sim."""
import random
from . import dm14sim, common as C
from .gen21 import can_id

KEYFN = lambda s: ((s * 40503) ^ 0x5A5A) & 0xFFFF
SEED_KEY_FFFF, SEED_KEY_0000 = 0xd03, 0x7b76        # seeds whose right key is 0xFFFF / 0x0000
READ, WRITE = 1, 2


def le_bytes(v, size):
    return [(v >> (8 * i)) & 255 for i in range(size)]


def values_of(data, size, signed):
    out = []
    for i in range(len(data) // size):
        v = sum(b << (8 * k) for k, b in enumerate(data[i * size:(i + 1) * size]))
        if signed and v >= 1 << (8 * size - 1):
            v -= 1 << (8 * size)
        out.append(v)
    return out


def rand_shape(rng, boundary=True):
    osize = rng.choice([1, 1, 2, 4, 8])
    maxc = 255 // osize
    if boundary and rng.random() < 0.5:
        nb = rng.choice([1, 2, 6, 7, 8, 9, 14, 15, 16, 248, 252, 254, 255])
        count = max(1, min(maxc, nb // osize))
    else:
        count = rng.randrange(1, maxc + 1)
    return osize, count


def rand_bytes(rng, n):
    m = rng.random()
    if m < 0.2:
        return [rng.choice([0, 255, 0x80, 0x7F]) for _ in range(n)]
    return [rng.randrange(256) for _ in range(n)]


class Tx:
    """one client operation and what the serving application does with it"""

    def __init__(self, rng, seedkey, fail=None):
        self.op = rng.choice(['read', 'write'])
        self.osize, self.count = rand_shape(rng)
        self.signed = rng.random() < 0.5
        self.raw = rng.random() < 0.4
        self.direct = rng.choice([0, 1])
        self.address = rng.choice([0, 1, 0xFFFFFFFF, 0x92000003, rng.getrandbits(32), rng.getrandbits(32)])
        self.mem = rand_bytes(rng, self.osize * self.count)          # what the server holds / what is written
        self.values = values_of(self.mem, self.osize, False)
        self.delay = rng.choice([0, 1, 500, 5000, 50000])
        self.fail = fail          # None | 'proceed' | 'respond' | 'silent'
        self.err = rng.choice([0x1, 0x2, 0x10, 0x11, 0x100, 0x1003, 0xFFFFFE, 0x0, 0x123456, rng.getrandbits(24)])
        self.edcp = rng.choice([6, 7])

    def desc(self):
        return dict(op=self.op, osize=self.osize, count=self.count, signed=self.signed, raw=self.raw, direct=self.direct,
                    address=self.address, delay=self.delay, fail=self.fail, err=self.err, edcp=self.edcp)


def make_world(rng, seedkey, seeds=None, n=2, client_key=None):
    addrs = rng.sample(range(1, 250), n)
    if rng.random() < 0.2:
        addrs[0] = 0          # source address 0 is a legal requester
    W = dm14sim.Dm14World(C.REPO, rng.getrandbits(32), n, maxcmdt=[rng.choice([1, 2, 8, 255]) for _ in range(n)], addrs=addrs,
                          latency=lambda r, a, b, f: r.choice([1, 300, 1000, 5000]))
    cur = {}
    issued = []

    def app(cmd, addr, ptype, length, count, key, sa, level, seed):
        t = cur['tx']
        if t.fail == 'proceed':
            return dict(accept=False)
        if t.fail == 'silent':
            return dict(accept=True, respond=None)
        if t.fail == 'respond':
            return dict(accept=True, delay=t.delay, respond=dict(proceed=False, data=[], error=t.err, edcp=t.edcp))
        return dict(accept=True, delay=t.delay, respond=dict(proceed=True, data=list(t.mem) if cmd == READ else [], error=0xFFFFFF, edcp=0xFF))

    def seed_gen():
        s = seeds(rng) if seeds else rng.choice([1, 0xBEEF, 0xFFFE, rng.randrange(1, 0xFFFF)])
        issued.append(s)
        return s
    W.serve(1, app, seed_gen=seed_gen if seedkey else None, keyfn=KEYFN if seedkey else None)
    if seedkey or client_key:
        W.nodes[0].ma.set_seed_key_algorithm(client_key or KEYFN)
    W.cur, W.issued = cur, issued
    return W


def run_tx(W, t, timeout=1):
    a, b = W.nodes[0], W.nodes[1]
    W.cur['tx'] = t
    if t.op == 'read':
        return W.call(a.ma.read, W.addrs[1], t.direct, t.address, t.count, t.osize, t.signed, t.raw, timeout)
    return W.call(a.ma.write, W.addrs[1], t.direct, t.address, list(t.values), t.osize, timeout)


def check_success(W, t, r, npc, nresp, seedkey):
    """the C17 contract for one successful transaction"""
    a, b = W.nodes[0], W.nodes[1]
    bad = []
    if t.op == 'read':
        exp = list(t.mem) if t.raw else values_of(t.mem, t.osize, t.signed)
        if r != ('ret', exp):
            bad.append(f"read of {t.count} x {t.osize} bytes (signed={t.signed} raw={t.raw}) returned {str(r)[:100]} expected {str(exp)[:80]}")
    else:
        if r != ('ret', None):
            bad.append(f"write of {t.count} x {t.osize} bytes returned {str(r)[:100]}")
    if len(b.proceed_calls) != npc + 1:
        bad.append(f"proceed callback ran {len(b.proceed_calls) - npc} times for one {t.op}")
    else:
        cmd, addr, ptype, length, count, key, sa, level, seed = b.proceed_calls[-1]
        want = (READ if t.op == 'read' else WRITE, t.address, t.direct & 1, t.count, W.addrs[0])
        if (cmd, addr, ptype, count, sa) != want:
            bad.append(f"proceed callback saw (command, address, pointer type, count, sa) = {(cmd, addr, ptype, count, sa)}, the client asked {want}")
        if seedkey and (not W.issued or seed != W.issued[-1] or key != KEYFN(seed)):
            bad.append(f"proceed callback saw seed {seed} key {key}; issued seed {W.issued[-1:]} right key {KEYFN(W.issued[-1]) if W.issued else None}")
    if len(b.responses) != nresp + 1:
        bad.append(f"respond() returned {len(b.responses) - nresp} times")
    else:
        exp = ('ret', None) if t.op == 'read' else ('ret', list(t.mem))
        if b.responses[-1] != exp:
            bad.append(f"respond() of a {t.op} of {len(t.mem)} bytes gave {str(b.responses[-1])[:100]} expected {str(exp)[:80]}")
    return bad


def idle_check(W):
    bad = []
    for k in range(len(W.nodes)):
        for x in W.idle_report(k):
            bad.append(f"node {k} not idle afterwards: {x}")
    if W.net.errors:
        bad.append(f"exception in the stack: {W.net.errors[0]}")
    return bad


# ------------------------------------------------------------------------------------------------ C17
def c17_case(rng):
    seedkey = rng.random() < 0.5
    W = make_world(rng, seedkey, seeds=(lambda r: r.choice([1, 2, 0xBEEF, 0xFFFE, 0, 0xFFFF, SEED_KEY_FFFF, SEED_KEY_0000, r.randrange(1, 0xFFFF)])))
    bad, descs = [], []
    rapid = rng.random() < 0.5          # the application issues the next call as soon as the previous one returned
    for _ in range(rng.choice([1, 1, 2, 3, 4])):
        t = Tx(rng, seedkey)
        if rapid and rng.random() < 0.6:
            t.count = max(t.count, -(-9 // t.osize))          # multi-packet transfers back to back in the same direction
            t.count = min(t.count, 255 // t.osize)
            t.mem = rand_bytes(rng, t.osize * t.count)
            t.values = values_of(t.mem, t.osize, False)
        descs.append(t.desc())
        npc, nresp = len(W.nodes[1].proceed_calls), len(W.nodes[1].responses)
        r = run_tx(W, t, timeout=rng.choice([1, 2]))
        if rapid:
            W.net.run(rng.choice([0, 0, 1000, 20000]))
            bad += check_success(W, t, r, npc, nresp, seedkey)
        else:
            W.settle()
            bad += check_success(W, t, r, npc, nresp, seedkey)
            bad += idle_check(W)
            if rng.random() < 0.5:
                W.net.run(rng.choice([0, 1000, 300000]))
        if bad:
            break
    if not bad:
        W.settle()
        bad += idle_check(W)
    return bad, dict(seedkey=seedkey, rapid=rapid, txs=descs)


# ------------------------------------------------------------------------------------------------ C18
def c18_case(rng):
    seedkey = rng.random() < 0.6
    wrongkey = seedkey and rng.random() < 0.4
    mode = {'wrong': False}
    delta = rng.choice([1, 0xFFFF, 0x8000, rng.randrange(1, 0x10000)])

    def client_key(s):
        k = KEYFN(s)
        return (k + delta) & 0xFFFF if mode['wrong'] else k
    seeds = lambda r: r.choice([0, 1, 0xFFFE, 0xFFFF, 0xBEEF, SEED_KEY_FFFF, SEED_KEY_0000, SEED_KEY_FFFF, r.randrange(0, 0xFFFF)])
    W = make_world(rng, seedkey, seeds=seeds, client_key=client_key if seedkey else None)
    b = W.nodes[1]
    bad, descs = [], []
    nops = rng.randrange(1, 7)
    for k in range(nops):
        kinds = [None, None, 'proceed', 'respond'] + (['wrongkey'] * 3 if seedkey else [])
        f = rng.choice(kinds) if k < nops - 1 or rng.random() < 0.3 else None
        t = Tx(rng, seedkey, fail=f if f != 'wrongkey' else None)
        if k == nops - 1 and f is None:
            pass
        mode['wrong'] = (f == 'wrongkey')
        d = t.desc(); d['fail'] = f
        descs.append(d)
        npc, nnc, nresp = len(b.proceed_calls), b.notify_calls, len(b.responses)
        t0 = W.w.now
        tmo = rng.choice([1, 2])
        r = run_tx(W, t, timeout=tmo)
        dt = W.w.now - t0
        if f == 'silent':
            # the application never answers: the caller gets an exception at its timeout; the application then gives the request up
            if r[0] != 'exc' or 'No response' not in r[2]:
                bad.append(f"{t.op} with an application that never responds: {str(r)[:100]}")
            if dt > tmo * 1_000_000 + 10_000:
                bad.append(f"{t.op} with a silent server returned after {dt} us, timeout {tmo} s")
            b.ma.reset_query()
        elif f is None:
            W.settle()
            bad += check_success(W, t, r, npc, nresp, seedkey)
        else:
            W.settle()
            code = dict(proceed=0x100, wrongkey=0x1003).get(f, t.err)
            if r[0] != 'exc' or r[1] != 'RuntimeError' or hex(code) not in r[2]:
                bad.append(f"{t.op} refused ({f}, error {code:#x}) was reported to the client as {str(r)[:120]}")
            name = W.j.ErrorInfo.get(code) if hasattr(W.j.ErrorInfo, 'get') else None
            if r[0] == 'exc' and name and name not in r[2]:
                bad.append(f"exception text {r[2][:100]!r} does not name error {code:#x} ({name})")
            if f == 'wrongkey' and (len(b.proceed_calls) != npc or b.notify_calls != nnc):
                bad.append("the application was consulted although the key was wrong")
            if f in ('proceed', 'wrongkey') and len(b.responses) != nresp:
                bad.append("respond() ran for a refused request")
        W.settle()
        bad += idle_check(W)
        if bad:
            break
    return bad, dict(seedkey=seedkey, ops=descs)


def c18_absent_case(rng):
    """nobody at the destination address at all"""
    W = make_world(rng, False)
    t = Tx(rng, False)
    W.cur['tx'] = t
    a = W.nodes[0]
    ghost = next(x for x in range(1, 250) if x not in W.addrs)
    tmo = rng.choice([1, 2, 3])
    t0 = W.w.now
    if t.op == 'read':
        r = W.call(a.ma.read, ghost, t.direct, t.address, t.count, t.osize, t.signed, t.raw, tmo)
    else:
        r = W.call(a.ma.write, ghost, t.direct, t.address, list(t.values), t.osize, tmo)
    dt = W.w.now - t0
    bad = []
    if r[0] != 'exc' or 'No response' not in r[2]:
        bad.append(f"{t.op} to an absent server: {str(r)[:100]}")
    if dt > tmo * 1_000_000 + 10_000:
        bad.append(f"{t.op} to an absent server returned after {dt} us, timeout {tmo} s")
    W.settle()
    bad += [x for x in idle_check(W) if 'node 0' in x]
    t2 = Tx(rng, False)
    npc, nresp = len(W.nodes[1].proceed_calls), len(W.nodes[1].responses)
    r2 = run_tx(W, t2)
    W.settle()
    bad += check_success(W, t2, r2, npc, nresp, False)
    return bad, dict(absent=True, tx=t.desc(), timeout=tmo)


# ------------------------------------------------------------------------------------------------ C19
def dm14_frame(dst, src, count, direct, cmd, pointer, keylevel):
    data = [count, (direct << 4) + (cmd << 1) + 1] + le_bytes(pointer, 4) + [keylevel & 255, keylevel >> 8]
    return can_id(6, 0xD9, dst, src), data


def c19_run(seed, seedkey, t, inject_after=None, intruder=None):
    """one transaction; `inject_after` = set of bus frame indices after which the intruding DM14 is injected"""
    rng = random.Random(seed)
    W = make_world(rng, seedkey, seeds=lambda r: 0x4321)
    a, b = W.nodes
    sent_to_intruder = []
    count = [0]

    def tap(src, fr):
        k = count[0]
        count[0] += 1
        if inject_after and k in inject_after:
            cid, data = dm14_frame(W.addrs[1], intruder['sa'], intruder['count'], intruder['direct'], intruder['cmd'], intruder['pointer'], intruder['level'])
            # after frame k in bus order: queue it once frame k itself is queued at the server (receivers keep bus order)
            W.net.at(W.w.now, lambda: W.net.inject(1, cid, data, intruder.get('lat', 1)))
    W.net.taps.append(tap)
    r = run_tx(W, t)
    W.settle()
    bus = [(src, cid, list(data)) for (tt, src, cid, data, fd) in W.net.bus]
    return dict(result=r, proceed=list(b.proceed_calls), notify=b.notify_calls, responses=list(b.responses), bus=bus,
                idle=idle_check(W), addrs=list(W.addrs))


def c19_case(rng, exhaustive_points=True):
    seedkey = rng.random() < 0.5
    t = Tx(rng, seedkey)
    if rng.random() < 0.6:
        t.count, t.osize = rng.choice([(1, 1), (7, 1), (8, 1), (9, 1), (3, 4), (20, 1)])
        t.mem = rand_bytes(rng, t.count * t.osize)
        t.values = values_of(t.mem, t.osize, False)
    seed = rng.getrandbits(32)
    base = c19_run(seed, seedkey, t)
    bad = []
    if base['result'][0] != 'ret' or base['idle']:
        return [f"baseline transaction failed: {str(base['result'])[:80]} {base['idle'][:1]}"], dict(tx=t.desc())
    nframes = len(base['bus'])
    own = rng.random() < 0.3          # from the running requester's own address with another pointer
    addrs = base['addrs']
    free = [x for x in range(1, 250) if x not in addrs]
    # other requesters: an ordinary address, address 0, the NULL address 254 (a node without an address may still ask), 253
    isa = addrs[0] if own else rng.choice([x for x in [free[0], rng.choice(free), 0, 254, 254, 253] if x not in addrs])
    intr = dict(sa=isa, count=rng.choice([1, t.count, 5]), direct=rng.choice([0, 1]), cmd=rng.choice([READ, WRITE, READ, 0]),
                pointer=(t.address ^ rng.choice([1, 0x100, 0xFFFFFFFF])) & 0xFFFFFFFF if (own or rng.random() < 0.7) else t.address,
                level=rng.choice([7, 0xFFFF, 0]), lat=rng.choice([1, 300, 2000]))
    # in progress from the first DM14 until the server has received the closing DM14 (the last frame)
    last = nframes - 1
    points = list(range(last)) if exhaustive_points else rng.sample(range(last), min(last, 3))
    multi = rng.random() < 0.3
    for p in points:
        pts = {p} if not multi else {p, min(last - 1, p + rng.randrange(1, 4)), min(last - 1, p + rng.randrange(1, 6))}
        run = c19_run(seed, seedkey, t, inject_after=pts, intruder=intr)
        where = f"intruder {'(own address, other pointer)' if own else hex(isa)} after frame {sorted(pts)} of {nframes} ({t.op} {t.count}x{t.osize} seedkey={seedkey})"
        # never passed to the application
        foreign = [c for c in run['proceed'] if c[6] != addrs[0] or c[1] != t.address]
        if foreign:
            bad.append(f"{where}: the intruding request was passed to the application: {foreign[0]}")
        # answers to the intruder are 'operation failed / busy'
        for (src, cid, data) in run['bus']:
            pf, ps = (cid >> 16) & 255, (cid >> 8) & 255
            if src == 1 and pf == 0xD8 and ps == isa and not own:
                status = (data[1] >> 1) & 7
                if status not in (1, 5):
                    bad.append(f"{where}: answer to the intruder is DM15 status {status}: {data}")
            if src == 1 and pf == 0xD7 and ps == isa and not own:
                bad.append(f"{where}: DM16 data sent to the intruder")
            if src == 1 and pf in (0xD8, 0xD7) and ps not in (addrs[0], isa):
                bad.append(f"{where}: the server's answer {hex(cid)} {data} is addressed to {ps}, neither the running requester "
                           f"{addrs[0]} nor the requester that sent the intruding request")
        if not own:
            # non-disturbance
            if run['result'] != base['result']:
                bad.append(f"{where}: client result {str(run['result'])[:80]} instead of {str(base['result'])[:80]}")
            if run['responses'] != base['responses'] or len(run['proceed']) != len(base['proceed']) or run['notify'] != base['notify']:
                bad.append(f"{where}: server application saw proceed x{len(run['proceed'])} notify x{run['notify']} responses {str(run['responses'])[:60]}; "
                           f"undisturbed: x{len(base['proceed'])} x{base['notify']} {str(base['responses'])[:60]}")
            if run['idle']:
                bad.append(f"{where}: {run['idle'][0]}")
        else:
            # the other-pointer request is not served in place of the running one
            served = [c for c in run['proceed'] if c[1] != t.address]
            if served:
                bad.append(f"{where}: request for pointer {served[0][1]:#x} served")
            if run['result'][0] == 'ret' and base['result'] != run['result']:
                bad.append(f"{where}: client got {str(run['result'])[:80]}, undisturbed {str(base['result'])[:80]}")
        if bad:
            break
    return bad, dict(tx=t.desc(), seedkey=seedkey, frames=nframes, own=own, multi=multi, intruder=intr)
