"""m14.* operations of the line protocol on the REAL MemoryAccess / Dm14Query / DM14Server objects (one real ECU and CA
per node; PDUs are handed to the ECU's real subscriber dispatch, ca.send_pgn is recorded).  The blocking queue.get calls
run in helper threads with strict hand-off: the call parks inside get(), the interpreter goes on with the script, and
m14.resume / m14.timeout let it continue — so exactly one thread runs at any time and the run is deterministic."""
import queue as real_queue, re, sys, threading, types
from . import sim

KEYFN = lambda s: ((s * 40503) ^ 0x5A5A) & 0xFFFF
HANDOFF_S = 10.0


def fmt_list(l):
    return "[" + ",".join(str(int(x)) for x in l) + "]"


class Call:
    """a library call that may block in queue.get"""
    current = {}          # thread ident -> Call

    def __init__(self, fn):
        self.fn = fn
        self.to_main = threading.Event()
        self.to_thread = threading.Event()
        self.state = 'new'
        self.result = None
        self.timed_out = False
        self.thread = threading.Thread(target=self._run, daemon=True)

    def _run(self):
        Call.current[threading.get_ident()] = self
        try:
            self.result = ('ret', self.fn())
        except BaseException as e:
            self.result = ('exc', e)
        self.state = 'done'
        self.to_main.set()

    def _wait_main(self):
        if not self.to_main.wait(HANDOFF_S):
            raise RuntimeError("hand-off: the library call neither returned nor blocked in queue.get")
        self.to_main.clear()

    def start(self):
        self.state = 'running'
        self.thread.start()
        self._wait_main()

    def park(self):
        """called on the helper thread from get(): give control back until resumed"""
        self.state = 'blocked'
        self.to_main.set()
        self.to_thread.wait()
        self.to_thread.clear()
        self.state = 'running'

    def resume(self, timed_out=False):
        self.timed_out = timed_out
        self.to_thread.set()
        self._wait_main()


class CoopQueue:
    def __init__(self, maxsize=0):
        self.items = []

    def put(self, x, *a, **k):
        self.items.append(x)

    def qsize(self):
        return len(self.items)

    def empty(self):
        return not self.items

    def get(self, block=True, timeout=None):
        if self.items:
            return self.items.pop(0)
        if not block:
            raise real_queue.Empty
        call = Call.current.get(threading.get_ident())
        if call is None:
            raise RuntimeError("blocking get outside a scripted call")
        while not self.items:
            call.park()
            if call.timed_out:
                raise real_queue.Empty
        return self.items.pop(0)


CB_NAMES = {'_listen_for_dm14': 'listen', 'parse_dm14': 'srv14', '_parse_dm15': 'q15'}


class M14:
    def __init__(self, ex):
        self.ex = ex           # the PyExec (output list, world)
        self.nodes = []
        ns = types.SimpleNamespace(Queue=CoopQueue, Empty=real_queue.Empty)
        sys.modules['j1939.Dm14Query'].queue = ns
        sys.modules['j1939.Dm14Server'].queue = ns

    @property
    def out(self):
        return self.ex.out

    def new(self, sec, hp, delta, own):
        j = self.ex.w.j
        st = self.ex.w.new_stack()
        ca = j.ControllerApplication(j.Name(value=0x5000 + len(self.nodes)), own, bypass_address_claim=True)
        st.ecu.add_ca(controller_application=ca)
        nd = types.SimpleNamespace(st=st, ca=ca, own=own, pendC=None, pendS=None, seed=0, accept=True, apps={})

        def send_pgn(dp, pf, ps, prio, data, *a, **k):
            self.out.append(f"tx {(dp << 16) | (pf << 8)} {ps} {prio} {fmt_list(data)}")
            return True
        ca.send_pgn = send_pgn
        nd.ma = j.MemoryAccess(ca)
        if sec:
            nd.ma.set_seed_key_algorithm(KEYFN)
            nd.ma.query.set_seed_key_algorithm(lambda s: (KEYFN(s) + delta) & 0xFFFF)
        nd.ma.set_seed_generator(lambda: nd.seed)
        if hp:
            def proceed(cmd, addr, ptype, length, count, key, sa, level, seed):
                self.out.append(f"proceed {cmd} {addr} {ptype} {length} {count} {key} {sa} {level} {seed}")
                return nd.accept
            nd.ma.set_proceed(proceed)
            nd.ma.set_notify(lambda: self.out.append("notify"))
        self.nodes.append(nd)

    def show_result(self, res):
        kind, v = res
        if kind == 'ret':
            if v is None:
                return "ret none"
            return None, v
        e = v
        if isinstance(e, real_queue.Empty):
            return "raise Empty"
        msg = str(e)
        if isinstance(e, RuntimeError):
            m = re.match(r"Device (0x[0-9a-f]+) error: (0x[0-9a-f]+) (.*)edcp: (0x[0-9a-f]+)$", msg)
            if m:
                return f"raise device {int(m.group(1), 16)} {int(m.group(2), 16)} {int(m.group(4), 16)} {1 if m.group(3).strip() else 0}"
            if msg.startswith("Key requested"):
                return "raise nokey"
            if msg.startswith("No response"):
                return "raise noresponse"
        return f"raise {type(e).__name__}"

    def finish(self, call, kind):
        """output of a call that has returned or parked"""
        if call.state == 'blocked':
            self.out.append("blocked")
            return call
        r = self.show_result(call.result)
        if isinstance(r, tuple):
            v = r[1]
            self.out.append(f"ret {kind} {fmt_list(v)}")
        else:
            self.out.append(r)
        return None

    def step(self, t):
        op = t[0]
        if op == 'm14.new':
            self.new(int(t[1]) != 0, int(t[2]) != 0, int(t[3]), int(t[4]))
            return
        nd = self.nodes[int(t[1])]
        from .pyexec import parse_list
        if op == 'm14.deliver':
            nd.seed, nd.accept = int(t[5]), int(t[6]) != 0
            nd.st.ecu._notify_subscribers(6, int(t[2]), int(t[3]), nd.own, 0, bytearray(parse_list(t[4])))
        elif op == 'm14.read':
            if nd.pendC:
                self.out.append("busy-call"); return
            a = [int(x) for x in t[2:]]
            c = Call(lambda: nd.ma.read(a[0], a[1], a[2], a[3], a[4], a[5] != 0, a[6] != 0, 1))
            c.start()
            nd.pendC = self.finish(c, 'values')
        elif op == 'm14.write':
            if nd.pendC:
                self.out.append("busy-call"); return
            vals = parse_list(t[5])
            c = Call(lambda: nd.ma.write(int(t[2]), int(t[3]), int(t[4]), vals, int(t[6]), 1))
            c.start()
            nd.pendC = self.finish(c, 'values')
        elif op in ('m14.resume', 'm14.timeout'):
            c = nd.pendC
            if not c:
                self.out.append("no-call"); return
            if op == 'm14.resume' and nd.ma.query.data_queue.empty():
                self.out.append("still-blocked"); return
            c.resume(timed_out=(op == 'm14.timeout'))
            nd.pendC = self.finish(c, 'values')
        elif op == 'm14.respond':
            if nd.pendS:
                self.out.append("busy-call"); return
            nd.seed = int(t[6])
            data = parse_list(t[3])
            c = Call(lambda: nd.ma.respond(int(t[2]) != 0, list(data), int(t[4]), int(t[5]), 3))
            c.start()
            nd.pendS = self.finish(c, 'data')
        elif op in ('m14.rresume', 'm14.rtimeout'):
            c = nd.pendS
            if not c:
                self.out.append("no-call"); return
            if op == 'm14.rresume' and nd.ma.server.data_queue.empty():
                self.out.append("still-blocked"); return
            c.resume(timed_out=(op == 'm14.rtimeout'))
            nd.pendS = self.finish(c, 'data')
        elif op == 'm14.reset':
            nd.ma.reset_query()
        elif op == 'm14.appsub':
            k = int(t[2])
            nd.apps.setdefault(k, (lambda k: (lambda *a: None))(k))
            nd.ca.subscribe(nd.apps[k])
        elif op == 'm14.appunsub':
            k = int(t[2])
            nd.apps.setdefault(k, (lambda k: (lambda *a: None))(k))
            nd.ca.unsubscribe(nd.apps[k])
        elif op == 'm14.dump':
            self.out.append(self.dump(nd))
        else:
            self.out.append("bad-op")

    def cbname(self, nd, cb):
        owner = getattr(cb, '__self__', None)
        name = getattr(cb, '__name__', '?')
        if owner is nd.ma:
            return 'listen'
        if owner is nd.ma.server:
            return {'parse_dm14': 'srv14', '_parse_dm16': 'srv16'}.get(name, name)
        if owner is nd.ma.query:
            return {'_parse_dm15': 'q15', '_parse_dm16': 'q16'}.get(name, name)
        for k, f in nd.apps.items():
            if f is cb:
                return f"app{k}"
        return name

    def dump(self, nd):
        ma = nd.ma
        s = ma.server
        subs = ",".join(self.cbname(nd, d['cb']) for d in nd.st.ecu._subscribers)
        addr = "-" if s.address is None else fmt_list(s.address)
        return (f"f {ma.state.name} q {ma.query.state.name} s {s.state.name} subs {subs} qdata {ma.query.data_queue.qsize()} "
                f"qexc {ma.query.exception_queue.qsize()} sdata {s.data_queue.qsize()} sa {'-' if s.sa is None else s.sa} addr {addr} "
                f"busy {1 if s._busy else 0} len {s.length} err {s.error}")
