"""Recorded scenario scripts for the J1939-22 (FD) data link layer — same recorder as gen21, d22.* operations."""
import random
from . import pyexec, sim
from .gen21 import Rec21, rand_payload, can_id

FD_CM, FD_DT, MPG = 0x4D, 0x4E, 0x25


class Rec22(Rec21):
    P = 'd22'

    def __init__(self, repo, rng, nodes):
        self.tl, self.ff = 0, 3
        super().__init__(repo, rng, nodes)

    def send_extra(self):
        return f" {self.tl} {self.ff}"

    def send22(self, i, dp, pf, ps, prio, sa, data, latency, tl=0, ff=3, lose=None):
        self.tl, self.ff = tl, ff
        r = self.send(i, dp, pf, ps, prio, sa, data, latency, lose)
        self.tl, self.ff = 0, 3
        return r


def size22(rng):
    r = rng.random()
    if r < 0.25:
        return rng.randrange(1, 61)
    if r < 0.6:
        return rng.choice([61, 62, 119, 120, 121, 179, 180, 181, 240, 300])
    if r < 0.95:
        return rng.randrange(61, 700)
    return rng.choice([3000, 5999, 6000, 20000])


def nominal_script(rng, repo):
    k = rng.choice([2, 2, 3])
    addrs = rng.sample(range(1, 250), k)
    nodes = [dict(maxcmdt=rng.choice([1, 2, 3, 7, 254, 255, rng.randrange(1, 256)]), cmdt=rng.choice([None, None, None, 1000, 20000]),
                  bam=rng.choice([10000, 10000, 50000, 190000]), addrs=[addrs[i]]) for i in range(k)]
    rec = Rec22(repo, rng, nodes)
    lat_choices = rng.choice([[1], [1000], [5000], [1, 300, 1000, 5000]])
    latency = lambda r: r.choice(lat_choices)
    app = []
    for _ in range(rng.randrange(1, 9)):
        i = rng.randrange(k)
        if rng.random() < 0.3:
            pf, ps = (rng.choice([254, 255, 240]), rng.randrange(256)) if rng.random() < 0.6 else (rng.randrange(0, 240), 255)
        else:
            j = rng.choice([x for x in range(k) if x != i])
            pf, ps = rng.choice([208, 0, 239, 100]), addrs[j]
        data = rand_payload(rng, size22(rng))
        t = rng.choice([0, 0, rng.randrange(0, 300000)])
        tl = rng.choice([0, 0, 1000, 20000, 100000, 200000]) if len(data) <= 60 else 0
        ff = rng.choice([3, 3, 3, 2])
        prio = rng.randrange(8)
        app.append((sim.START_US + t, lambda r, i=i, pf=pf, ps=ps, data=data, tl=tl, ff=ff, prio=prio:
                    r.send22(i, rng.randrange(2), pf, ps, prio, addrs[i], data, latency, tl, ff)))
    app.sort(key=lambda x: x[0])
    rec.run(sim.START_US + rng.choice([3_000_000, 8_000_000, 40_000_000]), latency, tick_lat=lambda r: r.choice([0, 0, 1, 500, 2000]), app=app,
            max_events=rng.choice([300, 1500]))
    rec.dump_all()
    return rec


def mpg_script(rng, repo):
    """sequences of 1..12 short groups with time limits, several destinations and frame formats"""
    own, peer = rng.sample(range(1, 250), 2)
    rec = Rec22(repo, rng, [dict(maxcmdt=1, cmdt=None, bam=10000, addrs=[own]), dict(maxcmdt=1, cmdt=None, bam=10000, addrs=[peer])])
    latency = lambda r: r.choice([1, 1000])
    dests = [peer, 255, rng.randrange(1, 250)]
    t = sim.START_US
    app = []
    for _ in range(rng.randrange(1, 13)):
        t += rng.choice([0, 0, 0, 1000, 20000, 150000])
        ln = rng.choice([1, 8, 20, 28, 29, 30, 56, 57, 60, rng.randrange(1, 61)])
        d = rng.choice(dests)
        pf, ps = (rng.choice([208, 100]), d) if rng.random() < 0.6 else (rng.choice([254, 241]), rng.randrange(256))
        tl = rng.choice([0, 1000, 20000, 20000, 100000, 200000])
        ff = rng.choice([3, 3, 3, 2])
        data = rand_payload(rng, ln)
        prio = rng.randrange(8)
        app.append((t, lambda r, pf=pf, ps=ps, data=data, tl=tl, ff=ff, prio=prio: r.send22(0, rng.randrange(2), pf, ps, prio, own, data, latency, tl, ff)))
    rec.dump_every = True
    rec.run(t + 1_000_000, latency, app=app, max_events=600)
    rec.dump_all()
    return rec


ALPHABET_CTRL22 = [0, 1, 2, 3, 4, 15, 5, 7]


def malformed_frame22(rng, own, peers):
    sa = rng.choice(peers + [own, 254, 255, rng.randrange(256)])
    da = rng.choice([own, own, 255, rng.choice(peers), rng.randrange(256)])
    kind = rng.random()
    if kind < 0.5:
        ctrl = rng.choice(ALPHABET_CTRL22)
        sess = rng.choice([0, 0, 1, 7, 8, 15, rng.randrange(16)])
        size = rng.choice([0, 1, 60, 61, 120, 130, 0xFFFFFF, rng.randrange(1 << 24)])
        seg = rng.choice([0, 1, 2, 3, 0xFFFFFF, rng.randrange(1 << 24)])
        b7 = rng.choice([0, 0, 1, 2, 255, rng.randrange(256)])
        pgn = rng.choice([0xD000, 0xFECA, 0x4D00, rng.getrandbits(18)])
        data = [ctrl | (sess << 4), size & 255, (size >> 8) & 255, size >> 16, seg & 255, (seg >> 8) & 255, seg >> 16, b7, rng.randrange(256),
                pgn & 255, (pgn >> 8) & 255, pgn >> 16]
        if ctrl == 1 and rng.random() < 0.7:
            sa, da = rng.choice(peers), own
        ln = rng.choice([12, 12, 12, 12, 0, 5, 11, 16])
        data = (data + [0] * 8)[:ln]
        return can_id(rng.choice([7, 6]), FD_CM, da, sa), data
    if kind < 0.8:
        sess = rng.choice([0, 1, 8, 15])
        seg = rng.choice([0, 1, 2, 3, 255, 1 << 20])
        ln = rng.choice([64, 64, 12, 5, 4, 0, 20])
        data = ([sess << 4, seg & 255, (seg >> 8) & 255, seg >> 16] + [rng.randrange(256) for _ in range(60)])[:ln]
        return can_id(7, FD_DT, da, sa), data
    if kind < 0.92:
        # multi-PG frame, possibly nonsense
        data = []
        for _ in range(rng.randrange(0, 4)):
            ln = rng.choice([0, 1, 8, 60, 255])
            data += [rng.choice([0x40, 0x40, 0, 0x44, 0x20, rng.randrange(256)]), rng.randrange(256), rng.randrange(256), ln] + [rng.randrange(256) for _ in range(min(ln, 20))]
        return can_id(rng.randrange(8), MPG, da, sa), data[:64]
    pf = rng.choice([0xEA, 0xEE, 0xEC, 0xEB, 0xD0, 0xFE, rng.randrange(256)])
    return can_id(rng.randrange(8), pf, da, sa, rng.randrange(2)), [rng.randrange(256) for _ in range(rng.choice([0, 3, 8, 12, 64]))]


def hostile_script(rng, repo, length=None):
    own, peer = rng.sample(range(1, 250), 2)
    nodes = [dict(maxcmdt=rng.choice([1, 2, 3, 255]), cmdt=rng.choice([None, None, 5000]), bam=10000, addrs=[own]),
             dict(maxcmdt=rng.choice([1, 2, 255]), cmdt=None, bam=10000, addrs=[peer])]
    rec = Rec22(repo, rng, nodes)
    rec.dump_every = True
    latency = lambda r: r.choice([1, 1000])
    length = length or rng.randrange(1, 61)
    t = sim.START_US
    app = []
    for _ in range(length):
        t += rng.choice([0, 0, 0, 1, 1000, 1000, 50000, 200000, 760000, 1260000, 3100000]) if rng.random() < 0.9 else rng.randrange(0, 1300000)
        if rng.random() < 0.2:
            data = rand_payload(rng, rng.choice([61, 130, 200]))
            dst = rng.choice([peer, 0x77, 0x77, 255])
            app.append((t, lambda r, data=data, dst=dst: r.send22(0, 0, 208 if dst != 255 else 254, dst if dst != 255 else 1, 6, own, data, latency)))
        else:
            cid, data = malformed_frame22(rng, own, [peer, 0x77])
            app.append((t, lambda r, cid=cid, data=data: r.rx(0, cid, data, latency)))
    rec.run(t + 5_000_000, latency, app=app, max_events=2500)
    rec.dump_all()
    return rec


def lossy_script(rng, repo):
    k = 2
    addrs = rng.sample(range(1, 250), k)
    nodes = [dict(maxcmdt=rng.choice([1, 2, 3, 255]), cmdt=None, bam=10000, addrs=[addrs[i]]) for i in range(k)]
    rec = Rec22(repo, rng, nodes)
    latency = lambda r: r.choice([1, 1000])
    lost = set(rng.sample(range(30), rng.choice([1, 1, 2])))
    lose = lambda n, src, dst, cid, data: n in lost
    bcast = rng.random() < 0.3
    data = rand_payload(rng, rng.choice([61, 120, 121, 130, 300, 400]))
    app = [(sim.START_US, lambda r: r.send22(0, 0, 254 if bcast else 208, 1 if bcast else addrs[1], 6, addrs[0], data, latency, lose=lose))]
    rec.run(sim.START_US + 6_000_000, latency, lose=lose, app=app, max_events=1500)
    lost.clear()
    data2 = rand_payload(rng, rng.choice([61, 130]))
    app = [(rec.now, lambda r: r.send22(0, 0, 254 if bcast else 208, 1 if bcast else addrs[1], 6, addrs[0], data2, latency))]
    rec.run(rec.now + 4_000_000, latency, app=app, max_events=800)
    rec.dump_all()
    return rec


def preempt_script(rng, repo):
    """nominal / hostile / lossy / multi-PG histories in which passes are pre-empted by the reception of a frame"""
    old = Rec22.PRE
    Rec22.PRE = rng.choice([0.3, 0.6, 0.9])
    try:
        kind = rng.choice(['nominal', 'nominal', 'hostile', 'lossy', 'mpg'])
        return dict(nominal=nominal_script, hostile=hostile_script, lossy=lossy_script, mpg=mpg_script)[kind](rng, repo)
    finally:
        Rec22.PRE = old
