"""Recorded scenario scripts for the J1939-21 data link layer: the real J1939_21 objects are run under a seeded
scheduler (deliveries, background passes, application sends, losses, malformed frames, time steps); every decision is
appended to the script as it is taken.  The script is then replayed by the Lean driver and the outputs compared."""
import random
from . import pyexec, sim

TP_CM, TP_DT = 0xEC, 0xEB


def can_id(prio, pf, ps, sa, dp=0):
    return (prio << 26) | (dp << 24) | (pf << 16) | (ps << 8) | sa


class Rec21:
    P = 'd21'
    PRE = 0.0          # probability that a pass is pre-empted by the reception of the next pending frame

    def __init__(self, repo, rng, nodes):
        """nodes: list of dict(maxcmdt, cmdt(None|us), bam(us), addrs=[accepted destinations])"""
        self.ex = pyexec.PyExec(repo)
        self.rng = rng
        self.lines = []
        self.outputs = []          # (line, [outs])
        self.nodes = nodes
        self.fifo = {i: [] for i in range(len(nodes))}     # (arrival, can_id, data)
        self.wake = {i: 0 for i in range(len(nodes))}      # virtual time of the next pass
        self.dead = set()
        self.bus = []              # (t, src, can_id, data)
        self.txcount = 0
        self.dump_every = False
        for n in nodes:
            self.do(f"{self.P}.new {n['maxcmdt']} {'n' if n.get('cmdt') is None else n['cmdt']} {n.get('bam', 50000)} {pyexec.fmt_list(n['addrs'])}")

    @property
    def now(self):
        return self.ex.w.now

    def do(self, line):
        self.lines.append(line)
        self.ex.out = []
        try:
            self.ex.step(line)
        except Exception as e:
            self.ex.out.append(f"exc {type(e).__name__}")
        outs = list(self.ex.out)
        self.outputs.append((line, outs))
        return outs

    # -- the bus
    def emit(self, src, outs, latency, lose=None):
        for o in outs:
            if o.startswith('tx '):
                f = o.split(' ')
                if len(f) == 4:
                    if f[2] == '0':
                        continue          # base-format (FBFF) frame: the stacks do not receive those
                    cid, data = int(f[1]), pyexec.parse_list(f[3])
                else:
                    cid, data = int(f[1]), pyexec.parse_list(f[2])
                k = len(self.bus)
                self.bus.append((self.now, src, cid, data))
                for j in self.fifo:
                    if j == src:
                        continue
                    if lose and lose(k, src, j, cid, data):
                        continue
                    lat = latency(self.rng)
                    q = self.fifo[j]
                    arr = max(self.now + lat, q[-1][0] if q else 0)
                    q.append((arr, cid, data))
            elif o == 'wake':
                self.wake[src] = min(self.wake[src], self.now)

    def send(self, i, dp, pf, ps, prio, sa, data, latency, lose=None):
        outs = self.do(f"{self.P}.send {i} {dp} {pf} {ps} {prio} {sa} {pyexec.fmt_list(data)}" + self.send_extra())
        self.emit(i, outs, latency, lose)
        return outs[-1] == 'ret True'

    def send_extra(self):
        return ""

    def rx(self, i, cid, data, latency, lose=None):
        outs = self.do(f"{self.P}.rx {i} {cid} {pyexec.fmt_list(data)}")
        self.emit(i, outs, latency, lose)
        if self.dump_every:
            self.do(f"{self.P}.dump {i}")
        return outs

    def tick(self, i, latency, lose=None, tick_lat=0):
        outs = self.do(f"{self.P}.tick {i}")
        self.emit(i, outs, latency, lose)
        last = outs[-1] if outs else ''
        if last.startswith('wakeup '):
            d = int(last.split()[1])
            # 'wake' outputs of this very pass mean a token is pending: the next pass follows at once
            if 'wake' in outs:
                self.wake[i] = self.now
            else:
                self.wake[i] = self.now + max(d, 1) + tick_lat
        else:
            self.dead.add(i)
        return outs

    def tickpre(self, i, K, cid, data, latency, lose=None, tick_lat=0):
        outs = self.do(f"{self.P}.tickpre {i} {K} {cid} {pyexec.fmt_list(data)}")
        self.emit(i, outs, latency, lose)
        last = outs[-1] if outs else ''
        if last.startswith('wakeup '):
            d = int(last.split()[1])
            if 'wake' in outs:
                self.wake[i] = self.now
            else:
                self.wake[i] = self.now + max(d, 1) + tick_lat
        else:
            self.dead.add(i)
        if self.dump_every:
            self.do(f"{self.P}.dump {i}")
        return outs

    def adv(self, dt):
        if dt > 0:
            self.do(f"adv {dt}")

    def next_event(self):
        best = None
        for i, q in self.fifo.items():
            if q and (best is None or q[0][0] < best[0]):
                best = (q[0][0], 'rx', i)
        for i, t in self.wake.items():
            if i in self.dead:
                continue
            if best is None or t < best[0]:
                best = (t, 'tick', i)
        return best

    def run(self, until, latency, lose=None, tick_lat=lambda rng: 0, max_events=4000, app=None):
        """app: list of (time, callable(rec)) application actions, sorted by time"""
        app = list(app or [])
        n = 0
        while n < max_events:
            ev = self.next_event()
            t_app = app[0][0] if app else None
            if t_app is not None and (ev is None or t_app <= ev[0]):
                if t_app > until:
                    break
                self.adv(t_app - self.now)
                app.pop(0)[1](self)
                n += 1
                continue
            if ev is None or ev[0] > until:
                break
            t, kind, i = ev
            self.adv(t - self.now)
            if kind == 'rx':
                _, cid, data = self.fifo[i].pop(0)
                if self.PRE and i not in self.dead and self.rng.random() < self.PRE / 2:
                    # the frame arrives while a pass of this stack is under way (a pass may run at any time)
                    self.tickpre(i, self.rng.choice([0, 0, 1, 1, 2, 3, 5]), cid, data, latency, lose, tick_lat(self.rng))
                else:
                    self.rx(i, cid, data, latency, lose)
            elif self.PRE and self.fifo[i] and self.rng.random() < self.PRE:
                # the frame that is on its way arrives while the pass is under way
                _, cid, data = self.fifo[i].pop(0)
                self.tickpre(i, self.rng.choice([0, 0, 1, 1, 2, 3, 5]), cid, data, latency, lose, tick_lat(self.rng))
            else:
                self.tick(i, latency, lose, tick_lat(self.rng))
            n += 1
        if self.now < until and n < max_events:
            self.adv(until - self.now)
        return n

    def dump_all(self):
        for i in range(len(self.nodes)):
            self.do(f"{self.P}.dump {i}")


def rand_payload(rng, n):
    mode = rng.random()
    if mode < 0.2:
        return [255] * n
    if mode < 0.3:
        return [i % 256 for i in range(n)]
    return [rng.randrange(256) for _ in range(n)]


def size_choice(rng):
    r = rng.random()
    if r < 0.15:
        return rng.randrange(0, 9)
    if r < 0.5:
        return rng.choice([9, 10, 13, 14, 15, 16, 20, 21, 22, 27, 28, 29, 49, 50])
    if r < 0.9:
        return rng.randrange(9, 120)
    return rng.choice([255, 256, 1000, 1784, 1785])


def nominal_script(rng, repo):
    """2..4 nodes, several transfers on distinct (SA, DA) pairs and in both directions, lossless bus"""
    k = rng.choice([2, 2, 3, 4])
    addrs = rng.sample(range(1, 250), k)
    nodes = [dict(maxcmdt=rng.choice([1, 2, 3, 7, 254, 255, rng.randrange(1, 256)]), cmdt=rng.choice([None, None, None, 1000, 20000]),
                  bam=rng.choice([50000, 50000, 10000, 190000]), addrs=[addrs[i]]) for i in range(k)]
    rec = Rec21(repo, rng, nodes)
    lat_choices = rng.choice([[1], [1000], [5000], [1, 300, 1000, 5000]])
    latency = lambda r: r.choice(lat_choices)
    app = []
    used = set()
    for _ in range(rng.randrange(1, 5)):
        i = rng.randrange(k)
        bcast = rng.random() < 0.3
        if bcast:
            pf, ps = (rng.choice([254, 255, 240]), rng.randrange(256)) if rng.random() < 0.6 else (rng.randrange(0, 240), 255)
            key = (addrs[i], 255)
        else:
            j = rng.choice([x for x in range(k) if x != i])
            pf, ps = rng.choice([208, 0, 239, 100]), addrs[j]
            key = (addrs[i], addrs[j])
        if key in used and rng.random() < 0.7:
            continue
        used.add(key)
        data = rand_payload(rng, size_choice(rng))
        t = rng.choice([0, 0, rng.randrange(0, 300000)])
        app.append((sim.START_US + t, lambda r, i=i, pf=pf, ps=ps, data=data: r.send(i, rng.randrange(2), pf, ps, rng.randrange(8), addrs[i], data, latency)))
    app.sort(key=lambda x: x[0])
    longest = max([len(x) for x in [[]]] + [0])
    rec.run(sim.START_US + rng.choice([3_000_000, 8_000_000, 40_000_000]), latency, tick_lat=lambda r: r.choice([0, 0, 1, 500, 2000]), app=app,
            max_events=rng.choice([300, 1500]))
    rec.dump_all()
    return rec


ALPHABET_CTRL = [16, 17, 19, 32, 255, 0, 1, 18, 20, 254]


def malformed_frame(rng, own, peers):
    """a frame from the protocol-aware alphabet of C07"""
    sa = rng.choice(peers + [own, 254, 255, rng.randrange(256)])
    da = rng.choice([own, own, 255, rng.choice(peers), rng.randrange(256)])
    kind = rng.random()
    if kind < 0.55:
        ctrl = rng.choice(ALPHABET_CTRL)
        size = rng.choice([0, 1, 8, 9, 14, 15, 255, 1785, 1786, 65535, rng.randrange(65536)])
        n = rng.choice([0, 1, 2, 3, 255, rng.randrange(256)])
        b4 = rng.choice([0, 1, 2, 255, rng.randrange(256)])
        pgn = rng.choice([0xD000, 0xFECA, 0xEC00, 0xEB00, rng.getrandbits(18)])
        data = [ctrl, size & 255, size >> 8, n, b4, pgn & 255, (pgn >> 8) & 255, pgn >> 16]
        if ctrl == 17:
            data[1] = rng.choice([0, 0, 1, 2, 3, 255])
            data[2] = rng.choice([0, 1, 1, 2, 3, 4, 255])
            if rng.random() < 0.7:
                sa, da = rng.choice(peers), own
        ln = rng.choice([8, 8, 8, 8, 0, 1, 3, 7])
        return can_id(rng.choice([7, 6, 0]), TP_CM, da, sa), data[:ln]
    if kind < 0.9:
        ln = rng.choice([8, 8, 8, 0, 1, 2, 7])
        data = [rng.choice([0, 1, 2, 3, 4, 255, rng.randrange(256)])] + [rng.randrange(256) for _ in range(7)]
        return can_id(7, TP_DT, da, sa), data[:ln]
    pf = rng.choice([0xEA, 0xEE, 0xD0, 0xFE, 0xFF, rng.randrange(256)])
    return can_id(rng.randrange(8), pf, da, sa, rng.randrange(2)), [rng.randrange(256) for _ in range(rng.randrange(0, 9))]


def hostile_script(rng, repo, length=None):
    """one stack under test (node 0) that also sends, a cooperative peer (node 1), and arbitrary injected traffic"""
    own, peer = rng.sample(range(1, 250), 2)
    nodes = [dict(maxcmdt=rng.choice([1, 2, 3, 255]), cmdt=rng.choice([None, None, 5000]), bam=50000, addrs=[own]),
             dict(maxcmdt=rng.choice([1, 2, 255]), cmdt=None, bam=50000, addrs=[peer])]
    rec = Rec21(repo, rng, nodes)
    rec.dump_every = True
    latency = lambda r: r.choice([1, 1000])
    length = length or rng.randrange(1, 61)
    t = sim.START_US
    app = []
    for _ in range(length):
        t += rng.choice([0, 0, 0, 1, 1000, 1000, 50000, 200000, 760000, 1260000, 3100000]) if rng.random() < 0.9 else rng.randrange(0, 1300000)
        if rng.random() < 0.2:
            data = rand_payload(rng, rng.choice([9, 20, 30]))
            dst = rng.choice([peer, 0x77, 0x77, 255])      # 0x77: nobody answers, only the injected frames do
            app.append((t, lambda r, data=data, dst=dst: r.send(0, 0, 208 if dst != 255 else 254, dst if dst != 255 else 1, 6, own, data, latency)))
        else:
            cid, data = malformed_frame(rng, own, [peer, 0x77])
            app.append((t, lambda r, cid=cid, data=data: r.rx(0, cid, data, latency)))
    rec.run(t + 4_000_000, latency, app=app, max_events=2500)
    rec.dump_all()
    return rec


def lossy_script(rng, repo):
    """a transfer (or two) during which frames are lost / a node falls silent, then a follow-up transfer"""
    k = rng.choice([2, 3])
    addrs = rng.sample(range(1, 250), k)
    nodes = [dict(maxcmdt=rng.choice([1, 2, 3, 255]), cmdt=None, bam=50000, addrs=[addrs[i]]) for i in range(k)]
    rec = Rec21(repo, rng, nodes)
    latency = lambda r: r.choice([1, 1000])
    lost = set(rng.sample(range(40), rng.choice([1, 1, 2])))
    silent = {}
    if rng.random() < 0.3:
        silent[rng.randrange(k)] = rng.randrange(0, 12)
    lose = lambda n, src, dst, cid, data: n in lost or (dst in silent and n >= silent[dst]) or (src in silent and n >= silent[src])
    i, j = rng.sample(range(k), 2)
    bcast = rng.random() < 0.3
    data = rand_payload(rng, rng.choice([9, 14, 15, 21, 22, 50, 84]))
    app = [(sim.START_US, lambda r: r.send(i, 0, 254 if bcast else 208, 1 if bcast else addrs[j], 6, addrs[i], data, latency, lose))]
    rec.run(sim.START_US + 4_000_000, latency, lose=lose, app=app, max_events=1500)
    lost.clear(); silent.clear()
    data2 = rand_payload(rng, rng.choice([9, 30]))
    app = [(rec.now, lambda r: r.send(i, 0, 254 if bcast else 208, 1 if bcast else addrs[j], 6, addrs[i], data2, latency))]
    rec.run(rec.now + 3_000_000, latency, app=app, max_events=800)
    rec.dump_all()
    return rec


def preempt_script(rng, repo, cls=None):
    """nominal / hostile / lossy histories in which passes are pre-empted by the reception of a frame"""
    cls = cls or Rec21
    old = cls.PRE
    cls.PRE = rng.choice([0.3, 0.6, 0.9])
    try:
        kind = rng.choice(['nominal', 'nominal', 'hostile', 'lossy'])
        return dict(nominal=nominal_script, hostile=hostile_script, lossy=lossy_script)[kind](rng, repo)
    finally:
        cls.PRE = old
