"""The check pipeline (DESIGN.md §5): regenerate → build & audit → correspondence → direct oracle → verdict."""
import os, sys, time, json, argparse, importlib, traceback
from . import common as C


class Ctx:
    def __init__(self, pid, tier, seed, shards=1, shard=0):
        self.pid, self.tier, self.seed = pid, tier, seed
        self.quick = tier == 'quick'
        self.driver = C.Driver()
        self.notes = []
        self.shards, self.shard = shards, shard       # the thorough budget is split over `shards` worker processes

    def n(self, quick, thorough, full=False):
        """budget of this process: the quick budget, or its share of the thorough one (also used for the failing-input search)"""
        if self.quick and not full:
            return quick
        return max(quick if self.shards > 1 else 1, -(-(thorough * THOROUGH_SCALE) // self.shards))


WORKERS = max(1, min(14, (os.cpu_count() or 2) - 2))
THOROUGH_SCALE = int(os.environ.get('VERIF_THOROUGH_SCALE', '6'))      # the thorough budgets in props/*.py are multiplied by this


def _worker(args):
    pid, tier, seed, shards, shard, what, full = args
    import importlib as il
    prop = il.import_module(f'vlib.props.{pid.lower()}')
    ctx = Ctx(pid, tier, seed * 1009 + shard if shards > 1 else seed, shards, shard)
    try:
        if what == 'correspondence':
            return prop.correspondence(ctx)
        r = prop.oracle(ctx, full)
        for f in r.get('findings', []):
            f['replay_key'] = dict(worker_seed=ctx.seed, shards=shards, shard=shard, full=bool(full), tier=tier)
        return r
    except Exception as e:
        import traceback
        return dict(worker_error=f"{type(e).__name__}: {e}", trace=traceback.format_exc()[-1500:])


def _merge(results, what):
    out = {}
    errs = [r for r in results if 'worker_error' in r]
    if errs:
        raise RuntimeError(errs[0]['worker_error'] + "\n" + errs[0]['trace'])
    for r in results:
        for k, v in r.items():
            if k in ('disagreements', 'findings', 'samples'):
                out.setdefault(k, []).extend(v)
            elif isinstance(v, bool):
                out[k] = out.get(k, False) or v
            elif isinstance(v, (int, float)):
                out[k] = out.get(k, 0) + v
            elif isinstance(v, dict):
                d = out.setdefault(k, {})
                for a, b in v.items():
                    d[a] = (d.get(a, 0) + b) if isinstance(b, (int, float)) and not isinstance(b, bool) else b
            else:
                out.setdefault(k, v)
    out['samples'] = out.get('samples', [])[:4]
    return out


def replay(prop, pid, path):
    """re-run what a replay file describes: the oracle worker that found the failing input (same seed, shard, budget —
    every random choice derives from them), or the recorded script of a correspondence disagreement; exit 1 with the
    VIOLATION line if it shows again, 0 if it does not"""
    r = json.load(open(path))
    print(json.dumps({k: v for k, v in r.items() if k != 'finding'}, indent=1, default=str)[:1500])
    f = r.get('finding') or {}
    key = f.get('replay_key')
    if key:
        ctx = Ctx(pid, key['tier'], key['worker_seed'], key['shards'], key['shard'])
        res = prop.oracle(ctx, key['full'])
        hit = [g for g in res.get('findings', []) if g.get('signature') == f.get('signature')] or res.get('findings', [])
        if hit:
            print(f"VIOLATION property={pid} replay={path}")
            print(f"  {hit[0].get('what', '')[:300]}")
            return 1
        print(f"not reproduced on the current tree (property={pid}, {res.get('evaluations', 0)} evaluations)")
        return 0
    for b in r.get('no_longer_checks', []) or r.get('broken', []):
        if b.get('kind') == 'correspondence' and b.get('script_file') and os.path.exists(b['script_file']):
            lines = open(b['script_file']).read().split('\n')
            from . import pyexec
            d = pyexec.diff_script([l for l in lines if l], C.Driver(), C.REPO)
            if d:
                print(f"VIOLATION property={pid} replay={path} no-failing-input-found")
                print(f"  model and implementation differ at op {d['op_index']}: {d['op'][:120]}  real: {d['python'][:3]}  model: {d['lean'][:3]}")
                return 1
            print("the recorded script no longer shows a difference")
            return 0
    if hasattr(prop, 'replay'):
        return prop.replay(Ctx(pid, r.get('tier', 'quick'), r.get('seed', 0)), path)
    return 0


def run_part(prop, ctx, what, full=False):
    """correspondence / oracle: in-process for the quick budget, sharded over worker processes for the thorough budget"""
    if (ctx.quick and not full) or WORKERS == 1 or not getattr(prop, 'SHARDABLE', True):
        if what == 'correspondence':
            return prop.correspondence(ctx)
        r = prop.oracle(ctx, full)
        for f in r.get('findings', []):
            f['replay_key'] = dict(worker_seed=ctx.seed, shards=1, shard=0, full=bool(full), tier=ctx.tier)
        return r
    import multiprocessing as mp
    with mp.get_context('fork').Pool(WORKERS) as pool:
        res = pool.map(_worker, [(ctx.pid, ctx.tier, ctx.seed, WORKERS, w, what, full) for w in range(WORKERS)])
    out = _merge(res, what)
    out['workers'] = WORKERS
    return out


def unit_validation(units, seed, per_unit):
    sys.path.insert(0, os.path.join(C.ROOT, 'tools'))
    import validate_units
    importlib.reload(validate_units)
    return validate_units.validate(C.REPO, seed, per_unit, only=set(units) if units else None)


def main(argv=None):
    ap = argparse.ArgumentParser()
    ap.add_argument('pid')
    ap.add_argument('--tier', default=os.environ.get('VERIF_TIER', 'quick'))
    ap.add_argument('--replay')
    a = ap.parse_args(argv)
    pid = a.pid.upper()
    seed = int(os.environ.get('VERIF_SEED', '0'))
    tier = a.tier if a.tier in ('quick', 'thorough') else 'quick'
    try:
        prop = importlib.import_module(f'vlib.props.{pid.lower()}')
    except ModuleNotFoundError as e:
        print(f"no check for {pid}: {e}")
        return 2
    ctx = Ctx(pid, tier, seed)
    if a.replay:
        return replay(prop, pid, a.replay)
    t0 = time.time()
    broken = []          # reasons why the proof / the tie no longer checks
    cov = dict(trusted_base=list(C.TRUSTED_BASE) + list(getattr(prop, 'TRUSTED_EXTRA', [])))
    try:
        with C.Lock():
            regen = C.regenerate()
            if regen['error']:
                broken.append(dict(kind='regenerate', what=regen['error']))
            bad_units = {u: r for u, r in regen['failed_units'].items() if u in getattr(prop, 'UNITS', [])}
            for u, r in bad_units.items():
                broken.append(dict(kind='untranslatable-unit', what=f"{u}: {r}"))
            ok_p, log_p = C.lake_build([prop.PROP_MODULE])
            ok_d, log_d = C.lake_build(['driver'])
            if not ok_p:
                broken.append(dict(kind='proof', what=C.first_error(log_p)))
            if not ok_d:
                broken.append(dict(kind='driver-build', what=C.first_error(log_d)))
            if ok_p:
                au = C.audit(prop.PROP_MODULE)
            else:
                au = dict(ok=False, theorems=[], axioms={}, bad_tokens=[], output='')
            checker = None
            if ok_p and tier == 'thorough':
                mods = sorted(C.lean_files_of([prop.PROP_MODULE]).keys())
                rc, so, se = C.run(['lake', 'env', 'leanchecker'] + mods, cwd=C.LEAN, timeout=3000)
                checker = dict(rc=rc, modules=len(mods), tail=(so + se).strip().split('\n')[-1][:200])
                if rc != 0:
                    broken.append(dict(kind='leanchecker', what=checker['tail']))
        if ok_p and not au['ok']:
            bad = [t for t, v in au['axioms'].items() if v is None or not set(v) <= C.ALLOWED_AXIOMS]
            broken.append(dict(kind='audit', what=f"axioms/tokens: {bad} {au['bad_tokens'][:3]} {au['output'][:200]}"))
        side = [t for t in au['theorems']]
        cov['obligations'] = len(side) + len(getattr(prop, 'EXTRA_OBLIGATIONS', []))
        cov['discharged'] = len([t for t in side if au['axioms'].get(t) is not None and set(au['axioms'][t]) <= C.ALLOWED_AXIOMS]) if ok_p else 0
        cov['theorems'] = side
        cov['axioms_seen'] = sorted({x for v in au['axioms'].values() if v for x in v})
        cov['checker_cmd'] = f"cd lean && lake build {prop.PROP_MODULE} && lake env lean J1939/Audit/{prop.PROP_MODULE.split('.')[-1]}.lean" + \
                             (" && lake env leanchecker <modules>" if tier == 'thorough' else "")
        if checker:
            cov['leanchecker'] = checker
        # translator self-validation
        uv = None
        if ok_d and getattr(prop, 'UNITS', None):
            uv = unit_validation(prop.UNITS, seed, 40 if ctx.quick else 1500)
            cov['translator_validation'] = dict(units=uv['units'], evaluated=uv['evaluated'], skipped=uv['skipped'], mismatches=len(uv['mismatches']))
            if uv['mismatches']:
                broken.append(dict(kind='translator', what=json.dumps(uv['mismatches'][0])[:400]))
        # lock-step correspondence of the hand-written control model
        corr = None
        if hasattr(prop, 'correspondence'):
            if ok_d:
                corr = run_part(prop, ctx, 'correspondence')
                cov['traces_validated_against_impl'] = corr.get('traces', 0)
                cov['correspondence'] = {k: v for k, v in corr.items() if k not in ('disagreements', 'samples')}
                cov['disagreements_checked'] = len(corr.get('disagreements', []))
                if corr.get('disagreements'):
                    d0 = corr['disagreements'][0]
                    sf = None
                    if d0.get('full_script'):
                        os.makedirs(os.path.join(C.ROOT, 'replays'), exist_ok=True)
                        sf = os.path.join(C.ROOT, 'replays', f"{pid}_disagreement.script")
                        open(sf, 'w').write("\n".join(d0['full_script']) + "\n")
                    broken.append(dict(kind='correspondence', script_file=sf,
                                       what=json.dumps({k: v for k, v in d0.items() if k != 'full_script'}, default=str)[:600]))
            else:
                cov['traces_validated_against_impl'] = 0
        # direct oracle on the real code (small budget when everything is intact, full budget as failing-input search)
        orc = run_part(prop, ctx, 'oracle', full=bool(broken))
        findings = orc.get('findings', [])
        cov['evaluations'] = orc.get('evaluations', 0) + (uv['evaluated'] if uv else 0) + (corr.get('evaluations', 0) if corr else 0)
        cov['distinct_nontrivial'] = orc.get('distinct_nontrivial', 0) + (corr.get('distinct_nontrivial', 0) if corr else 0)
        cov['rule'] = orc.get('rule', '')
        cov['samples'] = (orc.get('samples', []) + (corr.get('samples', []) if corr else []) + (uv['sample'] if uv else []))[:8]
        cov['oracle'] = {k: v for k, v in orc.items() if k not in ('findings', 'samples')}
        known = C.load_known_findings(pid)
        new, seen_known = [], {}
        for f in findings:
            hit = [e for e in known if C.matches(e, f)]
            if hit:
                seen_known.setdefault(hit[0]['id'], (hit[0], f))
            else:
                new.append(f)
        for kid, (e, f) in sorted(seen_known.items()):
            print(f"KNOWN-FINDING: property={pid} {kid} {e.get('what', '')}")
        cov['known_findings_reproduced'] = sorted(seen_known)
        cov['broken'] = broken
        violations = 0
        rcode = 0
        if new:
            violations = len(new)
            f = new[0]
            path = C.write_replay(pid, 'violation', dict(property=pid, kind='failing-input', finding=f, broken=broken, seed=seed, tier=tier))
            print(f"VIOLATION property={pid} replay={path}")
            print(f"  {f.get('what', '')[:300]}")
            rcode = 1
        elif broken:
            violations = 1
            path = C.write_replay(pid, 'unproved', dict(property=pid, kind='no-failing-input-found', no_longer_checks=broken, seed=seed, tier=tier,
                                                        searched=cov.get('oracle')))
            print(f"VIOLATION property={pid} replay={path} no-failing-input-found")
            for b in broken[:3]:
                print(f"  {b['kind']}: {b['what'][:300]}")
            rcode = 1
        C.write_evidence(pid, tier, seed, cov, time.time() - t0, violations, assumptions=getattr(prop, 'ASSUMPTIONS', []))
        if rcode == 0:
            print(f"OK property={pid} tier={tier} theorems={cov['discharged']}/{cov['obligations']} "
                  f"traces={cov.get('traces_validated_against_impl', 0)} evaluations={cov['evaluations']} wall={time.time() - t0:.1f}s")
        return rcode
    except Exception:
        traceback.print_exc()
        print(f"INFRASTRUCTURE-ERROR property={pid}")
        return 2
