"""Direct oracles on the REAL stacks (full ElectronicControlUnit objects on the simulated bus): scenario runner,
expected deliveries, bus-trace analysis for flow control / pacing, reference peer for J1939-21."""
import random
from . import sim
from .gen21 import can_id, TP_CM, TP_DT, rand_payload, size_choice

GLOBAL = 255


class Scenario:
    def __init__(self, repo, seed, nstacks, dll='j1939-21', maxcmdt=None, cmdt=None, bam=None, latency=None, tick_latency=None, loss=None,
                 addrs=None):
        self.rng = random.Random(seed)
        rng = self.rng
        self.w = sim.World(repo)
        self.addrs = addrs or rng.sample(range(1, 250), nstacks)
        self.stacks = []
        self.deliv = []      # (t, stack, listener, prio, pgn, sa, data)
        for i in range(nstacks):
            s = self.w.new_stack(dll=dll, max_cmdt_packets=(maxcmdt[i] if maxcmdt else 1),
                                 cmdt_interval=(cmdt[i] if cmdt else None), bam_interval=(bam[i] if bam else None))
            self.stacks.append(s)
            s.ecu.subscribe(self._cb(i, 'addr'), self.addrs[i])
        self.net = sim.Net(self.w, latency=latency or (lambda r, a, b, f: 1000), tick_latency=tick_latency or (lambda r, i: 0), rng=rng, loss=loss)
        self.accepted = []   # (stack, dp, pf, ps, prio, sa, data, t)

    def _cb(self, i, name):
        def cb(prio, pgn, sa, ts, data):
            self.deliv.append((self.w.now, i, name, prio, pgn, sa, [int(x) for x in data]))
        return cb

    def send(self, i, dp, pf, ps, prio, data, sa=None, time_limit=0, frame_format=3):
        sa = self.addrs[i] if sa is None else sa
        if time_limit or frame_format != 3:
            r = self.stacks[i].ecu.send_pgn(dp, pf, ps, prio, sa, list(data), sim.VT(time_limit) if time_limit else 0, frame_format)
        else:
            r = self.stacks[i].ecu.send_pgn(dp, pf, ps, prio, sa, list(data))
        self.net.poke(self.stacks[i])
        if r:
            self.accepted.append((i, dp, pf, ps, prio, sa, list(data), self.w.now))
        return r

    def expected(self):
        """(stack, pgn, sa, data) that must be delivered to the address listeners, from the accepted calls"""
        exp = []
        for (i, dp, pf, ps, prio, sa, data, t) in self.accepted:
            bcast = pf >= 240 or ps == GLOBAL
            for j in range(len(self.stacks)):
                if j == i:
                    continue
                if bcast:
                    pgn = (dp << 16) | (pf << 8) | (ps if pf >= 240 else 0)      # PS of a PDU1 PGN is the destination
                    exp.append((j, pgn, sa, data))
                elif self.addrs[j] == ps:
                    exp.append((j, (dp << 16) | (pf << 8), sa, data))
        return exp

    def payload_deliveries(self):
        """deliveries without the end-of-message acknowledgement PDUs reported back to an originator"""
        acks = set()
        for (i, dp, pf, ps, prio, sa, data, t) in self.accepted:
            n = len(data)
            if pf < 240 and ps != GLOBAL:
                pgn = (dp << 16) | (pf << 8)
                p3 = [pgn & 255, (pgn >> 8) & 255, pgn >> 16]
                if n > 8:
                    acks.add((i, ps, tuple([19, n & 255, n >> 8, (n + 6) // 7, 255] + p3)))
                if n > 60:
                    seg = (n + 59) // 60
                    for sess in range(16):
                        acks.add((i, ps, tuple([3 | (sess << 4), n & 255, (n >> 8) & 255, n >> 16, seg & 255, (seg >> 8) & 255, seg >> 16, 255, 255] + p3)))
        out = []
        for (t, i, name, prio, pgn, sa, data) in self.deliv:
            if (i, sa, tuple(data)) in acks:
                continue          # the acknowledgement a completed connection-mode transfer reports to its originator
            out.append((i, pgn, sa, data))
        return out

    def tables_empty(self):
        return all(not s.ecu.j1939_dll._rcv_buffer and not s.ecu.j1939_dll._snd_buffer
                   and not getattr(s.ecu.j1939_dll, '_multi_pg_snd_buffer', None) for s in self.stacks)


def check_exactly_once(sc):
    exp = sorted(map(repr, sc.expected()))
    got = sorted(map(repr, sc.payload_deliveries()))
    if exp != got:
        missing = [e for e in exp if e not in got]
        extra = [g for g in got if g not in exp]
        dup = len(got) - len(set(got))
        return f"deliveries differ: missing {len(missing)} extra {len(extra)} duplicates {dup}: " + (missing[0][:120] if missing else (extra[0][:120] if extra else ''))
    return None


# ------------------------------------------------------------------------------------------------
# analysis of a bus trace (list of (t, src_stack, can_id, data, fd))
def parse_frame(cid, data):
    prio, dp, pf, ps, sa = cid >> 26, (cid >> 24) & 1, (cid >> 16) & 0xFF, (cid >> 8) & 0xFF, cid & 0xFF
    return prio, dp, pf, ps, sa


def flow_control_violations(bus, bam_min=50000, bam_max=None, rts_limit_of=None, own_max=None):
    """walk the trace: per (sa, da) session check the J1939-21 flow control rules of C09"""
    bad = []
    sess = {}      # (sa, da) -> dict
    for (t, src, cid, data, fd) in bus:
        prio, dp, pf, ps, sa = parse_frame(cid, data)
        if pf == TP_CM and len(data) == 8:
            c = data[0]
            if c == 16:
                sess[(sa, ps)] = dict(kind='cm', total=data[3], limit=data[4], cleared=0, sent=0, granted=0, last_dt=None, size=data[1] | data[2] << 8)
            elif c == 32:
                sess[(sa, ps)] = dict(kind='bam', total=data[3], sent=0, last=t, size=data[1] | data[2] << 8)
            elif c == 17:
                s = sess.get((ps, sa))
                if s and s['kind'] == 'cm':
                    n, nxt = data[1], data[2]
                    if n == 0:
                        s['cleared'] = 0
                    else:
                        lim = min(s['limit'], s['total'])
                        if n > lim:
                            bad.append(f"t={t}: CTS grants {n} > RTS limit {lim} ({sa:#x}->{ps:#x})")
                        if own_max is not None and n > own_max.get(sa, 255):
                            bad.append(f"t={t}: CTS grants {n} > responder's own maximum {own_max.get(sa)}")
                        if n > s['total'] - (nxt - 1):
                            bad.append(f"t={t}: CTS grants {n} but only {s['total'] - (nxt - 1)} packets remain")
                        if nxt != s['sent'] + 1:
                            bad.append(f"t={t}: CTS asks for packet {nxt}, {s['sent']} received so far")
                        s['cleared'] = n
            elif c in (19, 255):
                sess.pop((ps, sa), None)
                sess.pop((sa, ps), None)
        elif pf == TP_DT:
            s = sess.get((sa, ps))
            if s is None:
                continue
            if s['kind'] == 'cm':
                if s['cleared'] <= 0:
                    bad.append(f"t={t}: TP.DT {data[0]} from {sa:#x} to {ps:#x} without clearance")
                s['cleared'] -= 1
                s['sent'] += 1
                if data[0] != s['sent']:
                    bad.append(f"t={t}: TP.DT sequence {data[0]} expected {s['sent']}")
            else:
                gap = t - s['last']
                if gap < bam_min:
                    bad.append(f"t={t}: BAM packets {gap} us apart (< {bam_min})")
                if bam_max is not None and gap > bam_max:
                    bad.append(f"t={t}: BAM packets {gap} us apart (> {bam_max})")
                s['last'] = t
                s['sent'] += 1
                if s['sent'] >= s['total']:
                    sess.pop((sa, ps), None)
    return bad


# ------------------------------------------------------------------------------------------------
class RefPeer21:
    """a reference J1939-21 node written from the standard (not from the code): plays responder or originator against ONE
    real stack through Net.inject / a bus tap; its free choices come from `rng`"""

    def __init__(self, sc, addr, rng, window=None, holds=0, hold_gap=100000, reply_latency=1000, pace=1000):
        self.sc, self.addr, self.rng = sc, addr, rng
        self.window = window            # callable(limit, remaining) -> packets to grant
        self.holds, self.hold_gap, self.lat, self.pace = holds, hold_gap, reply_latency, pace
        self.rx = {}                    # sa -> dict(size,total,limit,pgn,data,granted)
        self.done = []                  # (sa, pgn, data) reassembled by the peer
        self.tx = None                  # originator role state
        self.log = []
        self.aborted = []
        self.silent = False
        sc.net.taps.append(self.on_bus)
        self.pending = []               # (time, can_id, data) frames the peer will put on the bus

    def emit(self, cid, data, delay):
        self.pending.append((self.sc.w.now + delay, cid, data))
        self.pending.sort(key=lambda x: x[0])

    def pump(self):
        """hand the frames whose time has come to the stack under test (called by the scenario loop)"""
        while self.pending and self.pending[0][0] <= self.sc.w.now:
            t, cid, data = self.pending.pop(0)
            self.sc.net.bus.append((self.sc.w.now, 'peer', cid, list(data), False))
            self.sc.net.inject(0, cid, data, 0)

    def grant(self, sa):
        s = self.rx[sa]
        remaining = s['total'] - s['got']
        lim = min(s['limit'], 255)
        n = self.window(lim, remaining) if self.window else min(lim, remaining)
        n = max(1, min(n, lim, remaining))
        s['cleared'] = n
        return [17, n, s['got'] + 1, 255, 255] + s['pgn3']

    def on_bus(self, src, fr):
        t, cid, ext, data, fd = fr
        prio, dp, pf, ps, sa = parse_frame(cid, data)
        if ps != self.addr and ps != GLOBAL:
            return
        if pf == TP_CM and len(data) == 8:
            c = data[0]
            if c == 16 and ps == self.addr:
                self.rx[sa] = dict(size=data[1] | data[2] << 8, total=data[3], limit=data[4], pgn3=data[5:8], got=0, data=[], cleared=0, bam=False)
                d = self.lat
                for _ in range(self.holds):
                    self.emit(can_id(7, TP_CM, sa, self.addr), [17, 0, 255, 255, 255] + data[5:8], d)
                    d += self.hold_gap
                if not getattr(self, 'silent', False):
                    self.emit(can_id(7, TP_CM, sa, self.addr), ('grant', sa), d)      # grant computed when due
            elif c == 32 and ps == GLOBAL:
                self.rx[sa] = dict(size=data[1] | data[2] << 8, total=data[3], limit=255, pgn3=data[5:8], got=0, data=[], cleared=10 ** 9, bam=True)
            elif c == 17 and self.tx and ps == self.addr:
                self.tx_on_cts(data)
            elif c == 19 and self.tx and ps == self.addr:
                self.tx['acked'] = (data[1] | data[2] << 8, data[3], data[5:8])
            elif c == 255 and ps == self.addr:
                self.aborted.append((self.sc.w.now, sa, data[1]))
                self.rx.pop(sa, None)
        elif pf == TP_DT and sa in self.rx:
            s = self.rx[sa]
            if len(data) != 8:
                self.log.append(f"TP.DT with {len(data)} bytes")
            if s['cleared'] <= 0:
                self.log.append(f"t={t}: TP.DT {data[0]} without clearance")
            s['cleared'] -= 1
            s['got'] += 1
            if data[0] != s['got']:
                self.log.append(f"t={t}: TP.DT sequence {data[0]} expected {s['got']}")
            s['data'] += data[1:]
            if s['got'] == s['total']:
                pad = s['data'][s['size']:]
                if any(x != 255 for x in pad):
                    self.log.append(f"padding {pad}")
                pgn = s['pgn3'][0] | s['pgn3'][1] << 8 | s['pgn3'][2] << 16
                self.done.append((sa, pgn, s['data'][:s['size']]))
                if not s['bam']:
                    self.emit(can_id(7, TP_CM, sa, self.addr), [19, s['size'] & 255, s['size'] >> 8, s['total'], 255] + s['pgn3'], self.lat)
                del self.rx[sa]
            elif not s['bam'] and s['cleared'] == 0:
                self.emit(can_id(7, TP_CM, sa, self.addr), ('grant', sa), self.lat)

    def pump_resolved(self):
        while self.pending and self.pending[0][0] <= self.sc.w.now:
            t, cid, data = self.pending.pop(0)
            if isinstance(data, tuple) and data[0] == 'grant':
                if data[1] not in self.rx:
                    continue
                data = self.grant(data[1])
            elif isinstance(data, tuple) and data[0] == 'dt':
                data = self.tx_next_dt()
                if data is None:
                    continue
            self.sc.net.bus.append((self.sc.w.now, 'peer', cid, list(data), False))
            self.sc.net.inject(0, cid, data, 0)

    # originator role: send `data` (len > 8) with PGN pgn to the stack at address `da` (or BAM)
    def originate(self, da, pgn, data, limit=255, bam=False, dt_gap=1000):
        n = (len(data) + 6) // 7
        p3 = [pgn & 255, (pgn >> 8) & 255, (pgn >> 16) & 255]
        self.tx = dict(da=da, data=list(data), n=n, next=1, cleared=0, p3=p3, gap=dt_gap, bam=bam, limit=limit, acked=None, cts=[])
        if bam:
            self.emit(can_id(7, TP_CM, GLOBAL, self.addr), [32, len(data) & 255, len(data) >> 8, n, 255] + p3, 0)
            for k in range(n):
                self.emit(can_id(7, TP_DT, GLOBAL, self.addr), ('dt', k), dt_gap * (k + 1))
            self.tx['cleared'] = n
        else:
            self.emit(can_id(7, TP_CM, da, self.addr), [16, len(data) & 255, len(data) >> 8, n, limit] + p3, 0)

    def tx_on_cts(self, data):
        tx = self.tx
        n, nxt = data[1], data[2]
        tx['cts'].append((self.sc.w.now, n, nxt))
        if n == 0:
            return
        tx['next'] = nxt
        tx['cleared'] = n
        for k in range(n):
            self.emit(can_id(7, TP_DT, tx['da'], self.addr), ('dt', k), self.lat + tx['gap'] * k)

    def tx_next_dt(self):
        tx = self.tx
        if tx['cleared'] <= 0 or tx['next'] > tx['n']:
            return None
        k = tx['next']
        chunk = tx['data'][(k - 1) * 7:k * 7]
        chunk += [255] * (7 - len(chunk))
        tx['next'] += 1
        tx['cleared'] -= 1
        return [k] + chunk


def run_with_peer(sc, peer, duration, step=200):
    """advance the scenario letting the reference peer act at its own instants"""
    end = sc.w.now + duration
    guard = 0
    while sc.w.now < end and guard < 400000:
        guard += 1
        peer.pump_resolved()
        nxt = peer.pending[0][0] if peer.pending else end
        ev = sc.net.next_event()
        t = min(nxt, ev[0][0] if ev else end, end)
        if ev and ev[0][0] <= t:
            sc.net.step(end)
        else:
            sc.w.clock.now = max(sc.w.now, t)
            if t >= end:
                break
    peer.pump_resolved()
