"""Deterministic single-threaded execution of the real python-can-j1939 stack under a virtual clock.

No source hooks: module attributes of the imported library are substituted from outside
(DESIGN.md §4.3): `threading` (threads never start), `time` (virtual integer-microsecond clock), the wake-up
queue (token counter), `_job_thread_end` (one-shot: exactly one pass per call), and the CAN backend
(`send_message` constructor argument)."""
import sys, os, types, logging

logging.disable(logging.CRITICAL)

START_US = 1_000_000_000    # the virtual clock starts at 1000 s (a deadline is never 0)


def us(x):
    if isinstance(x, VT):
        return x.us
    return int(round(float(x) * 1_000_000))


class VT:
    """a time (or a duration) in integer microseconds that behaves like the floats the library computes with"""
    __slots__ = ('us',)

    def __init__(self, u):
        self.us = int(u)

    def __add__(self, o): return VT(self.us + us(o))
    __radd__ = __add__
    def __sub__(self, o): return VT(self.us - us(o))
    def __rsub__(self, o): return VT(us(o) - self.us)
    def __lt__(self, o): return self.us < us(o)
    def __le__(self, o): return self.us <= us(o)
    def __gt__(self, o): return self.us > us(o)
    def __ge__(self, o): return self.us >= us(o)
    def __eq__(self, o):
        try:
            return self.us == us(o)
        except (TypeError, ValueError):
            return False
    def __ne__(self, o): return not self.__eq__(o)
    def __hash__(self): return hash(self.us)
    def __float__(self): return self.us / 1e6
    def __bool__(self): return self.us != 0
    def __repr__(self): return f"VT({self.us})"


class Clock:
    def __init__(self):
        self.now = START_US

    def time(self):
        return VT(self.now)

    def sleep(self, s):
        self.now += us(s)


class FakeThread:
    def __init__(self, *a, **k):
        self.daemon = True

    def start(self): pass
    def join(self, *a): pass
    def is_alive(self): return False


class WakeQueue:
    """stand-in for ecu._job_thread_wakeup_queue: counts tokens, records the requested sleep"""

    def __init__(self):
        self.tokens = 0
        self.last = None    # ('woken',) | ('sleep', us)

    def put(self, x):
        self.tokens += 1

    def get(self, block=True, timeout=None):
        if self.tokens > 0:
            self.tokens -= 1
            self.last = ('woken',)
            return 1
        self.last = ('sleep', us(timeout))
        import queue
        raise queue.Empty()


class OneShot:
    def __init__(self):
        self.n = 0

    def is_set(self):
        self.n += 1
        return self.n > 1

    def set(self): pass


_LOADED = {}


def load(repo='/repo'):
    """import j1939 from `repo` (once per process), return the package"""
    if _LOADED.get('repo') == repo:
        return _LOADED['pkg']
    j = _load(repo)
    _LOADED['repo'], _LOADED['pkg'] = repo, j
    return j


def _load(repo):
    for k in [k for k in sys.modules if k == 'j1939' or k.startswith('j1939.')]:
        del sys.modules[k]
    if repo in sys.path:
        sys.path.remove(repo)
    sys.path.insert(0, repo)
    import j1939
    assert os.path.realpath(j1939.__file__).startswith(os.path.realpath(repo)), j1939.__file__
    return j1939


class World:
    """one virtual clock, the patched library, any number of stacks"""

    def __init__(self, repo='/repo'):
        self.j = load(repo)
        self.clock = Clock()
        import threading as real_threading
        ft = types.SimpleNamespace(Thread=FakeThread, Event=real_threading.Event, Lock=real_threading.Lock, RLock=real_threading.RLock)
        tm = types.SimpleNamespace(time=self.clock.time, sleep=self.clock.sleep)
        m = sys.modules
        m['j1939.electronic_control_unit'].threading = ft
        m['j1939.electronic_control_unit'].time = tm
        m['j1939.j1939_21'].time = tm
        m['j1939.j1939_22'].time = tm
        self.stacks = []

    @property
    def now(self):
        return self.clock.now

    def adv(self, dt):
        self.clock.now += int(dt)

    def new_stack(self, **kw):
        s = Stack(self, len(self.stacks), **kw)
        self.stacks.append(s)
        return s


def data_list(d):
    return [int(x) for x in d]


class Stack:
    def __init__(self, world, idx, dll='j1939-21', max_cmdt_packets=1, cmdt_interval=None, bam_interval=None):
        self.w = world
        self.idx = idx
        self.sent = []          # frames handed to send_message: (t, can_id, ext, data, fd)
        self.on_send = None     # bus hook
        kw = dict(data_link_layer=dll, max_cmdt_packets=max_cmdt_packets, send_message=self._send_message)
        if cmdt_interval is not None:
            kw['minimum_tp_rts_cts_dt_interval'] = VT(cmdt_interval)
        if bam_interval is not None:
            kw['minimum_tp_bam_dt_interval'] = VT(bam_interval)
        self.ecu = world.j.ElectronicControlUnit(**kw)
        self.wq = WakeQueue()
        self.ecu._job_thread_wakeup_queue = self.wq
        self.dead = None        # exception that killed the background pass
        self.log = []           # observable events in order

    def _send_message(self, can_id, extended_id, data, fd_format=False):
        fr = (self.w.now, int(can_id), bool(extended_id), data_list(data), bool(fd_format))
        self.sent.append(fr)
        self.log.append(('tx',) + fr)
        if self.on_send:
            self.on_send(self, fr)

    def tick(self):
        """exactly one pass of the real _async_job_thread; returns ('sleep', us) | ('spin',) | ('woken',) | ('exc', name)"""
        if self.dead:
            return ('dead',)
        self.ecu._job_thread_end = OneShot()
        self.wq.last = None
        try:
            self.ecu._async_job_thread()
        except Exception as e:     # the thread would die here
            self.dead = e
            return ('exc', type(e).__name__)
        return self.wq.last if self.wq.last is not None else ('spin',)

    def notify(self, can_id, data):
        """feed a received frame; returns None or the exception class name raised to the caller"""
        try:
            self.ecu.notify(can_id, bytearray(data) if all(0 <= x < 256 for x in data) else list(data), self.w.now / 1e6)
        except Exception as e:
            return type(e).__name__
        return None
