"""Deterministic single-threaded execution of the real python-can-j1939 stack under a virtual clock.

No source hooks: module attributes of the imported library are substituted from outside
(DESIGN.md §4.3): `threading` (threads never start), `time` (virtual integer-microsecond clock), the wake-up
queue (token counter), `_job_thread_end` (one-shot: exactly one pass per call), and the CAN backend
(`send_message` constructor argument)."""
import sys, os, types, logging

logging.disable(logging.CRITICAL)

START_US = 1_000_000_000    # the virtual clock starts at 1000 s (a deadline is never 0)


def us(x):
    if isinstance(x, VT):
        return x.us
    return int(round(float(x) * 1_000_000))


class VT:
    """a time (or a duration) in integer microseconds that behaves like the floats the library computes with"""
    __slots__ = ('us',)

    def __init__(self, u):
        self.us = int(u)

    def __add__(self, o): return VT(self.us + us(o))
    __radd__ = __add__
    def __sub__(self, o): return VT(self.us - us(o))
    def __rsub__(self, o): return VT(us(o) - self.us)
    def __lt__(self, o): return self.us < us(o)
    def __le__(self, o): return self.us <= us(o)
    def __gt__(self, o): return self.us > us(o)
    def __ge__(self, o): return self.us >= us(o)
    def __eq__(self, o):
        try:
            return self.us == us(o)
        except (TypeError, ValueError):
            return False
    def __ne__(self, o): return not self.__eq__(o)
    def __hash__(self): return hash(self.us)
    def __float__(self): return self.us / 1e6
    def __bool__(self): return self.us != 0
    def __repr__(self): return f"VT({self.us})"


class Clock:
    def __init__(self):
        self.now = START_US

    def time(self):
        return VT(self.now)

    def sleep(self, s):
        self.now += us(s)


class FakeThread:
    def __init__(self, *a, **k):
        self.daemon = True

    def start(self): pass
    def join(self, *a): pass
    def is_alive(self): return False


class WakeQueue:
    """stand-in for ecu._job_thread_wakeup_queue: counts tokens, records the requested sleep"""

    def __init__(self):
        self.tokens = 0
        self.last = None    # ('woken',) | ('sleep', us)

    def put(self, x):
        self.tokens += 1

    def get(self, block=True, timeout=None):
        if block and timeout is not None and us(timeout) < 0:
            raise ValueError("'timeout' must be a non-negative number")      # exactly what queue.Queue.get does
        if self.tokens > 0:
            self.tokens -= 1
            self.last = ('woken',)
            return 1
        self.last = ('sleep', us(timeout))
        import queue
        raise queue.Empty()


class OneShot:
    def __init__(self):
        self.n = 0

    def is_set(self):
        self.n += 1
        return self.n > 1

    def set(self): pass


_LOADED = {}


def load(repo='/repo'):
    """import j1939 from `repo` (once per process), return the package"""
    if _LOADED.get('repo') == repo:
        return _LOADED['pkg']
    j = _load(repo)
    _LOADED['repo'], _LOADED['pkg'] = repo, j
    return j


def _load(repo):
    for k in [k for k in sys.modules if k == 'j1939' or k.startswith('j1939.')]:
        del sys.modules[k]
    if repo in sys.path:
        sys.path.remove(repo)
    sys.path.insert(0, repo)
    import j1939
    assert os.path.realpath(j1939.__file__).startswith(os.path.realpath(repo)), j1939.__file__
    return j1939


class World:
    """one virtual clock, the patched library, any number of stacks"""

    def __init__(self, repo='/repo'):
        self.j = load(repo)
        self.clock = Clock()
        import threading as real_threading
        ft = types.SimpleNamespace(Thread=FakeThread, Event=real_threading.Event, Lock=real_threading.Lock, RLock=real_threading.RLock)
        tm = types.SimpleNamespace(time=self.clock.time, sleep=self.clock.sleep)
        m = sys.modules
        m['j1939.electronic_control_unit'].threading = ft
        m['j1939.electronic_control_unit'].time = tm
        m['j1939.j1939_21'].time = tm
        m['j1939.j1939_22'].time = tm
        m['j1939.j1939_22'].print = lambda *a, **k: None      # the library prints diagnostics for unsupported C-PG formats
        self.stacks = []

    @property
    def now(self):
        return self.clock.now

    def adv(self, dt):
        self.clock.now += int(dt)

    def new_stack(self, **kw):
        s = Stack(self, len(self.stacks), **kw)
        self.stacks.append(s)
        return s


def data_list(d):
    return [int(x) for x in d]


class Stack:
    def __init__(self, world, idx, dll='j1939-21', max_cmdt_packets=1, cmdt_interval=None, bam_interval=None):
        self.w = world
        self.idx = idx
        self.sent = []          # frames handed to send_message: (t, can_id, ext, data, fd)
        self.on_send = None     # bus hook
        kw = dict(data_link_layer=dll, max_cmdt_packets=max_cmdt_packets, send_message=self._send_message)
        if cmdt_interval is not None:
            kw['minimum_tp_rts_cts_dt_interval'] = VT(cmdt_interval)
        if bam_interval is not None:
            kw['minimum_tp_bam_dt_interval'] = VT(bam_interval)
        self.ecu = world.j.ElectronicControlUnit(**kw)
        self.wq = WakeQueue()
        self.ecu._job_thread_wakeup_queue = self.wq
        self.dead = None        # exception that killed the background pass
        self.log = []           # observable events in order

    def _send_message(self, can_id, extended_id, data, fd_format=False):
        fr = (self.w.now, int(can_id), bool(extended_id), data_list(data), bool(fd_format))
        self.sent.append(fr)
        self.log.append(('tx',) + fr)
        if self.on_send:
            self.on_send(self, fr)

    def tick(self):
        """exactly one pass of the real _async_job_thread; returns ('sleep', us) | ('spin',) | ('woken',) | ('exc', name)"""
        if self.dead:
            return ('dead',)
        self.ecu._job_thread_end = OneShot()
        self.wq.last = None
        try:
            self.ecu._async_job_thread()
        except Exception as e:     # the thread would die here
            self.dead = e
            return ('exc', type(e).__name__)
        return self.wq.last if self.wq.last is not None else ('spin',)

    def notify(self, can_id, data):
        """feed a received frame; returns None or the exception class name raised to the caller"""
        try:
            self.ecu.notify(can_id, bytearray(data) if all(0 <= x < 256 for x in data) else list(data), self.w.now / 1e6)
        except Exception as e:
            return type(e).__name__
        return None


class Net:
    """N stacks on one simulated CAN bus: one global order of frames, every other stack receives every frame in that
    order after its own latency (0 = handled re-entrantly inside the sender's send call), background passes run when a
    stack asked to be woken (plus an optional scheduling latency)."""

    def __init__(self, world, latency=lambda rng, src, dst, frame: 1000, tick_latency=lambda rng, i: 0, rng=None, loss=None,
                 max_frames=100000):
        import random
        self.w = world
        self.max_frames = max_frames      # a bus that carries more than this is reported as flooded (an endless exchange)
        self.flood = False
        self.depth = 0                    # nesting of re-entrant (zero-latency) deliveries
        self.rng = rng or random.Random(0)
        self.latency = latency
        self.tick_latency = tick_latency
        self.loss = loss                  # callable(frame_index, src, dst, frame) -> True if the frame is lost for dst
        self.fifo = {}                    # stack idx -> list of (arrival, seqno, frame)
        self.wake = {}                    # stack idx -> virtual time of the next pass (None = running now)
        self.blocked = {}
        self.bus = []                     # (t, src, can_id, data, fd) in bus order
        self.errors = []                  # (stack, where, exception name)
        self.seq = 0
        self.spins = {}
        self.max_spins = 0
        self.taps = []                    # callables(src_idx, frame) observing the bus
        self.rx_taps = []                 # callables(dst_idx, can_id, data) observing what a stack actually receives
        self.actions = []                 # scheduled application actions: (time, seqno, callable)
        for s in world.stacks:
            self.attach(s)

    def attach(self, s):
        self.fifo[s.idx] = []
        self.wake[s.idx] = self.w.now
        self.blocked[s.idx] = False       # True while the thread sits in queue.get(timeout): a token ends the wait AND is consumed
        self.spins[s.idx] = 0
        s.on_send = self._on_send

    def _on_send(self, src, fr):
        t, can_id, ext, data, fd = fr
        k = len(self.bus)
        if k >= self.max_frames:
            if not self.flood:
                self.flood = True
                self.errors.append((src.idx, 'bus', f'flood: more than {self.max_frames} frames, the exchange does not end'))
            return
        self.bus.append((t, src.idx, can_id, list(data), fd))
        for tap in self.taps:
            tap(src.idx, fr)
        for s in self.w.stacks:
            if s.idx == src.idx or s.idx not in self.fifo:
                continue
            if self.loss and self.loss(k, src.idx, s.idx, fr):
                continue
            lat = self.latency(self.rng, src.idx, s.idx, fr)
            q = self.fifo[s.idx]
            if lat == 0 and not q and self.depth < 24:
                self.depth += 1
                try:
                    self._deliver(s, can_id, data)   # re-entrant: handled before send returns
                finally:
                    self.depth -= 1
            else:
                arr = max(self.w.now + lat, q[-1][0] if q else 0)   # bus order per receiver is kept
                self.seq += 1
                q.append((arr, self.seq, can_id, list(data)))

    def inject(self, dst_idx, can_id, data, lat=0):
        """a frame from a node that is not one of the simulated stacks (reference peer, intruder)"""
        q = self.fifo[dst_idx]
        arr = max(self.w.now + lat, q[-1][0] if q else 0)
        self.seq += 1
        q.append((arr, self.seq, can_id, list(data)))

    def _deliver(self, s, can_id, data):
        for tap in self.rx_taps:
            tap(s.idx, can_id, data)
        e = s.notify(can_id, data)
        if e:
            self.errors.append((s.idx, 'notify', e))
        self._token(s)

    def _token(self, s):
        """a wake-up token may have been put: a thread blocked in queue.get() returns at once and the token is gone (the
        real get() consumes it); a thread that is running keeps the token for its next get()"""
        if s.wq.tokens > 0:
            if self.blocked.get(s.idx) and self.wake[s.idx] is not None:
                s.wq.tokens -= 1
                self.blocked[s.idx] = False
                self.wake[s.idx] = min(self.wake[s.idx], self.w.now + self.tick_latency(self.rng, s.idx))
            else:
                self.wake[s.idx] = min(self.wake[s.idx], self.w.now) if self.wake[s.idx] is not None else self.w.now

    def poke(self, s):
        """an application call may have produced a wake token"""
        if not s.dead:
            self._token(s)

    def at(self, t, fn):
        """schedule an application action (runs between frame deliveries and passes, like another thread would)"""
        self.seq += 1
        self.actions.append((int(t), self.seq, fn))
        self.actions.sort(key=lambda a: a[:2])

    def next_event(self):
        best = None
        if self.actions:
            a = self.actions[0]
            best = ((a[0], 0, a[1]), 'act', None)
        for i, q in self.fifo.items():
            if q and (best is None or (q[0][0], 0, q[0][1]) < best[0]):
                best = ((q[0][0], 0, q[0][1]), 'rx', i)
        for i, t in self.wake.items():
            if self.w.stacks[i].dead:
                continue
            if t is not None and (best is None or (t, 1, i) < best[0]):
                best = ((t, 1, i), 'tick', i)
        return best

    def step(self, horizon):
        ev = self.next_event()
        if ev is None or ev[0][0] > horizon:
            return False
        (t, _, _), kind, i = ev
        if t > self.w.now:
            self.w.clock.now = t
        if kind == 'act':
            _, _, fn = self.actions.pop(0)
            fn()
            for s in self.w.stacks:
                self.poke(s)
            return True
        s = self.w.stacks[i]
        if kind == 'rx':
            _, _, can_id, data = self.fifo[i].pop(0)
            self._deliver(s, can_id, data)
        else:
            self.blocked[i] = False
            r = s.tick()
            if r[0] == 'exc':
                self.errors.append((i, 'tick', r[1]))
                self.wake[i] = None
            elif r[0] == 'sleep':
                self.spins[i] = 0
                self.wake[i] = self.w.now + r[1] + self.tick_latency(self.rng, i)
                self.blocked[i] = True
                if s.wq.tokens > 0:
                    # a wake-up request that arrived after the thread decided to sleep ends the sleep at once
                    s.wq.tokens -= 1
                    self.blocked[i] = False
                    self.wake[i] = self.w.now + self.tick_latency(self.rng, i)
            elif r[0] == 'woken':
                self.spins[i] = 0
                self.wake[i] = self.w.now + self.tick_latency(self.rng, i)
            else:
                self.spins[i] += 1
                self.max_spins = max(self.max_spins, self.spins[i])
                self.wake[i] = self.w.now + 1      # a real pass takes time
        return True

    def run(self, duration, max_steps=200000, stop=None):
        horizon = self.w.now + duration
        n = 0
        while n < max_steps and self.step(horizon):
            n += 1
            if stop and stop():
                break
        if not (stop and stop()) and self.w.now < horizon and n < max_steps:
            self.w.clock.now = horizon
        return n

    def quiet(self):
        return all(not q for q in self.fifo.values())
