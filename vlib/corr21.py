"""Lock-step correspondence of Model/Dll21.lean with j1939_21.py: recorded scripts (gen21) replayed by the Lean driver."""
import random
from . import common as C, gen21


def first_divergence(rec, lean):
    py = [o for _, outs in rec.outputs for o in outs]
    if py == lean:
        return None
    pos = 0
    for k, (l, outs) in enumerate(rec.outputs):
        seg = lean[pos:pos + len(outs)]
        if seg != outs:
            return dict(op_index=k, op=l, python=outs, lean=seg, script=rec.lines[:k + 1][-40:], full_script=rec.lines[:k + 1])
        pos += len(outs)
    return dict(op_index=len(rec.outputs), op='<end>', python=[], lean=lean[pos:pos + 5], script=rec.lines[-40:], full_script=list(rec.lines))


def run(ctx, n_nominal, n_hostile, salt, n_lossy=0):
    rng = random.Random(ctx.seed * 1000003 + salt)
    dis, traces, evals, distinct, hist = [], 0, 0, set(), {}
    sample = None
    for kind, n in (('nominal', n_nominal), ('hostile', n_hostile), ('lossy', n_lossy)):
        for _ in range(n):
            sub = random.Random(rng.getrandbits(48))
            rec = gen21.nominal_script(sub, C.REPO) if kind == 'nominal' else (gen21.hostile_script(sub, C.REPO) if kind == 'hostile' else gen21.lossy_script(sub, C.REPO))
            lean = ctx.driver.run_lines(rec.lines)
            traces += 1
            evals += len(rec.lines)
            distinct.add(C.struct_hash(rec.lines))
            for _, outs in rec.outputs:
                for o in outs:
                    hist[o.split()[0]] = hist.get(o.split()[0], 0) + 1
            sample = sample or rec.lines[:12]
            d = first_divergence(rec, lean)
            if d:
                d['kind'] = kind
                dis.append(d)
                if len(dis) >= 2:
                    break
        if len(dis) >= 2:
            break
    return dict(traces=traces, disagreements=dis, evaluations=evals, distinct_nontrivial=len(distinct), output_histogram=hist,
                samples=[dict(script=sample)])
