"""Shared machinery of the per-property checks: regenerate the leaves from /repo, build and audit the Lean
theorems, run the Lean driver, write evidence, print verdict lines."""
import os, sys, json, time, subprocess, fcntl, re, hashlib, random

ROOT = os.path.dirname(os.path.dirname(os.path.abspath(__file__)))
REPO = os.environ.get('J1939_REPO', '/repo')
LEAN = os.path.join(ROOT, 'lean')
GEN = os.path.join(LEAN, 'J1939', 'Gen')
DRIVER = os.path.join(LEAN, '.lake', 'build', 'bin', 'driver')
PY = '/venv/bin/python'
ALLOWED_AXIOMS = {'propext', 'Classical.choice', 'Quot.sound'}
FORBIDDEN = re.compile(r'\b(sorry|admit|native_decide|bv_decide|implemented_by|unsafe)\b|^\s*axiom\s|maxHeartbeats\s+0\b', re.M)

TRUSTED_BASE = [
    "Lean 4.33.0 kernel (thorough tier: leanchecker re-check of the property's modules)",
    "axioms per theorem as printed by #print axioms, required to be a subset of {propext, Classical.choice, Quot.sound}",
    "tools/py2lean.py + tools/reflect_consts.py (translator / constant reflection), validated differentially on every run",
    "lock-step correspondence between the hand-written control model and the real code: sampling, not proof",
    "harness stand-ins for time, threading, queue and the CAN backend (virtual integer-microsecond clock)",
    "Python int/list/dict semantics are modelled (Nat, List, insertion-ordered association lists), not verified",
]


class Lock:
    def __init__(self, name='build'):
        self.path = os.path.join(ROOT, f'.lock-{name}')

    def __enter__(self):
        self.f = open(self.path, 'w')
        fcntl.flock(self.f, fcntl.LOCK_EX)
        return self

    def __exit__(self, *a):
        fcntl.flock(self.f, fcntl.LOCK_UN)
        self.f.close()


def run(cmd, cwd=None, timeout=3600, input=None, env=None):
    e = dict(os.environ)
    if env:
        e.update(env)
    p = subprocess.run(cmd, cwd=cwd, capture_output=True, text=True, timeout=timeout, input=input, env=e)
    return p.returncode, p.stdout, p.stderr


def regenerate():
    """regenerate Gen/*.lean from the repository's working tree; returns dict(changed, failed_units, error)"""
    out = dict(changed=False, failed_units={}, error=None)
    rc, so, se = run([PY, os.path.join(ROOT, 'tools', 'reflect_consts.py'), REPO, GEN])
    if rc != 0:
        out['error'] = 'reflect_consts: ' + (se.strip().split('\n')[-1] if se.strip() else 'failed')
        return out
    out['changed'] |= json.loads(so.strip().split('\n')[-1])['changed']
    rc, so, se = run([PY, os.path.join(ROOT, 'tools', 'py2lean.py'), REPO, GEN])
    if rc != 0:
        out['error'] = 'py2lean: ' + (se.strip().split('\n')[-1] if se.strip() else 'failed')
        return out
    r = json.loads(so.strip().split('\n')[-1])
    out['changed'] |= r['changed']
    out['failed_units'] = r['failed']
    return out


def lake_build(targets, timeout=3000):
    rc, so, se = run(['lake', 'build'] + targets, cwd=LEAN, timeout=timeout)
    return rc == 0, so + se


def strip_comments(src):
    src = re.sub(r'/-.*?-/', '', src, flags=re.S)
    src = re.sub(r'--.*', '', src)
    return src


def lean_files_of(modules):
    """transitive closure of project-local imports of the given modules -> file paths"""
    seen, todo = {}, list(modules)
    while todo:
        m = todo.pop()
        if m in seen:
            continue
        p = os.path.join(LEAN, *m.split('.')) + '.lean'
        if not os.path.exists(p):
            continue
        seen[m] = p
        for line in open(p):
            mm = re.match(r'\s*import\s+(J1939\.\S+)', line)
            if mm:
                todo.append(mm.group(1))
    return seen


def audit(prop_module):
    """theorem names of the property module, #print axioms for each, forbidden-token grep over everything it imports"""
    files = lean_files_of([prop_module])
    bad_tokens = []
    for m, p in files.items():
        src = strip_comments(open(p).read())
        for mm in FORBIDDEN.finditer(src):
            bad_tokens.append(f"{m}: {mm.group(0).strip()}")
    src = open(files[prop_module]).read()
    ns = re.search(r'^namespace\s+(\S+)', src, re.M).group(1)
    thms = re.findall(r'^theorem\s+(\S+)', strip_comments(src), re.M)
    audit_src = f"import {prop_module}\n" + "\n".join(f"#print axioms {ns}.{t}" for t in thms) + "\n"
    apath = os.path.join(LEAN, 'J1939', 'Audit', prop_module.split('.')[-1] + '.lean')
    os.makedirs(os.path.dirname(apath), exist_ok=True)
    if not (os.path.exists(apath) and open(apath).read() == audit_src):
        open(apath, 'w').write(audit_src)
    rc, so, se = run(['lake', 'env', 'lean', apath], cwd=LEAN, timeout=1200)
    text = so + se
    axioms = {}
    for t in thms:
        full = f"{ns}.{t}"
        m = re.search(r"'" + re.escape(full) + r"' depends on axioms: \[(.*?)\]", text, re.S)
        if m:
            axioms[t] = [a.strip() for a in m.group(1).replace('\n', ' ').split(',') if a.strip()]
        elif re.search(r"'" + re.escape(full) + r"' does not depend on any axioms", text):
            axioms[t] = []
        else:
            axioms[t] = None
    ok = rc == 0 and all(v is not None and set(v) <= ALLOWED_AXIOMS for v in axioms.values()) and not bad_tokens
    return dict(ok=ok, theorems=thms, axioms=axioms, bad_tokens=bad_tokens, output=text if rc != 0 else '')


def first_error(build_output):
    """the first failing declaration / file in a lake build log (for the replay of a no-failing-input-found verdict)"""
    m = re.search(r'error: (\S+\.lean):(\d+):(\d+): (.*)', build_output)
    if not m:
        return build_output.strip().split('\n')[-1][:300] if build_output.strip() else 'build failed'
    path, line = m.group(1), int(m.group(2))
    thm = None
    try:
        lines = open(os.path.join(LEAN, path)).read().split('\n')
        for i in range(line - 1, -1, -1):
            mm = re.match(r'\s*(theorem|lemma|def|example)\s+(\S+)?', lines[i])
            if mm:
                thm = mm.group(2) or 'example'
                break
    except Exception:
        pass
    return f"{path}:{line}: {thm}: {m.group(4)[:200]}"


class Driver:
    """pipe a script to the Lean driver, get the output lines"""

    def __init__(self):
        self.exe = DRIVER

    def available(self):
        return os.path.exists(self.exe)

    def run_lines(self, lines, timeout=1800):
        rc, so, se = run([self.exe], input="\n".join(lines) + "\n", timeout=timeout)
        if rc != 0:
            raise RuntimeError(f"driver exit {rc}: {se[:300]}")
        out = so.split("\n")
        if out and out[-1] == '':
            out.pop()
        return out


def write_replay(pid, name, obj):
    d = os.path.join(ROOT, 'replays')
    os.makedirs(d, exist_ok=True)
    p = os.path.join(d, f"{pid}_{name}.json")
    json.dump(obj, open(p, 'w'), indent=1, default=str)
    return p


def load_known_findings(pid):
    p = os.path.join(ROOT, 'known_findings.json')
    if not os.path.exists(p):
        return []
    return [e for e in json.load(open(p)) if e.get('property') == pid and e.get('status') == 'open']


def matches(entry, finding):
    """a finding (dict) is known iff every field of the entry's match object is equal in the finding's signature"""
    sig = finding.get('signature', {})
    return all(sig.get(k) == v for k, v in entry.get('match', {}).items())


def write_evidence(pid, tier, seed, coverage, wall, violations, assumptions=None):
    ev = dict(property_id=pid, tier=tier, seed=seed, level='proof', coverage=coverage, wall_s=round(wall, 2),
              violations=violations, assumptions=assumptions or [])
    os.makedirs(os.path.join(ROOT, 'evidence'), exist_ok=True)
    json.dump(ev, open(os.path.join(ROOT, 'evidence', f'{pid}.json'), 'w'), indent=1, default=str)


def struct_hash(obj):
    return hashlib.sha1(json.dumps(obj, sort_keys=True, default=str).encode()).hexdigest()[:16]
