"""Random ControllerApplication scripts (claim timer firings, received claims with arbitrary source/NAME, requests, send calls)."""
from . import pyexec

NAMES = [0x8000000000000001, 1, 0x8000000000000002, 2, 0, (1 << 64) - 1, 0x8000000000200001, 0x0000000000200001]
ADDRS = [128, 129, 130, 10, 247, 248, 253, 200, 201, 254, 127, 0]


def gen(rng):
    lines = []
    n = rng.randrange(1, 4)
    for i in range(n):
        name = rng.getrandbits(64) if rng.random() < 0.6 else rng.choice(NAMES)
        lines.append(f"ca.new {name} {rng.choice(['n', 128, 129, 10, 247, 248, 253, 200, 127, 0])} {rng.choice([0, 0, 0, 1])}")
    for _ in range(rng.randrange(1, 30)):
        i = rng.randrange(n)
        r = rng.random()
        if r < 0.22:
            lines.append(f"ca.claim {i}")
        elif r < 0.52:
            nm = rng.getrandbits(64) if rng.random() < 0.5 else rng.choice(NAMES)
            data = list(nm.to_bytes(8, 'little'))[:rng.choice([8, 8, 8, 8, 8, 3, 0])]
            lines.append(f"ca.rxclaim {i} {rng.choice(ADDRS)} {pyexec.fmt_list(data)}")
        elif r < 0.67:
            pgn = rng.choice([0xEE00, 0xFECA, 0xEE01, 0x1EE00, 0x2EE00, 0xEEFF, rng.getrandbits(18), rng.getrandbits(24)])
            data = [pgn & 255, (pgn >> 8) & 255, pgn >> 16][:rng.choice([3, 3, 3, 3, 2, 0])]
            lines.append(f"ca.request {i} {rng.choice([rng.randrange(254), rng.randrange(254), 254, 255])} {rng.choice([255] + ADDRS)} {pyexec.fmt_list(data)}")
        elif r < 0.76:
            lines.append(f"ca.sendmsg {i} {rng.randrange(8)} {rng.getrandbits(18)} [1,2,3]")
        elif r < 0.84:
            lines.append(f"ca.sendpgn {i} 0 {rng.randrange(256)} {rng.randrange(256)} 6 [1,2]")
        elif r < 0.93:
            lines.append(f"ca.sendreq {i} 0 {rng.choice([0xEE00, 0xFECA, 0xEE01, 0x1EE00, 0xEEFF, rng.getrandbits(18)])} {rng.choice([255, 128, 10, 0, 0])}")
        else:
            lines.append(f"ca.acceptable {i} {rng.choice([255, 254] + ADDRS)}")
        lines.append(f"ca.dump {i}")
    return lines


def correspondence(ctx, n, salt):
    import random
    from . import common as C
    rng = random.Random(ctx.seed * 1000003 + salt)
    dis, distinct, evals, hist = [], set(), 0, {}
    sample = None
    for _ in range(n):
        lines = gen(rng)
        distinct.add(C.struct_hash(lines))
        evals += len(lines)
        for l in lines:
            hist[l.split()[0]] = hist.get(l.split()[0], 0) + 1
        sample = sample or lines[:12]
        d = pyexec.diff_script(lines, ctx.driver, C.REPO)
        if d:
            dis.append(d)
            if len(dis) >= 2:
                break
    return dict(traces=n, disagreements=dis, evaluations=evals, distinct_nontrivial=len(distinct), op_histogram=hist, samples=[dict(script=sample)])
