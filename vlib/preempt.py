"""Pre-emption of the ECU's background thread at source-line granularity, without source hooks: the pass runs under
sys.settrace; at the chosen (file, line, occurrence) the thread is 'held' — the tracer lets the rest of the simulated
system (other stacks, and frame reception on the SAME stack) run for the hold time — and then continues."""
import os, sys
from . import sim

FILES = ('j1939_21.py', 'j1939_22.py', 'electronic_control_unit.py')


class Preemptor:
    """install on a sim.Net: every background pass of stack `idx` is traced"""

    def __init__(self, net, idx):
        self.net, self.idx = net, idx
        self.stack = net.w.stacks[idx]
        self.counts = {}         # (file, line) -> occurrences seen so far (whole run)
        self.plan = {}           # (file, line, occurrence) -> hold time in us
        self.seen = []           # ordered (file, line) events of passes, when recording
        self.recording = False
        self.holding = False
        self.fired = []
        orig_tick = self.stack.tick

        def tick():
            if self.holding:
                return ('sleep', 10)          # a held thread does not start another pass
            sys.settrace(self._global)
            try:
                return orig_tick()
            finally:
                sys.settrace(None)
        self.stack.tick = tick

    # -- tracing
    def _global(self, frame, event, arg):
        fn = os.path.basename(frame.f_code.co_filename)
        if fn in FILES:
            return self._local
        return None

    def _local(self, frame, event, arg):
        if event != 'line':
            return self._local
        key = (os.path.basename(frame.f_code.co_filename), frame.f_lineno)
        k = self.counts.get(key, 0)
        self.counts[key] = k + 1
        if self.recording:
            self.seen.append(key)
        hold = self.plan.pop(key + (k,), None)
        if hold is not None:
            self._hold(hold, key + (k,))
        return self._local

    def _hold(self, dur, where):
        """the background thread stops here; everything else goes on"""
        self.fired.append(where)
        sys.settrace(None)
        self.holding = True
        saved_wake = self.net.wake[self.idx]
        self.net.wake[self.idx] = None            # no pass of this stack while it is held
        try:
            horizon = self.net.w.now + dur
            n = 0
            while n < 10000 and self.net.step(horizon):
                n += 1
                self.net.wake[self.idx] = None
            if self.net.w.now < horizon:
                self.net.w.clock.now = horizon
        finally:
            self.holding = False
            self.net.wake[self.idx] = saved_wake
            sys.settrace(self._global)
