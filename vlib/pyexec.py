"""Interpreter of the line protocol against the REAL library (the Lean driver interprets the same lines against the
model).  Output lines are canonical: decimal numbers, lists as [a,b,c], no floats, no addresses."""
import sys, os, signal
from . import sim


class ScriptTimeout(BaseException):
    """raised by the watchdog when the real code does not return (e.g. a notification loop that never ends)"""


def _alarm(sig, frm):
    raise ScriptTimeout()


def fmt_list(l):
    return "[" + ",".join(str(int(x)) for x in l) + "]"


def parse_list(s):
    s = s.strip()[1:-1]
    return [int(x) for x in s.split(',')] if s else []


def parse_addr(tok, preds):
    if tok == 'n':
        return None
    if tok[0] == 'i':
        return int(tok[1:])
    if tok[0] == 'p':
        return preds(int(tok[1:]))
    raise ValueError(tok)


class _Holder:
    """makes a callback a bound method (`holder.call`): a new object on every attribute access, equal to the others"""

    def __init__(self, f):
        self.f = f

    def call(self, *a):
        return self.f(*a)


class PyExec:
    def __init__(self, repo='/repo'):
        self.w = sim.World(repo)
        self.out = []
        self.cbs = {}        # (stack, k) -> dict(ret, ops)
        self.tfun = {}       # (stack, k) -> timer callback function object
        self.sfun = {}       # (stack, k) -> subscriber callback function object
        self.pfun = {}       # (stack, k) -> predicate function object
        self.preds = {}      # (stack, k) -> list of accepted destinations

    # ---- scripted application callbacks
    def timer_cb(self, i, k):
        if (i, k) not in self.tfun:
            def f(cookie, i=i, k=k):
                self.out.append(f"call {k} {int(cookie)}")
                self.run_cb_ops(i, k)
                return self.cbs.get((i, k), dict(ret=False))['ret']
            # odd callbacks are BOUND METHODS: every access yields a new (but equal) object, as with class-based applications
            self.tfun[(i, k)] = f if k % 2 == 0 else _Holder(f)
        h = self.tfun[(i, k)]
        return h.call if isinstance(h, _Holder) else h

    def sub_cb(self, i, k):
        if (i, k) not in self.sfun:
            def g(prio, pgn, sa, ts, data, i=i, k=k):
                self.out.append(f"deliver {k} {prio} {pgn} {sa} {fmt_list(data)}")
                self.run_cb_ops(i, k)
            self.sfun[(i, k)] = g if k % 2 == 0 else _Holder(g)
        h = self.sfun[(i, k)]
        return h.call if isinstance(h, _Holder) else h

    def pred(self, i, k):
        if (i, k) not in self.pfun:
            self.pfun[(i, k)] = lambda dest, i=i, k=k: dest in self.preds.get((i, k), [])
        return self.pfun[(i, k)]

    def run_cb_ops(self, i, k):
        ecu = self.w.stacks[i].ecu
        for op in self.cbs.get((i, k), dict(ops=[]))['ops']:
            f = op.split(':')
            if f[0] == 'A':
                ecu.add_timer(sim.VT(int(f[1])), self.timer_cb(i, int(f[2])), int(f[3]))
            elif f[0] == 'R':
                ecu.remove_timer(self.timer_cb(i, int(f[1])))
            elif f[0] == 'S':
                ecu.subscribe(self.sub_cb(i, int(f[1])), parse_addr(f[2], lambda p: self.pred(i, p)))
            elif f[0] == 'U':
                ecu.unsubscribe(self.sub_cb(i, int(f[1])))
            elif f[0] == 'T':
                self.w.adv(int(f[1]))
            else:
                raise ValueError(op)

    # ---- one line
    def step(self, line):
        t = line.split()
        if not t:
            return
        op = t[0]
        o = self.out
        if op.startswith('m14.'):
            if not hasattr(self, 'm14'):
                from .pyexec14 import M14
                self.m14 = M14(self)
            self.m14.step(t)
        elif op == 'ecu.new':
            self.w.new_stack()
        elif op == 'adv':
            self.w.adv(int(t[1]))
        elif op == 'cbdef':
            self.cbs[(int(t[1]), int(t[2]))] = dict(ret=(t[3] != '0'), ops=t[4:])
        elif op == 'preddef':
            self.preds[(int(t[1]), int(t[2]))] = parse_list(t[3])
        elif op == 'timer.add':
            i = int(t[1])
            self.w.stacks[i].ecu.add_timer(sim.VT(int(t[2])), self.timer_cb(i, int(t[3])), int(t[4]))
        elif op == 'timer.remove':
            i = int(t[1])
            self.w.stacks[i].ecu.remove_timer(self.timer_cb(i, int(t[2])))
        elif op == 'sub':
            i = int(t[1])
            self.w.stacks[i].ecu.subscribe(self.sub_cb(i, int(t[2])), parse_addr(t[3], lambda p: self.pred(i, p)))
        elif op == 'unsub':
            i = int(t[1])
            self.w.stacks[i].ecu.unsubscribe(self.sub_cb(i, int(t[2])))
        elif op == 'ecu.tick':
            r = self.w.stacks[int(t[1])].tick()
            o.append(" ".join(str(x) for x in r))
        elif op == 'ecu.notify':
            i = int(t[1])
            self.w.stacks[i].ecu._notify_subscribers(int(t[2]), int(t[3]), int(t[4]), int(t[5]), 0, parse_list(t[6]))
        elif op == 'ecu.acceptable':
            o.append("True" if self.w.stacks[int(t[1])].ecu._is_message_acceptable(int(t[2])) else "False")
        elif op == 'ecu.dump':
            o.append(self.dump_core(int(t[1])))
        elif op == 'd21.new':
            self.d21_new(int(t[1]), None if t[2] == 'n' else int(t[2]), int(t[3]), parse_list(t[4]))
        elif op == 'd21.accept':
            self.d21[int(t[1])]['acc'] = set(parse_list(t[2]))
        elif op == 'd21.send':
            d = self.d21[int(t[1])]
            r = d['dll'].send_pgn(int(t[2]), int(t[3]), int(t[4]), int(t[5]), int(t[6]), parse_list(t[7]), 0, 3)
            o.append(f"ret {r}")
        elif op == 'd21.rx':
            d = self.d21[int(t[1])]
            data = parse_list(t[3])
            d['dll'].notify(int(t[2]), bytearray(data) if all(x < 256 for x in data) else data, 0)
        elif op == 'd21.tick':
            d = self.d21[int(t[1])]
            nw = d['dll'].async_job_thread(self.w.clock.time())
            o.append(f"wakeup {sim.us(nw) - self.w.now}")
        elif op in ('d21.tickpre', 'd22.tickpre'):
            d = (self.d21 if op[:3] == 'd21' else self.d22)[int(t[1])]
            self.tick_pre(d['dll'], int(t[2]), int(t[3]), parse_list(t[4]))
        elif op == 'd21.dump':
            o.append(self.d21_dump(int(t[1])))
        elif op == 'listener':
            import can
            got = []

            class E:
                def notify(self, cid, data, ts):
                    got.append(cid)
            L = sys.modules['j1939.electronic_control_unit'].MessageListener(E())
            if t[1] != '0':
                L.stop()
            L.on_message_received(can.Message(arbitration_id=0x18FECA21 if t[4] != '0' else 0x123, is_extended_id=(t[4] != '0'),
                                              is_error_frame=(t[2] != '0'), is_remote_frame=(t[3] != '0'), data=[] if t[3] != '0' else [1, 2]))
            o.append("forward" if got else "drop")
        elif op == 'ca.new':
            self.ca_new(int(t[1]), None if t[2] == 'n' else int(t[2]), t[3] != '0')
        elif op.startswith('ca.'):
            self.ca_op(op, t)
        elif op == 'd22.new':
            self.d22_new(int(t[1]), None if t[2] == 'n' else int(t[2]), int(t[3]), parse_list(t[4]))
        elif op == 'd22.send':
            d = self.d22[int(t[1])]
            tl = int(t[8])
            r = d['dll'].send_pgn(int(t[2]), int(t[3]), int(t[4]), int(t[5]), int(t[6]), parse_list(t[7]), sim.VT(tl) if tl else 0, int(t[9]))
            o.append(f"ret {r}")
        elif op == 'd22.rx':
            d = self.d22[int(t[1])]
            data = parse_list(t[3])
            d['dll'].notify(int(t[2]), bytearray(data) if all(x < 256 for x in data) else data, 0)
        elif op == 'd22.tick':
            d = self.d22[int(t[1])]
            nw = d['dll'].async_job_thread(self.w.clock.time())
            o.append(f"wakeup {sim.us(nw) - self.w.now}")
        elif op == 'd22.dump':
            o.append(self.d22_dump(int(t[1])))
        elif op == 'dm1.send':
            o.append(self.dm1_send(int(t[1]), parse_list(t[2]), parse_list(t[3])))
        elif op == 'dm1.parse':
            o.append(self.dm1_parse(parse_list(t[1])))
        else:
            raise ValueError(f"unknown op {op}")

    def tick_pre(self, dll, K, can_id, data):
        """one pass of the real async_job_thread; before its K-th session lookup (all loops, in order) the receive path
        handles the frame — run from the line tracer, i.e. exactly between two source lines of the pass"""
        import inspect
        src, first = inspect.getsourcelines(type(dll).async_job_thread)
        lookups = {first + n for n, l in enumerate(src) if l.strip().startswith('buf = self._') and 'bufid' in l}
        code = type(dll).async_job_thread.__code__
        state = dict(n=0, done=False)
        payload = bytearray(data) if all(x < 256 for x in data) else data

        def deliver():
            state['done'] = True
            try:
                dll.notify(can_id, payload, 0)
            except Exception as e:
                self.out.append(f"rxexc {type(e).__name__}")

        def local(frame, event, arg):
            if event == 'line' and frame.f_lineno in lookups and not state['done']:
                if state['n'] == K:
                    sys.settrace(None)
                    try:
                        deliver()
                    finally:
                        sys.settrace(glob)
                state['n'] += 1
            return local

        def glob(frame, event, arg):
            return local if frame.f_code is code else None
        sys.settrace(glob)
        try:
            nw = dll.async_job_thread(self.w.clock.time())
        finally:
            sys.settrace(None)
        if not state['done']:
            deliver()
        self.out.append(f"wakeup {sim.us(nw) - self.w.now}")

    def d21_new(self, maxcmdt, cmdt, bam, acc):
        if not hasattr(self, 'd21'):
            self.d21 = []
        ex = self
        d = dict(acc=set(acc))

        class FakeCa:
            _device_address_preferred = None

            def message_acceptable(self, dest):
                return dest == 255 or dest in d['acc']

            def _process_addressclaim(self, mid, data, ts):
                ex.out.append(f"claim {mid.source_address} {fmt_list(data)}")

            def _process_request(self, mid, dest, data, ts):
                ex.out.append(f"request {mid.source_address} {dest} {fmt_list(data)}")
        J = sys.modules['j1939.j1939_21'].J1939_21
        dll = J(lambda cid, ext, data, fd_format=False: ex.out.append(f"tx {cid} {fmt_list(data)}"),
                lambda: ex.out.append("wake"),
                lambda prio, pgn, sa, dest, ts, data: ex.out.append(f"notify {prio} {pgn} {sa} {dest} {fmt_list(data)}"),
                maxcmdt, None if cmdt is None else sim.VT(cmdt), sim.VT(bam), lambda dest: False)
        dll.add_ca(FakeCa())
        d['dll'] = dll
        self.d21.append(d)

    def d22_new(self, maxcmdt, cmdt, bam, acc):
        if not hasattr(self, 'd22'):
            self.d22 = []
        ex = self
        d = dict(acc=set(acc))

        class FakeCa:
            _device_address_preferred = None

            def message_acceptable(self, dest):
                return dest == 255 or dest in d['acc']

            def _process_addressclaim(self, mid, data, ts):
                ex.out.append(f"claim {mid.source_address} {fmt_list(data)}")

            def _process_request(self, mid, dest, data, ts):
                ex.out.append(f"request {mid.source_address} {dest} {fmt_list(data)}")
        J = sys.modules['j1939.j1939_22'].J1939_22
        dll = J(lambda cid, ext, data, fd_format=False: ex.out.append(f"tx {cid} {1 if ext else 0} {fmt_list(data)}"),
                lambda: ex.out.append("wake"),
                lambda prio, pgn, sa, dest, ts, data: ex.out.append(f"notify {prio} {pgn} {sa} {dest} {fmt_list(data)}"),
                maxcmdt, None if cmdt is None else sim.VT(cmdt), sim.VT(bam), lambda dest: False)
        dll.add_ca(FakeCa())
        d['dll'] = dll
        self.d22.append(d)

    def d22_dump(self, i):
        dll = self.d22[i]['dll']
        bools = lambda l: "".join('1' if x else '0' for x in l)
        r = ",".join(f"{k}:{b['pgn']}:{b['session']}:{b['message_size']}:{b['num_segments']}:{b['next_packet']}:{b.get('next_cts_border', '-')}:"
                     f"{b.get('num_segments_max_rec', '-')}:{sim.us(b['deadline'])}:{b['src_address']}:{b['dest_address']}:{fmt_list(b['data'])}"
                     for k, b in dll._rcv_buffer.items())
        t = ",".join(f"{k}:{b['pgn']}:{b['priority']}:{b['session']}:{b['message_size']}:{b['num_segments']}:{b['state']}:{sim.us(b['deadline'])}:"
                     f"{b['src_address']}:{b['dest_address']}:{b['next_packet_to_send']}:{b.get('next_wait_on_cts', '-')}:{len(b['data'])}"
                     for k, b in dll._snd_buffer.items())
        m = ",".join(f"{k}:{sim.us(b['deadline'])}:{b['fill_level']}:" + "/".join(f"{c['priority']}.{c['cpgn']}.{fmt_list(c['data'])}" for c in b['cpg'])
                     for k, b in dll._multi_pg_snd_buffer.items())
        return f"rcv {r} | snd {t} | mpg {m} | pools {bools(dll._J1939_22__rts_cts_session_list)} {bools(dll._J1939_22__bam_session_list)}"

    def d21_dump(self, i):
        dll = self.d21[i]['dll']
        r = ",".join(f"{k}:{b['pgn']}:{b['message_size']}:{b['num_packages']}:{b['next_packet']}:{b['max_cmdt_packages']}:"
                     f"{b.get('num_packages_max_rec', '-')}:{sim.us(b['deadline'])}:{b['src_address']}:{b['dest_address']}:{fmt_list(b['data'])}"
                     for k, b in dll._rcv_buffer.items())
        t = ",".join(f"{k}:{b['pgn']}:{b['priority']}:{b['message_size']}:{b['num_packages']}:{b['state']}:{sim.us(b['deadline'])}:"
                     f"{b['src_address']}:{b['dest_address']}:{b['next_packet_to_send']}:{b.get('next_wait_on_cts', '-')}:{fmt_list(b['data'])}"
                     for k, b in dll._snd_buffer.items())
        return f"rcv {r} | snd {t}"

    def ca_new(self, name, pref, bypass):
        if not hasattr(self, 'cas'):
            self.cas = []
        j = self.w.j
        ex = self

        class FakeEcu:
            def send_message(self, can_id, ext, data, fd_format=False):
                ex.out.append(f"tx {can_id} {fmt_list(data)}")

            def send_pgn(self, dp, pf, ps, prio, sa, data, time_limit=0, frame_format=3):
                ex.out.append(f"pgn {dp} {pf} {ps} {prio} {sa} {fmt_list(data)}")
                return True

            def add_timer(self, delta, cb, cookie=None):
                ex.out.append(f"timer {sim.us(delta)}")

            def remove_timer(self, cb):
                ex.out.append("rmtimer")

            def subscribe(self, cb, addr=None): pass
            def unsubscribe(self, cb): pass
        ca = j.ControllerApplication(j.Name(value=name), pref, bypass)
        ca.associate_ecu(FakeEcu())
        ca.subscribe_request(lambda sa, dest, pgn: ex.out.append(f"reqcb {sa} {dest} {pgn}"))
        self.cas.append(ca)

    def ca_op(self, op, t):
        j = self.w.j
        ca = self.cas[int(t[1])]
        o = self.out
        none = lambda v: '-' if v is None else str(v)
        if op == 'ca.claim':
            ca._process_claim_async(None)
        elif op == 'ca.rxclaim':
            data = parse_list(t[3])
            ca._process_addressclaim(j.MessageId(can_id=(6 << 26) | (0xEEFF << 8) | int(t[2])), bytearray(data) if all(x < 256 for x in data) else data, 0)
        elif op == 'ca.request':
            data = parse_list(t[4])
            ca._process_request(j.MessageId(can_id=(6 << 26) | (0xEA00 << 8) | int(t[2])), int(t[3]), data, 0)
        elif op == 'ca.sendmsg':
            ca.send_message(int(t[2]), int(t[3]), parse_list(t[4]))
        elif op == 'ca.sendpgn':
            ca.send_pgn(int(t[2]), int(t[3]), int(t[4]), int(t[5]), parse_list(t[6]))
        elif op == 'ca.sendreq':
            ca.send_request(int(t[2]), int(t[3]), int(t[4]))
        elif op == 'ca.acceptable':
            o.append("True" if ca.message_acceptable(int(t[2])) else "False")
        elif op == 'ca.dump':
            o.append(f"ca {ca._device_address_state} {ca._device_address_announced} {none(ca._device_address)} {none(ca.device_address)}")
        else:
            raise ValueError(op)

    KEYS = ['pl', 'awl', 'rsl', 'mil']

    def dm1_send(self, pgn, lamps, flat):
        j = self.w.j
        sent = []

        class FakeCa:
            def send_pgn(self, dp, pf, ps, prio, data, *a, **k):
                sent.append((dp, pf, ps, prio, [int(x) for x in data]))
        d = j.Dm1(FakeCa())
        d._pgn = pgn
        lamp = {k: v for k, v in zip(self.KEYS, lamps)}
        dtcs = [dict(spn=flat[i], fmi=flat[i + 1], oc=flat[i + 2]) for i in range(0, len(flat) - 2, 3)]
        d._send(dict(cb=lambda: (lamp, dtcs)))
        (dp, pf, ps, prio, data), = sent
        return f"pgn {dp} {pf} {ps} {prio} {fmt_list(data)}"

    def dm1_parse(self, data):
        j = self.w.j
        d = j.Dm1(None)
        sentinel = object()
        d._lamp_status = {'sentinel': sentinel}
        got = []
        d._subscribers.append(lambda sa, lamps, dtcs, ts: got.append((lamps, dtcs)))
        d._receive(6, d._pgn, 1, 0, bytearray(data) if all(x < 256 for x in data) else list(data))
        lamps, dtcs = got[0]
        if 'pl' not in lamps:
            return "reject"
        flat = []
        for x in dtcs:
            flat += [x['spn'], x['fmi'], x['oc']]
        return f"lamps {fmt_list([lamps[k] for k in self.KEYS])} dtcs {fmt_list(flat)}"

    def dump_core(self, i):
        st = self.w.stacks[i]
        ecu = st.ecu
        def key(f):
            # a bound method of a holder is identified by the holder (every access makes a new method object)
            return id(f.__self__) if isinstance(getattr(f, '__self__', None), _Holder) else id(f)
        inv_t = {id(f): k for (s, k), f in self.tfun.items() if s == i}
        inv_s = {id(f): k for (s, k), f in self.sfun.items() if s == i}
        inv_p = {id(f): k for (s, k), f in self.pfun.items() if s == i}
        ts = ",".join(f"{inv_t.get(key(e['callback']), '?')}:{sim.us(e['delta_time'])}:{sim.us(e['deadline'])}:{int(e['cookie'])}" for e in ecu._timer_events)

        def sa(a):
            if a is None:
                return 'n'
            if callable(a):
                return f"p{inv_p.get(id(a), '?')}"
            return f"i{a}"
        ss = ",".join(f"{inv_s.get(key(d['cb']), '?')}:{sa(d['dev_adr'])}" for d in ecu._subscribers)
        return f"timers {ts} | subs {ss} | wake {st.wq.tokens}"

    def run(self, lines):
        """returns list of (line, [outputs])"""
        res = []
        old = signal.signal(signal.SIGALRM, _alarm)
        try:
            for l in lines:
                self.out = []
                signal.setitimer(signal.ITIMER_REAL, 60.0)
                try:
                    self.step(l)
                except ScriptTimeout:
                    self.out.append("hang")
                    res.append((l, self.out))
                    break
                except Exception as e:
                    self.out.append(f"exc {type(e).__name__}")
                finally:
                    signal.setitimer(signal.ITIMER_REAL, 0)
                res.append((l, self.out))
        finally:
            signal.signal(signal.SIGALRM, old)
        return res


def diff_script(lines, driver, repo='/repo', state=None):
    """run `lines` on the real code and on the model; returns None or a dict describing the first divergence"""
    ex = PyExec(repo)
    py = ex.run(lines)
    py_flat = [o for _, outs in py for o in outs]
    lean = driver.run_lines(lines)
    if py_flat == lean:
        return None
    # locate the first diverging line
    k = 0
    pos = 0
    for l, outs in py:
        seg = lean[pos:pos + len(outs)]
        if seg != outs:
            return dict(op_index=k, op=l, python=outs, lean=seg, script=lines[:k + 1][-40:], full_script=lines[:k + 1])
        pos += len(outs)
        k += 1
    return dict(op_index=len(py), op='<end>', python=[], lean=lean[pos:], script=lines[-40:], full_script=list(lines))
