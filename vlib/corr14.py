"""Lock-step correspondence of Model/Dm14.lean with memory_access.py / Dm14Query.py / Dm14Server.py (recorded scripts, gen14)."""
import random
from . import common as C, gen14
from .corr21 import first_divergence


def run(ctx, n_nominal, n_hostile, salt):
    rng = random.Random(ctx.seed * 1000003 + salt + 140000)
    dis, traces, evals, distinct, hist = [], 0, 0, set(), {}
    sample = None
    for kind, n in (('nominal', n_nominal), ('hostile', n_hostile)):
        for _ in range(n):
            sub = random.Random(rng.getrandbits(48))
            rec = gen14.script(sub, C.REPO, hostile=(kind == 'hostile'))
            lean = ctx.driver.run_lines(rec.lines)
            traces += 1
            evals += len(rec.lines)
            distinct.add(C.struct_hash(rec.lines))
            for _, outs in rec.outputs:
                for o in outs:
                    key = " ".join(o.split()[:2]) if o.split()[0] in ('ret', 'raise', 'exc') else o.split()[0]
                    hist[key] = hist.get(key, 0) + 1
            sample = sample or [l[:160] for l in rec.lines[:10]]
            d = first_divergence(rec, lean)
            if d:
                d['kind'] = kind + '-dm14'
                d['script'] = [l[:300] for l in d['script']]
                dis.append(d)
                if len(dis) >= 2:
                    break
        if len(dis) >= 2:
            break
    return dict(traces=traces, disagreements=dis, evaluations=evals, distinct_nontrivial=len(distinct), output_histogram=hist,
                samples=[dict(script=sample)])
