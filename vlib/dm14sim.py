"""DM14 memory access end to end: real MemoryAccess / Dm14Query / DM14Server objects on real CAs, ECUs and J1939-21
stacks in the simulator.  The blocking queue.get calls of the library pump the simulator (virtual time), the serving
application answers from a scheduled action after `notify`, like its own thread would."""
import queue as real_queue, sys, types, random
from . import sim

DM14, DM15, DM16 = 0xD900, 0xD800, 0xD700


def to_us(t):
    return t.us if isinstance(t, sim.VT) else int(round(float(t) * 1e6))


class PumpQueue:
    """queue.Queue stand-in: get() runs the simulation until an item arrives or the timeout passes in virtual time"""
    hub = None

    def __init__(self, maxsize=0):
        self.items = []

    def put(self, x, *a, **k):
        self.items.append(x)

    def qsize(self):
        return len(self.items)

    def empty(self):
        return not self.items

    def get(self, block=True, timeout=None):
        if self.items:
            return self.items.pop(0)
        if not block:
            raise real_queue.Empty
        hub = PumpQueue.hub
        deadline = hub.w.now + (to_us(timeout) if timeout is not None else 60_000_000)
        hub.depth += 1
        try:
            while not self.items:
                if not hub.net.step(deadline):
                    hub.w.clock.now = max(hub.w.now, deadline)
                    raise real_queue.Empty
        finally:
            hub.depth -= 1
        return self.items.pop(0)


class Node:
    pass


class Dm14World:
    """`n` nodes, each a stack + CA (address claimed by bypass) + MemoryAccess; node k serves memory when given an `app`"""

    def __init__(self, repo, seed, n=2, addrs=None, latency=None, maxcmdt=None, tick_latency=None):
        self.rng = random.Random(seed)
        self.w = sim.World(repo)
        j = self.j = self.w.j
        ns = types.SimpleNamespace(Queue=PumpQueue, Empty=real_queue.Empty)
        sys.modules['j1939.Dm14Query'].queue = ns
        sys.modules['j1939.Dm14Server'].queue = ns
        PumpQueue.hub = self
        self.depth = 0
        self.addrs = addrs or self.rng.sample(range(1, 250), n)
        self.nodes = []
        for i in range(n):
            nd = Node()
            nd.idx = i
            nd.stack = self.w.new_stack(dll='j1939-21', max_cmdt_packets=(maxcmdt[i] if maxcmdt else 255))
            nd.ca = j.ControllerApplication(j.Name(value=0x1000 + i), self.addrs[i], bypass_address_claim=True)
            nd.stack.ecu.add_ca(controller_application=nd.ca)
            self.nodes.append(nd)
        self.net = sim.Net(self.w, latency=latency or (lambda r, a, b, f: r.choice([1, 300, 1000, 5000])), rng=self.rng,
                           tick_latency=tick_latency or (lambda r, i: 0))
        for nd in self.nodes:
            nd.ca.start()
            nd.ma = j.MemoryAccess(nd.ca)
            nd.proceed_calls, nd.notify_calls, nd.responses, nd.errors = [], 0, [], []
        self.net.run(1000)

    def serve(self, k, app, seed_gen=None, keyfn=None):
        """node k serves: app(command, address, pointer_type, length, count, key, sa, level, seed) ->
        dict(accept=bool, delay=us, respond=dict(proceed, data, error, edcp, max_timeout) | None)"""
        nd = self.nodes[k]
        ma = nd.ma
        plan = {}

        def proceed(*args):
            nd.proceed_calls.append(tuple(int(x) if isinstance(x, int) else x for x in args))
            plan['p'] = app(*args)
            return plan['p']['accept']

        def notify():
            nd.notify_calls += 1
            p = plan['p']
            if p.get('respond') is None:
                return

            def act():
                r = p['respond']
                try:
                    ret = ma.respond(r['proceed'], list(r['data']) if r.get('data') is not None else None, r.get('error', 0xFFFFFF),
                                     r.get('edcp', 0xFF), r.get('max_timeout', 3))
                    nd.responses.append(('ret', None if ret is None else [int(x) for x in ret]))
                except Exception as e:
                    nd.responses.append(('exc', type(e).__name__, str(e)[:120]))
            self.net.at(self.w.now + p.get('delay', 0), act)
        ma.set_proceed(proceed)
        ma.set_notify(notify)
        if seed_gen:
            ma.set_seed_generator(seed_gen)
        if keyfn:
            ma.set_seed_key_algorithm(keyfn)

    def call(self, fn, *a, **k):
        """a blocking client call; returns ('ret', value) or ('exc', type, text)"""
        try:
            r = fn(*a, **k)
            for s in self.w.stacks:
                self.net.poke(s)
            return ('ret', r if not isinstance(r, (bytes, bytearray, list)) else [int(x) for x in r])
        except Exception as e:
            for s in self.w.stacks:
                self.net.poke(s)
            return ('exc', type(e).__name__, str(e))

    def settle(self, dur=3_000_000):
        self.net.run(dur, stop=lambda: self.net.quiet() and not self.net.actions and
                     all(not s.ecu.j1939_dll._rcv_buffer and not s.ecu.j1939_dll._snd_buffer for s in self.w.stacks))
        self.net.run(20_000)

    def idle_report(self, k):
        """what is not idle on node k"""
        nd, bad = self.nodes[k], []
        ma = nd.ma
        if ma.state.name != 'IDLE':
            bad.append(f"facade state {ma.state.name}")
        if ma.query.state.name != 'IDLE':
            bad.append(f"query state {ma.query.state.name}")
        if ma.server.state.name != 'IDLE':
            bad.append(f"server state {ma.server.state.name}")
        if ma.query.data_queue.qsize() or ma.query.exception_queue.qsize() or ma.server.data_queue.qsize():
            bad.append(f"queues not empty: query data {ma.query.data_queue.qsize()} exceptions {ma.query.exception_queue.qsize()} "
                       f"server data {ma.server.data_queue.qsize()}")
        subs = sorted(getattr(d['cb'], '__name__', '?') for d in nd.stack.ecu._subscribers)
        if subs != ['_listen_for_dm14']:
            bad.append(f"subscribers {subs}")
        return bad
