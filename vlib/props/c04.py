"""C04 — address claiming: unique addresses, lowest NAME keeps a contested one."""
import random
from .. import common as C, genca, sim

PID = 'C04'
PROP_MODULE = 'J1939.Props.C04'
UNITS = ['Name.ofBytes', 'Name.value', 'Name.bytes', 'Name.ofValue', 'MessageId.ofFields', 'MessageId.can_id']
ASSUMPTIONS = ["handler-level theorems (every CA state, every claim) and the network invariant / uniqueness at quiescence over every interleaving "
               "(Model/CaNet.lean); bounded settling in real time is exercised by the network oracle on real stacks",
               "room below 247 for every possible loss (the code does not range-check the incremented address)"]


def correspondence(ctx):
    return genca.correspondence(ctx, ctx.n(400, 15000), 4)


def claim_case(rng):
    n = rng.choice([2, 2, 3, 4])
    w = sim.World(C.REPO)
    j = w.j
    lat = rng.choice([[0], [0], [1000], [5000], [0, 1000, 5000]])
    base = rng.choice([128, 200, 10, 100, 248])
    names = rng.sample(range(1, 4000), n)
    # names differing in the manufacturer code / other fields as well
    cas = []
    dll = rng.choice(['j1939-21', 'j1939-21', 'j1939-22'])
    for i in range(n):
        w.new_stack(dll=dll)
    # a claim exchange among n <= 4 CAs needs at most a few hundred frames; far beyond that the bus never gets quiet
    net = sim.Net(w, latency=lambda r, a, b, f: r.choice(lat), tick_latency=lambda r, i: r.choice([0, 0, 500]), max_frames=4000)
    plan = []
    # NAMEs that differ in ONE field only (all others equal), so that every field takes part in an arbitration somewhere
    field = rng.choice(['identity_number', 'manufacturer_code', 'function', 'ecu_instance', 'function_instance', 'vehicle_system',
                        'vehicle_system_instance', 'industry_group', 'mixed'])
    ranges = dict(identity_number=1 << 21, manufacturer_code=1 << 11, function=256, ecu_instance=8, function_instance=32, vehicle_system=128,
                  vehicle_system_instance=16, industry_group=8)
    common_kw = {k: rng.randrange(v) for k, v in ranges.items()}
    vals = rng.sample(range(ranges[field]), n) if field != 'mixed' and ranges[field] >= n else None
    same_aac = rng.random() < 0.5
    aac0 = rng.random() < 0.5
    for i in range(n):
        aac = aac0 if same_aac else rng.random() < 0.5
        kw = dict(common_kw)
        if vals is not None:
            kw[field] = vals[i]
        else:
            kw = {k: rng.randrange(v) for k, v in ranges.items()}
            kw['identity_number'] = names[i]
        nm = j.Name(arbitrary_address_capable=aac, **kw)
        pref = base + rng.choice([0, 0, 0, 1, 2]) if base < 240 else base + rng.choice([0, 0, 1])
        ca = j.ControllerApplication(nm, pref)
        w.stacks[i].ecu.add_ca(controller_application=ca)
        cas.append(ca)
        plan.append((rng.choice([0, 0, 100000, 240000, 250000, 260000, 600000, 1200000]), i, rng.choice([0, 0, 100000, 500000])))
    plan.sort()
    t0 = w.now
    for (t, i, delay) in plan:
        net.run(max(0, t0 + t - w.now))
        cas[i].start(sim.VT(delay))
        net.poke(w.stacks[i])
    net.run(6_000_000)
    bad = []
    st = [(c.state, c.device_address, c._name.value, bool(c._name.arbitrary_address_capable), c._device_address_preferred) for c in cas]
    for k, (s, a, v, aac, p) in enumerate(st):
        if s not in (2, 3):
            bad.append(f"CA {k} (NAME {v:#x}) has not settled 6 s after the last start: state {s}")
    ops = [(a, v) for (s, a, v, aac, p) in st if s == 2]
    addrs = [a for a, v in ops]
    if len(set(addrs)) != len(addrs):
        bad.append(f"two operational CAs on one address: {[(a, hex(v)) for a, v in ops]}")
    # the lowest NAME among all CAs that ever announced an address (judged from the bus) is the one that keeps it
    claimed = {}
    for stck in w.stacks:
        for fr in stck.sent:
            if (fr[1] >> 8) & 0x3FFFF == 0xEEFF and fr[1] & 0xFF != 254:
                claimed.setdefault(fr[1] & 0xFF, set()).add(int.from_bytes(bytes(fr[3]), 'little'))
    by_name = {x[2]: x for x in st}
    for p, nms in claimed.items():
        low = by_name[min(nms)]
        if not (low[0] == 2 and low[1] == p):
            bad.append(f"address {p}: claimed by {[hex(x) for x in sorted(nms)]}; the lowest NAME ended in state {low[0]} at {low[1]}")
    for (s, a, v, aac, p) in st:
        if s == 3 and aac:
            bad.append(f"arbitrary-address-capable CA {v:#x} ended cannot-claim")
        if s == 3:
            frames = [fr for stck in w.stacks for fr in stck.sent if (fr[1] >> 8) & 0x3FFFF == 0xEEFF and fr[1] & 0xFF == 254
                      and fr[3] == list(v.to_bytes(8, 'little'))]
            if not frames:
                bad.append(f"CA {v:#x} went cannot-claim without announcing it from address 254")
    if net.flood:
        bad.insert(0, f"the bus never gets quiet: more than {net.max_frames} frames; last: "
                      f"{[(hex(f[2]), f[1]) for f in net.bus[-4:]]}")
    elif net.errors:
        bad.append(f"exception {net.errors[0]}")
    return bad, dict(dll=dll, n=n, base=base, latency=lat, plan=plan, final=[(s, a, hex(v), aac, p) for (s, a, v, aac, p) in st])


def dispatch_case(rng):
    """an ADDRESS CLAIMED frame reaches EVERY CA of the stack whatever its state (a CA that is still waiting out its veto
    period, or has no address, must see contending claims) — on both data link layers"""
    w = sim.World(C.REPO)
    j = w.j
    dll = rng.choice(['j1939-21', 'j1939-22'])
    s = w.new_stack(dll=dll)
    states = [rng.choice([0, 1, 2, 3]) for _ in range(rng.choice([1, 2, 3]))]
    seen = []
    cas = []
    for k, stt in enumerate(states):
        ca = j.ControllerApplication(j.Name(arbitrary_address_capable=rng.random() < 0.5, identity_number=100 + k), 128 + k)
        s.ecu.add_ca(controller_application=ca)
        ca._device_address_state = stt
        if stt == 2:
            ca._device_address = 128 + k
        ca._process_addressclaim = (lambda k: lambda mid, data, ts: seen.append(k))(k)
        cas.append(ca)
    sa = rng.choice([0, 5, 128, 129, 200, 253, 254])
    dest = 255
    s.notify((6 << 26) | (0xEE << 16) | (dest << 8) | sa, list(rng.randrange(256) for _ in range(8)))
    bad = []
    if sorted(seen) != list(range(len(states))):
        bad.append(f"{dll}: address-claimed frame from {sa} reached CAs {sorted(seen)} of {len(states)} (CA states {states})")
    return bad, dict(kind='dispatch', dll=dll, states=states, sa=sa)


def oracle(ctx, full):
    rng = random.Random(ctx.seed * 7907 + 4)
    n = ctx.n(120, 5000, full)
    findings, evals, distinct, samples = [], 0, set(), []
    for it in range(n):
        bad, desc = (dispatch_case if it % 5 == 4 else claim_case)(random.Random(rng.getrandbits(48)))
        evals += 1
        distinct.add(C.struct_hash(desc))
        if len(samples) < 2:
            samples.append(desc)
        if bad:
            findings.append(dict(signature=dict(family='claim-dispatch' if desc.get('kind') == 'dispatch' else 'address-claim'), what=bad[0], scenario=desc, all=bad[:5]))
            break
    return dict(findings=findings, evaluations=evals, distinct_nontrivial=len(distinct), samples=samples,
                rule="(every fifth case: an address-claimed frame reaches every CA of a stack whatever its state, both data link layers) "
                     "2-4 CAs on separate real stacks (J1939-21 or J1939-22), the bus gets quiet (at most 4000 frames), NAMEs differing in identity / manufacturer code (incl. codes >= 1024) / function, each "
                     "arbitrary-address-capable or not, preferred addresses equal / adjacent in the veto or the immediate range, start times and "
                     "claim delays on a grid around the 250 ms veto window, latencies {0, 1 ms, 5 ms}; after 6 s: all settled, operational "
                     "addresses unique, lowest NAME keeps each contested address, non-capable losers announced cannot-claim from 254")


def replay(ctx, path):
    print(open(path).read()[:3000])
    return 0
