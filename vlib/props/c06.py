"""C06 — lost frames / vanished peer: exact-or-nothing, bounded give-up with abort, clean follow-up (J1939-21 proved)."""
import random
from .. import common as C, corr21, corr22, net21, sim
from ..gen21 import rand_payload, TP_CM, TP_DT

PID = 'C06'
PROP_MODULE = 'J1939.Props.C06'
UNITS = ['Tp21.buffer_hash', 'Tp21.abort', 'Tp21.num_packets', 'Tp21.dt', 'Tp21.rts_size']
ASSUMPTIONS = ["J1939-22 (FD): theorems c06_22_* (segment order, exact-or-nothing at EOM status), lossy correspondence and the loss oracle",
               "frames that survive are 8-byte TP.DT frames of the running transfer (single loss / silence: no duplicates, no foreign frames on the key)"]


def correspondence(ctx):
    a = corr21.run(ctx, ctx.n(40, 1000), ctx.n(20, 500), 6, n_lossy=ctx.n(160, 6000))
    b = corr22.run(ctx, ctx.n(10, 300), ctx.n(10, 300), 6, n_lossy=ctx.n(80, 3000))     # J1939-22: lost frames / silent peers
    return corr22.merge(a, b)


def dry_frames(shape, dll):
    """number of bus frames of the undisturbed transfer of this shape"""
    key = (shape, dll)
    if key not in _DRY:
        bam, units, window = shape
        sc = net21.Scenario(C.REPO, 1, 2, dll=dll, maxcmdt=[window, window])
        unit = 7 if dll == 'j1939-21' else 60
        sc.send(0, 0, 254 if bam else 208, 1 if bam else sc.addrs[1], 6, [0] * (units * unit))
        sc.net.run(30_000_000, stop=lambda: sc.tables_empty() and sc.net.quiet())
        _DRY[key] = len(sc.net.bus)
    return _DRY[key]


_DRY = {}


def shape_case(rng, shape, k, mode, dll='j1939-21'):
    """shape = (bam, packets/segments, window); k = index of the bus frame that is lost / from which a peer is silent"""
    bam, packets, window = shape
    fd = dll != 'j1939-21'
    unit = 60 if fd else 7
    size = packets * unit - rng.randrange(0, unit)
    size = max(size, 61 if fd else 9)
    silent = {}
    sc = net21.Scenario(C.REPO, rng.getrandbits(32), 2, dll=dll, maxcmdt=[window, window], latency=lambda r, a, b, f: r.choice([1, 1000]),
                        loss=lambda n, src, dst, fr: (mode == 'lose' and n == k) or (mode.startswith('silent') and n >= k and (dst == silent['who'] or src == silent['who'])))
    silent['who'] = 0 if mode == 'silent0' else 1
    data = rand_payload(rng, size)
    # the stacks have been idle for a while: their threads sleep (the application's call has to wake them)
    sc.net.run(rng.choice([1000, 300000]))
    t0 = sc.w.now
    sc.send(0, 0, 254 if bam else 208, 1 if bam else sc.addrs[1], 6, data)
    sc.net.run(9_000_000 if fd else 6_000_000, stop=lambda: sc.tables_empty() and sc.net.quiet())
    t_end = sc.w.now
    bad = []
    got = [d for d in sc.payload_deliveries() if d[0] == 1]
    pgn = 0xFE01 if bam else 0xD000
    if got not in ([], [(1, pgn, sc.addrs[0], data)]):
        bad.append(f"receiver got {str(got)[:120]} — neither nothing nor the exact {len(data)}-byte payload")
    # give-up: both tables empty within the longest applicable timeout of the last frame either side put on the bus
    # (every deadline is armed by a reception or by an own transmission; 1.25 s = T2/T3, J1939-22 waits T5 = 3 s for the EOMA)
    def is_abort(cid, d):
        pf = (cid >> 16) & 0xFF
        return bool(d) and ((pf == TP_CM and d[0] == 255) or (pf == 0x4D and d[0] & 15 == 15))
    # (an abort is itself the result of a give-up: it does not re-arm anything)
    last = max([t for (t, s, cid, d, fd_) in sc.net.bus if not is_abort(cid, d)] + [t0])
    bound = (3_000_000 if fd else 1_250_000) + 10_000
    if not sc.tables_empty():
        bad.append(f"a session is still open {(t_end - last) // 1000} ms after the last frame on the bus")
    else:
        if t_end - last > bound:
            bad.append(f"the last session record disappeared {(t_end - last) // 1000} ms after the last frame (other than an abort) on the bus (longest timeout {bound // 1000 - 10} ms)")
        aborts = [(t, s, d) for (t, s, cid, d, fd_) in sc.net.bus if (cid >> 16) & 0xFF == TP_CM and d and d[0] == 255]
        for (t, s, d) in aborts:
            if d[1] != 3:
                bad.append(f"connection abort with reason {d[1]} instead of 3 (timeout)")
            if d[5:8] != [0, 0xD0, 0]:
                bad.append(f"connection abort carries PGN bytes {d[5:8]}")
    if not bam and not bad:
        # a connection-mode originator ends its session in one of three ways: the acknowledgement reached it, the
        # responder's abort reached it, or it says so itself with a connection abort
        def reached0(n, src):
            if src == 0:
                return False
            if mode == 'lose':
                return n != k
            return not (n >= k and (silent['who'] in (0, src)))
        acked = any(reached0(n, s_) and ((((cid >> 16) & 0xFF) == TP_CM and d and d[0] == 19) or (((cid >> 16) & 0xFF) == 0x4D and d and d[0] & 15 == 3))
                    for n, (t, s_, cid, d, fd_) in enumerate(sc.net.bus))
        told = any(reached0(n, s_) and is_abort(cid, d) for n, (t, s_, cid, d, fd_) in enumerate(sc.net.bus))
        own_abort = any(s_ == 0 and is_abort(cid, d) for (t, s_, cid, d, fd_) in sc.net.bus)
        # J1939-22: after its end-of-message status the originator only waits for the acknowledgement (T5) — the property
        # asks for an abort when it stops waiting for a CTS, not there
        sent_eoms = any(s_ == 0 and ((cid >> 16) & 0xFF) == 0x4D and d and d[0] & 15 == 2 for (t, s_, cid, d, fd_) in sc.net.bus)
        if not (acked or told or own_abort or sent_eoms):
            bad.append("the originator stopped waiting for a CTS and dropped its connection-mode session without any connection abort on the bus")
    if not bam and not bad and not got:
        # the responder likewise: once it has answered the RTS with a CTS it waits for data packets; it stops doing so because the
        # originator's abort reached it, or it says so itself with a connection abort (or it completed and acknowledged)
        def reached1(n, src):
            if src == 1:
                return False
            if mode == 'lose':
                return n != k
            return not (n >= k and (silent['who'] in (1, src)))
        def is_cts(cid, d):
            pf = (cid >> 16) & 0xFF
            return bool(d) and ((pf == TP_CM and d[0] == 17) or (pf == 0x4D and d[0] & 15 == 1))
        def is_ack(cid, d):
            pf = (cid >> 16) & 0xFF
            return bool(d) and ((pf == TP_CM and d[0] == 19) or (pf == 0x4D and d[0] & 15 == 3))
        opened = any(s_ == 1 and is_cts(cid, d) for (t, s_, cid, d, fd_) in sc.net.bus)
        r_done = any(s_ == 1 and (is_ack(cid, d) or is_abort(cid, d)) for (t, s_, cid, d, fd_) in sc.net.bus)
        r_told = any(reached1(n, s_) and is_abort(cid, d) for n, (t, s_, cid, d, fd_) in enumerate(sc.net.bus))
        if opened and not (r_done or r_told):
            bad.append("the responder stopped waiting for data packets and dropped its connection-mode session without any connection abort on the bus")
    if sc.net.errors:
        bad.append(f"exception {sc.net.errors[0]}")
    # follow-up on the same pair
    if not bad:
        sc.deliv.clear(); sc.accepted.clear()
        data2 = rand_payload(rng, rng.choice([61, 130]) if fd else rng.choice([9, 30]))
        # the fault is over
        sc.net.loss = None
        if not sc.send(0, 0, 254 if bam else 208, 1 if bam else sc.addrs[1], 6, data2):
            bad.append("follow-up transfer on the same pair refused")
        sc.net.run(8_000_000, stop=lambda: sc.tables_empty() and sc.net.quiet())
        r = net21.check_exactly_once(sc)
        if r:
            bad.append("follow-up transfer: " + r)
    return bad, dict(dll=dll, bam=bam, packets=packets, window=window, k=k, mode=mode, size=size)


def giveup_time_case(rng):
    """precise give-up bound: the peer never answers at all / stops after the RTS+CTS"""
    window = rng.choice([1, 2, 255])
    sc = net21.Scenario(C.REPO, rng.getrandbits(32), 1, maxcmdt=[window], addrs=[0x21])
    bad = []
    sc.net.run(rng.choice([1000, 300000]))       # an idle stack: its thread sleeps
    t0 = sc.w.now
    sc.send(0, 0, 208, 0x55, 6, rand_payload(rng, 30))
    sc.net.run(3_000_000, stop=lambda: sc.tables_empty())
    gone = sc.w.now - t0
    aborts = [(t, d) for (t, s, cid, d, fd) in sc.net.bus if d and d[0] == 255]
    if gone > 1_250_000 + 5000:
        bad.append(f"originator gave up after {gone} us without any answer (> 1.25 s)")
    if not aborts or aborts[0][1][1] != 3:
        bad.append(f"no TP.Conn_Abort(reason 3) when the originator stopped waiting for a CTS: {aborts}")
    # responder side: RTS arrives, then silence
    sc2 = net21.Scenario(C.REPO, rng.getrandbits(32), 1, maxcmdt=[window], addrs=[0x21])
    sc2.net.run(rng.choice([1000, 300000]))
    t0 = sc2.w.now
    sc2.net.inject(0, (7 << 26) | (TP_CM << 16) | (0x21 << 8) | 0x55, [16, 30, 0, 5, 255, 0, 0xD0, 0], 0)
    sc2.net.run(3_000_000, stop=lambda: sc2.tables_empty() and sc2.net.quiet() and sc2.w.now > t0)
    gone = sc2.w.now - t0
    aborts = [(t, d) for (t, s, cid, d, fd) in sc2.net.bus if d and d[0] == 255]
    if gone > 1_250_000 + 5000:
        bad.append(f"responder gave up after {gone} us of silence (> 1.25 s)")
    if not aborts or aborts[0][1][1] != 3 or aborts[0][1][5:8] != [0, 0xD0, 0]:
        bad.append(f"no TP.Conn_Abort(reason 3, PGN) when the responder stopped waiting for data: {aborts}")
    return bad, dict(kind='giveup', window=window)


def oracle(ctx, full):
    rng = random.Random(ctx.seed * 7907 + 6)
    big = full or not ctx.quick
    shapes = [(bam, p, w) for bam in (False, True) for p in (2, 3, 5, 12) for w in (1, 2, 3, 255)]
    cases = []
    for dll in ('j1939-21', 'j1939-22'):
        for sh in shapes:
            if dll == 'j1939-22' and sh[1] == 12:
                continue
            for k in range(dry_frames(sh, dll) + 1):
                for mode in ('lose', 'silent0', 'silent1'):
                    cases.append((sh, k, mode, dll))
    if not big:
        cases = rng.sample(cases, 90)
    else:
        cases = cases[ctx.shard::ctx.shards]          # the exhaustive enumeration is partitioned over the workers
    findings, evals, distinct, samples = [], 0, set(), []
    for (sh, k, mode, dll) in cases:
        sub = random.Random(rng.getrandbits(48))
        bad, desc = shape_case(sub, sh, k, mode, dll)
        evals += 1
        distinct.add(C.struct_hash(desc))
        if len(samples) < 2:
            samples.append(desc)
        if bad:
            findings.append(dict(signature=dict(family='loss', dll=dll, bam=sh[0]), what=bad[0], scenario=desc, all=bad[:5]))
            break
    if not findings:
        for _ in range(4 if not big else 40):
            bad, desc = giveup_time_case(random.Random(rng.getrandbits(48)))
            evals += 1
            distinct.add(C.struct_hash(desc))
            if bad:
                findings.append(dict(signature=dict(family='giveup', dll='j1939-21'), what=bad[0], scenario=desc, all=bad[:5]))
                break
    return dict(findings=findings, evaluations=evals, distinct_nontrivial=len(distinct), samples=samples, exhaustive=bool(big),
                rule="every J1939-21 transfer shape (BAM, RTS/CTS; 2, 3, 5, 12 packets; windows 1, 2, 3, all) and every J1939-22 shape (2, 3, 5 "
                     "segments) x loss of the k-th bus frame / silence of either side from the k-th frame, for every k (thorough: all of them; "
                     "quick: 90 sampled): receiver gets exact payload or nothing, J1939-21 aborts carry reason 3 and the PGN, both session tables "
                     "empty no later than the longest timeout (1.25 s; J1939-22: 3 s) after the last frame other than an abort on the bus, follow-up on the same pair "
                     "delivered; a connection-mode responder that answered the RTS never stops waiting for data silently (it acknowledged, was aborted by the originator or aborts itself); a connection-mode originator never stops waiting for a CTS silently (it was acknowledged, aborted by the peer, "
                     "aborts itself, or — J1939-22 — had sent its end-of-message status); plus give-up time <= 1.25 s and abort presence with a "
                     "silent peer on either side")


def replay(ctx, path):
    print(open(path).read()[:3000])
    return 0
