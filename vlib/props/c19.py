"""C19 — a second DM14 requester never disturbs or joins a running transaction."""
import random
from .. import common as C, corr14, dm14oracle as O

PID = 'C19'
PROP_MODULE = 'J1939.Props.C19'
UNITS = ['Dm14.s_command', 'Dm14.s_pointer_type', 'Dm14.q_dm15_status']
ASSUMPTIONS = ["message level (see C17); the running transaction's opening DM14 had 8 bytes",
               "`InTx` (server bound to a requester, not idle, not busy, facade REQUEST_STARTED only while waiting for the key) is shown "
               "for the states after the opening DM14 by example; that every later state of a transaction satisfies it follows from the "
               "step lemmas of C17 (sa stays bound until the closing DM14) and is exercised at every bus frame by the oracle",
               "the error indicator inside the busy answer is whatever error code is pending (2 = busy otherwise): not claimed"]


def correspondence(ctx):
    return corr14.run(ctx, ctx.n(40, 2000), ctx.n(140, 6000), 19)


def oracle(ctx, full):
    rng = random.Random(ctx.seed * 7907 + 19)
    n = ctx.n(12, 400, full)
    findings, evals, distinct, samples = [], 0, set(), []
    stat = dict(points=0, own_address=0, several=0)
    for _ in range(n):
        bad, desc = O.c19_case(random.Random(rng.getrandbits(48)), exhaustive_points=True)
        evals += max(1, desc.get('frames', 1) - 1)
        stat['points'] += max(0, desc.get('frames', 1) - 1); stat['own_address'] += int(desc.get('own', False)); stat['several'] += int(desc.get('multi', False))
        distinct.add(C.struct_hash(desc))
        if len(samples) < 2:
            samples.append(desc)
        if bad:
            findings.append(dict(signature=dict(family='dm14-intruder'), what=bad[0], scenario=desc, all=bad[:5]))
            break
    return dict(findings=findings, evaluations=evals, distinct_nontrivial=len(distinct), samples=samples, distribution=stat,
                rule="every transaction shape of C17 on two real stacks, re-run with an intruding DM14 (other source address, or the "
                     "requester's own address with another pointer; read/write/erase/other commands; 1 or 3 injections) after EVERY bus frame "
                     "before the closing DM14, in bus order: never passed to the application, answers to the intruder are DM15 failed/busy "
                     "only, no DM16 to it, client result / respond() / callbacks / idle states identical to the undisturbed run")


def replay(ctx, path):
    print(open(path).read()[:3000])
    return 0
