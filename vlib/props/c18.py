"""C18 — DM14 serves no data without the right key, surfaces errors, and recovers."""
import random
from .. import common as C, corr14, dm14oracle as O

PID = 'C18'
PROP_MODULE = 'J1939.Props.C18'
UNITS = ['Dm14.q_dm15_seed', 'Dm14.q_dm15_status', 'Dm14.q_dm15_error', 'Dm14.s_command', 'Dm14.s_pointer_type']
ASSUMPTIONS = ["message level (see C17)",
               "an error response 'carrying an error indicator' is one whose EDCP extension is 6 or 7 (J1939-73); other extensions end the "
               "call without exception (modelled as the code does, not claimed)",
               "the text of the exception (hex code, ErrorInfo name) is checked by the correspondence (known-code flag against the "
               "reflected ErrorInfo keys) and by the oracle on the real strings",
               "a serving application that accepted a request and never calls respond() is outside the property (the server has no timer)"]


def correspondence(ctx):
    return corr14.run(ctx, ctx.n(60, 2500), ctx.n(120, 5000), 18)


def oracle(ctx, full):
    rng = random.Random(ctx.seed * 7907 + 18)
    n = ctx.n(40, 2000, full)
    findings, evals, distinct, samples = [], 0, set(), []
    stat = dict(ops=0, wrongkey=0, refused_proceed=0, refused_respond=0, absent=0)
    for k in range(n):
        sub = random.Random(rng.getrandbits(48))
        if k % 5 == 4:
            bad, desc = O.c18_absent_case(sub)
            stat['absent'] += 1
        else:
            bad, desc = O.c18_case(sub)
            stat['ops'] += len(desc['ops'])
            for o in desc['ops']:
                if o['fail'] == 'wrongkey': stat['wrongkey'] += 1
                if o['fail'] == 'proceed': stat['refused_proceed'] += 1
                if o['fail'] == 'respond': stat['refused_respond'] += 1
        evals += 1
        distinct.add(C.struct_hash(desc))
        if len(samples) < 2:
            samples.append(desc)
        if bad:
            findings.append(dict(signature=dict(family='dm14-errors'), what=bad[0], scenario=desc, all=bad[:5]))
            break
    return dict(findings=findings, evaluations=evals, distinct_nontrivial=len(distinct), samples=samples, distribution=stat,
                rule="histories of 1..6 operations on two real stacks mixing successes with wrong keys (any 16-bit offset, seeds incl. 0 / "
                     "0xFFFE), refusal at the proceed callback, refusal at respond() with defined and undefined 24-bit error codes and EDCP "
                     "6/7, and an absent server (timeouts 1..3 s): exception type and text (hex code, ErrorInfo name), callbacks not run for a "
                     "wrong key, timing of the timeout, both sides idle after every operation, the last operation succeeds")


def replay(ctx, path):
    print(open(path).read()[:3000])
    return 0
