"""C05 — messages reach only the addressed applications; foreign traffic is ignored."""
import random
from .. import common as C, corr21, corr22, genca, pyexec, sim, net21
from ..gen21 import can_id, TP_CM, TP_DT, rand_payload
from . import c12

PID = 'C05'
PROP_MODULE = 'J1939.Props.C05'
UNITS = ['MessageId.ofCanId', 'PGN.from_message_id', 'PGN.is_pdu2_format', 'Tp21.notify_pgn_value']
ASSUMPTIONS = ["J1939-22: the acceptance logic is exercised on the real code by the oracle (both data link layers); Lean theorems are about the J1939-21 layer, "
               "the ECU dispatch and the CA predicate until Model/Dll22 exists",
               "python-can Message/Listener glue is exercised through the real MessageListener with real can.Message objects"]


def correspondence(ctx):
    r = corr22.merge(corr21.run(ctx, ctx.n(40, 1000), ctx.n(120, 4000), 5), corr22.run(ctx, ctx.n(10, 300), ctx.n(60, 2500), 5))
    # listener flags (all 16 combinations) and the ECU dispatch with int / predicate / unfiltered registrations
    lines = [f"listener {a} {b} {c} {d}" for a in (0, 1) for b in (0, 1) for c in (0, 1) for d in (0, 1)]
    rng = random.Random(ctx.seed * 31 + 5)
    for _ in range(ctx.n(60, 1500)):
        s = ["ecu.new", "preddef 0 0 [5,9]", "preddef 0 1 [9,200]"]
        for k in range(rng.randrange(0, 6)):
            s.append(f"sub 0 {rng.randrange(5)} {rng.choice(['n', 'i5', 'i6', 'i0', 'i255', 'p0', 'p1'])}")
        for _ in range(rng.randrange(1, 5)):
            s.append(f"ecu.notify 0 {rng.randrange(8)} {rng.choice([65226, 53248, 0])} {rng.randrange(254)} {rng.choice([255, 5, 6, 9, 0, 200, 77, 254])} [1,2]")
            s.append(f"ecu.acceptable 0 {rng.choice([5, 6, 9, 255, 77])}")
        d = pyexec.diff_script(s, ctx.driver, C.REPO)
        r['traces'] += 1
        r['evaluations'] += len(s)
        if d:
            r['disagreements'].append(d)
            break
    d = pyexec.diff_script(lines, ctx.driver, C.REPO)
    r['traces'] += 1
    r['evaluations'] += len(lines)
    if d:
        r['disagreements'].append(d)
    g = genca.correspondence(ctx, ctx.n(100, 3000), 5)
    r['traces'] += g['traces']
    r['evaluations'] += g['evaluations']
    r['disagreements'] += g['disagreements']
    return r


def addressing_case(rng, dll):
    """one stack with 0..3 CAs in various claim states and ECU-level listeners; frames to every kind of destination"""
    w = sim.World(C.REPO)
    j = w.j
    st = w.new_stack(dll=dll)
    net = sim.Net(w)
    got = []
    regs = []          # (name, predicate over dest) of what each listener may receive
    cas = []
    for k in range(rng.randrange(0, 4)):
        mode = rng.choice(['normal', 'not-started', 'waiting', 'cannot'])
        addr = rng.choice([0x80, 0x90, 0x20, 0xF0])
        ca = j.ControllerApplication(j.Name(value=1000 + k), addr, mode == 'normal')
        st.ecu.add_ca(controller_application=ca)
        ca.subscribe(lambda prio, pgn, sa, ts, data, k=k: got.append((f'ca{k}', pgn, sa, [int(x) for x in data])))
        if mode in ('waiting', 'cannot'):
            ca.start(sim.VT(0)); net.poke(st)
        cas.append((ca, mode))
    net.run(10000)
    for ca, mode in cas:
        if mode == 'cannot':
            net.inject(0, (6 << 26) | (0xEEFF << 8) | ca._device_address_announced, list(j.Name(value=1).bytes), 0)
    net.run(10000)
    for k, a in enumerate(rng.sample([None, 0x33, 0x34, 0x80, 0], rng.randrange(0, 3))):
        st.ecu.subscribe(lambda prio, pgn, sa, ts, data, k=k: got.append((f'ecu{k}', pgn, sa, [int(x) for x in data])), a)
        regs.append((f'ecu{k}', a))
    owned = lambda d: any(a == d for _, a in regs if a is not None) or any(c.state == 2 and c.device_address == d for c, _ in cas)

    def may_receive(name, d):
        if name.startswith('ecu'):
            a = dict(regs)[name]
            return a is None or d == 255 or a == d
        c = cas[int(name[2:])][0]
        return d == 255 or (c.state == 2 and c.device_address == d)      # a broadcast goes to every listener
    bad = []
    dests = list(range(256)) if rng.random() < 0.3 else rng.sample(range(256), 40) + [255, 254, 0x80, 0x90, 0x33, 0x20, 0]
    for d in dests:
        local_sa = [c.device_address for c, m in cas if c.state == 2] + [c._device_address_announced for c, m in cas if c.state == 1]
        for kind in ('pdu1', 'rts', 'dt', 'cts', 'abort', 'claim', 'request', 'fd-rts', 'fd-dt', 'fd-cts'):
            got.clear(); st.sent.clear()
            if dll == 'j1939-22' and kind in ('rts', 'dt', 'cts', 'abort'):
                continue
            if dll == 'j1939-21' and kind.startswith('fd-'):
                continue
            states_before = [(c.state, c._device_address, c._device_address_announced) for c, m in cas]
            if kind == 'pdu1':
                cid, data = can_id(6, 0xD0, d, 0x55), [1, 2, 3]
            elif kind == 'claim':
                # an address claim sent to a SPECIFIC destination, from an address a local CA holds or announces, lower or higher NAME
                cid, data = can_id(6, 0xEE, d, rng.choice(local_sa + [0x55])), list(j.Name(value=rng.choice([1, 1 << 62])).bytes)
            elif kind == 'request':
                cid, data = can_id(6, 0xEA, d, rng.choice(local_sa + [0x55])), rng.choice([[0, 0xEE, 0], [0xCA, 0xFE, 0]])
            elif kind == 'fd-rts':
                cid, data = can_id(7, 0x4D, d, 0x55), [0, 130, 0, 0, 3, 0, 0, 255, 0, 0, 0xD0, 0]
            elif kind == 'fd-dt':
                cid, data = can_id(7, 0x4E, d, 0x55), [0, 1, 0, 0] + [7] * 60
            elif kind == 'fd-cts':
                cid, data = can_id(7, 0x4D, d, 0x55), [1, 255, 255, 255, 1, 0, 0, 1, 0, 0, 0xD0, 0]
            elif kind == 'rts':
                cid, data = can_id(7, TP_CM, d, 0x55), [16, 20, 0, 3, 255, 0, 0xD0, 0]
            elif kind == 'dt':
                cid, data = can_id(7, TP_DT, d, 0x55), [1, 1, 2, 3, 4, 5, 6, 7]
            elif kind == 'cts':
                cid, data = can_id(7, TP_CM, d, 0x55), [17, 1, 1, 255, 255, 0, 0xD0, 0]
            elif kind == 'abort':
                cid, data = can_id(7, TP_CM, d, 0x55), [255, 1, 255, 255, 255, 0, 0xD0, 0]
            else:
                continue
            before = (dict(st.ecu.j1939_dll._rcv_buffer), dict(st.ecu.j1939_dll._snd_buffer))
            is_owned = owned(d)          # judged BEFORE the frame: a claim may take the address away
            st.notify(cid, data)
            if d != 255 and not is_owned:
                states_after = [(c.state, c._device_address, c._device_address_announced) for c, m in cas]
                if got or st.sent or (dict(st.ecu.j1939_dll._rcv_buffer), dict(st.ecu.j1939_dll._snd_buffer)) != before or states_after != states_before:
                    bad.append(f"{kind} frame {cid:#x} to unowned address {d:#x} ({dll}): deliveries {got}, transmitted {[(hex(f[1]), f[3]) for f in st.sent]}, "
                               f"tables changed {(dict(st.ecu.j1939_dll._rcv_buffer), dict(st.ecu.j1939_dll._snd_buffer)) != before}, "
                               f"CA states {states_before} -> {states_after}")
            elif states_before != [(c.state, c._device_address, c._device_address_announced) for c, m in cas] and kind in ('claim',):
                # an owned / global destination: the claim was for us — restore so that later probes see the same CAs
                return bad, dict(dll=dll, cas=[(m, c.state, c.device_address) for c, m in cas], regs=regs, stopped='claim changed a CA')
            if kind == 'pdu1':
                wrong = [g for g in got if not may_receive(g[0], d)]
                missing = [n for n in ([r[0] for r in regs] + [f'ca{k}' for k in range(len(cas))]) if may_receive(n, d) and (d == 255 or is_owned) and not any(g[0] == n for g in got)]
                if wrong or missing:
                    bad.append(f"PDU1 single frame to {d:#x} ({dll}): delivered to {[g[0] for g in got]}; not entitled {[g[0] for g in wrong]}; missing {missing}")
            # drop any session the RTS may have opened before the next probe
            st.ecu.j1939_dll._rcv_buffer.clear()
            if bad:
                return bad, dict(dll=dll, cas=[(m, c.state, c.device_address) for c, m in cas], regs=regs)
    # a complete destination-specific multi-packet transfer from a foreign node (built by hand: a peer may move ANY parameter group
    # this way, PDU2 groups included) is delivered to exactly the listeners entitled to that destination
    for d in [x for x in (0x80, 0x90, 0x20, 0xF0, 0x33, 0x34, 0) if owned(x)][:3]:
        for P in (0xD000, 0xFECA, 0xFEE3):
            got.clear(); st.sent.clear()
            pg = [P & 255, (P >> 8) & 255, P >> 16]
            if dll == 'j1939-22':
                payload = [(7 * i + d + P) & 255 for i in range(120)]
                st.notify(can_id(7, 0x4D, d, 0x55), [0, 120, 0, 0, 2, 0, 0, 255, 0] + pg)
                st.notify(can_id(7, 0x4E, d, 0x55), [0, 1, 0, 0] + payload[:60])
                st.notify(can_id(7, 0x4E, d, 0x55), [0, 2, 0, 0] + payload[60:])
                st.notify(can_id(7, 0x4D, d, 0x55), [2, 120, 0, 0, 2, 0, 0, 0, 0] + pg)
            else:
                payload = [(7 * i + d + P) & 255 for i in range(14)]
                st.notify(can_id(7, TP_CM, d, 0x55), [16, 14, 0, 2, 255] + pg)
                st.notify(can_id(7, TP_DT, d, 0x55), [1] + payload[:7])
                st.notify(can_id(7, TP_DT, d, 0x55), [2] + payload[7:])
            wrong = [g for g in got if not may_receive(g[0], d) or g[3] != payload]
            must = [f'ca{k}' for k, (c, m) in enumerate(cas) if c.state == 2 and c.device_address == d]
            missing = [n for n in must if [g[0] for g in got].count(n) != 1]
            if wrong or missing:
                bad.append(f"multi-packet transfer of PGN {P:#x} from 0x55 to {d:#x} ({dll}): delivered to {[g[0] for g in got]}; not entitled or wrong data "
                           f"{[g[0] for g in wrong]}; operational CA at that address without exactly one delivery {missing}")
                return bad, dict(dll=dll, cas=[(m, c.state, c.device_address) for c, m in cas], regs=regs)
            st.ecu.j1939_dll._rcv_buffer.clear()
    # PDU2 broadcast reaches every listener and every operational CA
    got.clear()
    st.notify(0x18FECA55, [9, 9, 9])
    names = [r[0] for r in regs] + [f'ca{k}' for k, (c, m) in enumerate(cas)]
    if sorted(g[0] for g in got) != sorted(names):
        bad.append(f"PDU2 broadcast ({dll}) reached {sorted(g[0] for g in got)}, expected {sorted(names)}")
    return bad, dict(dll=dll, cas=[(m, c.state, c.device_address) for c, m in cas], regs=regs)


def listener_case(j):
    """the bus listener forwards exactly the extended data frames: all 8 combinations of extended / error / remote"""
    import sys
    import can
    bad = []
    for ext in (False, True):
        for err in (False, True):
            for rtr in (False, True):
                got = []

                class E:
                    def notify(self, cid, data, ts):
                        got.append(cid)
                L = sys.modules['j1939.electronic_control_unit'].MessageListener(E())
                L.on_message_received(can.Message(arbitration_id=0x18FECA21 if ext else 0x123, is_extended_id=ext, is_error_frame=err,
                                                  is_remote_frame=rtr, data=[] if rtr else [1, 2]))
                if bool(got) != (ext and not err and not rtr):
                    bad.append(f"bus listener {'forwarded' if got else 'dropped'} a frame with extended={ext} error={err} remote={rtr}")
    return bad, dict(kind='listener-flags')


def bystander_case(rng):
    """a complete foreign RTS/CTS session and a foreign BAM observed by a third stack"""
    sc = net21.Scenario(C.REPO, rng.getrandbits(32), 3, maxcmdt=[rng.choice([1, 3, 255])] * 3)
    sc.stacks[2].ecu.subscribe(sc._cb(2, 'all'), None)
    sc.send(0, 0, 208, sc.addrs[1], 6, rand_payload(rng, rng.choice([9, 30, 100])))
    sc.net.run(5_000_000, stop=lambda: sc.tables_empty() and sc.net.quiet())
    by = sc.stacks[2]
    bad = []
    if by.sent:
        bad.append(f"bystander transmitted {[(hex(f[1]), f[3]) for f in by.sent]}")
    if [d for d in sc.deliv if d[1] == 2]:
        bad.append(f"bystander delivered {[d for d in sc.deliv if d[1] == 2][:2]}")
    return bad, dict(kind='bystander')


def oracle(ctx, full):
    rng = random.Random(ctx.seed * 7907 + 5)
    n = ctx.n(40, 1200, full)
    findings, evals, distinct, samples = [], 0, set(), []
    for k in range(n):
        sub = random.Random(rng.getrandbits(48))
        if k == 0:
            bad, desc = listener_case(sim.load(C.REPO))
        else:
            bad, desc = bystander_case(sub) if k % 5 == 4 else addressing_case(sub, 'j1939-21' if k % 2 == 0 else 'j1939-22')
        evals += 1
        distinct.add(C.struct_hash(desc))
        if len(samples) < 2:
            samples.append(desc)
        if bad:
            findings.append(dict(signature=dict(family='addressing', dll=desc.get('dll')), what=bad[0], scenario=desc, all=bad[:5]))
            break
    return dict(findings=findings, evaluations=evals, distinct_nontrivial=len(distinct), samples=samples,
                rule="one real stack (both data link layers) holding 0-3 CAs (operational / not started / waiting for veto / cannot-claim) and 0-2 "
                     "ECU-level listeners (unfiltered / integer address): PDU1 single frames and TP RTS/DT/CTS/abort frames to 40..256 destinations "
                     "each: unowned destinations produce no delivery, no frame, no table change; owned ones reach exactly the entitled listeners; a "
                     "PDU2 broadcast reaches everybody; a complete foreign session leaves a bystander silent; destination-specific address claims and "
                     "requests (from addresses the local CAs hold) and FD.TP frames to unowned destinations likewise change nothing, not even a claim "
                     "state; the bus listener forwards exactly extended, non-error, non-remote frames (all 8 flag combinations)")


def replay(ctx, path):
    print(open(path).read()[:3000])
    return 0
