"""C02 — J1939-22 (FD) transport: intact exactly-once delivery, concurrent sessions, capacity refusal."""
import random
from .. import common as C, corr22, net21, sim
from ..gen21 import rand_payload
from ..gen22 import size22

PID = 'C02'
PROP_MODULE = 'J1939.Props.C02'
UNITS = ['Tp22.buffer_hash', 'Tp22.cm', 'Tp22.rts', 'Tp22.cts', 'Tp22.eom_status', 'Tp22.eom_ack', 'Tp22.bam', 'Tp22.abort', 'Tp22.dt',
         'Tp22.cm_control', 'Tp22.cm_session', 'Tp22.cm_size', 'Tp22.cm_segment', 'Tp22.cm_pgn', 'Tp22.cm_byte7', 'Tp22.dt_session',
         'Tp22.dt_segment', 'Tp22.num_segments']
ASSUMPTIONS = ["latency in (0, 5 ms]: replies are processed after the handler that caused them (atomic handlers), as the property states",
               "numpy split/reshape/tolist is modelled as 60-byte chunking (incl. the empty trailing chunk) and differential-tested for every residue mod 60",
               "source address 255 is not a legal sender (a CTS 'from' 255 could address a broadcast record)"]


def correspondence(ctx):
    return corr22.run(ctx, ctx.n(200, 8000), ctx.n(30, 1000), 2, n_lossy=ctx.n(40, 1500))


def network_case(rng):
    n = rng.choice([2, 2, 3])
    maxc = [rng.choice([1, 2, 3, 8, 254, 255, rng.randrange(1, 256)]) for _ in range(n)]
    lat = rng.choice([[1], [1000], [5000], [1, 300, 1000, 5000], [4000, 5000]])
    sc = net21.Scenario(C.REPO, rng.getrandbits(32), n, dll='j1939-22', maxcmdt=maxc, latency=lambda r, a, b, f: r.choice(lat),
                        tick_latency=lambda r, i: r.choice([0, 0, 500, 2000]))
    bad = []
    # up to 8 RTS/CTS + 4 BAM sessions per originator, both directions, all submitted up front or staggered
    plan = []
    for i in range(n):
        nr = rng.choice([0, 1, 2, 8, 8, 9, 10])
        nb = rng.choice([0, 0, 1, 4, 5])
        for k in range(nr):
            j = rng.choice([x for x in range(n) if x != i])
            plan.append((i, 'r', rng.choice([208, 0, 100]), sc.addrs[j], rand_payload(rng, max(61, size22(rng)) if rng.random() < 0.8 else rng.choice([61, 120, 121, 3000]))))
        for k in range(nb):
            plan.append((i, 'b', rng.choice([254, 255, 240]), rng.randrange(256), rand_payload(rng, rng.choice([61, 120, 130, 400, 400, 4800, 9000] if rng.random() < 0.5 else [61, 120, 130]))))
    rng.shuffle(plan)
    upfront = rng.random() < 0.6
    cnt = {}
    for (i, kind, pf, ps, data) in plan:
        ok = sc.send(i, len(data) & 1 if pf in (100, 240, 254) else 0, pf, ps, 6, data)      # both data pages
        if upfront:
            key = (i, kind)
            cnt[key] = cnt.get(key, 0) + 1
            limit = 8 if kind == 'r' else 4
            if ok and cnt[key] > limit:
                bad.append(f"send_pgn accepted session {cnt[key]} of kind {kind} on stack {i} (capacity {limit})")
            if not ok and cnt[key] <= limit:
                bad.append(f"send_pgn refused session {cnt[key]} of kind {kind} on stack {i} although capacity {limit} was not used up")
        else:
            sc.net.run(rng.choice([0, 1000, 20000, 200000]))
    sc.net.run(200_000_000, stop=lambda: sc.tables_empty() and sc.net.quiet())
    if sc.net.errors:
        bad.append(f"exception {sc.net.errors[0]}")
    r = net21.check_exactly_once(sc)
    if r:
        bad.append(r)
    if not sc.tables_empty():
        bad.append("session tables not empty at the end")
    for k, s in enumerate(sc.stacks):
        d = s.ecu.j1939_dll
        if not all(d._J1939_22__rts_cts_session_list) or not all(d._J1939_22__bam_session_list):
            bad.append(f"stack {k}: session pools not full after all transfers finished: {d._J1939_22__rts_cts_session_list} {d._J1939_22__bam_session_list}")
    return bad, dict(n=n, maxcmdt=maxc, latency=lat, sessions=len(plan), sizes=sorted(len(p[4]) for p in plan)[:12])


def oracle(ctx, full):
    rng = random.Random(ctx.seed * 7907 + 2)
    n = ctx.n(60, 2500, full)
    findings, evals, distinct, samples = [], 0, set(), []
    for _ in range(n):
        bad, desc = network_case(random.Random(rng.getrandbits(48)))
        evals += 1
        distinct.add(C.struct_hash(desc))
        if len(samples) < 2:
            samples.append(desc)
        if bad:
            findings.append(dict(signature=dict(family='fd-network-delivery'), what=bad[0], scenario=desc, all=bad[:5]))
            break
    return dict(findings=findings, evaluations=evals, distinct_nontrivial=len(distinct), samples=samples,
                rule="2-3 real J1939-22 stacks, per originator 0..10 destination-specific and 0..5 broadcast messages of 61..20000 bytes (residues "
                     "mod 60 favoured) submitted together or staggered, both directions, windows 1..255, latencies in (0, 5 ms], scheduling "
                     "latency <= 2 ms: sessions beyond 8 + 4 must be refused, all accepted ones delivered exactly once byte-identical, tables and "
                     "pools back to full")


def replay(ctx, path):
    print(open(path).read()[:3000])
    return 0
