"""C09 — flow control and pacing (J1939-21 part proved in lean/J1939/Props/C09.lean)."""
import random, json
from .. import common as C, corr21, corr22, net21, sim
from ..gen21 import rand_payload

PID = 'C09'
PROP_MODULE = 'J1939.Props.C09'
UNITS = ['Tp21.buffer_hash', 'Tp21.dt', 'Tp21.cts', 'Tp21.rts', 'Tp21.bam', 'Tp21.abort', 'Tp21.eom_ack', 'Tp21.cm_pgn', 'Tp21.cm_control',
         'Tp21.rts_size', 'Tp21.rts_packets', 'Tp21.rts_max', 'Tp21.cts_packets', 'Tp21.cts_next', 'Tp21.num_packets']
ASSUMPTIONS = ["theorems are single-step (every state / record / frame); the trace statement follows by induction over a session's events",
               "CTS frames are well-formed for the session (n >= 1, next = sent + 1 <= total) as a reference responder produces them",
               "J1939-22 pacing is covered by correspondence/oracle only until Model/Dll22 theorems are added"]


def correspondence(ctx):
    a = corr21.run(ctx, ctx.n(150, 5000), ctx.n(40, 1500), 9)
    b = corr22.run(ctx, ctx.n(60, 2500), ctx.n(10, 400), 9)          # J1939-22 windows and pacing through the model
    return corr22.merge(a, b)


def stack_vs_stack(rng):
    n = rng.choice([2, 3])
    maxc = [rng.choice([1, 2, 3, 7, 254, 255, rng.randrange(1, 256)]) for _ in range(n)]
    bam_iv = rng.choice([None, None, 10000, 30000, 100000, 190000])
    cmdt_iv = rng.choice([None, None, 1000, 20000, 50000])
    eps = rng.choice([0, 100, 2000])
    lat = rng.choice([[0], [1], [1000], [5000], [0, 1, 300, 1000, 5000]])
    sc = net21.Scenario(C.REPO, rng.getrandbits(32), n, maxcmdt=maxc, bam=[bam_iv] * n, cmdt=[cmdt_iv] * n,
                        latency=lambda r, a, b, f: r.choice(lat), tick_latency=lambda r, i: r.randrange(0, eps + 1))
    k = rng.randrange(1, 4)
    used = set()
    for _ in range(k):
        i = rng.randrange(n)
        if rng.random() < 0.4:
            key, pf, ps = (i, 255), rng.choice([254, 255]), rng.randrange(256)
        else:
            j = rng.choice([x for x in range(n) if x != i])
            key, pf, ps = (i, j), 208, sc.addrs[j]
        if key in used:
            continue
        used.add(key)
        sc.send(i, 0, pf, ps, 6, rand_payload(rng, rng.choice([9, 15, 22, 50, 100, 300, 1785])))
    sc.net.run(80_000_000, stop=lambda: sc.tables_empty() and sc.net.quiet())
    iv = bam_iv if bam_iv is not None else 50000
    own = {sc.addrs[i]: maxc[i] for i in range(n)}
    bad = net21.flow_control_violations(sc.net.bus, bam_min=iv, bam_max=max(iv, 50000) + eps + 1 if iv <= 200000 else None, own_max=own)
    if cmdt_iv:
        last = {}
        for (t, src, cid, data, fd) in sc.net.bus:
            pr, dp, pf, ps, sa = net21.parse_frame(cid, data)
            if pf == net21.TP_DT and ps != 255:
                if (sa, ps) in last and data[0] != 1 and t - last[(sa, ps)][0] < cmdt_iv and last[(sa, ps)][1] == 'dt':
                    bad.append(f"t={t}: connection-mode packets {t - last[(sa, ps)][0]} us apart (< {cmdt_iv})")
                last[(sa, ps)] = (t, 'dt')
            elif pf == net21.TP_CM and data and data[0] == 17:
                last[(ps, sa)] = (t, 'cts')
    if sc.net.errors:
        bad.append(f"exception {sc.net.errors[0]}")
    r = net21.check_exactly_once(sc)
    if r:
        bad.append(r)
    return bad, dict(n=n, maxcmdt=maxc, bam=bam_iv, cmdt=cmdt_iv, latency=lat, eps=eps, sent=[(a[0], a[2], a[3], len(a[6])) for a in sc.accepted])


def stack_vs_peer(rng):
    """the real stack as originator against the reference responder (windows, holds) and as responder against the
    reference originator (RTS limits)"""
    own_max = rng.choice([1, 2, 3, 8, 255, rng.randrange(1, 256)])
    cm_iv = rng.choice([None, None, None, 1000, 20000])        # the stack's optional minimum interval between connection-mode packets
    sc = net21.Scenario(C.REPO, rng.getrandbits(32), 1, maxcmdt=[own_max], cmdt=[cm_iv], addrs=[0x21])
    bad = []
    if rng.random() < 0.5:
        wmode = rng.choice(['max', 'one', 'rand'])
        window = (lambda lim, rem: min(lim, rem)) if wmode == 'max' else ((lambda lim, rem: 1) if wmode == 'one' else (lambda lim, rem: rng.randrange(1, min(lim, rem) + 1)))
        peer = net21.RefPeer21(sc, 0x55, rng, window=window, holds=rng.choice([0, 0, 1, 2, 3]), hold_gap=rng.choice([1000, 100000, 400000]),
                               reply_latency=rng.choice([0, 1000, 50000, 150000]))
        data = rand_payload(rng, rng.choice([9, 15, 22, 64, 200, 1785]))
        silent = peer.holds > 0 and rng.random() < 0.35
        peer.silent = silent
        sc.send(0, 0, 208, 0x55, 6, data)
        if silent:
            # the responder falls silent after its last hold: nothing may be sent any more, the stack gives up after Th
            net21.run_with_peer(sc, peer, 3_000_000 + peer.holds * peer.hold_gap + peer.lat)
            t_hold = max([t for (t, src, cid, d, fd) in sc.net.bus if src == 'peer'] + [0])
            late = [(t, d[0]) for (t, src, cid, d, fd) in sc.net.bus if src != 'peer' and (cid >> 16) & 0xFF == net21.TP_DT and t > t_hold]
            if late:
                bad.append(f"TP.DT {late[0][1]} sent at t={late[0][0]} after a hold CTS (t={t_hold}) without a new CTS")
            if not peer.aborted:
                bad.append("no connection abort after the responder fell silent on a hold")
            elif peer.aborted[0][0] > t_hold + 500000 + 10000:
                bad.append(f"gave up {peer.aborted[0][0] - t_hold} us after the last hold")
            if sc.net.errors:
                bad.append(f"exception {sc.net.errors[0]}")
            return bad, dict(role='originator', own_max=own_max, holds=peer.holds, hold_gap=peer.hold_gap, lat=peer.lat, size=len(data), silent=True)
        net21.run_with_peer(sc, peer, 5_000_000 + ((len(data) + 6) // 7) * (peer.lat + 2000 + (cm_iv or 0)) * 2 + peer.holds * peer.hold_gap)
        bad += peer.log
        if peer.aborted:
            bad.append(f"stack aborted the transfer (reason {peer.aborted[0][2]}) although the responder was conforming")
        elif peer.done != [(0x21, 0xD000, data)]:
            bad.append(f"reference responder reassembled {str(peer.done)[:100]} instead of the {len(data)}-byte message")
        desc = dict(role='originator', own_max=own_max, window=wmode, holds=peer.holds, hold_gap=peer.hold_gap, lat=peer.lat, size=len(data), cm_iv=cm_iv)
    else:
        limit = rng.choice([1, 2, 3, 5, 16, 254, 255, rng.randrange(1, 256)])
        peer = net21.RefPeer21(sc, 0x55, rng, reply_latency=rng.choice([0, 1000, 20000]))
        data = rand_payload(rng, rng.choice([9, 15, 22, 64, 200, 1785]))
        peer.originate(0x21, 0xD000, data, limit=limit, dt_gap=rng.choice([0, 1000, 50000]))
        net21.run_with_peer(sc, peer, 5_000_000 + ((len(data) + 6) // 7) * (peer.lat + 52000) * 2)
        n = (len(data) + 6) // 7
        got = 0
        for (t, nn, nxt) in peer.tx['cts']:
            if nn > limit or nn > own_max or nn > n - (nxt - 1):
                bad.append(f"CTS grants {nn} (RTS limit {limit}, own maximum {own_max}, remaining {n - (nxt - 1)})")
            if nxt != got + 1:
                bad.append(f"CTS asks for packet {nxt}, {got} packets sent so far")
            got += nn
        dl = [d for d in sc.payload_deliveries()]
        if dl != [(0, 0xD000, 0x55, data)]:
            bad.append(f"responder delivered {str(dl)[:100]}")
        if peer.tx['acked'] != (len(data), n, [0, 0xD0, 0]):
            bad.append(f"end-of-message ack {peer.tx['acked']}")
        desc = dict(role='responder', own_max=own_max, rts_limit=limit, size=len(data))
    if sc.net.errors:
        bad.append(f"exception {sc.net.errors[0]}")
    return bad, desc


def grant_grid_case(rng):
    """the responder's grants on a grid of (own maximum, RTS limit, message size) around the boundaries: every CTS grants at most
    min(RTS limit, own maximum, packets remaining) — incl. the RTS limit 255 ('no limit') with a short message"""
    bad = []
    for own_max in (1, 3, 5, 255):
        for limit in (1, 4, 255):
            for size in (9, 22, 64):
                sc = net21.Scenario(C.REPO, rng.getrandbits(32), 1, maxcmdt=[own_max], addrs=[0x21])
                peer = net21.RefPeer21(sc, 0x55, rng, reply_latency=1000)
                data = rand_payload(rng, size)
                peer.originate(0x21, 0xD000, data, limit=limit, dt_gap=0)
                net21.run_with_peer(sc, peer, 5_000_000 + ((len(data) + 6) // 7) * (peer.lat + 52000) * 2)
                n = (len(data) + 6) // 7
                for (t, nn, nxt) in peer.tx['cts']:
                    if nn > limit or nn > own_max or nn > n - (nxt - 1):
                        bad.append(f"CTS grants {nn} (RTS limit {limit}, own maximum {own_max}, remaining {n - (nxt - 1)}, {size}-byte message)")
                if [d for d in sc.payload_deliveries()] != [(0, 0xD000, 0x55, data)]:
                    bad.append(f"responder did not deliver the {size}-byte message (RTS limit {limit}, own maximum {own_max})")
                if bad:
                    return bad, dict(role='responder', kind='grant-grid', own_max=own_max, rts_limit=limit, size=size)
    return bad, dict(role='responder', kind='grant-grid')


def fd_bam_pacing(rng):
    """J1939-22: an otherwise idle stack broadcasting over FD.TP: consecutive FD.TP.DT frames of the session are at least
    the configured interval and at most interval + scheduling latency apart (the background thread sleeps exactly as
    long as it asked to), and the message arrives"""
    bam_iv = rng.choice([None, 10000, 50000, 190000])
    eps = rng.choice([0, 100, 2000])
    sc = net21.Scenario(C.REPO, rng.getrandbits(32), 2, dll='j1939-22', maxcmdt=[1, 1], bam=[bam_iv] * 2,
                        latency=lambda r, a, b, f: r.choice([1, 1000]), tick_latency=lambda r, i: r.randrange(0, eps + 1))
    size = rng.choice([61, 150, 400, 1000])
    sc.send(0, 0, rng.choice([254, 255]), rng.randrange(256), 6, rand_payload(rng, size))
    sc.net.run(60_000_000, stop=lambda: sc.tables_empty() and sc.net.quiet())
    iv = bam_iv if bam_iv is not None else 10000
    bad, last = [], None
    for (t, src, cid, data, fd) in sc.net.bus:
        if (cid >> 16) & 0xFF == 0x4E and src == 0:
            if last is not None:
                gap = t - last
                if gap < iv:
                    bad.append(f"FD.TP.DT segments of a broadcast {gap} us apart (< {iv})")
                if gap > iv + eps + 1:
                    bad.append(f"FD.TP.DT segments of a broadcast {gap} us apart although the stack is idle (interval {iv}, scheduling latency {eps})")
            last = t
    if sc.net.errors:
        bad.append(f"exception {sc.net.errors[0]}")
    r = net21.check_exactly_once(sc)
    if r:
        bad.append(r)
    return bad, dict(role='fd-bam', bam=bam_iv, eps=eps, size=size)


def fd_flow_case(rng):
    """J1939-22 connection mode, 2 real stacks, windows and a minimum packet interval that may be SHORTER than the round
    trip: in bus order no FD.TP.DT segment goes out beyond what the CTS frames seen so far have granted, a CTS never
    grants more than the RTS limit / the responder's own maximum / what is left, and the message arrives"""
    maxc = [rng.choice([1, 2, 3, 8, 255]), rng.choice([1, 2, 3, 8, 255])]
    iv = rng.choice([None, 500, 1000, 20000])
    lat = rng.choice([1, 1000, 2000, 5000])
    sc = net21.Scenario(C.REPO, rng.getrandbits(32), 2, dll='j1939-22', maxcmdt=maxc, cmdt=[iv] * 2, latency=lambda r, a, b, f: lat)
    size = rng.choice([130, 250, 400, 1000])
    sc.send(0, 0, 208, sc.addrs[1], 6, rand_payload(rng, size))
    sc.net.run(60_000_000, stop=lambda: sc.tables_empty() and sc.net.quiet())
    bad, granted, limit = [], {}, {}
    for (t, src, cid, data, fd) in sc.net.bus:
        pf, ps, sa = (cid >> 16) & 0xFF, (cid >> 8) & 0xFF, cid & 0xFF
        if pf == 0x4D and len(data) >= 12:
            ctl, sess = data[0] & 15, data[0] >> 4
            seg = data[4] | (data[5] << 8) | (data[6] << 16)
            if ctl == 0:
                granted[(sa, ps, sess)] = 0
                limit[(sa, ps, sess)] = (data[7], seg)
            elif ctl == 1 and (ps, sa, sess) in granted:
                lim, total = limit[(ps, sa, sess)]
                if data[7] > lim or data[7] > maxc[src] or (data[7] and seg + data[7] - 1 > total):
                    bad.append(f"t={t}: CTS grants {data[7]} segments from {seg} (RTS limit {lim}, own maximum {maxc[src]}, total {total})")
                if data[7]:
                    granted[(ps, sa, sess)] = seg + data[7] - 1
        elif pf == 0x4E and len(data) > 4:
            sess, seg = data[0] >> 4, data[1] | (data[2] << 8) | (data[3] << 16)
            if (sa, ps, sess) in granted and seg > granted[(sa, ps, sess)]:
                bad.append(f"t={t}: FD.TP.DT segment {seg} sent although the CTS frames so far grant only up to {granted[(sa, ps, sess)]} "
                           f"(interval {iv}, latency {lat})")
    if sc.net.errors:
        bad.append(f"exception {sc.net.errors[0]}")
    r = net21.check_exactly_once(sc)
    if r:
        bad.append(r)
    return bad, dict(role='fd-flow', maxcmdt=maxc, interval=iv, latency=lat, size=size)


def oracle(ctx, full):
    rng = random.Random(ctx.seed * 7907 + 9)
    n = ctx.n(60, 1500, full)
    findings, evals, distinct, samples = [], 0, set(), []
    for k in range(n):
        sub = random.Random(rng.getrandbits(48))
        bad, desc = grant_grid_case(sub) if k == 1 else fd_bam_pacing(sub) if k % 6 == 5 else (fd_flow_case(sub) if k % 6 == 3 else (stack_vs_stack(sub) if k % 2 == 0 else stack_vs_peer(sub)))
        evals += 1
        distinct.add(C.struct_hash(desc))
        if len(samples) < 2:
            samples.append(desc)
        if bad:
            findings.append(dict(signature=dict(family='flow-control', role=desc.get('role', 'both')), what=bad[0], scenario=desc, all=bad[:5]))
            break
    return dict(findings=findings, evaluations=evals, distinct_nontrivial=len(distinct), samples=samples,
                rule="even cases: 2-3 real stacks, windows 1..255 per stack, BAM interval default/10..190 ms, CMDT interval none/1..50 ms, "
                     "latencies {0,1us,1ms,5ms}, scheduling latency <= 2 ms, bus trace checked against the flow-control rules and delivery; odd "
                     "cases: one real stack against the reference responder (windows, 0-3 holds, reply latency <= 150 ms) or the reference "
                     "originator (RTS limit 1..255); once per run a grid of (own maximum 1/3/5/255, RTS limit 1/4/255, 9/22/64 bytes) for the responder's grants; every sixth case: J1939-22 connection mode with windows 1..255 and a packet interval shorter or longer than the round trip (no segment beyond the grants seen so far, no over-grant); every sixth case: J1939-22 broadcast pacing (interval default/10..190 ms) on an idle stack whose thread sleeps as it asked; distinct = distinct scenario descriptions")


def replay(ctx, path):
    print(open(path).read()[:3000])
    return 0
