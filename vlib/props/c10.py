"""C10 — transport capacity is conserved (J1939-21 part proved in lean/J1939/Props/C10.lean)."""
import random, json
from .. import common as C, corr21, corr22, net21, sim
from ..gen21 import rand_payload, can_id, TP_CM, TP_DT

PID = 'C10'
PROP_MODULE = 'J1939.Props.C10'
UNITS = ['Tp21.buffer_hash', 'Tp21.num_packets', 'Tp21.rts', 'Tp21.bam', 'PGN.ofFields', 'PGN.is_pdu2_format', 'PGN.value']
ASSUMPTIONS = ["J1939-21: single-step theorems (refusal iff busy, inbound never touches outbound); release of every record within its timeout is C07's theorem",
               "J1939-22 session pools: correspondence/oracle only until Model/Dll22 theorems are added"]


def correspondence(ctx):
    a = corr21.run(ctx, ctx.n(120, 4000), ctx.n(60, 2000), 10)
    b = corr22.run(ctx, ctx.n(60, 2500), ctx.n(60, 2500), 10, n_lossy=ctx.n(80, 3000))
    return corr22.merge(a, b)


class PairTracker:
    """which (sa, da) pairs carry a transfer, judged from the bus and from the frames actually delivered.
    An abort frame from X to Y does not say which direction it is about (X giving up as originator of X->Y, or X
    refusing/ending as responder of Y->X): it ends a session only when one of the two readings is impossible; a session
    that resumes sending afterwards is re-opened; 1.6 s of silence on a pair ends everything on it (all timeouts are
    <= 1.25 s)."""
    SILENCE = 1_600_000

    def __init__(self):
        self.active = {}     # (sa, da) -> dict(start, total, sent, end, why, bam)
        self.last = {}       # frozenset({a, b}) -> time of the last TP frame between a and b

    def is_open(self, key):
        a = self.active.get(key)
        return a is not None and a['end'] is None

    def on_frame(self, t, cid, data):
        """a frame on the bus: what a stack sends it knows"""
        prio, dp, pf, ps, sa = net21.parse_frame(cid, data)
        if pf in (TP_CM, TP_DT):
            self.last[frozenset((sa, ps))] = t
        if pf == TP_CM and len(data) == 8:
            c = data[0]
            if c in (16, 32):
                self.active[(sa, ps)] = dict(start=t, total=data[3], sent=0, end=None, why=None, bam=(c == 32))
            elif c == 255:
                # an abort from sa to ps: sa may be giving up as originator of sa->ps, or ending a receive session of
                # ps->sa that only it still remembers — the bus does not say which: no verdict for either direction
                self.doubt(sa, ps)
        elif pf == TP_DT:
            a = self.active.get((sa, ps))
            if a:
                if a['end'] is not None and a['why'] == 'abort':
                    a.update(end=None, why=None)                                   # it went on: the abort was not for it
                if a['end'] is None:
                    a['doubt'] = False                                             # it is sending: alive
                    a['sent'] += 1
                    if a['bam'] and a['sent'] >= a['total']:
                        a.update(end=t, why='done')

    def doubt(self, x, y):
        """an abort between x and y was seen: until a session shows life again it may or may not be over"""
        for key in ((x, y), (y, x)):
            if self.is_open(key) and not self.active[key]['bam']:
                self.active[key]['doubt'] = True

    def on_rx(self, t, cid, data):
        """a frame a stack actually received (a lost acknowledgement or abort ends nothing)"""
        prio, dp, pf, ps, sa = net21.parse_frame(cid, data)
        if pf == TP_CM and len(data) == 8:
            if data[0] == 255:
                self.doubt(sa, ps)
            if data[0] == 19 and self.is_open((ps, sa)) and not self.active[(ps, sa)]['bam']:
                self.active[(ps, sa)].update(end=t, why='ack')
            elif data[0] == 255 and not self.is_open((sa, ps)) and self.is_open((ps, sa)) and not self.active[(ps, sa)]['bam']:
                self.active[(ps, sa)].update(end=t, why='abort')

    def status(self, key, t):
        a = self.active.get(key)
        if a is None:
            return 'idle'
        if t - self.last.get(frozenset(key), 0) > self.SILENCE:
            return 'idle'
        if a['end'] is None:
            return 'busy' if t - a['start'] > 0 and not a.get('doubt') else 'ambiguous'
        if a['why'] == 'abort':
            return 'ambiguous' if t - a['end'] < 300_000 else 'idle'      # the originator ignores an abort while it is sending
        return 'idle' if t - a['end'] > 20000 else 'ambiguous'


def history_case(rng):
    n = rng.choice([2, 3])
    drop_from = {}          # stack -> time from which it hears nothing (silent peer)
    lose_k = set(rng.sample(range(200), rng.choice([0, 0, 1, 3])))
    sc = net21.Scenario(C.REPO, rng.getrandbits(32), n, maxcmdt=[rng.choice([1, 2, 3, 255]) for _ in range(n)],
                        latency=lambda r, a, b, f: r.choice([1, 1000, 5000]),
                        loss=lambda k, src, dst, fr: k in lose_k or (dst in drop_from and sc.w.now >= drop_from[dst]))
    tr = PairTracker()
    sc.net.taps.append(lambda src, fr: tr.on_frame(fr[0], fr[1], fr[3]))
    # only what the ADDRESSED stack receives counts (every stack overhears every frame on the bus)
    sc.net.rx_taps.append(lambda dst, cid, data: tr.on_rx(sc.w.now, cid, data) if ((cid >> 8) & 0xFF) == sc.addrs[dst] else None)
    bad = []
    steps = rng.randrange(1, 12)
    lost0 = sorted(lose_k)
    for _ in range(steps):
        sc.net.run(rng.choice([0, 1000, 100000, 400000, 2000000]))
        i = rng.randrange(n)
        r = rng.random()
        if r < 0.1 and not drop_from:
            drop_from[rng.randrange(n)] = sc.w.now + rng.randrange(0, 300000)
            continue
        if r < 0.2:
            # a peer abort for some pair
            j = rng.choice([x for x in range(n) if x != i])
            sc.net.inject(i, can_id(7, TP_CM, sc.addrs[i], sc.addrs[j]), [255, rng.choice([1, 2, 3]), 255, 255, 255, 0, 208, 0], 0)
            continue
        if rng.random() < 0.35:
            pf, ps = rng.choice([254, 255, 240]), rng.choice([sc.addrs[rng.randrange(n)], rng.randrange(256)])
            key = (sc.addrs[i], 255)
        else:
            j = rng.choice([x for x in range(n) if x != i])
            pf, ps = rng.choice([208, 100]), sc.addrs[j]
            key = (sc.addrs[i], ps)
        st = tr.status(key, sc.w.now)
        ok = sc.send(i, 0, pf, ps, 6, rand_payload(rng, rng.choice([9, 20, 50, 200])))
        if not ok and st == 'idle':
            bad.append(f"send_pgn refused although no transfer on pair {key[0]:#x}->{key[1]:#x} is in progress")
        if ok and st == 'busy':
            bad.append(f"send_pgn accepted a second transfer on busy pair {key[0]:#x}->{key[1]:#x}")
        if bad:
            break
    # after the longest timeout everything must have been released, then the full advertised concurrency works
    drop_from.clear()
    lose_k.clear()
    sc.net.run(4_000_000)
    if not bad and not sc.tables_empty():
        left = [(hex(k), b['state']) for s in sc.stacks for k, b in s.ecu.j1939_dll._snd_buffer.items()]
        bad.append(f"session tables not empty 4 s after the history: send {left} receive "
                   f"{[hex(k) for s in sc.stacks for k in s.ecu.j1939_dll._rcv_buffer]}")
    if not bad:
        sc.deliv.clear()
        sc.accepted.clear()
        for i in range(n):
            for j in range(n):
                if i != j and not sc.send(i, 0, 208, sc.addrs[j], 6, rand_payload(rng, rng.choice([9, 30]))):
                    bad.append(f"after the history: transfer {sc.addrs[i]:#x}->{sc.addrs[j]:#x} refused")
            if not sc.send(i, 0, 254, rng.randrange(255), 6, rand_payload(rng, 12)):
                bad.append(f"after the history: broadcast from {sc.addrs[i]:#x} refused")
        sc.net.run(10_000_000, stop=lambda: sc.tables_empty() and sc.net.quiet())
        r = net21.check_exactly_once(sc)
        if r:
            bad.append("after the history: " + r)
    if sc.net.errors:
        bad.append(f"exception {sc.net.errors[0]}")
    return bad, dict(n=n, steps=steps, lost=lost0, frames=len(sc.net.bus))


def history_case22(rng):
    """J1939-22: a history of transfers with lost frames, injected peer aborts and silent peers; afterwards both pools are
    full, the tables empty, and 8 destination-specific + 4 broadcast sessions start at once and all complete"""
    n = 2
    drop_from = {}
    lose_k = set(rng.sample(range(120), rng.choice([0, 1, 2, 4])))
    sc = net21.Scenario(C.REPO, rng.getrandbits(32), n, dll='j1939-22', maxcmdt=[rng.choice([1, 2, 3, 255]) for _ in range(n)],
                        latency=lambda r, a, b, f: r.choice([1, 1000, 5000]),
                        loss=lambda k, src, dst, fr: k in lose_k or (dst in drop_from and sc.w.now >= drop_from[dst]))
    bad = []
    steps = rng.randrange(1, 14)
    for _ in range(steps):
        sc.net.run(rng.choice([0, 1000, 100000, 400000, 2000000, 3500000]))
        i = rng.randrange(n)
        r = rng.random()
        if r < 0.1 and not drop_from:
            drop_from[rng.randrange(n)] = sc.w.now + rng.randrange(0, 300000)
            continue
        if r < 0.25:
            j = 1 - i
            sess = rng.randrange(8)
            sc.net.inject(i, (7 << 26) | (0x4D << 16) | (sc.addrs[i] << 8) | sc.addrs[j],
                          [15 | (sess << 4), 255, 255, 255, 255, 255, 255, 255, rng.choice([1, 2, 3]), 0, 208, 0], 0)
            continue
        if rng.random() < 0.3:
            # PDU2 broadcasts and PDU1 PGNs sent to the global address (both must come from the broadcast pool)
            pf, ps = rng.choice([(254, rng.randrange(256)), (255, rng.randrange(256)), (100, 255), (239, 255)])
            sc.send(i, 0, pf, ps, 6, rand_payload(rng, rng.choice([61, 130, 200])))
        else:
            sc.send(i, 0, 208, sc.addrs[1 - i], 6, rand_payload(rng, rng.choice([61, 120, 130, 300])))
    drop_from.clear(); lose_k.clear()
    sc.net.run(7_000_000)
    if not sc.tables_empty():
        bad.append(f"J1939-22 session tables not empty 7 s after the history: " +
                   str([(hex(k), b['state']) for s in sc.stacks for k, b in s.ecu.j1939_dll._snd_buffer.items()]) +
                   str([hex(k) for s in sc.stacks for k in s.ecu.j1939_dll._rcv_buffer]))
    for k, s in enumerate(sc.stacks):
        d = s.ecu.j1939_dll
        if not bad and (not all(d._J1939_22__rts_cts_session_list) or not all(d._J1939_22__bam_session_list)):
            bad.append(f"stack {k}: session pools not full after the history: rts/cts {d._J1939_22__rts_cts_session_list} bam {d._J1939_22__bam_session_list}")
    if not bad:
        sc.deliv.clear(); sc.accepted.clear()
        for i in range(n):
            for k in range(8):
                if not sc.send(i, 0, 208, sc.addrs[1 - i], 6, rand_payload(rng, rng.choice([61, 130]))):
                    bad.append(f"after the history: destination-specific session {k + 1} of 8 refused on stack {i}")
            for k in range(4):
                if not sc.send(i, 0, 254, k, 6, rand_payload(rng, 70)):
                    bad.append(f"after the history: broadcast session {k + 1} of 4 refused on stack {i}")
        sc.net.run(30_000_000, stop=lambda: sc.tables_empty() and sc.net.quiet())
        r = net21.check_exactly_once(sc)
        if r:
            bad.append("after the history (8+4 at once): " + r)
    if sc.net.errors:
        bad.append(f"exception {sc.net.errors[0]}")
    return bad, dict(dll='j1939-22', steps=steps, frames=len(sc.net.bus))


def oracle(ctx, full):
    rng = random.Random(ctx.seed * 7907 + 10)
    n = ctx.n(80, 3000, full)
    findings, evals, distinct, samples = [], 0, set(), []
    for _ in range(n):
        sub = random.Random(rng.getrandbits(48))
        bad, desc = history_case(sub) if evals % 2 == 0 else history_case22(sub)
        evals += 1
        distinct.add(C.struct_hash(desc))
        if len(samples) < 2:
            samples.append(desc)
        if bad:
            findings.append(dict(signature=dict(family='capacity-history', dll=desc.get('dll', 'j1939-21')), what=bad[0], scenario=desc, all=bad[:5]))
            break
    return dict(findings=findings, evaluations=evals, distinct_nontrivial=len(distinct), samples=samples,
                rule="histories of 1..11 steps on 2-3 real J1939-21 stacks: transfers (peer-to-peer and PDU1/PDU2 broadcasts, sizes 9..200) at "
                     "random instants, frames lost, peer aborts injected, a peer falling silent; every send_pgn result judged against a bus-only "
                     "tracker of busy pairs; then 4 s of quiet (tables must be empty) and all n(n-1) peer-to-peer pairs plus one broadcast per "
                     "stack at once, all of which must be accepted and delivered exactly once")


def replay(ctx, path):
    print(open(path).read()[:3000])
    return 0
