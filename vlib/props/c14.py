"""C14 — PGN requests reach exactly the addressed operational CAs; claims are answered."""
import random
from .. import common as C, genca, sim

PID = 'C14'
PROP_MODULE = 'J1939.Props.C14'
UNITS = ['Ca.request_data', 'Ca.request_pgn', 'MessageId.ofFields', 'MessageId.can_id', 'MessageId.ofCanId', 'PGN.ofFields', 'PGN.value',
         'PGN.from_message_id', 'PGN.is_pdu2_format', 'Tp21.notify_pgn_value', 'Name.bytes']
ASSUMPTIONS = ["data_page = 0 for the request frame's own PGN (SAE defines the Request PGN on page 0 only); data_page = 1 is modelled as the code behaves "
               "(frame with PGN 0x1EA00, which no node treats as a request) and reported as an observation",
               "J1939-21 (the property's scope)"]


def correspondence(ctx):
    return genca.correspondence(ctx, ctx.n(400, 15000), 14)


def request_case(rng):
    w = sim.World(C.REPO)
    j = w.j
    req_stack = w.new_stack()
    resp = w.new_stack()
    net = sim.Net(w, latency=lambda r, a, b, f: r.choice([1, 1000]))
    # the requester: a CA operational at 0x10, or a CA that holds no address yet (it may only ask for address claims, from 254)
    homeless = rng.random() < 0.3
    req_ca = j.ControllerApplication(j.Name(value=5), 0x10, not homeless)
    req_stack.ecu.add_ca(controller_application=req_ca)
    req_sa = 254 if homeless else 0x10
    cas = []
    called = []
    for k in range(rng.randrange(1, 4)):
        # 'bypass-idle': operational by configuration, start() never called; 'stopped': claimed its address, then stop()
        mode = rng.choice(['normal', 'normal', 'not-started', 'waiting', 'cannot', 'moved', 'bypass-idle', 'stopped'])
        addr = rng.choice([0x80, 0x81, 0x90, 0x20, 0])          # 0 is a valid address
        nm = j.Name(value=(1 << 63) * (mode == 'moved') + 1000 + k)
        ca = j.ControllerApplication(nm, addr, mode == 'bypass-idle' or (mode == 'normal' and rng.random() < 0.5))
        resp.ecu.add_ca(controller_application=ca)
        ca.subscribe_request(lambda sa, da, pgn, k=k: called.append((k, sa, da, pgn)))
        if mode not in ('not-started', 'bypass-idle'):
            ca.start(sim.VT(0))
            net.poke(resp)
        cas.append((ca, mode))
    net.run(100000)
    for ca, mode in cas:
        if mode == 'stopped':
            net.run(600000)
            ca.stop()
    lowname = list(j.Name(value=1).bytes)
    for ca, mode in cas:
        if mode in ('cannot', 'moved') and ca._device_address_announced != 254:
            net.inject(1, (6 << 26) | (0xEEFF << 8) | ca._device_address_announced, lowname, 0)
    net.run(100000 if any(m == 'waiting' for _, m in cas) else 900000)
    bad = []
    # requests
    for _ in range(rng.randrange(1, 6)):
        pgn = rng.choice([0xEE00, 0xFECA, 0xEE01, 0xEEFF, 0x2EE00, 0x1EE00, 0x3FFFF, 0, 1 << rng.randrange(18), rng.getrandbits(18)])
        if homeless:
            pgn = 0xEE00
        dest = rng.choice([255, 0x80, 0x81, 0x82, 0x90, 0x20, 0x33, 0, 0])
        called.clear()
        resp.sent.clear()
        owners_of = lambda: [k for k, (ca, m) in enumerate(cas) if ca.state == ca.State.NORMAL and (dest == 255 or ca.device_address == dest)]
        owners = owners_of()
        req_ca.send_request(0, pgn, dest)
        net.run(20000)
        if owners_of() != owners:
            continue          # a claim timer fired while the request was in flight: not a well-defined instant
        claims = [(fr[1] & 0xFF, fr[3]) for fr in resp.sent if (fr[1] >> 8) & 0x3FFFF == 0xEEFF]
        if pgn == 0xEE00:
            exp = sorted((cas[k][0].device_address, list(cas[k][0]._name.bytes)) for k in owners)
            if called or sorted(claims) != exp:
                bad.append(f"request for the address-claim PGN to {dest:#x}: callbacks {called}, claims {claims}, expected claims {exp}")
        else:
            exp = sorted((k, req_sa, dest, pgn) for k in owners)
            if sorted(called) != exp or claims:
                bad.append(f"request pgn={pgn:#x} to {dest:#x}: callbacks {sorted(called)} expected {exp}; claim frames {claims}")
        if bad:
            break
    return bad, dict(responders=[(m, ca.state, ca.device_address) for ca, m in cas], requester=req_sa)


def oracle(ctx, full):
    rng = random.Random(ctx.seed * 7907 + 14)
    n = ctx.n(120, 4000, full)
    findings, evals, distinct, samples = [], 0, set(), []
    for _ in range(n):
        bad, desc = request_case(random.Random(rng.getrandbits(48)))
        evals += 1
        distinct.add(C.struct_hash(desc))
        if len(samples) < 2:
            samples.append(desc)
        if bad:
            findings.append(dict(signature=dict(family='request-dispatch'), what=bad[0], scenario=desc, all=bad[:5]))
            break
    return dict(findings=findings, evaluations=evals, distinct_nontrivial=len(distinct), samples=samples,
                rule="requester CA on one real stack (operational at 0x10, or — 30 % — without an address, asking for address claims from 254), 1-3 responder CAs on another in claim states operational / not started / waiting for veto / "
                     "cannot-claim / moved to the next address after losing; requests for boundary and random 18-bit PGNs (incl. 0xEE00 and its "
                     "look-alikes) to global, owned and unowned destinations; callbacks and address-claimed answers compared with the operational "
                     "owners of the destination")


def replay(ctx, path):
    print(open(path).read()[:3000])
    return 0
