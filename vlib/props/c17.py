"""C17 — DM14 memory access returns and stores exactly the addressed data."""
import random
from .. import common as C, corr14, dm14oracle as O

PID = 'C17'
PROP_MODULE = 'J1939.Props.C17'
UNITS = ['Dm14.q_dm15_seed', 'Dm14.q_dm15_status', 'Dm14.q_dm15_error', 'Dm14.s_command', 'Dm14.s_pointer_type']
ASSUMPTIONS = ["message level: the transport delivers each PDU intact, once, in per-pair order, and reports the end-of-message acknowledgement "
               "to the originator's listeners (C01/C03 theorems; the oracle runs the real J1939-21 stacks underneath)",
               "the whole-transaction theorems are for a server without seed/key; with seed/key the handshake steps are covered by the "
               "C18 theorems, the correspondence and the oracle",
               "DM14/DM15 PDUs are 8 bytes long (J1939-73); pointers are 32 bit; values are unsigned on write",
               "blocking calls: begin / resume split at queue.get; one client call and one respond() outstanding per node"]


def correspondence(ctx):
    return corr14.run(ctx, ctx.n(120, 5000), ctx.n(60, 2500), 17)


def oracle(ctx, full):
    rng = random.Random(ctx.seed * 7907 + 17)
    n = ctx.n(50, 2500, full)
    findings, evals, distinct, samples = [], 0, set(), []
    stat = dict(txs=0, multi_packet=0, seedkey=0, writes=0)
    for _ in range(n):
        bad, desc = O.c17_case(random.Random(rng.getrandbits(48)))
        evals += 1
        distinct.add(C.struct_hash(desc))
        stat['txs'] += len(desc['txs']); stat['seedkey'] += int(desc['seedkey'])
        stat['multi_packet'] += sum(1 for t in desc['txs'] if t['osize'] * t['count'] > 7)
        stat['writes'] += sum(1 for t in desc['txs'] if t['op'] == 'write')
        if len(samples) < 2:
            samples.append(desc)
        if bad:
            findings.append(dict(signature=dict(family='dm14-data'), what=bad[0], scenario=desc, all=bad[:5]))
            break
    return dict(findings=findings, evaluations=evals, distinct_nontrivial=len(distinct), samples=samples, distribution=stat,
                rule="two real stacks (J1939-21, windows 1..255, latencies in (0, 5 ms]) with real CAs and MemoryAccess objects; 1..4 "
                     "transactions back to back: read/write, count x size = 1..255 bytes (7/8/9, 14..16, 248..255 favoured), sizes 1/2/4/8, "
                     "signed/unsigned, raw/converted, direct/spatial, 32-bit pointers incl. 0 and 0xFFFFFFFF, seed/key on/off with arbitrary "
                     "seeds (incl. 0, 0xFFFE), application answering after 0..50 ms: exact result, exact respond() bytes, proceed arguments, "
                     "both sides idle (three state machines, queues, subscriber lists)")


def replay(ctx, path):
    print(open(path).read()[:3000])
    return 0
