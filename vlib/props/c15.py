"""C15 — identifier / PGN / NAME codecs.  Theorems: lean/J1939/Props/C15.lean over the regenerated leaves.
Oracle (failing-input search): round trips and SAE bit positions on the real classes."""
import random, sys, json
from .. import common as C

PID = 'C15'
SHARDABLE = False      # exhaustive enumerations, cheap: one process
PROP_MODULE = 'J1939.Props.C15'
UNITS = ['MessageId.ofFields', 'MessageId.ofCanId', 'MessageId.can_id', 'PGN.ofFields', 'PGN.value', 'PGN.is_pdu1_format',
         'PGN.is_pdu2_format', 'PGN.from_message_id', 'Name.ofValue', 'Name.ofBytes', 'Name.ofFields', 'Name.value', 'Name.bytes']
ASSUMPTIONS = ["Python ints are modelled as Nat (all values in scope are non-negative)",
               "NAME comparison in arbitration is the integer comparison of Name.value (tied by the C04 correspondence)"]

NAME_LAYOUT = [('identity_number', 0, 21), ('manufacturer_code', 21, 11), ('ecu_instance', 32, 3), ('function_instance', 35, 5),
               ('function', 40, 8), ('reserved_bit', 48, 1), ('vehicle_system', 49, 7), ('vehicle_system_instance', 56, 4),
               ('industry_group', 60, 3), ('arbitrary_address_capable', 63, 1)]


def j():
    if C.REPO not in sys.path:
        sys.path.insert(0, C.REPO)
    import j1939
    return j1939


def id_cases(rng, n):
    cs = [0, (1 << 29) - 1] + [1 << k for k in range(29)] + [((1 << 29) - 1) ^ (1 << k) for k in range(29)]
    cs += [0x18FECA21, 0x1CECFF00, 0x0CEB2010, 0x18EEFFFE, 0x1DFFFFFF, 0x03FFFF00]
    cs += [rng.getrandbits(29) for _ in range(n)]
    return cs


def check_id(j1939, c):
    m = j1939.MessageId(can_id=c)
    exp = (c >> 26, (c // 256) % (1 << 18), c % 256)
    got = (m.priority, m.parameter_group_number, m.source_address)
    if got != exp:
        return f"MessageId(can_id={c:#x}) fields {got} != {exp}"
    if m.can_id != c:
        return f"MessageId(can_id={c:#x}).can_id = {m.can_id:#x}"
    m2 = j1939.MessageId(priority=exp[0], parameter_group_number=exp[1], source_address=exp[2])
    if m2.can_id != exp[0] * (1 << 26) + exp[1] * 256 + exp[2]:
        return f"MessageId(fields {exp}).can_id = {m2.can_id:#x} != SAE layout"
    p = j1939.ParameterGroupNumber()
    p.from_message_id(m)
    if p.value != exp[1] % (1 << 17):
        return f"from_message_id({c:#x}).value = {p.value:#x} != {exp[1] % (1 << 17):#x}"
    return None


def check_pgn(j1939, dp, pf, ps):
    p = j1939.ParameterGroupNumber(dp, pf, ps)
    if p.value != dp * 65536 + pf * 256 + ps:
        return f"PGN({dp},{pf},{ps}).value = {p.value}"
    if (p.data_page, p.pdu_format, p.pdu_specific) != (dp, pf, ps):
        return f"PGN({dp},{pf},{ps}) fields"
    if bool(p.is_pdu1_format) != (pf < 240) or bool(p.is_pdu2_format) != (pf >= 240):
        return f"PGN({dp},{pf},{ps}) pdu1={p.is_pdu1_format} pdu2={p.is_pdu2_format}"
    return None


def check_name_value(j1939, v):
    n = j1939.Name(value=v)
    exp = v & ~(1 << 48)
    if n.value != exp:
        return f"Name(value={v:#x}).value = {n.value:#x}"
    for f, pos, w in NAME_LAYOUT:
        e = (exp >> pos) & ((1 << w) - 1)
        if int(getattr(n, f)) != e:
            return f"Name(value={v:#x}).{f} = {getattr(n, f)} != {e} (J1939-81 bits {pos}..{pos + w - 1})"
    b = list(n.bytes)
    if b != list(exp.to_bytes(8, 'little')):
        return f"Name(value={v:#x}).bytes = {b}"
    n2 = j1939.Name(bytes=list(v.to_bytes(8, 'little')))
    if n2.value != exp:
        return f"Name(bytes of {v:#x}).value = {n2.value:#x}"
    kw = {f: int(getattr(n, f)) for f, _, _ in NAME_LAYOUT if f != 'reserved_bit'}
    n3 = j1939.Name(**kw)
    if n3.value != exp or list(n3.bytes) != b:
        return f"Name(fields of {v:#x}).value = {n3.value:#x}"
    return None


class _StubEcu:
    """stands in for the ECU a controller application sends through"""
    def __init__(self):
        self.sent = []

    def send_message(self, can_id, ext, data, *a, **k):
        self.sent.append((can_id, list(data)))

    def __getattr__(self, name):
        return lambda *a, **k: None


def check_arbitration(j1939, v1, v2, waiting):
    """a CA with NAME v1 that owns (or is claiming) address 128 receives an ADDRESS CLAIMED for 128 from NAME v2: it keeps the
    address iff v1 < v2 as 64-bit VALUES (reserved bit read as 0), loses iff v1 > v2, ignores an equal NAME"""
    n1 = j1939.Name(value=v1)
    n1.arbitrary_address_capable = 0          # a loser then ends in CANNOT_CLAIM: the outcome is a single state
    ca = j1939.ControllerApplication(n1, 128)
    ecu = _StubEcu()
    ca._ecu = ecu
    St = j1939.ControllerApplication.State
    ca._device_address_state = St.WAIT_VETO if waiting else St.NORMAL
    ca._device_address_announced = 128
    ca._device_address = 254 if waiting else 128
    own = n1.value
    other = v2 & ~(1 << 48)
    ca._process_addressclaim(j1939.MessageId(can_id=(6 << 26) | (0xEEFF << 8) | 128), bytearray(v2.to_bytes(8, 'little')), 0.0)
    st = ca._device_address_state
    before = St.WAIT_VETO if waiting else St.NORMAL
    if own < other:
        ok = st == before and ecu.sent and ecu.sent[-1][0] & 0xFF == 128
        exp = 'keep the address and repeat the claim'
    elif own > other:
        ok = st == St.CANNOT_CLAIM and ecu.sent and ecu.sent[-1][0] & 0xFF == 254
        exp = 'give the address up (cannot-claim from 254)'
    else:
        ok = st == before and not ecu.sent
        exp = 'ignore its own NAME'
    if not ok:
        return (f"arbitration: own NAME {own:#018x} vs contender {other:#018x} ({'waiting' if waiting else 'operational'}): expected to {exp}; "
                f"state {st}, sent {[(hex(c), d) for c, d in ecu.sent[-1:]]}")
    return None


def arbitration_pairs(rng, n):
    """NAME pairs whose order as integers differs from their order byte by byte from the least significant end, pairs that
    differ in one field only, equal NAMEs, and random pairs"""
    out = []
    for _ in range(n):
        k = rng.randrange(5)
        a = rng.getrandbits(64) & ~(1 << 48) & ~(1 << 63)
        if k == 0:
            b = rng.getrandbits(64) & ~(1 << 63)
        elif k == 1:                          # one byte up at the top, one byte down at the bottom
            hi, lo = rng.randrange(4, 8), rng.randrange(0, 4)
            b = a ^ (rng.randrange(1, 256) << (8 * hi)) ^ (rng.randrange(1, 256) << (8 * lo))
            b &= ~(1 << 63) & ~(1 << 48)
        elif k == 2:                          # a single field differs
            f, pos, w = rng.choice([x for x in NAME_LAYOUT if x[0] not in ('reserved_bit', 'arbitrary_address_capable')])
            b = a ^ (rng.randrange(1, 1 << w) << pos)
        elif k == 3:
            b = a
        else:
            b = a ^ (1 << rng.randrange(63))
            b &= ~(1 << 48)
        out.append((a, b, rng.random() < 0.3))
    return out


def guarded(fn, *a):
    """the codecs are total on their domain: an exception for a value of the domain is a failing input, not a harness error"""
    try:
        return fn(*a)
    except Exception as e:            # noqa
        return f"{fn.__name__}{a[1:]} raised {type(e).__name__}: {e}"


def oracle(ctx, full):
    j1939 = j()
    rng = random.Random(ctx.seed * 7919 + 15)
    big = full or not ctx.quick
    findings, evals, samples = [], 0, []
    distinct = set()

    def add(family, what, inp):
        findings.append(dict(signature=dict(family=family), what=what, input=inp))

    for c in id_cases(rng, 20000 if big else 2000):
        evals += 1
        distinct.add(('id', c))
        r = guarded(check_id, j1939, c)
        if r:
            add('id', r, dict(can_id=c))
            break
    pgns = [(dp, pf, ps) for dp in (0, 1) for pf in range(256) for ps in range(256)] if big else \
        [(dp, pf, ps) for dp in (0, 1) for pf in (0, 1, 127, 128, 234, 238, 239, 240, 241, 254, 255) for ps in (0, 1, 127, 128, 254, 255)] + \
        [(rng.randrange(2), rng.randrange(256), rng.randrange(256)) for _ in range(2000)]
    for t in pgns:
        evals += 1
        distinct.add(('pgn',) + t)
        r = guarded(check_pgn, j1939, *t)
        if r:
            add('pgn', r, dict(pgn=t))
            break
    vals = [0, (1 << 64) - 1] + [1 << k for k in range(64)] + [((1 << 64) - 1) ^ (1 << k) for k in range(64)]
    for f, pos, w in NAME_LAYOUT:
        vals += [((1 << w) - 1) << pos, (((1 << w) - 1) << pos) ^ ((1 << 64) - 1)]
    vals += [rng.getrandbits(64) for _ in range(20000 if big else 1500)]
    for v in vals:
        evals += 1
        distinct.add(('name', v))
        r = guarded(check_name_value, j1939, v)
        if r:
            add('name', r, dict(value=v))
            break
    if not findings:
        for (a, b, waiting) in arbitration_pairs(rng, 6000 if big else 800):
            evals += 1
            distinct.add(('arb', a, b, waiting))
            r = guarded(check_arbitration, j1939, a, b, waiting)
            if r:
                add('arbitration', r, dict(own=a, contender=b, waiting=waiting))
                break
    samples = [dict(can_id=hex(0x18FECA21), check='parse/compose round trip + SAE positions + from_message_id'),
               dict(name_value=hex(vals[-1]), check='value/fields/bytes round trips + J1939-81 bit positions')]
    return dict(findings=findings, evaluations=evals, distinct_nontrivial=len(distinct), samples=samples,
                rule="identifiers: all single-bit / all-but-one-bit / boundary and seeded random 29-bit values; PGN: all 2*256*256 field tuples "
                     "(thorough or failing-input search) or boundaries + random (quick); NAME: single-bit, field-boundary and seeded random 64-bit "
                     "values, each through value/fields/bytes constructors; arbitration: a real controller application (operational or "
                     "waiting out its veto) at address 128 receives a contending claim — NAME pairs whose integer order differs from their "
                     "least-significant-byte-first order, single-field differences, equal NAMEs, random pairs: keeps iff own value < "
                     "contender's value; distinct = distinct input values")


def replay(ctx, path):
    r = json.load(open(path))
    print(json.dumps(r, indent=1)[:2000])
    f = r.get('finding')
    if not f:
        return 0
    j1939 = j()
    inp = f['input']
    if 'can_id' in inp:
        res = check_id(j1939, inp['can_id'])
    elif 'pgn' in inp:
        res = check_pgn(j1939, *inp['pgn'])
    else:
        res = check_name_value(j1939, inp['value'])
    print("replay:", res or "no failure on the current tree")
    return 1 if res else 0
