"""C03 — wire format vs an independent SAE implementation (reference peer written from the standard)."""
import random
from .. import common as C, corr21, corr22, net21, sim
from ..gen21 import rand_payload, can_id, TP_CM, TP_DT
from . import c09

PID = 'C03'
PROP_MODULE = 'J1939.Props.C03'
UNITS = ['Tp21.dt', 'Tp21.cts', 'Tp21.rts', 'Tp21.bam', 'Tp21.eom_ack', 'Tp21.abort', 'Tp21.cm_pgn', 'Tp21.cm_control', 'Tp21.rts_size',
         'Tp21.rts_packets', 'Tp21.rts_max', 'Tp21.cts_packets', 'Tp21.cts_next', 'Tp21.bam_size', 'Tp21.bam_packets', 'Tp21.num_packets',
         'MessageId.ofFields', 'MessageId.can_id', 'PGN.ofFields', 'PGN.value',
         'Tp22.cm', 'Tp22.rts', 'Tp22.cts', 'Tp22.eom_status', 'Tp22.eom_ack', 'Tp22.bam', 'Tp22.abort', 'Tp22.dt', 'Tp22.cm_control',
         'Tp22.cm_session', 'Tp22.cm_size', 'Tp22.cm_segment', 'Tp22.cm_pgn', 'Tp22.cm_byte7', 'Tp22.dt_session', 'Tp22.dt_segment']
ASSUMPTIONS = ["Model/Ref.lean and the Python reference peer (vlib/net21.py RefPeer21) are written from the SAE layouts and are trusted as the statement of the standard",
               "J1939-22 (FD): Ref.fdCm / Ref.fdDtHeader and the Python FD reference receiver (fd_reference_decode) are written from SAE J1939-22 and trusted likewise",
               "hold CTS frames arrive less than Th = 0.5 s apart (the stack re-arms with the responder's hold time)"]


def correspondence(ctx):
    a = corr21.run(ctx, ctx.n(150, 5000), ctx.n(20, 500), 3)
    b = corr22.run(ctx, ctx.n(60, 2500), ctx.n(10, 300), 3)          # J1939-22 frame builders through the model
    return corr22.merge(a, b)


def bam_cases(rng):
    """BAM in both roles against the reference peer, spacing 50..200 ms"""
    sc = net21.Scenario(C.REPO, rng.getrandbits(32), 1, maxcmdt=[rng.choice([1, 8, 255])], addrs=[0x21])
    peer = net21.RefPeer21(sc, 0x55, rng)
    bad = []
    data = rand_payload(rng, rng.choice([9, 14, 15, 100, 1785]))
    if rng.random() < 0.5:
        pf, ps = rng.choice([(254, 202), (255, 0), (240, 17), (100, 255)])
        sc.send(0, 0, pf, ps, 6, data)
        net21.run_with_peer(sc, peer, 2_000_000 + ((len(data) + 6) // 7) * 60000)
        bad += peer.log
        pgn = (pf << 8) | (ps if pf >= 240 else 0)
        if peer.done != [(0x21, pgn, data)]:
            bad.append(f"reference receiver decoded the BAM of PGN {pgn:#x} as {str(peer.done)[:100]}")
        desc = dict(role='bam-originator', pf=pf, ps=ps, size=len(data))
    else:
        gap = rng.choice([50000, 100000, 200000])
        peer.originate(255, 0xFECA, data, bam=True, dt_gap=gap)
        net21.run_with_peer(sc, peer, 2_000_000 + ((len(data) + 6) // 7) * (gap + 1000))
        dl = sc.payload_deliveries()
        if dl != [(0, 0xFECA, 0x55, data)]:
            bad.append(f"stack decoded the reference BAM (spacing {gap} us) as {str(dl)[:100]}")
        desc = dict(role='bam-responder', gap=gap, size=len(data))
    if sc.net.errors:
        bad.append(f"exception {sc.net.errors[0]}")
    return bad, desc


LEGAL_FD = set(range(9)) | {12, 16, 20, 24, 32, 48, 64}


def le24(d):
    return d[0] | (d[1] << 8) | (d[2] << 16)


def fd_reference_decode(bus):
    """independent J1939-22 receiver written from the standard: walks a bus trace and reassembles every FD.TP session;
    returns (messages [(src, dst, pgn, payload)], complaints)"""
    open_, done, bad = {}, [], []
    for (t, src_idx, cid, data, fd) in bus:
        prio, pf, ps, sa = cid >> 26, (cid >> 16) & 0xFF, (cid >> 8) & 0xFF, cid & 0xFF
        if fd and len(data) not in LEGAL_FD:
            bad.append(f"FD frame {cid:#x} with {len(data)} data bytes: not a CAN FD length")
        if pf == 0x4D:
            if len(data) != 12:
                bad.append(f"FD.TP.CM with {len(data)} bytes")
                continue
            ctl, sess = data[0] & 15, data[0] >> 4
            size, seg, pgn = le24(data[1:4]), le24(data[4:7]), le24(data[9:12])
            if ctl in (0, 4):
                if ctl == 4 and ps != 255:
                    bad.append("FD BAM not sent to 255")
                if seg != (size + 59) // 60:
                    bad.append(f"announcement: {seg} segments for {size} bytes")
                if (sa, ps, sess) in open_:
                    bad.append(f"session {sess} {sa:#x}->{ps:#x} announced again while it is open")
                open_[(sa, ps, sess)] = dict(size=size, seg=seg, pgn=pgn, data=[], next=1, t=t)
            elif ctl == 1:
                o = open_.get((ps, sa, sess))
                if o is None:
                    bad.append(f"CTS {sa:#x}->{ps:#x} for session {sess} which the originator never announced")
                else:
                    if pgn != o['pgn']:
                        bad.append(f"CTS carries PGN {pgn:#x}, session was announced with {o['pgn']:#x}")
                    if data[7] and seg != o['next']:
                        bad.append(f"CTS asks for segment {seg}, reference expects {o['next']}")
            elif ctl == 2:
                o = open_.pop((sa, ps, sess), None)
                if o is None:
                    bad.append(f"EndOfMsgStatus {sa:#x}->{ps:#x} for session {sess} that is not open")
                else:
                    if size != o['size'] or seg != o['seg'] or pgn != o['pgn']:
                        bad.append(f"EndOfMsgStatus fields (size {size}, segments {seg}, PGN {pgn:#x}) differ from the announcement {o['size']}, {o['seg']}, {o['pgn']:#x}")
                    if len(o['data']) < o['size']:
                        bad.append(f"EndOfMsgStatus after {len(o['data'])} of {o['size']} bytes")
                    if any(x != 255 for x in o['data'][o['size']:]):
                        bad.append("padding after the message is not 0xFF")
                    done.append((sa, ps, o['pgn'], o['data'][:o['size']]))
            elif ctl == 3:
                if pgn == 0xFFFFFF or size == 0xFFFFFF:
                    bad.append("EndOfMsgACK without size/PGN")
            elif ctl == 15:
                open_.pop((sa, ps, sess), None)
                open_.pop((ps, sa, sess), None)
            else:
                bad.append(f"unknown FD.TP.CM control {ctl}")
        elif pf == 0x4E:
            if len(data) < 5:
                bad.append("FD.TP.DT without data")
                continue
            dtfi, sess, seg = data[0] & 15, data[0] >> 4, le24(data[1:4])
            o = open_.get((sa, ps, sess))
            if o is None:
                bad.append(f"FD.TP.DT {sa:#x}->{ps:#x} session {sess} segment {seg}: no such session was announced")
                continue
            if dtfi != 0:
                bad.append(f"FD.TP.DT with format indicator {dtfi}")
            if seg != o['next']:
                bad.append(f"FD.TP.DT segment {seg}, reference expects {o['next']}")
                continue
            o['data'] += data[4:]
            o['next'] += 1
            if seg < o['seg'] and len(data) != 64:
                bad.append(f"FD.TP.DT segment {seg} of {o['seg']} carries {len(data) - 4} bytes")
    return done, bad


def fd_wire_case(rng):
    """J1939-22: 2-3 real stacks, several concurrent sessions per originator (so that session numbers above 0 occur), all
    residues mod 60 incl. the DLC steps; the bus trace is decoded by the independent reference receiver"""
    n = rng.choice([2, 2, 3])
    sc = net21.Scenario(C.REPO, rng.getrandbits(32), n, dll='j1939-22', maxcmdt=[rng.choice([1, 3, 255]) for _ in range(n)],
                        latency=lambda r, a, b, f: r.choice([1, 1000]))
    sent = []
    for _ in range(rng.choice([1, 2, 4, 6])):
        i = rng.randrange(n)
        # residues around every step of the CAN FD length table (payload + 4 header bytes -> 8, 12, 16, 20, 24, 32, 48, 64)
        steps = [1, 4, 5, 8, 9, 12, 13, 16, 17, 20, 21, 22, 23, 24, 25, 28, 29, 44, 45, 59, 0]
        size = rng.choice([61 + rng.randrange(60), 60 * rng.randrange(1, 6) + rng.choice(steps), 60 * rng.randrange(1, 6) + rng.choice(steps),
                           60 * 256 + rng.choice(steps + [rng.randrange(1, 60)]), 60 * rng.randrange(2, 6)])
        size = max(size, 61)
        data = rand_payload(rng, size)
        if rng.random() < 0.35:
            pf, ps = rng.choice([(254, 202), (255, 0), (100, 255), (240, 1)])
            dp = 0
        else:
            j = rng.choice([x for x in range(n) if x != i])
            pf, ps, dp = rng.choice([208, 0, 239]), sc.addrs[j], rng.choice([0, 0, 1])
        if sc.send(i, dp, pf, ps, rng.choice([0, 3, 6, 7]), data):
            sent.append((sc.addrs[i], 255 if (pf >= 240 or ps == 255) else ps, data))
    sc.net.run(400_000_000, stop=lambda: sc.tables_empty() and sc.net.quiet())
    done, bad = fd_reference_decode(sc.net.bus)
    got = sorted(repr((a, b, d)) for (a, b, p, d) in done)
    exp = sorted(repr(x) for x in sent)
    if got != exp and not bad:
        missing = [e for e in exp if e not in got]
        bad.append(f"the reference receiver reassembled {len(got)} of {len(exp)} messages" + (f"; first missing {missing[0][:80]}" if missing else ""))
    if sc.net.errors:
        bad.append(f"exception {sc.net.errors[0]}")
    r = net21.check_exactly_once(sc)
    if r:
        bad.append(r)
    return bad, dict(role='fd-wire', n=n, sizes=[len(x[2]) for x in sent])


def oracle(ctx, full):
    rng = random.Random(ctx.seed * 7907 + 3)
    n = ctx.n(80, 2500, full)
    findings, evals, distinct, samples = [], 0, set(), []
    for k in range(n):
        sub = random.Random(rng.getrandbits(48))
        bad, desc = fd_wire_case(sub) if k % 4 == 3 else (c09.stack_vs_peer(sub) if k % 3 else bam_cases(sub))
        evals += 1
        distinct.add(C.struct_hash(desc))
        if len(samples) < 2:
            samples.append(desc)
        if bad:
            findings.append(dict(signature=dict(family='reference-peer', role=desc.get('role')), what=bad[0], scenario=desc, all=bad[:5]))
            break
    return dict(findings=findings, evaluations=evals, distinct_nontrivial=len(distinct), samples=samples,
                rule="one real stack against the reference peer: originator role (CTS windows max/1/random within the RTS limit, 0-3 hold CTS spaced "
                     "1..400 ms, reply latency 0..150 ms), responder role (RTS limits 1..255, DT spacing 0..50 ms), BAM both roles (spacing "
                     "50..200 ms); the peer checks identifiers, control bytes, sizes, 1-based in-order sequence numbers, 0xFF padding and "
                     "reassembles; the stack's deliveries and acknowledgement are checked against the message; every fourth case: J1939-22 — 2-3 real "
                     "stacks with 1-6 concurrent sessions (sizes over all residues mod 60 and > 255 segments, data page 0/1, broadcasts), the bus "
                     "trace decoded by an independent FD reference receiver (legal CAN FD lengths, session nibble of FD.TP.CM and FD.TP.DT, 24-bit "
                     "size/segment/PGN fields, in-order segments, 0xFF padding, EndOfMsgStatus = announcement) which must reassemble every message")


def replay(ctx, path):
    print(open(path).read()[:3000])
    return 0
