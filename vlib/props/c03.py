"""C03 — wire format vs an independent SAE implementation (reference peer written from the standard)."""
import random
from .. import common as C, corr21, corr22, net21, sim
from ..gen21 import rand_payload, can_id, TP_CM, TP_DT
from . import c09

PID = 'C03'
PROP_MODULE = 'J1939.Props.C03'
UNITS = ['Tp21.dt', 'Tp21.cts', 'Tp21.rts', 'Tp21.bam', 'Tp21.eom_ack', 'Tp21.abort', 'Tp21.cm_pgn', 'Tp21.cm_control', 'Tp21.rts_size',
         'Tp21.rts_packets', 'Tp21.rts_max', 'Tp21.cts_packets', 'Tp21.cts_next', 'Tp21.bam_size', 'Tp21.bam_packets', 'Tp21.num_packets',
         'MessageId.ofFields', 'MessageId.can_id', 'PGN.ofFields', 'PGN.value']
ASSUMPTIONS = ["Model/Ref.lean and the Python reference peer (vlib/net21.py RefPeer21) are written from the SAE layouts and are trusted as the statement of the standard",
               "J1939-22 (FD) frame layouts: translator units + correspondence/oracle only until Dll22 theorems exist",
               "hold CTS frames arrive less than Th = 0.5 s apart (the stack re-arms with the responder's hold time)"]


def correspondence(ctx):
    a = corr21.run(ctx, ctx.n(150, 5000), ctx.n(20, 500), 3)
    b = corr22.run(ctx, ctx.n(60, 2500), ctx.n(10, 300), 3)          # J1939-22 frame builders through the model
    return corr22.merge(a, b)


def bam_cases(rng):
    """BAM in both roles against the reference peer, spacing 50..200 ms"""
    sc = net21.Scenario(C.REPO, rng.getrandbits(32), 1, maxcmdt=[rng.choice([1, 8, 255])], addrs=[0x21])
    peer = net21.RefPeer21(sc, 0x55, rng)
    bad = []
    data = rand_payload(rng, rng.choice([9, 14, 15, 100, 1785]))
    if rng.random() < 0.5:
        pf, ps = rng.choice([(254, 202), (255, 0), (240, 17), (100, 255)])
        sc.send(0, 0, pf, ps, 6, data)
        net21.run_with_peer(sc, peer, 2_000_000 + ((len(data) + 6) // 7) * 60000)
        bad += peer.log
        pgn = (pf << 8) | (ps if pf >= 240 else 0)
        if peer.done != [(0x21, pgn, data)]:
            bad.append(f"reference receiver decoded the BAM of PGN {pgn:#x} as {str(peer.done)[:100]}")
        desc = dict(role='bam-originator', pf=pf, ps=ps, size=len(data))
    else:
        gap = rng.choice([50000, 100000, 200000])
        peer.originate(255, 0xFECA, data, bam=True, dt_gap=gap)
        net21.run_with_peer(sc, peer, 2_000_000 + ((len(data) + 6) // 7) * (gap + 1000))
        dl = sc.payload_deliveries()
        if dl != [(0, 0xFECA, 0x55, data)]:
            bad.append(f"stack decoded the reference BAM (spacing {gap} us) as {str(dl)[:100]}")
        desc = dict(role='bam-responder', gap=gap, size=len(data))
    if sc.net.errors:
        bad.append(f"exception {sc.net.errors[0]}")
    return bad, desc


def oracle(ctx, full):
    rng = random.Random(ctx.seed * 7907 + 3)
    n = ctx.n(80, 2500, full)
    findings, evals, distinct, samples = [], 0, set(), []
    for k in range(n):
        sub = random.Random(rng.getrandbits(48))
        bad, desc = c09.stack_vs_peer(sub) if k % 3 else bam_cases(sub)
        evals += 1
        distinct.add(C.struct_hash(desc))
        if len(samples) < 2:
            samples.append(desc)
        if bad:
            findings.append(dict(signature=dict(family='reference-peer', role=desc.get('role')), what=bad[0], scenario=desc, all=bad[:5]))
            break
    return dict(findings=findings, evaluations=evals, distinct_nontrivial=len(distinct), samples=samples,
                rule="one real stack against the reference peer: originator role (CTS windows max/1/random within the RTS limit, 0-3 hold CTS spaced "
                     "1..400 ms, reply latency 0..150 ms), responder role (RTS limits 1..255, DT spacing 0..50 ms), BAM both roles (spacing "
                     "50..200 ms); the peer checks identifiers, control bytes, sizes, 1-based in-order sequence numbers, 0xFF padding and "
                     "reassembles; the stack's deliveries and acknowledgement are checked against the message")


def replay(ctx, path):
    print(open(path).read()[:3000])
    return 0
