"""C16 — DTC / lamp / DM1 / DM22 codecs and the DM1 cycle.  Theorems: lean/J1939/Props/C16.lean.
Correspondence: Dm1._send / Dm1._receive of the real class vs Model/Dm1.lean on random and boundary inputs.
Oracle: two real stacks on the simulated bus, DM1 end to end (single frame, BAM, FD multi-PG, FD BAM), start/stop
histories; DM22 bytes against the J1939-73 layout."""
import random, json, sys
from .. import common as C, pyexec, sim

PID = 'C16'
SHARDABLE = False      # exhaustive enumerations, cheap: one process
PROP_MODULE = 'J1939.Props.C16'
UNITS = ['DTC.ofDtc', 'DTC.ofFields', 'DtcLamp.get_status', 'Dm1.parse_dtc_int', 'Dm1.send_byte0', 'Dm1.send_byte1', 'Dm1.send_byte2',
         'Dm1.send_byte3', 'Dm1.send_pf', 'Dm1.send_ps', 'Dm1.parse_lamp_pl', 'Dm1.parse_lamp_awl', 'Dm1.parse_lamp_rsl', 'Dm1.parse_lamp_mil',
         'Dm22.send_request']
ASSUMPTIONS = ["the sender callback returns complete trouble code dictionaries (spn, fmi, oc present) and lamp states 0..4",
               "delivery of the built payload by the transport is C01/C02/C11; here it is exercised end to end by the oracle only",
               "each DM1 transfer finishes before the next cycle starts (otherwise send_pgn refuses by design)"]
KEYS = ['pl', 'awl', 'rsl', 'mil']


def rand_dtc(rng):
    r = rng.random()
    spn = rng.choice([0, 1, 0xFFFF, 0x10000, 0x7FFFF, 0x70000, 0x2FFFF]) if r < 0.4 else rng.getrandbits(19)
    fmi = rng.choice([0, 31, 1, 16]) if rng.random() < 0.4 else rng.randrange(32)
    oc = rng.choice([0, 127, 1, 64]) if rng.random() < 0.4 else rng.randrange(128)
    return [spn, fmi, oc]


def correspondence(ctx):
    rng = random.Random(ctx.seed * 1000003 + 16)
    n = ctx.n(400, 6000)
    lines = []
    for _ in range(n):
        lamps = [rng.randrange(5) for _ in range(4)]
        k = rng.choice([1, 1, 2, 3, 10, 14, 15, rng.randrange(1, 60), 400 if rng.random() < 0.02 else 4])
        flat = []
        for _ in range(k):
            flat += rand_dtc(rng)
        lines.append(f"dm1.send 65226 {pyexec.fmt_list(lamps)} {pyexec.fmt_list(flat)}")
        # parse what a conforming (and a non conforming) sender may put on the bus
        ln = rng.choice([0, 2, 5, 6, 7, 8, 9, 10, 14, 2 + 4 * rng.randrange(1, 40), rng.randrange(0, 80)])
        data = [rng.choice([0, 255, rng.randrange(256)]) for _ in range(ln)]
        lines.append(f"dm1.parse {pyexec.fmt_list(data)}")
    d = pyexec.diff_script(lines, ctx.driver, C.REPO)
    return dict(traces=1, disagreements=[d] if d else [], evaluations=len(lines), distinct_nontrivial=len(set(lines)),
                samples=[dict(line=lines[0]), dict(line=lines[1])])


# ------------------------------------------------------------------------------------------------
def two_stacks(dll, seed):
    w = sim.World(C.REPO)
    j = w.j
    a = w.new_stack(dll=dll)
    b = w.new_stack(dll=dll)
    net = sim.Net(w, latency=lambda rng, s, d, f: rng.choice([1, 300, 1000, 5000]), rng=random.Random(seed))
    ca_a = j.ControllerApplication(j.Name(value=0x1000), 0x21, bypass_address_claim=True)
    ca_b = j.ControllerApplication(j.Name(value=0x2000), 0x42, bypass_address_claim=True)
    a.ecu.add_ca(controller_application=ca_a)
    b.ecu.add_ca(controller_application=ca_b)
    return w, net, a, b, ca_a, ca_b


def e2e_case(rng, dll, ndtc, cycle_us, ncycles, stop_after):
    """returns None or a description of the failure"""
    w, net, a, b, ca_a, ca_b = two_stacks(dll, rng.getrandbits(32))
    j = w.j
    lamps = {k: rng.randrange(5) for k in KEYS}
    cycles = []
    # half of the applications keep ONE lamp dict and ONE code list and update them in place between the cycles
    in_place = rng.random() < 0.5
    kept = [dict(zip(('spn', 'fmi', 'oc'), rand_dtc(rng))) for _ in range(ndtc)]

    def source():
        if in_place:
            lamps[rng.choice(KEYS)] = rng.randrange(5)
            for x in kept:
                x['oc'] = (x['oc'] + 1) % 127
            if kept and rng.random() < 0.5:
                kept[rng.randrange(len(kept))].update(zip(('spn', 'fmi', 'oc'), rand_dtc(rng)))
            cycles.append((dict(lamps), [dict(x) for x in kept]))
            return lamps, kept
        dtcs = [dict(zip(('spn', 'fmi', 'oc'), rand_dtc(rng))) for _ in range(ndtc)]
        cycles.append((dict(lamps), [dict(x) for x in dtcs]))
        return dict(lamps), dtcs
    got = []
    rx = j.Dm1(ca_b)
    rx.subscribe(lambda sa, lamp, dtcs, ts: got.append((sa, lamp, dtcs)))
    tx = j.Dm1(ca_a)
    tx.start_send(source, sim.VT(cycle_us))
    net.poke(a)
    net.run(cycle_us * stop_after + cycle_us // 2)
    tx.stop_send(source)
    net.poke(a)
    n_at_stop = len(cycles)
    net.run(cycle_us * (ncycles - stop_after) + 2_000_000)
    if net.errors:
        return f"exception {net.errors[0]}"
    if len(cycles) != n_at_stop:
        return f"DM1 source called {len(cycles) - n_at_stop} more times after stop_send ({dll}, {ndtc} codes)"
    if len(cycles) != stop_after:
        return f"DM1 source called {len(cycles)} times in {stop_after} cycles ({dll})"
    exp = [(0x21, l, [dict(spn=x['spn'], fmi=x['fmi'], oc=x['oc']) for x in d]) for l, d in cycles]
    if got != exp:
        k = next((i for i, (g, e) in enumerate(zip(got, exp)) if g != e), min(len(got), len(exp)))
        return (f"DM1 cycle {k} ({dll}, {ndtc} codes): received {str(got[k])[:160] if k < len(got) else 'nothing'}"
                f" expected {str(exp[k])[:160] if k < len(exp) else 'nothing'}")
    return None


def overlap_case(rng, dll, ndtc, cycle_us, run_us):
    """the cycle is shorter than the transport of one DM1: a cycle that comes due while the previous DM1 is still on the
    bus cannot be sent, but the sender goes on — the callback is asked every cycle until stop_send, and every DM1 that
    is delivered is exactly what one of those calls supplied, in order"""
    w, net, a, b, ca_a, ca_b = two_stacks(dll, rng.getrandbits(32))
    j = w.j
    lamps = {k: rng.randrange(5) for k in KEYS}
    cycles = []
    # half of the applications keep ONE lamp dict and ONE code list and update them in place between the cycles
    in_place = rng.random() < 0.5
    kept = [dict(zip(('spn', 'fmi', 'oc'), rand_dtc(rng))) for _ in range(ndtc)]

    def source():
        if in_place:
            lamps[rng.choice(KEYS)] = rng.randrange(5)
            for x in kept:
                x['oc'] = (x['oc'] + 1) % 127
            if kept and rng.random() < 0.5:
                kept[rng.randrange(len(kept))].update(zip(('spn', 'fmi', 'oc'), rand_dtc(rng)))
            cycles.append((dict(lamps), [dict(x) for x in kept]))
            return lamps, kept
        dtcs = [dict(zip(('spn', 'fmi', 'oc'), rand_dtc(rng))) for _ in range(ndtc)]
        cycles.append((dict(lamps), [dict(x) for x in dtcs]))
        return dict(lamps), dtcs
    got = []
    rx = j.Dm1(ca_b)
    rx.subscribe(lambda sa, lamp, dtcs, ts: got.append((sa, lamp, dtcs)))
    tx = j.Dm1(ca_a)
    tx.start_send(source, sim.VT(cycle_us))
    net.poke(a)
    net.run(run_us)
    tx.stop_send(source)
    net.poke(a)
    n_at_stop = len(cycles)
    net.run(3_000_000)
    if net.errors:
        return f"exception {net.errors[0]}"
    want = run_us // cycle_us - 1
    if n_at_stop < want:
        return (f"cyclic DM1 sender stopped by itself: callback asked {n_at_stop} times in {run_us // 1000} ms with a {cycle_us // 1000} ms cycle "
                f"({dll}, {ndtc} codes, cycles overlapping the transport)")
    if len(cycles) != n_at_stop:
        return f"DM1 source called {len(cycles) - n_at_stop} more times after stop_send ({dll}, overlapping cycles)"
    exp = [(0x21, l, [dict(spn=x['spn'], fmi=x['fmi'], oc=x['oc']) for x in d]) for l, d in cycles]
    k = 0
    for g in got:
        while k < len(exp) and exp[k] != g:
            k += 1
        if k == len(exp):
            return f"a delivered DM1 ({dll}, {ndtc} codes, overlapping cycles) is not what any cycle supplied, or out of order: {str(g)[:160]}"
        k += 1
    if len(got) < 2:
        return f"only {len(got)} DM1 delivered in {run_us // 1000} ms although the transport was free again ({dll}, {ndtc} codes)"
    return None


def dm22_case(j, spn, fmi, act):
    sent = []

    class FakeCa:
        def send_pgn(self, dp, pf, ps, prio, data, *a, **k):
            sent.append((dp, pf, ps, prio, [int(x) for x in data]))
    d = j.Dm22(FakeCa())
    (d.request_clear_act_dtc if act else d.request_clear_pa_dtc)(0x30, spn, fmi)
    (dp, pf, ps, prio, data), = sent
    exp = [17 if act else 1, 255, 255, 255, 255, spn & 0xFF, (spn >> 8) & 0xFF, (((spn >> 16) & 7) << 5) | fmi]
    if (dp, pf, ps, prio) != (0, 0xC3, 0x30, 6) or data != exp:
        return f"DM22 request spn={spn:#x} fmi={fmi}: {(dp, pf, ps, prio, data)} expected data {exp}"
    return None


def oracle(ctx, full):
    rng = random.Random(ctx.seed * 7907 + 16)
    big = full or not ctx.quick
    findings, evals, distinct = [], 0, set()
    cases = []
    for dll in ('j1939-21', 'j1939-22'):
        for n in ([1, 2, 3, 10, 14, 15, 17] if not big else [1, 2, 3, 4, 5, 10, 14, 15, 16, 17, 24, 60, 100, 400]):
            cases.append((dll, n))
    if not big:
        cases = rng.sample(cases, 8) + [('j1939-21', 3), ('j1939-21', 10)]
    # more cycles than the stack has broadcast sessions (J1939-22: 4): every cycle of a long-running DM1 source arrives
    cases += [('j1939-22', 15, 7), ('j1939-21', 3, 7)]
    for case in cases:
        dll, n = case[:2]
        ncyc = case[2] if len(case) > 2 else 4
        # a J1939-21 BAM with n codes needs ceil((2+4n)/7) * 50 ms; choose a cycle that leaves room
        dur = ((2 + 4 * n + 6) // 7 + 2) * 50_000 if dll == 'j1939-21' else ((2 + 4 * n) // 60 + 3) * 10_000
        cycle = max(100_000, dur + 100_000)
        evals += 1
        distinct.add((dll, n, ncyc))
        r = e2e_case(rng, dll, n, cycle, ncyc, ncyc - 1)
        if r:
            findings.append(dict(signature=dict(family='dm1-e2e', dll=dll), what=r, case=dict(dll=dll, n=n)))
            break
    if not findings:
        for dll, n, cycle, run_us in ([('j1939-21', 17, 200_000, 2_500_000), ('j1939-21', 40, 1_000_000, 5_500_000)] +
                                      ([('j1939-22', 400, 50_000, 1_500_000), ('j1939-21', 100, 500_000, 8_000_000)] if big else [])):
            evals += 1
            distinct.add((dll, n, 'overlap'))
            r = overlap_case(rng, dll, n, cycle, run_us)
            if r:
                findings.append(dict(signature=dict(family='dm1-overlap', dll=dll), what=r, case=dict(dll=dll, n=n, cycle=cycle)))
                break
    j = sim.load(C.REPO)
    vals = [0, 1, 0xFFFF, 0x10000, 0x7FFFF, 0x70000, 0x40000, 0x20000] + [rng.getrandbits(19) for _ in range(300 if not big else 5000)]
    for spn in vals:
        fmi = rng.choice([0, 31, rng.randrange(32)])
        evals += 1
        distinct.add(('dm22', spn, fmi))
        r = dm22_case(j, spn, fmi, rng.random() < 0.5)
        if r:
            findings.append(dict(signature=dict(family='dm22'), what=r, case=dict(spn=spn, fmi=fmi)))
            break
    return dict(findings=findings, evaluations=evals, distinct_nontrivial=len(distinct),
                samples=[dict(case='DM1 end to end', dll='j1939-21', codes=10, cycles=3, then='stop_send'), dict(case='DM22', spn=hex(0x7FFFF))],
                rule="DM1 end to end between two real stacks (sender CA 0x21, subscriber CA 0x42) for 1..400 random/boundary trouble codes on "
                     "both data link layers (single frame, J1939-21 BAM, FD multi-PG, FD BAM), 3 cycles then stop_send then one more cycle of "
                     "silence; DM22 request bytes vs J1939-73 for boundary and random SPN/FMI; distinct = distinct (dll, count) / (spn, fmi)")


def replay(ctx, path):
    r = json.load(open(path))
    print(json.dumps(r, indent=1)[:3000])
    return 0
