"""C08 — transfer outcome does not depend on where reception pre-empts the job thread."""
import collections, random
from .. import common as C, gen21, gen22, net21, preempt
from ..corr21 import first_divergence
from ..gen21 import rand_payload

PID = 'C08'
PROP_MODULE = 'J1939.Props.C08'
UNITS = ['Tp21.buffer_hash', 'Tp21.cm_control', 'Tp21.abort', 'Tp21.cts', 'Tp21.dt']
ASSUMPTIONS = ["model granularity: the receive thread runs between two session lookups of the pass (any K); inside the handling of one "
               "session the pass is atomic in the model — there the real code advances the record before it sends (j1939_21.py:205-223, "
               "240-255; j1939_22 since fix D20), which is what makes the atomic step faithful; the line-level pre-emption inside a "
               "session's handling, the ECU timer loop and the sleep/wake-up race are exercised on the real code by the oracle only",
               "the receive thread's handlers are atomic (the background thread is the one that is held, as the property states)",
               "CPython executes a source line's dict operations atomically with respect to the tracer-driven pre-emption (GIL granularity is "
               "finer than a line for a few statements; not modelled)"]


def correspondence(ctx):
    """recorded scripts in which the REAL pass is pre-empted (line tracer) before its K-th session lookup"""
    rng = random.Random(ctx.seed * 1000003 + 80000)
    n = ctx.n(80, 4000)
    dis, traces, evals, distinct, hist = [], 0, 0, set(), {}
    sample = None
    for _ in range(n):
        sub = random.Random(rng.getrandbits(48))
        rec = gen21.preempt_script(sub, C.REPO) if traces % 2 == 0 else gen22.preempt_script(sub, C.REPO)
        lean = ctx.driver.run_lines(rec.lines)
        traces += 1
        evals += len(rec.lines)
        distinct.add(C.struct_hash(rec.lines))
        for l, outs in rec.outputs:
            key = l.split()[0]
            hist[key] = hist.get(key, 0) + 1
            if key.endswith('tickpre'):
                for o in outs:
                    if o.split()[0] in ('rxexc', 'exc'):
                        hist[o] = hist.get(o, 0) + 1
        sample = sample or [l[:160] for l in rec.lines if 'tickpre' in l][:6]
        d = first_divergence(rec, lean)
        if d:
            d['kind'] = 'preempted-pass'
            d['script'] = [l[:300] for l in d['script']]
            dis.append(d)
            if len(dis) >= 2:
                break
    a = dict(traces=traces, disagreements=dis, evaluations=evals, distinct_nontrivial=len(distinct), output_histogram=hist,
             samples=[dict(script=sample)])
    # the ECU thread's own loop (timer pass, the decision to block on the wake-up queue and with which timeout): the scripts of
    # C12 — c08_wait_timeout_positive is about this part of the model
    from . import c12
    from .. import corr22
    b = c12.correspondence(ctx, n=ctx.n(150, 3000))
    for d in b.get('disagreements', []):
        d.setdefault('kind', 'ecu-pass')
    return corr22.merge(a, b)


# ------------------------------------------------------------------------------------------------ line-level oracle on the real code
def run(dll, kind, window, size, target, seed, plan=None, record=False, lat=1000):
    rng = random.Random(seed)
    sc = net21.Scenario(C.REPO, seed, 2, dll=dll, maxcmdt=[window, window], latency=lambda r, a, b, f: lat)
    pre = preempt.Preemptor(sc.net, target)
    pre.recording = record
    if plan:
        pre.plan = dict(plan)
    data = rand_payload(rng, size)
    if kind == 'rts':
        sc.send(0, 0, 208, sc.addrs[1], 6, data)
    else:
        sc.send(0, 0, 254, 0x11, 6, data)
    sc.net.run(20_000_000, stop=lambda: sc.tables_empty() and sc.net.quiet())
    t_idle = sc.w.now
    sc.net.run(100_000)
    bad = []
    if sc.net.errors:
        bad.append(f"background thread died / handler raised: {sc.net.errors[0]}")
    r = net21.check_exactly_once(sc)
    if r:
        bad.append(r)
    # a transfer that is delivered ends without any abort on the bus and both sides go idle right after the last frame
    # (no loss here: nobody has a reason to give up) — wherever the thread was held
    def is_abort(cid, d):
        pf = (cid >> 16) & 0xFF
        return bool(d) and ((pf == 0xEC and d[0] == 255) or (pf == 0x4D and d[0] & 15 == 15))
    if not bad:
        aborts = [(t, hex(cid), d[:8]) for (t, s_, cid, d, fd) in sc.net.bus if is_abort(cid, d)]
        if aborts:
            bad.append(f"connection abort on the bus although the transfer was delivered: {aborts[0]}")
        last = max([t for (t, s_, cid, d, fd) in sc.net.bus if not is_abort(cid, d)] or [0])
        hold = sum(plan.values()) if plan else 0
        if sc.tables_empty() and t_idle - last > 300_000 + hold:
            bad.append(f"session records stayed {(t_idle - last) // 1000} ms after the last frame of a delivered transfer")
    if not sc.tables_empty():
        bad.append("a session is left in a table (not idle) after the transfer")
    if sc.net.max_spins > 50:
        bad.append(f"background thread busy-spins ({sc.net.max_spins} passes without sleeping)")
    return bad, pre


_CRIT = {}


def critical(p):
    """a point within three lines after a statement that puts a frame on the bus: the reply may be handled right there"""
    import os
    fn = p[0]
    if fn not in _CRIT:
        path = os.path.join(C.REPO, 'j1939', fn)
        lines = open(path).read().split('\n')
        hot = {n + 1 for n, l in enumerate(lines) if '__send_tp_' in l or 'self.__send_message' in l or 'send_message(' in l}
        _CRIT[fn] = {n for h in hot for n in (h + 1, h + 2, h + 3)}
    return p[1] in _CRIT[fn]


def scan_real_passes(ctx, n):
    """search for a history in which a (pre-empted) pass of the REAL background thread raises: the thread would die"""
    rng = random.Random(ctx.seed * 31337 + 8)
    for _ in range(n):
        rec = gen21.preempt_script(random.Random(rng.getrandbits(48)), C.REPO)
        for k, (l, outs) in enumerate(rec.outputs):
            if l.split()[0] in ('d21.tick', 'd21.tickpre') and any(o.startswith('exc ') for o in outs):
                return dict(signature=dict(family='preemption', dll='j1939-21', kind='pass-raises'),
                            what=f"the background pass raised {[o for o in outs if o.startswith('exc ')][0][4:]} in a history of valid operations "
                                 f"(op {k}: {l[:80]})", scenario=dict(script=[x[:300] for x in rec.lines[:k + 1]][-60:]))
    return None


def points_of(pre):
    pts, cnt = [], collections.Counter()
    for key in pre.seen:
        pts.append(key + (cnt[key],))
        cnt[key] += 1
    return pts


def oracle(ctx, full):
    rng = random.Random(ctx.seed * 7907 + 8)
    exhaustive = not ctx.quick or full
    shapes = [(dll, kind, w) for dll in ('j1939-21', 'j1939-22') for kind in ('rts', 'bam') for w in (1, 2, 255)]
    if not exhaustive:
        shapes = [('j1939-21', 'rts', 2), ('j1939-22', 'rts', 2)] + rng.sample(shapes, 3)
    else:
        shapes = shapes[ctx.shard::ctx.shards]          # partitioned over the workers (12 shapes x 2 targets)
    findings, evals, distinct, samples = [], 0, set(), []
    stat = dict(shapes=0, points=0, runs=0, double=0, not_fired=0)
    if full:
        f = scan_real_passes(ctx, 150)
        if f:
            return dict(findings=[f], evaluations=150, distinct_nontrivial=1, samples=[], distribution=stat, rule="recorded pre-empted passes on the real code")
    for (dll, kind, w) in shapes:
        size = (rng.choice([23, 50]) if dll == 'j1939-21' else rng.choice([150, 250]))
        for target in (0, 1):
            seed = rng.getrandbits(24) + ctx.shard
            lat = rng.choice([1, 1000, 1000, 2000])
            base, pre = run(dll, kind, w, size, target, seed, record=True, lat=lat)
            desc = dict(dll=dll, kind=kind, window=w, size=size, target=('originator', 'responder')[target], latency=lat)
            if base:
                findings.append(dict(signature=dict(family='preemption', dll=dll), what="baseline (no pre-emption): " + base[0], scenario=desc))
                break
            pts = points_of(pre)
            stat['shapes'] += 1; stat['points'] += len(pts)
            if exhaustive:
                chosen = pts
            else:
                crit = [p for p in pts if critical(p)]
                chosen = crit[:60] + rng.sample(pts, min(len(pts), 14))
                stat['critical'] = stat.get('critical', 0) + len(crit[:60])
            # after a statement that sends, hold long enough for the peer's reply to come back (one round trip)
            plans = [{p: (min(5000, 2 * lat + 1000) if critical(p) and rng.random() < 0.8 else rng.choice([200, 1000, 5000]))} for p in chosen]
            # two pre-emptions per run, sampled
            for _ in range(40 if exhaustive else 4):
                a, b = rng.sample(pts, 2) if len(pts) >= 2 else (pts[0], pts[0])
                plans.append({a: rng.choice([200, 5000]), b: rng.choice([200, 5000])})
                stat['double'] += 1
            for plan in plans:
                bad, pr = run(dll, kind, w, size, target, seed, plan=plan, lat=lat)
                evals += 1; stat['runs'] += 1
                if len(plan) == 1 and not pr.fired:
                    stat['not_fired'] += 1
                distinct.add(C.struct_hash([desc, sorted(map(str, plan))]))
                if bad:
                    d = dict(desc); d['preempt'] = [dict(file=k[0], line=k[1], occurrence=k[2], hold_us=v) for k, v in plan.items()]
                    findings.append(dict(signature=dict(family='preemption', dll=dll, file=list(plan)[0][0]), what=bad[0], scenario=d, all=bad[:4]))
                    break
            if len(samples) < 2:
                samples.append(dict(desc, points=len(pts)))
            if findings:
                break
        if findings:
            break
    return dict(findings=findings, evaluations=evals, distinct_nontrivial=len(distinct), samples=samples, distribution=stat,
                rule="real stacks, RTS/CTS and BAM, J1939-21 and J1939-22, windows 1/2/255, originator or responder as the pre-empted stack: every "
                     "source line executed by the background thread during the transfer (electronic_control_unit.py, j1939_21.py, "
                     "j1939_22.py, each occurrence) is a pre-emption point — the thread is held there for 0.2..5 ms of bus time while the "
                     "other stack and frame reception on the same stack go on (line tracer, no source hooks); one pre-emption per run "
                     "(exhaustive in the thorough tier, sampled in quick), two per run sampled: payload intact exactly once, tables empty, "
                     "no exception in the background thread, no spin, no connection abort on the bus, both sides idle within 300 ms (+ hold) "
                     "of the last frame")


def replay(ctx, path):
    print(open(path).read()[:3000])
    return 0
