"""C01 — J1939-21 transport delivers every accepted message intact, exactly once."""
import random
from .. import common as C, corr21, net21, sim
from ..gen21 import rand_payload, size_choice

PID = 'C01'
PROP_MODULE = 'J1939.Props.C01'
UNITS = ['Tp21.buffer_hash', 'Tp21.dt', 'Tp21.cts', 'Tp21.rts', 'Tp21.bam', 'Tp21.eom_ack', 'Tp21.cm_pgn', 'Tp21.cm_control', 'Tp21.rts_size',
         'Tp21.rts_packets', 'Tp21.rts_max', 'Tp21.num_packets', 'Tp21.notify_pgn_value', 'MessageId.ofFields', 'MessageId.ofCanId',
         'MessageId.can_id', 'PGN.ofFields', 'PGN.value', 'PGN.from_message_id', 'PGN.is_pdu2_format']
ASSUMPTIONS = ["theorems are session level (originator announcement/frames, responder trace, segmentation round trip) for every payload, window "
               "and time; the composition over N stacks and all bus schedules is covered by correspondence + the network oracle, not by a single theorem",
               "replies processed re-entrantly inside send (latency 0) are exercised on the real code by the oracle only (the model is atomic)",
               "payload PGNs are not themselves transport/claim/request PGNs; one transfer per (SA, DA) pair at a time"]


def correspondence(ctx):
    return corr21.run(ctx, ctx.n(300, 12000), ctx.n(20, 500), 1)


def network_case(rng):
    n = rng.choice([2, 2, 3, 4])
    maxc = [rng.choice([1, 2, 3, 7, 254, 255, rng.randrange(1, 256)]) for _ in range(n)]
    lat = rng.choice([[0], [0], [1], [1000], [5000], [0, 1, 300, 1000, 5000], [0, 5000]])
    eps = rng.choice([0, 0, 500, 2000])
    sc = net21.Scenario(C.REPO, rng.getrandbits(32), n, maxcmdt=maxc, latency=lambda r, a, b, f: r.choice(lat),
                        tick_latency=lambda r, i: r.randrange(0, eps + 1))
    used, plan = set(), []
    for _ in range(rng.randrange(1, 7)):
        i = rng.randrange(n)
        if rng.random() < 0.3:
            key = (i, 255)
            pf, ps = (rng.choice([254, 255, 240]), rng.randrange(256)) if rng.random() < 0.6 else (rng.randrange(0, 234), 255)
        else:
            j = rng.choice([x for x in range(n) if x != i])
            key, pf, ps = (i, j), rng.choice([208, 0, 100, 233]), sc.addrs[j]
        size = size_choice(rng)
        if size > 8:
            if key in used:
                continue
            used.add(key)
        plan.append((rng.choice([0, 0, rng.randrange(0, 200000)]), i, rng.randrange(2), pf, ps, rng.randrange(8), rand_payload(rng, size)))
    plan.sort(key=lambda x: x[0])
    t0 = sc.w.now
    bad = []
    # a second application on one of the stacks, bound to an address nobody sends to (address 0 is a valid one): it may see the
    # broadcasts and nothing else
    second = None
    if rng.random() < 0.4:
        k2 = rng.randrange(n)
        a2 = rng.choice([0, 0, next(a for a in range(1, 250) if a not in sc.addrs)])
        if a2 not in sc.addrs:
            second = (k2, a2)
            sc.stacks[k2].ecu.subscribe(sc._cb(k2, 'addr2'), a2)
    for (t, i, dp, pf, ps, prio, data) in plan:
        sc.net.run(max(0, t0 + t - sc.w.now))
        if not sc.send(i, dp, pf, ps, prio, data):
            bad.append(f"send_pgn refused a message on an idle pair ({sc.addrs[i]:#x} pf={pf} ps={ps} len={len(data)})")
    sc.net.run(120_000_000, stop=lambda: sc.tables_empty() and sc.net.quiet())
    if sc.net.errors:
        bad.append(f"exception {sc.net.errors[0]}")
    if second:
        k2, a2 = second
        got2 = sorted(repr((pgn, sa, data)) for (t, i, name, prio, pgn, sa, data) in sc.deliv if name == 'addr2')
        sc.deliv[:] = [d for d in sc.deliv if d[2] != 'addr2']
        exp2 = sorted(repr(((dp << 16) | (pf << 8) | (ps if pf >= 240 else 0), sa, data))
                      for (i, dp, pf, ps, prio, sa, data, t) in sc.accepted if i != k2 and (pf >= 240 or ps == 255))
        if got2 != exp2:
            extra = [g for g in got2 if g not in exp2]
            bad.append(f"the second application on stack {k2} (address {a2:#x}) received {len(got2)} messages, {len(exp2)} broadcasts were sent to it; "
                       f"not a broadcast: {extra[0][:100] if extra else '-'}")
    r = net21.check_exactly_once(sc)
    if r:
        bad.append(r)
    if not sc.tables_empty():
        bad.append("session tables not empty at the end")
    return bad, dict(n=n, maxcmdt=maxc, latency=lat, eps=eps, second=second, msgs=[(p[1], p[3], p[4], len(p[6])) for p in plan])


def oracle(ctx, full):
    rng = random.Random(ctx.seed * 7907 + 1)
    n = ctx.n(120, 4000, full)
    findings, evals, distinct, samples = [], 0, set(), []
    for _ in range(n):
        sub = random.Random(rng.getrandbits(48))
        bad, desc = network_case(sub)
        evals += 1
        distinct.add(C.struct_hash(desc))
        if len(samples) < 2:
            samples.append(desc)
        if bad:
            findings.append(dict(signature=dict(family='network-delivery', dll='j1939-21'), what=bad[0], scenario=desc, all=bad[:5]))
            break
    return dict(findings=findings, evaluations=evals, distinct_nontrivial=len(distinct), samples=samples,
                rule="2-4 real stacks, 1-6 messages (0..1785 bytes, all residues mod 7 favoured) on distinct (SA, DA) pairs in both directions, PDU1 "
                     "peer-to-peer / PDU1 to 255 / PDU2 broadcasts, max_cmdt_packets 1..255 per stack, per-frame latencies from {0 (re-entrant), "
                     "1 us, 0.3, 1, 5 ms} keeping bus order, scheduling latency <= 2 ms; deliveries at the address listeners must equal the "
                     "expected multiset exactly and all tables be empty; in 40% of the cases a second application bound to another address (often "
                     "address 0) on one stack: it receives exactly the broadcasts")


def replay(ctx, path):
    print(open(path).read()[:3000])
    return 0
