"""C13 — a CA sends application data only from an address it holds."""
import random
from .. import common as C, genca, sim

PID = 'C13'
PROP_MODULE = 'J1939.Props.C13'
UNITS = ['Ca.request_data', 'Ca.request_pgn', 'MessageId.ofFields', 'MessageId.can_id', 'Name.ofBytes', 'Name.value', 'Name.bytes', 'Name.ofValue']
ASSUMPTIONS = ["handler atomicity (the property quantifies over histories, not thread schedules)",
               "services built on the entry points (Dm1, Dm11, Dm22, DM14 senders) are exercised on the real code by the oracle"]


def correspondence(ctx):
    return genca.correspondence(ctx, ctx.n(400, 15000), 13)


def history_case(rng):
    """drive a real CA on a real ECU through a claim history by bus frames and timer firings, then try every send entry point"""
    w = sim.World(C.REPO)
    j = w.j
    st = w.new_stack()
    aac = rng.random() < 0.5
    name = j.Name(arbitrary_address_capable=aac, identity_number=rng.randrange(5, 1000), manufacturer_code=rng.randrange(2048))
    pref = rng.choice([128, 200, 10, 250, 0, 0, 253, 252])          # 0 is a valid address; 252/253: no room left after a loss (D28)
    bypass = rng.random() < 0.2
    if bypass and rng.random() < 0.25:
        pref = None                # claiming bypassed but no address configured: there is nothing to be operational at
    ca = j.ControllerApplication(name, pref, bypass)
    st.ecu.add_ca(controller_application=ca)
    net = sim.Net(w)
    hist = []
    if not bypass and rng.random() < 0.9:
        ca.start(sim.VT(rng.choice([0, 100000, 500000])))
        net.poke(st)
        hist.append('start')
    stop_at = rng.randrange(1, 8) if rng.random() < 0.25 else None      # the application stops the CA's claim timer somewhere in the history
    lower = j.Name(value=name.value - rng.randrange(1, 4)).bytes
    higher = j.Name(value=name.value + rng.randrange(1, 4)).bytes
    lost_at = None       # (time, address) of the last lower-NAME claim injected for the address the CA had announced last
    for step in range(rng.randrange(0, 8)):
        r = rng.random()
        if step == stop_at:
            ca.stop()
            hist.append('stop')
        if r < 0.4:
            net.run(rng.choice([1000, 100000, 260000, 600000]))
            hist.append('run')
        else:
            own_claims = [(fr[0], fr[1] & 0xFF) for fr in st.sent if (fr[1] >> 8) & 0x3FFFF == 0xEEFF]
            cur = own_claims[-1][1] if own_claims else (254 if pref is None else pref)
            p0 = 254 if pref is None else pref
            sa = rng.choice([cur, cur, p0, p0 + 1, p0 + 2, 77])
            nm = lower if rng.random() < 0.6 else higher
            net.inject(0, (6 << 26) | (0xEEFF << 8) | sa, list(nm), 0)
            net.run(0)
            if nm is lower and (own_claims or bypass) and sa == cur and cur != 254:
                lost_at = (w.now, cur)      # (a CA that bypassed claiming holds its address without a claim frame of its own)
            net.run(rng.choice([0, 1000, 300000]))
            hist.append(('claim', sa, 'lower' if nm is lower else 'higher'))
    # the oracle's own view of what the CA holds: from the bus and the protocol rules
    held = ca.device_address if ca.state == ca.State.NORMAL else None
    bad = []
    own_claims = [(fr[0], fr[1] & 0xFF) for fr in st.sent if (fr[1] >> 8) & 0x3FFFF == 0xEEFF]
    if lost_at and held == lost_at[1] and not [1 for (t, a) in own_claims if t > lost_at[0] and a == held]:
        bad.append(f"CA still operational at {held} after a lower NAME claimed that address at t={lost_at[0]} (no new claim of its own since)")
    # independent of the library's state: the only address the CA may use is the one of its LAST own claim frame (the
    # preferred one when the claim procedure is bypassed), unless a lower NAME has claimed it since
    if own_claims:
        entitled = own_claims[-1][1]
        if entitled == 254 or (lost_at and lost_at[1] == entitled and lost_at[0] >= own_claims[-1][0]):
            entitled = None
    else:
        entitled = pref if bypass and not (lost_at and lost_at[1] == pref) else None
    st.sent.clear()
    dm1 = j.Dm1(ca)
    dm22 = j.Dm22(ca)
    dm11 = j.Dm11(ca)
    q = j.Dm14Query(ca)
    q._dest_address, q.direct, q.address, q.object_count, q.command, q.bytes = 0x30, 1, 0x1000, 1, sys_cmd(j), [1]
    calls = [('send_pgn', lambda: ca.send_pgn(0, 0xFE, 0xCA, 6, [1, 2, 3])), ('send_pgn-long', lambda: ca.send_pgn(0, 0xD0, 0x30, 6, list(range(20)))),
             ('send_message', lambda: ca.send_message(6, 0xFECA, [1, 2])), ('send_request', lambda: ca.send_request(0, rng.choice([0xFECA, 0xEE01, 0x1EE00, 0xEEFF]), 255)),
             ('send_request-claim', lambda: ca.send_request(0, 0xEE00, 255)), ('dm1', lambda: dm1._send(dict(cb=lambda: ({}, [dict(spn=1, fmi=1)])))),
             ('dm22', lambda: dm22.request_clear_act_dtc(0x30, 100, 3)), ('dm11', lambda: dm11.request_clear_all(0x30)),
             ('dm14', lambda: q._send_dm14(7)), ('dm16', lambda: q._send_dm16())]
    for nm, f in calls:
        st.sent.clear()
        try:
            f()
            raised = False
        except RuntimeError:
            raised = True
        frames = [(fr[1], fr[3]) for fr in st.sent]
        if not raised and nm != 'send_request-claim' and any((c & 0xFF) != entitled for c, d in frames):
            bad.append(f"{nm} put frames on the bus from {sorted({c & 0xFF for c, d in frames})} although the only address this CA has "
                       f"announced and not lost is {entitled} (library state {ca.state}, device_address {ca.device_address})")
        if held is None:
            if nm == 'send_request-claim':
                if raised or [c & 0xFF for c, d in frames] != [254]:
                    bad.append(f"request for address claim without an address: raised={raised} frames={[(hex(c), d) for c, d in frames]}")
            elif not raised or frames:
                bad.append(f"{nm} without an address (state {ca.state}): raised={raised}, frames {[(hex(c), d) for c, d in frames]}")
        else:
            if raised:
                bad.append(f"{nm} raised although the CA is operational at {held}")
            elif any((c & 0xFF) != held for c, d in frames) or not frames:
                bad.append(f"{nm} from {[hex(c) for c, d in frames]} while holding {held}")
        if bad:
            break
    # the bus never shows application frames of this CA's NAME from an address it did not hold — judged above per call
    return bad, dict(aac=aac, pref=pref, bypass=bypass, hist=hist, state=ca.state, held=held)


def sys_cmd(j):
    import sys
    return sys.modules['j1939.Dm14Query'].Command.READ


def inflight_case(dll):
    """a broadcast transfer accepted while the CA held its address, the address lost (lower NAME) while the transfer is
    running: afterwards the stack may originate claim traffic only — not the rest of the transfer from the lost address"""
    w = sim.World(C.REPO)
    j = w.j
    st = w.new_stack(dll=dll)
    name = j.Name(arbitrary_address_capable=0, identity_number=500, manufacturer_code=100)
    ca = j.ControllerApplication(name, 128, True)
    st.ecu.add_ca(controller_application=ca)
    net = sim.Net(w)
    ca.send_pgn(0, 0xFE, 0xCA, 6, list(range(20 if dll == 'j1939-21' else 200)))
    net.poke(st)
    net.run(60000 if dll == 'j1939-21' else 15000)
    net.inject(0, (6 << 26) | (0xEEFF << 8) | 128, list(j.Name(value=name.value - 1).bytes), 0)
    net.run(0)
    if ca.state == ca.State.NORMAL:
        return None
    n = len(st.sent)
    net.run(2_000_000)
    late = [(hex(fr[1]), fr[3][:8]) for fr in st.sent[n:] if (fr[1] & 0xFF) == 128 and (fr[1] >> 8) & 0x3FFFF != 0xEEFF]
    if late:
        return dict(signature=dict(family='inflight-after-loss', dll=dll),
                    what=f"{len(late)} frame(s) of a running broadcast transfer went out from address 128 after the CA had lost it "
                         f"(state {ca.state}): first {late[0]}", scenario=dict(dll=dll, frames=late[:4]))
    return None


def oracle(ctx, full):
    rng = random.Random(ctx.seed * 7907 + 13)
    n = ctx.n(150, 5000, full)
    findings, evals, distinct, samples = [], 0, set(), []
    for dll in ('j1939-21', 'j1939-22'):
        f = inflight_case(dll)
        evals += 1
        if f:
            findings.append(f)          # listed in known_findings.json (D30); the search goes on
    for _ in range(n):
        bad, desc = history_case(random.Random(rng.getrandbits(48)))
        evals += 1
        distinct.add(C.struct_hash(desc))
        if len(samples) < 2:
            samples.append(desc)
        if bad:
            findings.append(dict(signature=dict(family='send-guard'), what=bad[0], scenario=desc, all=bad[:5]))
            break
    return dict(findings=findings, evaluations=evals, distinct_nontrivial=len(distinct), samples=samples,
                rule="a real CA (arbitrary-address-capable or not, preferred address in either range, bypass or not) on a real ECU driven through "
                     "a claim history (start, timer firings, claims with lower/higher NAME for its own / next / other addresses), then every send "
                     "entry point and service (send_pgn short/long, send_message, send_request incl. the claim PGN and look-alikes 0xEE01/0x1EE00/"
                     "0xEEFF, Dm1, Dm22, Dm11, DM14, DM16): raises and emits nothing without an address (request for claim from 254), else all "
                     "frames carry the held address; plus: a broadcast transfer that is running when the address is lost must not go on from that address "
                     "(known finding D30)")


def replay(ctx, path):
    print(open(path).read()[:3000])
    return 0
