"""C07 — robustness against arbitrary received frames (J1939-21 part proved in lean/J1939/Props/C07.lean)."""
import random, json
from .. import common as C, corr21, corr22, net21, sim, gen21
from ..gen21 import rand_payload

PID = 'C07'
PROP_MODULE = 'J1939.Props.C07'
UNITS = ['Tp21.buffer_hash', 'Tp21.cm_control', 'Tp21.cm_pgn', 'Tp21.cts_packets', 'Tp21.cts_next', 'Tp21.rts_size', 'Tp21.rts_packets',
         'Tp21.rts_max', 'Tp21.bam_size', 'Tp21.bam_packets', 'Tp21.notify_pgn_value', 'MessageId.ofCanId', 'PGN.from_message_id']
ASSUMPTIONS = ["virtual time is positive; pacing intervals are > 0 (a zero interval legitimately polls)",
               "J1939-22: correspondence/oracle only until Model/Dll22 theorems are added",
               "atomic handler execution (pre-emption of the background pass by reception is C08)"]


def correspondence(ctx):
    a = corr21.run(ctx, ctx.n(40, 1500), ctx.n(200, 6000), 7)
    b = corr22.run(ctx, ctx.n(10, 400), ctx.n(100, 4000), 7)         # J1939-22 under hostile traffic
    return corr22.merge(a, b)


def hostile_case(rng, dll='j1939-21'):
    own, peer_a = rng.sample(range(1, 250), 2)
    sc = net21.Scenario(C.REPO, rng.getrandbits(32), 2, dll=dll, maxcmdt=[rng.choice([1, 2, 3, 255]), rng.choice([1, 2, 255])], addrs=[own, peer_a],
                        latency=lambda r, a, b, f: r.choice([1, 1000]))
    st = sc.stacks[0]
    fired = []
    period = rng.choice([100000, 250000, 1000000])
    t0 = sc.w.now
    st.ecu.add_timer(sim.VT(period), lambda c: (fired.append(sc.w.now), True)[1])
    sc.net.poke(st)
    bad = []
    n = rng.randrange(1, 61)
    frames = []
    for _ in range(n):
        sc.net.run(rng.choice([0, 0, 0, 1, 1000, 1000, 50000, 200000, 760000, 1260000]))
        if rng.random() < 0.2:
            # 0x77 is an address nobody owns: that session is driven by the injected frames alone
            sc.send(0, 0, 208 if rng.random() < 0.7 else 254, rng.choice([peer_a, 0x77, 0x77]), 6, rand_payload(rng, rng.choice([9, 20, 30])))
        else:
            cid, data = gen21.malformed_frame(rng, own, [peer_a, 0x77])
            frames.append((sc.w.now - t0, hex(cid), data))
            sc.net.inject(0, cid, data, 0)
    # afterwards: the longest timeout, then everything must be as new
    sc.net.run(1_300_000)
    if st.dead:
        bad.append(f"background pass died: {type(st.dead).__name__}")
    if sc.net.max_spins > 40:
        bad.append(f"background thread busy-spins ({sc.net.max_spins} consecutive passes without sleeping)")
    if not bad and (st.ecu.j1939_dll._rcv_buffer or st.ecu.j1939_dll._snd_buffer):
        bad.append(f"sessions still open 1.3 s after the traffic: rcv {[hex(k) for k in st.ecu.j1939_dll._rcv_buffer]} "
                   f"snd {[(hex(k), b['state']) for k, b in st.ecu.j1939_dll._snd_buffer.items()]}")
    # timer on time throughout
    late = [(k, t) for k, t in enumerate(fired) if t != t0 + (k + 1) * period]
    if not bad and late:
        bad.append(f"periodic timer call {late[0][0]} at +{late[0][1] - t0} us instead of +{(late[0][0] + 1) * period}")
    if not bad and len(fired) < (sc.w.now - t0) // period - 1:
        bad.append(f"periodic timer fired {len(fired)} times in {(sc.w.now - t0)} us")
    if not bad:
        sc.deliv.clear(); sc.accepted.clear()
        sc.send(1, 0, 208, own, 6, rand_payload(rng, 40))
        sc.send(0, 0, 208, peer_a, 6, rand_payload(rng, 23))
        sc.net.run(5_000_000, stop=lambda: sc.tables_empty() and sc.net.quiet())
        r = net21.check_exactly_once(sc)
        if r:
            bad.append("follow-up transfers: " + r)
    return bad, dict(frames=frames[-12:], n=n, dll=dll)


def hostile_case22(rng):
    """J1939-22: hostile FD frames while the stack also sends; afterwards nothing may be lost for good: tables empty after
    the longest timeout (T5 = 3 s), both session pools full again, the full advertised concurrency usable"""
    from .. import gen22
    own, peer_a = rng.sample(range(1, 250), 2)
    sc = net21.Scenario(C.REPO, rng.getrandbits(32), 2, dll='j1939-22', maxcmdt=[rng.choice([1, 2, 3, 255]), rng.choice([1, 2, 255])],
                        addrs=[own, peer_a], latency=lambda r, a, b, f: r.choice([1, 1000]))
    st = sc.stacks[0]
    t0 = sc.w.now
    bad, frames = [], []
    n = rng.randrange(1, 61)
    for _ in range(n):
        sc.net.run(rng.choice([0, 0, 0, 1, 1000, 1000, 50000, 200000, 760000, 1260000]))
        if rng.random() < 0.3:
            sc.send(0, 0, 208 if rng.random() < 0.7 else 254, rng.choice([peer_a, 0x77, 0x77]), 6, rand_payload(rng, rng.choice([61, 100, 130])))
        else:
            cid, data = gen22.malformed_frame22(rng, own, [peer_a, 0x77])
            frames.append((sc.w.now - t0, hex(cid), data))
            sc.net.inject(0, cid, data, 0)
    sc.net.run(3_100_000)
    d = st.ecu.j1939_dll
    if st.dead:
        bad.append(f"background pass died: {type(st.dead).__name__}")
    if sc.net.max_spins > 40:
        bad.append(f"background thread busy-spins ({sc.net.max_spins} consecutive passes without sleeping)")
    if not bad and (d._rcv_buffer or d._snd_buffer):
        bad.append(f"sessions still open 3.1 s after the traffic: rcv {[hex(k) for k in d._rcv_buffer]} "
                   f"snd {[(hex(k), b['state']) for k, b in d._snd_buffer.items()]}")
    if not bad and (not all(d._J1939_22__rts_cts_session_list) or not all(d._J1939_22__bam_session_list)):
        bad.append(f"session numbers lost for good: rts/cts pool {d._J1939_22__rts_cts_session_list} bam pool {d._J1939_22__bam_session_list} "
                   "with no session open")
    if not bad:
        sc.deliv.clear(); sc.accepted.clear()
        for k in range(8):
            if not sc.send(0, 0, 208, peer_a, 6, rand_payload(rng, rng.choice([61, 130]))):
                bad.append(f"after the traffic: destination-specific session {k + 1} of 8 refused")
        for k in range(4):
            if not sc.send(0, 0, 254, k, 6, rand_payload(rng, 70)):
                bad.append(f"after the traffic: broadcast session {k + 1} of 4 refused")
        sc.send(1, 0, 208, own, 6, rand_payload(rng, 100))
        sc.net.run(30_000_000, stop=lambda: sc.tables_empty() and sc.net.quiet())
        r = net21.check_exactly_once(sc)
        if r:
            bad.append("follow-up transfers: " + r)
    return bad, dict(frames=frames[-12:], n=n, dll='j1939-22')


def hold_burst_case(rng):
    """a burst of 'hold the connection' CTS frames for a session the stack opened, then silence: the session (and its session
    number) is released within the standard's longest timeout after the LAST frame, however many hold frames there were"""
    dll = rng.choice(['j1939-21', 'j1939-22', 'j1939-22'])
    own, peer_a = rng.sample([a for a in range(1, 250) if a != 0x77], 2)      # 0x77 must be an address nobody owns
    sc = net21.Scenario(C.REPO, rng.getrandbits(32), 2, dll=dll, maxcmdt=[rng.choice([1, 3, 255]), 255], addrs=[own, peer_a],
                        latency=lambda r, a, b, f: r.choice([1, 1000]))
    st = sc.stacks[0]
    d = st.ecu.j1939_dll
    sc.send(0, 0, 208, 0x77, 6, rand_payload(rng, rng.choice([61, 130, 200]) if dll == 'j1939-22' else rng.choice([9, 30])))
    sc.net.run(rng.choice([0, 1000, 20000]))
    n = rng.randrange(2, 14)
    gaps = []
    for _ in range(n):
        if dll == 'j1939-22':
            sess = next(iter(d._snd_buffer.values()))['session'] if d._snd_buffer else 0
            cid = (7 << 26) | (0x4D << 16) | (own << 8) | 0x77
            data = [1 | (sess << 4), 255, 255, 255, 1, 0, 0, 0, 0, 0x00, 0xD0, 0x00]
        else:
            cid = (7 << 26) | (0xEC << 16) | (own << 8) | 0x77
            data = [17, 0, 1, 255, 255, 0x00, 0xD0, 0x00]
        sc.net.inject(0, cid, data, 0)
        g = rng.choice([0, 0, 1000, 50000, 200000, 400000])
        gaps.append(g)
        sc.net.run(g)
    longest = 3_100_000 if dll == 'j1939-22' else 1_300_000
    # the bound counts from the last frame on the bus other than an abort: should the stack itself still transmit for this
    # session (it may, if a window was open), the clock starts again from there
    is_abort = (lambda f: len(f[3]) > 0 and (f[3][0] == 255 if dll == 'j1939-21' else f[3][0] & 15 == 15))
    wait = longest - gaps[-1]
    for _ in range(6):
        mark = len(st.sent)
        sc.net.run(wait)
        wait = longest
        if not [f for f in st.sent[mark:] if not is_abort(f)]:
            break
    bad = []
    if st.dead:
        bad.append(f"background pass died: {type(st.dead).__name__}")
    if not bad and (d._rcv_buffer or d._snd_buffer):
        bad.append(f"{dll}: session still open {longest / 1e6} s after the last frame of a burst of {n} hold CTS frames: "
                   f"snd {[(hex(k), b['state']) for k, b in d._snd_buffer.items()]}")
    if not bad and dll == 'j1939-22' and (not all(d._J1939_22__rts_cts_session_list) or not all(d._J1939_22__bam_session_list)):
        bad.append(f"session numbers lost after a hold burst: {d._J1939_22__rts_cts_session_list}")
    return bad, dict(kind='hold-burst', dll=dll, n=n, gaps=gaps)


def listener_case(rng):
    """the same alphabet through the real bus listener (the caller there is python-can's receive thread, which ends for good
    on an exception): nothing escapes `on_message_received`, and the stack still receives afterwards"""
    import sys
    import can
    from .. import gen22
    dll = rng.choice(['j1939-21', 'j1939-22'])
    own, peer_a = rng.sample(range(1, 250), 2)
    sc = net21.Scenario(C.REPO, rng.getrandbits(32), 2, dll=dll, maxcmdt=[255, 255], addrs=[own, peer_a], latency=lambda r, a, b, f: 1000)
    st = sc.stacks[0]
    L = sys.modules['j1939.electronic_control_unit'].MessageListener(st.ecu)
    got = []
    st.ecu.subscribe(lambda prio, pgn, sa, ts, data: got.append((pgn, sa, list(data))))
    bad, frames = [], []
    for _ in range(rng.randrange(1, 40)):
        cid, data = (gen22.malformed_frame22(rng, own, [peer_a, 0x77]) if dll == 'j1939-22' else gen21.malformed_frame(rng, own, [peer_a, 0x77]))
        data = [x & 255 for x in data][:64]
        frames.append((hex(cid), data))
        msg = can.Message(arbitration_id=cid & 0x1FFFFFFF, is_extended_id=True, data=bytearray(data), is_fd=len(data) > 8, timestamp=sc.w.now / 1e6,
                          check=False)
        try:
            L.on_message_received(msg)
        except Exception as e:        # noqa
            bad.append(f"{dll}: {type(e).__name__} escaped the bus listener for frame {hex(cid)} {data}: the receive thread ends, nothing is received any more")
            break
        sc.net.run(rng.choice([0, 1000, 200000]))
    if not bad:
        got.clear()
        L.on_message_received(can.Message(arbitration_id=0x18FECA00 | 0x55, is_extended_id=True, data=bytearray([1, 2, 3, 4, 5, 6, 7, 8]),
                                          timestamp=sc.w.now / 1e6))
        if (0xFECA, 0x55, [1, 2, 3, 4, 5, 6, 7, 8]) not in got:
            bad.append(f"{dll}: a well-formed frame through the bus listener was not delivered afterwards: {got[:2]}")
    return bad, dict(kind='listener', dll=dll, frames=frames[-8:])


def oracle(ctx, full):
    rng = random.Random(ctx.seed * 7907 + 7)
    n = ctx.n(150, 5000, full)
    findings, evals, distinct, samples = [], 0, set(), []
    for _ in range(n):
        sub = random.Random(rng.getrandbits(48))
        bad, desc = hold_burst_case(sub) if evals % 10 == 7 else listener_case(sub) if evals % 10 == 4 else \
            hostile_case22(sub) if evals % 3 == 2 else hostile_case(sub)
        evals += 1
        distinct.add(C.struct_hash(desc))
        if len(samples) < 1:
            samples.append(desc)
        if bad:
            findings.append(dict(signature=dict(family=desc.get('kind', 'hostile-frames'), dll=desc['dll']), what=bad[0], scenario=desc, all=bad[:5]))
            break
    return dict(findings=findings, evaluations=evals, distinct_nontrivial=len(distinct), samples=samples,
                rule="1..60 frames from the protocol-aware alphabet (TP.CM with every control byte, TP.DT, requests, claims, other PGNs; local, "
                     "foreign, global destinations; ordinary, own, 254/255 sources; boundary sizes/packets/sequence numbers; lengths 0..8) fed to a "
                     "real ECU with gaps from 0 to beyond each timeout while it also sends; then: pass alive, no spin, tables empty after 1.3 s, "
                     "a periodic timer exactly on its grid, two follow-up transfers delivered; every third case J1939-22: FD.TP.CM with every control "
                     "code / session / size / segment / request code, FD.TP.DT, multi-PG and other frames while the stack sends; then: pass alive, "
                     "tables empty after 3.1 s, both session pools full, 8 + 4 sessions at once accepted and delivered; every tenth case a burst of 2..13 "
                     "'hold' CTS frames for an own session then silence: released within the longest timeout after the LAST frame; every tenth "
                     "case the alphabet through the real bus listener: no exception escapes it and a well-formed frame is delivered afterwards")


def replay(ctx, path):
    print(open(path).read()[:3000])
    return 0
