"""C12 — timers and callback registrations.  Theorems: lean/J1939/Props/C12.lean about Model/Ecu.lean.
Correspondence: random histories of ECU operations (incl. operations from inside callbacks, slow callbacks,
exact-deadline and ±1 µs passes) on the real ElectronicControlUnit vs the model.
Oracle: an independent registration tracker run against the real ECU under an idle-ECU scheduler."""
import random, json, sys
from .. import common as C, pyexec, sim

PID = 'C12'
PROP_MODULE = 'J1939.Props.C12'
UNITS = []
ASSUMPTIONS = ["timer periods are > 0 (a zero period with a due deadline makes the real catch-up loop spin for ever)",
               "application callbacks behave as scripted (return value, nested ECU calls, time they take)",
               "the wake-up queue hands the thread one token per pass (queue.Queue semantics)"]
GRID = [1000, 2000, 5000, 10000, 50000, 100000, 250000, 1000000, 3000000]


def gen_script(rng, nops):
    K = 5
    lines = ["ecu.new"]
    defs = []
    for k in range(K):
        ops = []
        # callbacks 3 and 4 do nothing; only they are subscribed from inside callbacks (a subscriber that subscribes
        # an active subscriber during notification makes the real notification loop run for ever)
        for _ in range(rng.choice([0, 0, 0, 1, 1, 2]) if k < 3 else 0):
            r = rng.random()
            if r < 0.3:
                ops.append(f"A:{rng.choice(GRID)}:{rng.randrange(K)}:{rng.randrange(3)}")
            elif r < 0.5:
                ops.append(f"R:{rng.randrange(K)}")
            elif r < 0.65:
                ops.append(f"S:{rng.choice([3, 4])}:{rng.choice(['n', 'i5', 'i6', 'i0', 'p0'])}")
            elif r < 0.8:
                ops.append(f"U:{rng.randrange(K)}")
            else:
                ops.append(f"T:{rng.choice([1, 500, 3000, 60000, 260000])}")
        defs.append((rng.randrange(2), ops))
    # a callback may re-arm callbacks, but not callbacks that themselves re-arm callbacks: timers that breed timers
    # are an application fork bomb (the real pass then takes seconds of real time), not a behaviour worth comparing
    adders = {k for k, (_, ops) in enumerate(defs) if any(o.startswith('A:') for o in ops)}
    for k, (ret, ops) in enumerate(defs):
        fixed, rearmed = [], False
        for o in ops:
            if o.startswith('A:'):
                f = o.split(':')
                if int(f[2]) in adders:
                    if int(f[2]) == k and ret == 0 and not rearmed:
                        rearmed = True          # a one-shot that re-arms itself once: the number of timers stays constant
                    else:
                        f[2] = str(rng.choice([3, 4]))
                o = ':'.join(f)
            fixed.append(o)
        lines.append(f"cbdef 0 {k} {ret} " + " ".join(fixed))
    lines.append("preddef 0 0 [5,9]")
    deadlines = []
    now = 0
    for _ in range(nops):
        r = rng.random()
        if r < 0.25:
            d = rng.choice(GRID)
            lines.append(f"timer.add 0 {d} {rng.randrange(K)} {rng.randrange(3)}")
            deadlines.append(now + d)
        elif r < 0.33:
            lines.append(f"timer.remove 0 {rng.randrange(K)}")
        elif r < 0.41:
            lines.append(f"sub 0 {rng.randrange(K)} {rng.choice(['n', 'i5', 'i6', 'i0', 'p0'])}")
        elif r < 0.47:
            lines.append(f"unsub 0 {rng.randrange(K)}")
        elif r < 0.55:
            dest = rng.choice([255, 5, 6, 9, 0, 77])
            lines.append(f"ecu.notify 0 {rng.randrange(8)} {rng.choice([65226, 61184, 0])} {rng.randrange(254)} {dest} [{rng.randrange(256)},{rng.randrange(256)}]")
        elif r < 0.75:
            fut = [x for x in deadlines if x > now]
            if fut and rng.random() < 0.7:
                t = min(fut) + rng.choice([0, 0, -1, 1, 37, rng.choice(GRID)])
                dt = max(0, t - now)
            else:
                dt = rng.choice([0, 1, 999, 1000, 5000000, rng.randrange(1, 400000)])
            lines.append(f"adv {dt}")
            now += dt
        else:
            for _ in range(rng.choice([1, 1, 2, 4])):
                lines.append("ecu.tick 0")
        if rng.random() < 0.15:
            lines.append("ecu.dump 0")
    lines.append("ecu.tick 0")
    lines.append("ecu.dump 0")
    return lines


CORPUS = [
    # D7: adjacent duplicate registrations, remove once
    ["ecu.new", "timer.add 0 1000 1 0", "timer.add 0 1000 1 0", "timer.add 0 1000 1 0", "timer.remove 0 1", "ecu.dump 0",
     "sub 0 2 n", "sub 0 2 n", "unsub 0 2", "ecu.dump 0"],
    # D8: one-shot followed by a periodic with the same deadline
    ["ecu.new", "cbdef 0 0 0", "cbdef 0 1 1", "timer.add 0 1000 0 0", "timer.add 0 1000 1 0", "ecu.tick 0", "ecu.tick 0", "ecu.tick 0",
     "adv 1000", "ecu.tick 0", "ecu.dump 0"],
    # D9: pass exactly at the deadline of a periodic timer
    ["ecu.new", "cbdef 0 1 1", "timer.add 0 5000 1 0", "ecu.tick 0", "ecu.tick 0", "adv 5000", "ecu.tick 0", "ecu.tick 0", "ecu.dump 0"],
    # callback removes itself and returns False / True
    ["ecu.new", "cbdef 0 0 0 R:0", "cbdef 0 1 1 R:1", "timer.add 0 1000 0 0", "timer.add 0 1000 1 0", "timer.add 0 1000 1 1",
     "adv 1000", "ecu.tick 0", "ecu.dump 0", "ecu.tick 0"],
    # slow callback: the sleep must be computed from the clock after the pass
    ["ecu.new", "cbdef 0 0 0 T:300000", "cbdef 0 1 1", "timer.add 0 600000 1 0", "timer.add 0 100000 0 0", "ecu.tick 0", "ecu.tick 0",
     "ecu.tick 0", "adv 100000", "ecu.tick 0", "ecu.dump 0"],
    # a callback removes ANOTHER timer that is due in the same pass and registers a new one (list length unchanged)
    ["ecu.new", "cbdef 0 0 1 R:1 A:1000:3:0", "cbdef 0 1 1", "cbdef 0 3 1", "timer.add 0 1000 0 0", "timer.add 0 1000 1 0", "adv 1000",
     "ecu.tick 0", "ecu.dump 0", "adv 1000", "ecu.tick 0", "ecu.dump 0"],
    ["ecu.new", "cbdef 0 2 1 R:1 A:5000:4:1", "cbdef 0 1 0", "cbdef 0 4 0", "timer.add 0 5000 2 0", "timer.add 0 5000 1 0", "timer.add 0 5000 1 1",
     "adv 5000", "ecu.tick 0", "ecu.dump 0", "adv 5000", "ecu.tick 0", "ecu.dump 0"],
    # bound-method callback (odd index) removed again: nothing may fire afterwards
    ["ecu.new", "cbdef 0 1 1", "timer.add 0 1000 1 0", "timer.remove 0 1", "ecu.dump 0", "adv 1000", "ecu.tick 0", "ecu.dump 0"],
    # overrun by more than one period: catch-up stays on the grid
    ["ecu.new", "cbdef 0 1 1", "timer.add 0 100000 1 0", "adv 351000", "ecu.tick 0", "ecu.dump 0", "adv 49000", "ecu.tick 0", "ecu.dump 0"],
]


def correspondence(ctx, n=None):
    rng = random.Random(ctx.seed * 1000003 + 12)
    n = ctx.n(1200, 20000) if n is None else n
    scripts = [list(s) for s in CORPUS] + [gen_script(rng, rng.randrange(3, 16 if rng.random() < 0.8 else 40)) for _ in range(n)]
    dis, ops, distinct = [], {}, set()
    for s in scripts:
        distinct.add(C.struct_hash(s))
        for l in s:
            ops[l.split()[0]] = ops.get(l.split()[0], 0) + 1
    # one driver run per script (state is per script); batch through a single process with a reset would be faster,
    # the driver is cheap enough
    for s in scripts:
        d = pyexec.diff_script(s, ctx.driver, C.REPO)
        if d:
            dis.append(d)
            if len(dis) >= 3:
                break
    return dict(traces=len(scripts), disagreements=dis, evaluations=sum(len(s) for s in scripts), distinct_nontrivial=len(distinct),
                op_histogram=ops, samples=[dict(script=scripts[len(CORPUS)][:14])])


# ------------------------------------------------------------------------------------------------
class Tracker:
    """independent bookkeeping of what add_timer / remove_timer / subscribe / unsubscribe promise"""

    def __init__(self):
        self.regs = []       # dict(cb, cookie, t_add, delta, due, alive)
        self.subs = []       # dict(cb, addr, alive)
        self.bad = []

    def add(self, now, delta, cb, cookie):
        self.regs.append(dict(cb=cb, cookie=cookie, t_add=now, delta=delta, due=now + delta, alive=True))

    def remove(self, cb):
        for r in self.regs:
            if r['cb'] == cb:
                r['alive'] = False

    def called(self, pass_now, cb, cookie, ret):
        cands = [r for r in self.regs if r['alive'] and r['cb'] == cb and r['cookie'] == cookie and r['due'] <= pass_now]
        if not cands:
            early = [r for r in self.regs if r['alive'] and r['cb'] == cb and r['cookie'] == cookie]
            self.bad.append(f"callback {cb}({cookie}) called at {pass_now}: " + ("before it is due (" + str(min(x['due'] for x in early)) + ")" if early else "although not registered"))
            return
        r = min(cands, key=lambda x: x['due'])
        if ret:
            k = (pass_now - r['t_add']) // r['delta'] + 1
            r['due'] = r['t_add'] + k * r['delta']
        else:
            r['alive'] = False

    def pending_due(self, t):
        return [r for r in self.regs if r['alive'] and r['due'] <= t]

    def min_due(self):
        a = [r['due'] for r in self.regs if r['alive']]
        return min(a) if a else None


def oracle_run(rng, repo, nops, eps_max):
    """drive the real ECU like an otherwise idle system: application operations at random instants, the background
    thread sleeping exactly as it asked (plus a latency ≤ eps_max); check the promises with the tracker"""
    w = sim.World(repo)
    st = w.new_stack()
    ecu = st.ecu
    tr = Tracker()
    K = 4
    beh = {k: dict(ret=rng.random() < 0.5, ops=[]) for k in range(K)}
    for k in range(K):
        if rng.random() < 0.35:
            r = rng.random()
            beh[k]['ops'].append(('A', rng.choice(GRID), rng.randrange(K), rng.randrange(2)) if r < 0.5 else
                                 (('R', rng.randrange(K)) if r < 0.75 else ('T', rng.choice([100, 5000, 120000]))))
    if rng.random() < 0.25:
        # one callback removes another timer and registers a (harmless) new one in the same call
        k, other = rng.sample(range(K), 2)
        quiet = [x for x in range(K) if not beh[x]['ops'] and x != k]
        if quiet:
            beh[k]['ops'] = [('R', other), ('A', rng.choice(GRID), rng.choice(quiet), rng.randrange(2))]
    hist = [dict(behaviours={k: dict(ret=v['ret'], ops=v['ops']) for k, v in beh.items()})]
    state = dict(pass_now=None, delivered=[], calls=0)
    raw, sraw = {}, {}

    class _Fresh:
        """fn[k] / sfn[k]: odd callbacks are bound methods — a NEW (equal) object on every use, as `obj.method` is"""

        def __init__(self, d):
            self.d = d

        def __getitem__(self, k):
            h = self.d[k]
            return h.call if isinstance(h, pyexec._Holder) else h
    fn, sfn = _Fresh(raw), _Fresh(sraw)

    def run_ops(k):
        for op in beh[k]['ops']:
            if op[0] == 'A':
                if len(tr.regs) >= 150:
                    continue          # a callback that keeps re-registering callbacks that do the same is an application fork bomb
                ecu.add_timer(sim.VT(op[1]), fn[op[2]], op[3]); tr.add(w.now, op[1], op[2], op[3])
            elif op[0] == 'R':
                ecu.remove_timer(fn[op[1]]); tr.remove(op[1])
            elif op[0] == 'T':
                w.adv(op[1])

    for k in range(K):
        def f(cookie, k=k):
            tr.called(state['pass_now'], k, cookie, beh[k]['ret'])
            state['calls'] += 1
            run_ops(k)
            return beh[k]['ret']
        raw[k] = f if k % 2 == 0 else pyexec._Holder(f)

        def g(prio, pgn, sa, ts, data, k=k):
            state['delivered'].append(k)
        sraw[k] = g if k % 2 == 0 else pyexec._Holder(g)
    # schedule of application operations
    t_ops = sorted(rng.choice([0, rng.randrange(0, 2_000_000)]) for _ in range(nops))
    wake_at = w.now          # the thread starts a pass at once
    spins = 0
    end = w.now + 4_000_000
    passes = 0
    i = 0
    base = w.now
    while w.now < end and not tr.bad and passes < 400:
        nxt_op = base + t_ops[i] if i < len(t_ops) else None
        if st.wq.tokens > 0 or wake_at <= w.now or (nxt_op is None or wake_at <= nxt_op):
            # background pass
            if st.wq.tokens == 0 and wake_at > w.now:
                w.clock.now = wake_at
            state['pass_now'] = w.now
            state['calls'] = 0
            due_before = [dict(r) for r in tr.pending_due(w.now)]
            removed_in_pass = len([1 for k in range(K) for op in beh[k]['ops'] if op[0] == 'R']) > 0
            r = st.tick()
            passes += 1
            hist.append(dict(t=state['pass_now'] - base, tick=r))
            if r[0] == 'exc' or r[0] == 'dead':
                tr.bad.append(f"background pass raised {r}")
                break
            if not removed_in_pass:
                left = [x for x in tr.pending_due(state['pass_now']) if any(x['cb'] == d['cb'] and x['cookie'] == d['cookie'] and x['t_add'] == d['t_add'] for d in due_before)]
                if left:
                    tr.bad.append(f"timer {left[0]['cb']} due at {left[0]['due']} was not called in the pass at {state['pass_now']}")
            if r[0] == 'sleep':
                spins = 0
                md = tr.min_due()
                if md is not None and w.now + r[1] > md:
                    tr.bad.append(f"pass at {state['pass_now']} sleeps until {w.now + r[1]} but a timer is due at {md}")
                wake_at = w.now + r[1] + rng.choice([0, 0, 1, rng.randrange(0, eps_max + 1)])
            elif r[0] == 'spin':
                spins = spins + 1 if state['calls'] == 0 else 0     # a pass that served callbacks may legitimately be behind
                w.adv(1)      # a real pass takes time
                wake_at = w.now
                if spins > 50:
                    tr.bad.append("background thread busy-spins")
            else:
                wake_at = w.now
        else:
            w.clock.now = max(w.now, nxt_op)
            i += 1
            r = rng.random()
            if r < 0.5:
                d, cb, ck = rng.choice(GRID), rng.randrange(K), rng.randrange(2)
                ecu.add_timer(sim.VT(d), fn[cb], ck); tr.add(w.now, d, cb, ck)
                hist.append(dict(t=w.now - base, op=['add', d, cb, ck]))
            elif r < 0.7:
                cb = rng.randrange(K)
                ecu.remove_timer(fn[cb]); tr.remove(cb)
                hist.append(dict(t=w.now - base, op=['remove', cb]))
            elif r < 0.85:
                cb = rng.randrange(K)
                for _ in range(rng.choice([1, 2, 3])):
                    ecu.subscribe(sfn[cb], rng.choice([None, 5]))
                tr.subs.append(cb)
                hist.append(dict(t=w.now - base, op=['subscribe', cb]))
            else:
                cb = rng.randrange(K)
                ecu.unsubscribe(sfn[cb])
                tr.subs = [x for x in tr.subs if x != cb]
                state['delivered'] = []
                ecu._notify_subscribers(6, 65226, 1, 255, 0, [1, 2])
                hist.append(dict(t=w.now - base, op=['unsubscribe+broadcast', cb]))
                if cb in state['delivered']:
                    tr.bad.append(f"subscriber {cb} called after unsubscribe returned")
                if set(state['delivered']) != set(tr.subs):
                    tr.bad.append(f"broadcast reached {sorted(set(state['delivered']))}, registered {sorted(set(tr.subs))}")
    return tr.bad, hist


def oracle(ctx, full):
    rng = random.Random(ctx.seed * 7907 + 12)
    n = ctx.n(100, 2500, full)
    findings, evals, distinct = [], 0, set()
    sample = None
    for _ in range(n):
        sub = random.Random(rng.getrandbits(48))
        st = sub.getstate()
        bad, hist = oracle_run(sub, C.REPO, sub.randrange(1, 13), sub.choice([0, 1, 50, 2000]))
        evals += 1
        distinct.add(C.struct_hash(hist))
        sample = sample or hist[:6]
        if bad:
            findings.append(dict(signature=dict(family='timer-history'), what=bad[0], history=hist[-40:]))
            break
    return dict(findings=findings, evaluations=evals, distinct_nontrivial=len(distinct), samples=[dict(history=sample)],
                rule="histories of 1..12 add_timer/remove_timer/subscribe/unsubscribe operations at random instants within 2 s on the period grid "
                     "1 ms..3 s, callbacks one-shot or periodic, some adding/removing timers or taking time, background passes exactly when the "
                     "ECU asked to be woken plus a latency in {0,1,≤50 µs,≤2 ms}; up to 4 s of virtual time / 400 passes each; distinct = distinct recorded histories")


def replay(ctx, path):
    r = json.load(open(path))
    print(json.dumps(r, indent=1)[:3000])
    return 0
