"""C11 — FD multi-PG packing preserves every group and honours frame and time limits."""
import random
from .. import common as C, corr22, net21, sim
from ..gen21 import rand_payload

PID = 'C11'
PROP_MODULE = 'J1939.Props.C11'
UNITS = ['Mpg.cpgn', 'Mpg.cpgn_pdu1', 'Mpg.hdr0', 'Mpg.hdr1', 'Mpg.hdr2', 'Mpg.len', 'Mpg.tf', 'Mpg.tos', 'Tp22.buffer_hash_mpg',
         'Tp22.buffer_unhash_mpg', 'MessageId.ofFields', 'MessageId.can_id']
ASSUMPTIONS = ["the first-fit search over buffer counters terminates because some counter below the fuel has room (the real loop has no bound: "
               "with 2^8 full buffers for one destination it would not return; 12 calls cannot reach that)",
               "the time-limit theorems are per step (placing: buffer deadline <= own deadline and wake-up; serving: due buffers are sent, "
               "others bound the next wake-up); their composition over the thread's sleep/wake schedule is checked by the oracle, not proved",
               "FBFF frames are checked on the bus by the reference decoder only; the stack does not receive base-format frames"]

FD_LENGTHS = set(range(0, 9)) | {12, 16, 20, 24, 32, 48, 64}
MPG_PF = 0x25


def correspondence(ctx):
    return corr22.run(ctx, ctx.n(40, 1500), ctx.n(30, 1000), 11, n_lossy=0, n_mpg=ctx.n(250, 8000))


def ref_decode(data):
    """independent multi-PG decoder written from the J1939-22 frame layout: list of (tos, tf, cpgn, payload), and a
    description of what is wrong with the frame (None = well formed)"""
    groups, i = [], 0
    while i < len(data):
        tos = data[i] >> 5
        if tos == 0:
            rest = data[i:]
            if any(b not in (0, 0xAA) for b in rest):
                return groups, f"padding bytes other than 0x00/0xAA: {rest}"
            return groups, None
        if i + 4 > len(data):
            return groups, f"truncated header at offset {i}"
        tf = (data[i] >> 2) & 7
        cpgn = ((data[i] & 3) << 16) | (data[i + 1] << 8) | data[i + 2]
        ln = data[i + 3]
        if i + 4 + ln > len(data):
            return groups, f"group at offset {i} announces {ln} bytes, {len(data) - i - 4} present"
        groups.append((tos, tf, cpgn, list(data[i + 4:i + 4 + ln])))
        i += 4 + ln
    return groups, None


def network_case(rng):
    n = rng.choice([2, 3, 4])
    slack = rng.choice([0, 500, 2000])
    sc = net21.Scenario(C.REPO, rng.getrandbits(32), n, dll='j1939-22', maxcmdt=[1] * n,
                        latency=lambda r, a, b, f: r.choice([0, 1, 1000, 5000]),
                        tick_latency=lambda r, i: r.choice([0, slack]),
                        loss=lambda k, src, dst, fr: not fr[2])          # base-format frames are not received by the stacks
    exts = []
    sc.net.taps.append(lambda src, fr: exts.append(fr[2]))
    dests = rng.sample(sc.addrs[1:], rng.randrange(1, min(3, n - 1) + 1)) + [255]
    if rng.random() < 0.3:
        dests.append(rng.randrange(1, 250))        # an address nobody owns
    subs = []           # dict(t, src, dst, ff, cpgn, data, tl, via)
    bad = []
    ncalls = rng.randrange(1, 13)
    senders = [0] if rng.random() < 0.6 else list(range(n))
    focus = rng.random() < 0.5          # many groups for one destination under long limits: frames fill up
    tls = rng.choice([[100000, 200000, 50000], [0, 20000, 200000, 200000]]) if focus else None
    fdst = rng.choice(dests)
    sizes = rng.choice([[1, 2, 8, 20, 27, 28, 29, 30, 56, 57, 58, 59, 60] + [rng.randrange(1, 61) for _ in range(4)],
                        [1, 2, 4, 8, 8, 8, 12, 16, 20, 24, 26, 27, 28, 29, 30, 31, 32],
                        [rng.randrange(1, 61) for _ in range(3)], [8, 8, 12, rng.randrange(1, 20), rng.randrange(1, 40)]])
    gaps = rng.choice([[0, 0, 0, 1, 500], [0, 0, 1000, 20000], [0, 0, 0, 1, 500, 1000, 20000, 150000, 1000000, 4999000, 5001000]])

    def submit(i, via):
        ln = rng.choice(sizes)
        dp = rng.randrange(2)
        if rng.random() < (0.85 if focus else 0.6):
            pf, ps = rng.choice([208, 100, 0, 239]), (fdst if focus and rng.random() < 0.8 else rng.choice(dests))
            dst, cpgn = ps, (dp << 16) | (pf << 8)
        else:
            pf, ps = rng.choice([254, 241, 255, 240]), rng.randrange(256)
            dst, cpgn = 255, (dp << 16) | (pf << 8) | ps
        tl = rng.choice(tls or [0, 0, 1000, 5000, 20000, 100000, 200000, rng.randrange(1000, 200001)])
        ff = 2 if (dst == 255 and rng.random() < 0.25) else 3
        data = rand_payload(rng, ln)
        t = sc.w.now
        ok = sc.send(i, dp, pf, ps, rng.randrange(8), data, time_limit=tl, frame_format=ff)
        if not ok:
            bad.append(f"send_pgn refused a {ln}-byte group (pf {pf} ps {ps} ff {ff})")
            return
        if ff != 3:
            sc.accepted.pop()          # not expected at any listener
        subs.append(dict(t=t, src=sc.addrs[i], dst=dst, ff=ff, cpgn=cpgn, data=data, tl=tl, via=via))

    for _ in range(ncalls):
        i = rng.choice(senders)
        gap = rng.choice(gaps)
        if rng.random() < 0.25:
            # submitted from a timer callback (runs on the background thread)
            sc.stacks[i].ecu.add_timer(sim.VT(gap), lambda cookie, i=i: (submit(i, 'timer'), False)[1])
            sc.net.poke(sc.stacks[i])
            sc.net.run(gap + rng.choice([0, 3000]))
        else:
            sc.net.run(gap)
            submit(i, 'app')
    sc.net.run(6_000_000, stop=lambda: sc.tables_empty() and sc.net.quiet() and all(not s.ecu._timer_events for s in sc.stacks))
    sc.net.run(300_000)
    if sc.net.errors:
        bad.append(f"exception {sc.net.errors[0]}")
    # ---- every FD frame on the bus
    pool = list(subs)
    for k, (t, src, cid, data, fd) in enumerate(sc.net.bus):
        if exts[k]:
            prio, dp, pf, ps, sa = net21.parse_frame(cid, data)
            if pf != MPG_PF:
                bad.append(f"frame {cid:#x} on the bus although only groups of 1..60 bytes were sent")
                continue
            ff, fsrc, fdst = 3, sa, ps
        else:
            ff, fsrc, fdst = 2, cid, 255
        if not fd:
            bad.append(f"multi-PG frame {cid:#x} not sent in FD format")
        if len(data) > 64 or len(data) not in FD_LENGTHS:
            bad.append(f"multi-PG frame of {len(data)} bytes: not a legal CAN FD length <= 64")
        groups, err = ref_decode(data)
        if err:
            bad.append(f"frame at t={t}: {err}")
        if not groups:
            bad.append(f"frame at t={t} carries no group")
        for (tos, tf, cpgn, payload) in groups:
            if tos != 2 or tf != 0:
                bad.append(f"group with TOS {tos} TF {tf} in a frame")
                continue
            cands = [s for s in pool if s['cpgn'] == cpgn and s['data'] == payload]
            if not cands:
                bad.append(f"group cpgn {cpgn:#x} len {len(payload)} on the bus was never submitted (or is on the bus twice)")
                continue
            exact = [s for s in cands if s['src'] == fsrc and s['dst'] == fdst and s['ff'] == ff]
            if not exact:
                s = cands[0]
                bad.append(f"group submitted for src {s['src']:#x} dst {s['dst']:#x} format {s['ff']} travelled in a frame src {fsrc:#x} "
                           f"dst {fdst:#x} format {ff}: groups of different destinations/formats combined")
                pool.remove(s)
                continue
            # identical groups may have been submitted more than once: take a submission this frame is on time for
            # (the most urgent one), only if there is none is the frame late for all of them
            sub_ok = [s for s in exact if s['t'] <= t <= s['t'] + s['tl'] + slack + 1]
            s = min(sub_ok or [s for s in exact if s['t'] <= t] or exact, key=lambda s: s['t'] + s['tl'])
            pool.remove(s)
            late = t - (s['t'] + s['tl'])
            if late > slack + 1:
                bad.append(f"group submitted at {s['t']} ({s['via']}) with time limit {s['tl']} us left at {t}: {late} us late "
                           f"(scheduling latency allowed {slack})")
    for s in pool:
        bad.append(f"group cpgn {s['cpgn']:#x} len {len(s['data'])} limit {s['tl']} ({s['via']}) never appeared on the bus")
    r = net21.check_exactly_once(sc)
    if r:
        bad.append(r)
    if not sc.tables_empty():
        bad.append("multi-PG buffers not empty at the end")
    return bad, dict(n=n, calls=ncalls, slack=slack, limits=sorted({s['tl'] for s in subs}), sizes=sorted(len(s['data']) for s in subs),
                     fbff=sum(1 for s in subs if s['ff'] == 2), timer=sum(1 for s in subs if s['via'] == 'timer'), frames=len(sc.net.bus))


def oracle(ctx, full):
    rng = random.Random(ctx.seed * 7907 + 11)
    n = ctx.n(150, 6000, full)
    findings, evals, distinct, samples = [], 0, set(), []
    stat = dict(groups=0, frames=0, fbff=0, timer=0, limited=0)
    for _ in range(n):
        bad, desc = network_case(random.Random(rng.getrandbits(48)))
        evals += 1
        distinct.add(C.struct_hash(desc))
        stat['groups'] += len(desc['sizes']); stat['frames'] += desc['frames']; stat['fbff'] += desc['fbff']; stat['timer'] += desc['timer']
        stat['limited'] += sum(1 for x in desc['limits'] if x)
        if len(samples) < 2:
            samples.append(desc)
        if bad:
            findings.append(dict(signature=dict(family='multi-pg'), what=bad[0], scenario=desc, all=bad[:5]))
            break
    return dict(findings=findings, evaluations=evals, distinct_nontrivial=len(distinct), samples=samples, distribution=stat,
                rule="2-4 real J1939-22 stacks; 1..12 send_pgn calls of 1..60 bytes (boundary sizes 27..30, 56..60 favoured), PDU1 to 1..3 owned "
                     "destinations, global or an unowned address, PDU2, time limits 0 / 1..200 ms, FEFF and FBFF(broadcast), from the application "
                     "or from a timer callback, gaps 0..5 s (around the idle wake-up); every bus frame: FD, legal length <= 64, decoded by an "
                     "independent decoder (padding 0x00/0xAA after a TOS-0 byte), every group from exactly one submission with the frame's "
                     "source/destination/format, not later than its limit + the scheduling latency; deliveries exactly once with own PGN/data")


def replay(ctx, path):
    print(open(path).read()[:3000])
    return 0
