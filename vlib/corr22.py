"""Lock-step correspondence of Model/Dll22.lean with j1939_22.py (recorded scripts, gen22)."""
import random
from . import common as C, gen22
from .corr21 import first_divergence


def run(ctx, n_nominal, n_hostile, salt, n_lossy=0, n_mpg=0):
    rng = random.Random(ctx.seed * 1000003 + salt + 220000)
    dis, traces, evals, distinct, hist = [], 0, 0, set(), {}
    sample = None
    fam = dict(nominal=gen22.nominal_script, hostile=gen22.hostile_script, lossy=gen22.lossy_script, mpg=gen22.mpg_script)
    for kind, n in (('nominal', n_nominal), ('hostile', n_hostile), ('lossy', n_lossy), ('mpg', n_mpg)):
        for _ in range(n):
            sub = random.Random(rng.getrandbits(48))
            rec = fam[kind](sub, C.REPO)
            lean = ctx.driver.run_lines(rec.lines)
            traces += 1
            evals += len(rec.lines)
            distinct.add(C.struct_hash(rec.lines))
            for _, outs in rec.outputs:
                for o in outs:
                    hist[o.split()[0]] = hist.get(o.split()[0], 0) + 1
            sample = sample or [l[:160] for l in rec.lines[:10]]
            d = first_divergence(rec, lean)
            if d:
                d['kind'] = kind + '-22'
                d['script'] = [l[:300] for l in d['script']]
                dis.append(d)
                if len(dis) >= 2:
                    break
        if len(dis) >= 2:
            break
    return dict(traces=traces, disagreements=dis, evaluations=evals, distinct_nontrivial=len(distinct), output_histogram=hist,
                samples=[dict(script=sample)])


def merge(a, b):
    """combine two correspondence results"""
    out = dict(a)
    for k in ('traces', 'evaluations', 'distinct_nontrivial'):
        out[k] = a.get(k, 0) + b.get(k, 0)
    out['disagreements'] = a.get('disagreements', []) + b.get('disagreements', [])
    out['samples'] = (a.get('samples', []) + b.get('samples', []))[:3]
    h = dict(a.get('output_histogram', {}))
    for k, v in b.get('output_histogram', {}).items():
        h[k] = h.get(k, 0) + v
    out['output_histogram'] = h
    return out
