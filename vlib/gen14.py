"""Recorded scripts for the DM14 model (m14.* operations): the generator runs the REAL objects line by line, routes the
PDUs they send to the addressed node (per-pair FIFO, random interleaving), answers as the serving application, injects
hostile PDUs, and records every line with the real outputs."""
import random
from . import pyexec

DM14, DM15, DM16 = 0xD900, 0xD800, 0xD700


def fmt(l):
    return "[" + ",".join(str(int(x)) for x in l) + "]"


class Rec14:
    def __init__(self, repo, rng):
        self.rng = rng
        self.ex = pyexec.PyExec(repo)
        self.lines, self.outputs = [], []
        self.nodes = 0
        self.flight = []        # PDUs on their way: dict(src, dst, pgn, data)
        self.todo = []          # pending application answers: dict(node, count, cmd)
        self.pendC, self.pendS = {}, {}
        self.addr = []

    def do(self, line):
        (l, outs), = self.ex.run([line])
        self.lines.append(line)
        self.outputs.append((line, outs))
        t = line.split()
        node = int(t[1]) if len(t) > 1 and t[0] != 'm14.new' else None
        for o in outs:
            f = o.split()
            if f[0] == 'tx':
                self.flight.append(dict(src=self.addr[node], dst=int(f[2]), pgn=int(f[1]), data=pyexec.parse_list(f[4])))
            elif f[0] == 'proceed':
                self.last_proceed = dict(node=node, cmd=int(f[1]), count=int(f[5]))
            elif f[0] == 'notify':
                self.todo.append(dict(self.last_proceed))
        if outs and outs[-1] == 'blocked':
            (self.pendC if t[0] in ('m14.read', 'm14.write', 'm14.resume', 'm14.timeout') else self.pendS)[node] = True
        elif t[0] in ('m14.read', 'm14.write', 'm14.resume', 'm14.timeout') and outs and outs[-1] not in ('still-blocked', 'busy-call', 'no-call'):
            self.pendC[node] = False
        elif t[0] in ('m14.respond', 'm14.rresume', 'm14.rtimeout') and outs and outs[-1] not in ('still-blocked', 'busy-call', 'no-call'):
            self.pendS[node] = False
        return outs

    def new(self, sec, hp, delta, own=None):
        own = 0x80 + self.nodes if own is None else own
        self.addr.append(own)
        self.do(f"m14.new {int(sec)} {int(hp)} {delta} {own}")
        self.nodes += 1

    def node_of(self, a):
        return self.addr.index(a) if a in self.addr else -1

    def deliver_one(self, reorder=False):
        """hand the oldest PDU of a random pair (or any, when reordering) to its node"""
        if not self.flight:
            return False
        rng = self.rng
        if reorder:
            k = rng.randrange(len(self.flight))
        else:
            pairs = []
            for m in self.flight:
                if (m['src'], m['dst']) not in pairs:
                    pairs.append((m['src'], m['dst']))
            pr = rng.choice(pairs)
            k = next(i for i, m in enumerate(self.flight) if (m['src'], m['dst']) == pr)
        m = self.flight.pop(k)
        j = self.node_of(m['dst'])
        if 0 <= j < self.nodes:
            self.do(f"m14.deliver {j} {m['pgn']} {m['src']} {fmt(m['data'])} {self.seed()} {1 if rng.random() < self.p_accept else 0}")
            i = self.node_of(m['src'])
            if len(m['data']) > 8 and 0 <= i < self.nodes:
                # the transport's end-of-message acknowledgement is reported to the originator's listeners
                n = len(m['data'])
                ack = [19, n & 255, n >> 8, (n + 6) // 7, 255, m['pgn'] & 255, (m['pgn'] >> 8) & 255, m['pgn'] >> 16]
                self.flight.append(dict(src=m['dst'], dst=m['src'], pgn=m['pgn'], data=ack, ack=True))
        return True

    def seed(self):
        # 0xd03 / 0x7b76: the seeds whose key (pyexec14.KEYFN) is 0xFFFF / 0x0000
        return self.rng.choice([1, 0xBEEF, 0xFFFE, 0, 0xFFFF, 0xd03, 0x7b76, self.rng.randrange(0x10000)])

    def hostile(self, j):
        rng = self.rng
        sa = rng.choice(self.addr + [0x33, 0x33, 0, rng.randrange(256)])
        pgn = rng.choice([DM14, DM14, DM15, DM16, 0xFECA])
        if pgn == DM14:
            data = [rng.choice([1, 2, 5, 255]), (rng.randrange(2) << 4) + (rng.choice([0, 1, 2, 4, 5, 7]) << 1) + 1,
                    rng.choice([3, 0]), 0, 0, rng.choice([146, 0]), rng.choice([7, 255, rng.randrange(256)]), rng.choice([0, 255, rng.randrange(256)])]
        elif pgn == DM15:
            data = [rng.choice([0, 1, 2, 255]), (rng.randrange(2) << 4) + (rng.choice([0, 1, 4, 5, 2]) << 1) + 1,
                    rng.choice([2, 0x11, 255]), rng.choice([0, 1, 255]), rng.choice([0, 255]), rng.choice([6, 7, 255, 0]),
                    rng.choice([255, 0x34]), rng.choice([255, 0x12])]
        else:
            n = rng.choice([1, 3, 7, 8, 12])
            data = [rng.choice([n, 255, 0, 19])] + [rng.randrange(256) for _ in range(n)]
        self.do(f"m14.deliver {j} {pgn} {sa} {fmt(data)} {self.seed()} {1 if rng.random() < 0.8 else 0}")


def rand_op(rec, rng, i, dests):
    osize = rng.choice([1, 1, 2, 4, 8])
    count = rng.choice([1, 1, 2, 3, 7, 8, 9, rng.randrange(1, 255 // osize + 1)])
    count = max(1, min(count, 255 // osize))
    dest = rng.choice(dests)
    address = rng.choice([0x92000003, 0, 0xFFFFFFFF, rng.getrandbits(32), 1 << 32 if rng.random() < 0.03 else 5])
    if rng.random() < 0.5:
        c = 0 if rng.random() < 0.03 else count
        rec.do(f"m14.read {i} {dest} {rng.randrange(2)} {address} {c} {osize} {rng.randrange(2)} {rng.randrange(2)}")
    else:
        vals = [rng.choice([0, 256 ** osize - 1, rng.randrange(256 ** osize)]) for _ in range(count)]
        if rng.random() < 0.03:
            vals[0] = 256 ** osize
        rec.do(f"m14.write {i} {dest} {rng.randrange(2)} {address} {fmt(vals)} {osize}")


def script(rng, repo, hostile=False):
    rec = Rec14(repo, rng)
    sec = rng.random() < 0.5
    n = rng.choice([2, 2, 3])
    rec.p_accept = rng.choice([1.0, 1.0, 0.7])
    zero = rng.random() < 0.2
    for k in range(n):
        mixed = rng.random() < 0.1
        rec.new(sec if not mixed else not sec, k > 0 or rng.random() < 0.5, rng.choice([0, 0, 0, 1, rng.randrange(0x10000)]) if k == 0 else 0,
                own=0 if (zero and k == 0) else None)
    if rng.random() < 0.2:
        rec.do(f"m14.appsub {rng.randrange(n)} {rng.randrange(2)}")
    steps = rng.randrange(5, 80)
    reorder = rng.random() < 0.15
    calm = (not hostile) and rng.random() < 0.6          # mostly complete transactions
    for _ in range(steps):
        r = rng.random()
        clients = [0] if rng.random() < 0.8 else list(range(n))
        i = rng.choice(clients)
        touched = []
        if r < 0.55 and rec.flight:
            before = len(rec.lines)
            rec.deliver_one(reorder and rng.random() < 0.3)
            touched = [int(rec.lines[-1].split()[1])] if len(rec.lines) > before else []
        elif r < 0.70 and rec.todo:
            t = rec.todo.pop(0)
            proceed = rng.random() < (0.95 if calm else 0.75)
            ln = t['count'] * rng.choice([1, 1, 1, 2, 4, 8])
            ln = min(ln, 255) if (calm or rng.random() < 0.9) else rng.choice([0, 1, 300])
            data = [rng.randrange(256) for _ in range(ln)] if t['cmd'] == 1 else []
            rec.do(f"m14.respond {t['node']} {int(proceed)} {fmt(data)} {rng.choice([0xFFFFFF, 0x11, 0x100, rng.getrandbits(24)])} "
                   f"{rng.choice([6, 7, 255, 0])} {rec.seed()}")
        elif r < 0.82:
            if not rec.pendC.get(i):
                rand_op(rec, rng, i, [rec.addr[1], rec.addr[1], rec.addr[1], rec.addr[rng.randrange(n)], 0x44] if not calm else [rec.addr[1]])
        elif calm:
            if rng.random() < 0.3:
                rec.do(f"m14.dump {rng.randrange(n)}")
        elif r < 0.84:
            j = rng.randrange(n)
            rec.do(f"m14.{rng.choice(['resume', 'rresume'])} {j}")
        elif r < 0.87:
            j = rng.randrange(n)
            if not rec.flight or rng.random() < 0.3:
                rec.do(f"m14.{rng.choice(['timeout', 'timeout', 'rtimeout'])} {j}")
        elif r < 0.91 or (hostile and r < 0.96):
            rec.hostile(rng.randrange(n))
        elif r < 0.93:
            rec.do(f"m14.respond {rng.randrange(n)} {rng.randrange(2)} {fmt([1, 2, 3][:rng.randrange(4)])} {rng.choice([0xFFFFFF, 2])} {rng.choice([6, 255])} {rec.seed()}")
        elif r < 0.945:
            rec.do(f"m14.reset {rng.randrange(n)}")
        elif r < 0.96:
            rec.do(f"m14.app{rng.choice(['sub', 'unsub'])} {rng.randrange(n)} {rng.randrange(2)}")
        else:
            rec.do(f"m14.dump {rng.randrange(n)}")
        # a call whose node just received something is resumed promptly most of the time
        for j in touched:
            if rec.pendC.get(j) and rng.random() < 0.9:
                rec.do(f"m14.resume {j}")
            if rec.pendS.get(j) and rng.random() < 0.9:
                rec.do(f"m14.rresume {j}")
    # drain
    for _ in range(40):
        if not rec.deliver_one():
            break
        for j in range(n):
            if rec.pendC.get(j):
                rec.do(f"m14.resume {j}")
            if rec.pendS.get(j):
                rec.do(f"m14.rresume {j}")
    for j in range(n):
        if rec.pendC.get(j):
            rec.do(f"m14.timeout {j}")
        if rec.pendS.get(j):
            rec.do(f"m14.rtimeout {j}")
        rec.do(f"m14.dump {j}")
    return rec
