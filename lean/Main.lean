import J1939.Driver
def main : IO Unit := do
  let stdin ← IO.getStdin
  let stdout ← IO.getStdout
  J1939.Driver.loop stdin stdout {}
