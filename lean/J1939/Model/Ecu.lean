/-
  ECU core: timer list, subscriber list, wake tokens, one pass of the background loop
  (electronic_control_unit.py: add_timer, remove_timer, subscribe, unsubscribe, _notify_subscribers,
   _is_message_acceptable, the timer part of _async_job_thread, _job_thread_wakeup).

  Python's `for x in l` over a list that is mutated inside the loop is index based: it visits `l[i]` for
  i = 0, 1, … against the *current* list.  `_notify_subscribers` still iterates the live list and is modelled
  literally (index loop); the timer loops iterate over a copy (`list(...)`) since the repairs of D7/D8.
  A timer event is a dict object: `uid` stands for its identity (the pass keeps a reference to the object
  while the callback may remove it from the list); `list.remove(x)` compares by content.
-/
import J1939.Model.Basic
import J1939.Gen.Const
namespace J1939.Ecu
open J1939

structure Timer where
  uid      : Nat
  delta    : Nat          -- delta_time (µs)
  cb       : Nat          -- callback identity
  deadline : Nat          -- µs
  cookie   : Nat
  born     : Nat := 0     -- ghost: the time add_timer was called (not part of the Python dict, never compared)
deriving DecidableEq, Repr, Inhabited

/-- content equality of two event dicts (what `list.remove` uses) -/
def Timer.sameContent (a b : Timer) : Bool :=
  a.delta == b.delta && a.cb == b.cb && a.deadline == b.deadline && a.cookie == b.cookie

/-- `dev_adr` of a subscription: None, an integer address, or a predicate (a CA's `message_acceptable`) -/
inductive AddrSpec where
  | none
  | int (a : Nat)
  | pred (p : Nat)
deriving DecidableEq, Repr, Inhabited

structure Sub where
  cb   : Nat
  addr : AddrSpec
deriving DecidableEq, Repr, Inhabited

/-- operations a scripted application callback performs on the ECU when it is invoked -/
inductive TOp where
  | add (delta cb cookie : Nat)
  | remove (cb : Nat)
  | sub (cb : Nat) (addr : AddrSpec)
  | unsub (cb : Nat)
  | busy (dt : Nat)          -- the callback computes for dt µs (the clock moves while the pass is running)
deriving DecidableEq, Repr, Inhabited

/-- behaviour of an application callback: what it returns to the timer loop and what it does -/
structure UserCb where
  ret : Bool := false
  ops : List TOp := []
deriving DecidableEq, Repr, Inhabited

structure Core where
  timers  : List Timer := []
  subs    : List Sub := []
  wake    : Nat := 0          -- items in _job_thread_wakeup_queue
  nextUid : Nat := 0
  cbs     : List UserCb := []  -- behaviour table of the scripted callbacks (index = callback identity)
deriving Repr, Inhabited

def Core.cbOf (c : Core) (k : Nat) : UserCb := c.cbs.getD k {}

/-- remove the first element for which `p` holds (Python `list.remove` with `==`) -/
def removeFirst {α} (p : α → Bool) : List α → List α
  | [] => []
  | x :: xs => if p x then xs else x :: removeFirst p xs

def Core.addTimer (c : Core) (now delta cb cookie : Nat) : Core :=
  { c with timers := c.timers ++ [{ uid := c.nextUid, delta, cb, deadline := now + delta, cookie, born := now }],
           nextUid := c.nextUid + 1, wake := c.wake + 1 }

/-- `for event in list(self._timer_events): if event['callback'] == callback: self._timer_events.remove(event)` -/
def removeTimerLoop (cb : Nat) : List Timer → List Timer → List Timer
  | [], l => l
  | ev :: snap, l =>
    if ev.cb == cb then removeTimerLoop cb snap (removeFirst (Timer.sameContent ev) l)
    else removeTimerLoop cb snap l

def Core.removeTimer (c : Core) (cb : Nat) : Core :=
  { c with timers := removeTimerLoop cb c.timers c.timers, wake := c.wake + 1 }

def Core.subscribe (c : Core) (cb : Nat) (addr : AddrSpec) : Core :=
  { c with subs := c.subs ++ [{ cb, addr }] }

/-- `for dic in list(self._subscribers): if dic['cb'] == callback: self._subscribers.remove(dic)` -/
def unsubLoop (cb : Nat) : List Sub → List Sub → List Sub
  | [], l => l
  | d :: snap, l =>
    if d.cb == cb then unsubLoop cb snap (removeFirst (· == d) l)
    else unsubLoop cb snap l

def Core.unsubscribe (c : Core) (cb : Nat) : Core :=
  { c with subs := unsubLoop cb c.subs c.subs }

/-- a callback's operations run at the current clock `clk` (what `time.time()` returns inside it) -/
def Core.applyOp (s : Core × Nat) : TOp → Core × Nat
  | .add d cb ck => (s.1.addTimer s.2 d cb ck, s.2)
  | .remove cb => (s.1.removeTimer cb, s.2)
  | .sub cb a => (s.1.subscribe cb a, s.2)
  | .unsub cb => (s.1.unsubscribe cb, s.2)
  | .busy dt => (s.1, s.2 + dt)

def Core.applyOps (c : Core) (clk : Nat) (ops : List TOp) : Core × Nat := ops.foldl Core.applyOp (c, clk)

/-- `while event['deadline'] <= now: event['deadline'] += event['delta_time']`
    (terminates iff delta > 0 or deadline > now; callers carry `delta > 0`) -/
def catchUp (deadline delta now : Nat) : Nat :=
  if deadline ≤ now then
    if delta = 0 then deadline   -- Python would loop for ever; excluded by the precondition `delta > 0`
    else deadline + ((now - deadline) / delta + 1) * delta
  else deadline

/-- observable events of a pass -/
inductive Obs where
  | call (ev : Timer)                                      -- timer callback ev.cb(ev.cookie) invoked (rest: ghost)
  | deliver (cb prio pgn sa : Nat) (data : List Nat)       -- subscriber callback invoked
deriving DecidableEq, Repr, Inhabited

/-- the `for event in list(self._timer_events):` loop of one pass: the snapshot holds object identities,
    the current state of each object is looked up in the live list.  `now` is the time read at the start of the
    pass (all comparisons use it); `clk` is the running clock (callbacks take time). -/
def timerLoop (now : Nat) : List Nat → Core → Nat → Nat → List Obs → Core × Nat × Nat × List Obs
  | [], c, clk, nw, obs => (c, clk, nw, obs)
  | u :: snap, c, clk, nw, obs =>
    match c.timers.find? (·.uid == u) with
    | none => timerLoop now snap c clk nw obs                 -- removed by a callback earlier in this pass
    | some ev =>
      if ev.deadline > now then
        timerLoop now snap c clk (min nw ev.deadline) obs
      else
        -- the callback runs: its operations, then its return value decides
        let r := c.applyOps clk (c.cbOf ev.cb).ops
        if (c.cbOf ev.cb).ret then
          -- the event *object* is updated in place (if it is still in the list), the wake-up follows the object
          timerLoop now snap
            { r.1 with timers := r.1.timers.map (fun t =>
                if t.uid == u then { t with deadline := catchUp t.deadline t.delta now } else t) }
            r.2 (min nw (catchUp ev.deadline ev.delta now)) (obs ++ [Obs.call ev])
        else
          timerLoop now snap { r.1 with timers := r.1.timers.filter (fun t => t.uid != u) } r.2 nw (obs ++ [Obs.call ev])

/-- result of the sleep decision at the end of a pass -/
inductive Sleep where
  | spin                 -- time_to_sleep ≤ 0: no blocking call at all
  | woken                -- a wake token was pending: `get` returned at once
  | sleep (d : Nat)      -- blocked for at most d µs
deriving DecidableEq, Repr, Inhabited

/-- one pass of `_async_job_thread` given the wake-up time the data link layer asked for and the clock after
    the data link layer's part; returns the clock at the end of the pass -/
def Core.pass (c : Core) (now clk dllWake : Nat) : Core × Nat × Sleep × List Obs :=
  let (c1, clk1, nw, obs) := timerLoop now (c.timers.map (·.uid)) c clk dllWake []
  if nw > clk1 then
    if c1.wake > 0 then ({ c1 with wake := c1.wake - 1 }, clk1, .woken, obs)
    else (c1, clk1, .sleep (nw - clk1), obs)
  else (c1, clk1, .spin, obs)

/-- `_is_message_acceptable(dest)`: some subscription has exactly this integer address -/
def Core.isAcceptable (c : Core) (dest : Nat) : Bool := c.subs.any (fun d => d.addr == AddrSpec.int dest)

def subMatches (accept : Nat → Nat → Bool) (d : Sub) (dest : Nat) : Bool :=
  match d.addr with
  | .none => true
  | .int a => dest == 255 || dest == a
  | .pred p => dest == 255 || accept p dest

/-- `_notify_subscribers`: index iteration over the (mutable) subscriber list -/
def notifyLoop (accept : Nat → Nat → Bool) (prio pgn sa dest : Nat) (data : List Nat) :
    Nat → Nat → Core → Nat → List Obs → Core × Nat × List Obs
  | 0, _, c, clk, obs => (c, clk, obs)
  | fuel+1, i, c, clk, obs =>
    match c.subs[i]? with
    | none => (c, clk, obs)
    | some d =>
      if subMatches accept d dest then
        let r := c.applyOps clk (c.cbOf d.cb).ops
        notifyLoop accept prio pgn sa dest data fuel (i+1) r.1 r.2 (obs ++ [Obs.deliver d.cb prio pgn sa data])
      else notifyLoop accept prio pgn sa dest data fuel (i+1) c clk obs

def Core.notifySubscribers (c : Core) (accept : Nat → Nat → Bool) (clk prio pgn sa dest : Nat) (data : List Nat) :
    Core × Nat × List Obs :=
  let fuel := c.subs.length + 1 + (c.subs.length + 1) * ((c.cbs.map (fun b => b.ops.length)).foldl (· + ·) 0 + 1)
  notifyLoop accept prio pgn sa dest data fuel 0 c clk []

end J1939.Ecu
