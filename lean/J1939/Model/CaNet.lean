/-
  A network of controller applications, each on its own stack, on one bus: per-node FIFO of received address claims,
  any interleaving of claim-timer firings, deliveries and requests for address claimed.  (Model/Ca.lean has the handlers.)
-/
import J1939.Model.Ca
namespace J1939.CaNet
open J1939 J1939.Gen J1939.Ca

/-- an address-claimed frame as a receiver sees it: source address parsed from the identifier, the 8 NAME bytes -/
structure Msg where
  sa : Nat
  data : List Nat
deriving DecidableEq, Repr

def toMsg (f : Frame) : Msg := { sa := (MessageId.ofCanId f.id).source_address, data := f.data }

structure Net where
  ca : Nat → Ca.Ca            -- node k's controller application (any number of nodes)
  q  : Nat → List Msg         -- node k's received, not yet handled claims (bus order)

inductive Ev where
  | tick (i : Nat)                                         -- node i's claim timer fires
  | deliver (i : Nat)                                      -- node i handles the oldest claim in its queue
  | request (i : Nat) (sa dest : Nat) (data : List Nat)    -- node i handles a PGN request (may answer with its claim)

/-- every OTHER node receives the frames (nobody hears its own transmissions) -/
def bcast (q : Nat → List Msg) (i : Nat) (ms : List Msg) : Nat → List Msg :=
  fun k => if k = i then q k else q k ++ ms

def step (n : Net) : Ev → Net
  | .tick i =>
    let r := claimAsync (n.ca i)
    { ca := fun k => if k = i then r.1 else n.ca k, q := bcast n.q i (r.2.1.map toMsg) }
  | .deliver i =>
    match n.q i with
    | [] => n
    | m :: rest =>
      let r := processAddressClaim (n.ca i) m.sa m.data
      { ca := fun k => if k = i then r.1 else n.ca k,
        q := bcast (fun k => if k = i then rest else n.q k) i (r.2.map toMsg) }
  | .request i sa dest data =>
    match processRequest (n.ca i) sa dest data with
    | some (.claim f) => { n with q := bcast n.q i [toMsg f] }
    | _ => n

def run (n : Net) : List Ev → Net
  | [] => n
  | e :: es => run (step n e) es

end J1939.CaNet
