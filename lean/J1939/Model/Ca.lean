/-
  ControllerApplication (controller_application.py): the address-claim state machine, the send guards and the
  request dispatch.  NAME handling and the request/claim byte layouts are the regenerated leaves.
-/
import J1939.Model.Basic
import J1939.Gen.Codec
import J1939.Gen.Const
namespace J1939.Ca
open J1939 J1939.Gen

structure Ca where
  name      : Name                 -- the CA's NAME object
  preferred : Option Nat           -- _device_address_preferred
  announced : Nat                  -- _device_address_announced
  addr      : Option Nat           -- _device_address (None after giving up as a single-address CA)
  state     : Nat                  -- _device_address_state
  started   : Bool := false
deriving DecidableEq, Repr, Inhabited

def NONE := Const.CaState.NONE
def WAIT_VETO := Const.CaState.WAIT_VETO
def NORMAL := Const.CaState.NORMAL
def CANNOT_CLAIM := Const.CaState.CANNOT_CLAIM

/-- `ControllerApplication(name, device_address_preferred, bypass_address_claim)` -/
def new (name : Name) (preferred : Option Nat) (bypass : Bool) : Ca :=
  match bypass, preferred with
  | true, some p => { name, preferred, announced := p, addr := some p, state := NORMAL }
  | _, _ => { name, preferred, announced := Const.Addr.NULL, addr := some Const.Addr.NULL, state := NONE }

/-- `_send_address_claimed(address)` -/
def claimFrame (c : Ca) (address : Nat) : Frame :=
  { id := MessageId.can_id (MessageId.ofFields 6 (PGN.value (PGN.ofFields 0 238 Const.Addr.GLOBAL)) address),
    ext := true, data := Name.bytes c.name }

/-- `device_address` property -/
def deviceAddress (c : Ca) : Option Nat := if c.state != NORMAL then some Const.Addr.NULL else c.addr

/-- `message_acceptable(dest)` -/
def messageAcceptable (c : Ca) (dest : Nat) : Bool :=
  if c.state != NORMAL then false
  else if dest == Const.Addr.GLOBAL then true
  else deviceAddress c == some dest

/-- `_process_claim_async`: new CA, frames sent, and the delay of the timer it re-arms (µs) -/
def claimAsync (c : Ca) : Ca × List Frame × Nat :=
  if c.state == NONE then
    match c.preferred with
    | some p =>
      let c1 := { c with announced := p }
      if p > 127 && p < 248 then
        ({ c1 with state := WAIT_VETO }, [claimFrame c1 p], Const.Claim.VETO)
      else
        ({ c1 with addr := some p, state := NORMAL }, [claimFrame c1 p], 500000)
    | none => (c, [], 500000)
  else if c.state == WAIT_VETO then
    ({ c with addr := some c.announced, state := NORMAL }, [], 500000)
  else (c, [], 500000)

/-- `_process_addressclaim(mid, data, timestamp)` for a claim from source address `sa` carrying `data` -/
def processAddressClaim (c : Ca) (sa : Nat) (data : List Nat) : Ca × List Frame :=
  if (c.state == NORMAL && some sa == c.addr) || (c.state == WAIT_VETO && sa == c.announced) then
    let contender := Name.value (Name.ofBytes data)
    let mine := Name.value c.name
    if mine == contender then (c, [])
    else if mine > contender then
      -- single-address CA, or no address left to try (repair of D28: 254 is the null address)
      if c.name.arbitrary_address_capable == 0 || c.announced ≥ 253 then
        ({ c with state := CANNOT_CLAIM, addr := none }, [claimFrame c Const.Addr.NULL])
      else
        let c1 := { c with addr := some Const.Addr.NULL, announced := c.announced + 1, state := WAIT_VETO }
        (c1, [claimFrame c1 c1.announced])
    else
      if c.state == NORMAL then
        match c.addr with
        | some a => (c, [claimFrame c a])
        | none => (c, [])          -- unreachable: NORMAL implies an address
      else (c, [claimFrame c c.announced])
  else (c, [])

/-- outcome of `_process_request`: nothing, an address-claimed answer, or the request callbacks with (sa, dest, pgn) -/
inductive ReqOut where
  | nothing
  | claim (f : Frame)
  | callbacks (sa dest pgn : Nat)
deriving DecidableEq, Repr, Inhabited

/-- `_process_request(mid, dest_address, data, timestamp)`; `none` = IndexError (data shorter than 3 bytes) -/
def processRequest (c : Ca) (sa dest : Nat) (data : List Nat) : Option ReqOut :=
  if data.length < 3 then none
  else
    let pgn := Gen.Ca.request_pgn data
    if c.state != NORMAL || (c.addr != some dest && dest != Const.Addr.GLOBAL) then some .nothing
    else if pgn == Const.PGN.ADDRESSCLAIM then
      match c.addr with
      | some a => some (.claim (claimFrame c a))
      | none => some .nothing
    else some (.callbacks sa dest pgn)

/-- `send_message(priority, pgn, data)`: none = RuntimeError -/
def sendMessage (c : Ca) (prio pgn : Nat) (data : List Nat) : Option Frame :=
  if c.state != NORMAL then none
  else match c.addr with
    | some a => some { id := MessageId.can_id (MessageId.ofFields prio pgn a), ext := true, data := data }
    | none => none

/-- `send_pgn(...)`: none = RuntimeError, else the source address handed to the ECU's send_pgn -/
def sendPgnSa (c : Ca) : Option Nat := if c.state != NORMAL then none else c.addr

/-- `send_request(data_page, pgn, destination)`: none = RuntimeError; else (source address, PF, PS, priority, data) -/
def sendRequest (c : Ca) (pgn dest : Nat) : Option (Nat × Nat × Nat × Nat × List Nat) :=
  let sa? : Option Nat :=
    if c.state != NORMAL then (if pgn != Const.PGN.ADDRESSCLAIM then none else some Const.Addr.NULL) else c.addr
  match sa? with
  | none => none
  | some sa => some (sa, (Const.PGN.REQUEST >>> 8) &&& 255, dest &&& 255, 6, Gen.Ca.request_data pgn)

end J1939.Ca
