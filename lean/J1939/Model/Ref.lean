/-
  Independent reference of the SAE layouts, written from the standards' tables (not from the code).
  J1939-21 §5.2 (29-bit identifier), §5.10 (TP.CM / TP.DT), J1939-81 §4.1 (NAME), J1939-73 §5.7.1 (DTC, DM1), §5.7.22 (DM22),
  J1939-22 (FD.TP.CM / FD.TP.DT / multi-PG C-PG header).   Everything is plain arithmetic on `Nat`.
-/
import J1939.Model.Basic
namespace J1939.Ref

/-- the bit field of `v` that starts at bit `pos` and is `width` bits wide -/
def field (v pos width : Nat) : Nat := v / 2^pos % 2^width

/-- 29-bit identifier: priority bits 26..28, PGN (EDP, DP, PF, PS) bits 8..25, source address bits 0..7 -/
def canId (prio pgn sa : Nat) : Nat := prio * 2^26 + pgn * 2^8 + sa

/-- PGN value: data page bit 16, PDU format bits 8..15, PDU specific bits 0..7 -/
def pgn (dp pf ps : Nat) : Nat := dp * 2^16 + pf * 2^8 + ps

/-- three-byte little-endian PGN as carried in TP.CM / request frames -/
def pgnLE (p : Nat) : List Nat := [p % 256, p / 256 % 256, p / 65536 % 256]

/-- little-endian 16 bit -/
def le16 (v : Nat) : List Nat := [v % 256, v / 256 % 256]
def le24 (v : Nat) : List Nat := [v % 256, v / 256 % 256, v / 65536 % 256]

/-- J1939-81 NAME: (field, first bit, width) -/
structure NameFields where
  identity : Nat        -- bits 0..20
  manufacturer : Nat    -- bits 21..31
  ecuInstance : Nat     -- bits 32..34
  functionInstance : Nat -- bits 35..39
  function : Nat        -- bits 40..47
  reserved : Nat        -- bit 48
  vehicleSystem : Nat   -- bits 49..55
  vehicleSystemInstance : Nat -- bits 56..59
  industryGroup : Nat   -- bits 60..62
  aac : Nat             -- bit 63
deriving DecidableEq, Repr

def nameFields (v : Nat) : NameFields :=
  { identity := field v 0 21, manufacturer := field v 21 11, ecuInstance := field v 32 3, functionInstance := field v 35 5,
    function := field v 40 8, reserved := field v 48 1, vehicleSystem := field v 49 7, vehicleSystemInstance := field v 56 4,
    industryGroup := field v 60 3, aac := field v 63 1 }

/-- J1939-21 TP.CM frames (8 data bytes) -/
def tpRts (size packets maxPackets pgn : Nat) : List Nat := [16] ++ le16 size ++ [packets, maxPackets] ++ pgnLE pgn
def tpCts (n next pgn : Nat) : List Nat := [17, n, next, 255, 255] ++ pgnLE pgn
def tpEomAck (size packets pgn : Nat) : List Nat := [19] ++ le16 size ++ [packets, 255] ++ pgnLE pgn
def tpBam (size packets pgn : Nat) : List Nat := [32] ++ le16 size ++ [packets, 255] ++ pgnLE pgn
def tpAbort (reason pgn : Nat) : List Nat := [255, reason, 255, 255, 255] ++ pgnLE pgn

/-- PGN of TP.CM (0xEC00) and TP.DT (0xEB00) with the destination in PS -/
def tpCmId (prio da sa : Nat) : Nat := canId prio (0xEC00 + da) sa
def tpDtId (da sa : Nat) : Nat := canId 7 (0xEB00 + da) sa

/-- the k-th TP.DT (1-based sequence number, 7 data bytes, 0xFF padding) -/
def tpDt (seq : Nat) (chunk : List Nat) : List Nat := seq :: (chunk ++ List.replicate (7 - chunk.length) 255)

/-- J1939-73 DTC, four bytes: SPN bits 0..7 | SPN bits 8..15 | SPN bits 16..18 in bits 5..7 above the FMI | CM bit 7, OC bits 0..6 -/
def dtcBytes (spn fmi oc : Nat) : List Nat :=
  [spn % 256, spn / 256 % 256, (spn / 65536 % 8) * 32 + fmi % 32, oc % 128]

/-- J1939-22 FD.TP.CM (12 data bytes): control in the low nibble and session number in the high nibble of byte 1, then
    24-bit little-endian total size, 24-bit segment count / next segment, two control-specific bytes, 24-bit PGN -/
def fdCm (ctl sess size seg b7 b8 pgn : Nat) : List Nat :=
  [ctl % 16 + (sess % 16) * 16] ++ le24 size ++ le24 seg ++ [b7 % 256, b8 % 256] ++ le24 pgn
/-- header of an FD.TP.DT frame: data-transfer format indicator and session number, 24-bit segment number -/
def fdDtHeader (dtfi sess seg : Nat) : List Nat := [dtfi % 16 + (sess % 16) * 16] ++ le24 seg
/-- PGN of FD.TP.CM (0x4D00) and FD.TP.DT (0x4E00) with the destination in PS -/
def fdCmId (prio da sa : Nat) : Nat := canId prio (0x4D00 + da) sa
def fdDtId (da sa : Nat) : Nat := canId 7 (0x4E00 + da) sa

end J1939.Ref
