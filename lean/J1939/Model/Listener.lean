/-
  MessageListener.on_message_received (electronic_control_unit.py): which python-can messages are passed to the ECU.
-/
namespace J1939.Listener

/-- forwards to `ecu.notify` iff not stopped, not an error frame, not a remote frame, and extended id -/
def forwards (stopped isError isRemote isExtended : Bool) : Bool :=
  !(stopped || isError || isRemote || (isExtended == false))

end J1939.Listener
