/-
  Pre-emption of the J1939-22 background pass by the receive thread (see Model/Pre21.lean for the rationale): the pass
  iterates over key snapshots of the receive table, the multi-PG buffers and the send table, in this order, each
  snapshot taken when its loop starts; the receive thread handles a frame before the K-th lookup of the pass.
-/
import J1939.Model.Dll22
namespace J1939.Pre22
open J1939 J1939.Gen J1939.Dll22

def rx (cfg : Cfg) (acc : Nat → Bool) (now : Nat) (frame : Nat × List Nat) (s : St) : St × List Out × Option PyErr :=
  let r := notify cfg s now acc frame.1 frame.2
  (r.st, r.outs, r.err)

structure PreRes where
  st : St
  outsBefore : List Out := []
  rxOuts : List Out := []
  rxErr : Option PyErr := none
  outsAfter : List Out := []
  err : Option PyErr := none
  wakeup : Nat := 0
deriving Repr, Inhabited

/-- the rest of the pass after the receive loop (multi-PG loop, then send loop), pre-empted before lookup `K`
    (counted from the first multi-PG lookup); `pre` = outputs so far, all before the pre-emption point -/
def afterRcv (cfg : Cfg) (acc : Nat → Bool) (now : Nat) (K : Nat) (frame : Nat × List Nat) (s1 : St) (nw1 : Nat) (pre : List Out) : PreRes :=
  let km := s1.mpg.keys
  if K < km.length then
    let (s2, nw2, o2, e2) := tickMpg now (km.take K) s1 nw1 pre
    match e2 with
    | some e => { st := s2, outsBefore := o2, err := some e, wakeup := nw2 }
    | none =>
      let (s3, ro, re) := rx cfg acc now frame s2
      let (s4, nw4, o4, e4) := tickMpg now (km.drop K) s3 nw2 []
      match e4 with
      | some e => { st := s4, outsBefore := o2, rxOuts := ro, rxErr := re, outsAfter := o4, err := some e, wakeup := nw4 }
      | none =>
        let (s5, nw5, o5, e5) := tickSnd cfg now s4.snd.keys s4 nw4 o4
        { st := s5, outsBefore := o2, rxOuts := ro, rxErr := re, outsAfter := o5, err := e5, wakeup := nw5 }
  else
    let (s2, nw2, o2, e2) := tickMpg now km s1 nw1 pre
    match e2 with
    | some e => { st := s2, outsBefore := o2, err := some e, wakeup := nw2 }
    | none =>
      let ks := s2.snd.keys
      let K' := K - km.length
      let (s3, nw3, o3, e3) := tickSnd cfg now (ks.take K') s2 nw2 o2
      match e3 with
      | some e => { st := s3, outsBefore := o3, err := some e, wakeup := nw3 }
      | none =>
        let (s4, ro, re) := rx cfg acc now frame s3
        let (s5, nw5, o5, e5) := tickSnd cfg now (ks.drop K') s4 nw3 []
        { st := s5, outsBefore := o3, rxOuts := ro, rxErr := re, outsAfter := o5, err := e5, wakeup := nw5 }

/-- one pass; the receive thread handles `frame` before the K-th lookup (receive table, then multi-PG buffers, then send
    table); K beyond the last lookup = after the pass -/
def tickPre (cfg : Cfg) (acc : Nat → Bool) (s : St) (now : Nat) (K : Nat) (frame : Nat × List Nat) : PreRes :=
  let nw0 := now + Const.Ecu.idle_wakeup
  let kr := s.rcv.keys
  if K < kr.length then
    let (s1, nw1, o1, e1) := tickRcv now (kr.take K) s nw0 []
    match e1 with
    | some e => { st := s1, outsBefore := o1, err := some e, wakeup := nw1 }
    | none =>
      let (s2, ro, re) := rx cfg acc now frame s1
      let (s3, nw3, o3, e3) := tickRcv now (kr.drop K) s2 nw1 []
      match e3 with
      | some e => { st := s3, outsBefore := o1, rxOuts := ro, rxErr := re, outsAfter := o3, err := some e, wakeup := nw3 }
      | none =>
        let (s4, nw4, o4, e4) := tickMpg now s3.mpg.keys s3 nw3 o3
        match e4 with
        | some e => { st := s4, outsBefore := o1, rxOuts := ro, rxErr := re, outsAfter := o4, err := some e, wakeup := nw4 }
        | none =>
          let (s5, nw5, o5, e5) := tickSnd cfg now s4.snd.keys s4 nw4 o4
          { st := s5, outsBefore := o1, rxOuts := ro, rxErr := re, outsAfter := o5, err := e5, wakeup := nw5 }
  else
    let (s1, nw1, o1, e1) := tickRcv now kr s nw0 []
    match e1 with
    | some e => { st := s1, outsBefore := o1, err := some e, wakeup := nw1 }
    | none => afterRcv cfg acc now (K - kr.length) frame s1 nw1 o1

end J1939.Pre22
