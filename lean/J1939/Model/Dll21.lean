/-
  J1939-21 data link layer (j1939_21.py): send_pgn, notify, async_job_thread with the session tables.
  Hand-written control logic over the regenerated leaves (frame builders, field extraction, constants);
  tied to the code by lock-step correspondence.  Python exceptions are explicit outcomes.
-/
import J1939.Model.Basic
import J1939.Gen.Codec
import J1939.Gen.Const
namespace J1939.Dll21
open J1939 J1939.Gen

structure Cfg where
  maxCmdt      : Nat := 1
  cmdtInterval : Option Nat := none      -- minimum_tp_rts_cts_dt_interval (µs)
  bamInterval  : Nat := Const.Default.bam_interval_21
deriving Repr, Inhabited

/-- receive session record (`_rcv_buffer[hash]`); a BAM record has no 'num_packages_max_rec' key -/
structure Rcv where
  pgn          : Nat
  messageSize  : Nat
  numPackages  : Nat
  nextPacket   : Nat
  maxCmdt      : Nat
  maxRec       : Option Nat
  data         : List Nat
  deadline     : Nat
  src          : Nat
  dest         : Nat
deriving DecidableEq, Repr, Inhabited

/-- send session record (`_snd_buffer[hash]`); a BAM record has no 'next_wait_on_cts' key until a CTS stores one -/
structure Snd where
  pgn          : Nat
  priority     : Nat
  messageSize  : Nat
  numPackages  : Nat
  data         : List Nat
  state        : Nat
  deadline     : Nat
  src          : Nat
  dest         : Nat
  next         : Nat            -- next_packet_to_send
  waitOn       : Option Int     -- next_wait_on_cts (may be negative after a malformed CTS)
deriving DecidableEq, Repr, Inhabited

structure St where
  rcv : PyDict Rcv := []
  snd : PyDict Snd := []
deriving Repr, Inhabited

inductive Out where
  | tx (f : Frame)                                            -- send_message
  | notify (prio pgn sa dest : Nat) (data : List Nat)         -- notify_subscribers
  | claim (sa : Nat) (data : List Nat)                        -- ca._process_addressclaim for every CA
  | request (sa dest : Nat) (data : List Nat)                 -- ca._process_request for every acceptable CA
  | wake                                                      -- job_thread_wakeup
deriving DecidableEq, Repr, Inhabited

/-- result of an entry point: the state reached, what was emitted, and the exception raised (if any) -/
structure Res where
  st   : St
  outs : List Out := []
  err  : Option PyErr := none
deriving Repr, Inhabited

/-- the k-th TP.DT payload: `data[offset:]` cut or padded to 7 bytes, sequence number in front -/
def chunk (data : List Nat) (package : Nat) : List Nat :=
  let d := data.drop (package * 7)
  let d := if d.length > 7 then d.take 7 else Py.pad d 7 255
  Py.insert d 0 (package + 1)

def S_WAITING_CTS := Const.S21.WAITING_CTS
def S_SENDING_IN_CTS := Const.S21.SENDING_IN_CTS
def S_SENDING_BM := Const.S21.SENDING_BM
def S_FINISHED := Const.S21.TRANSMISSION_FINISHED

/-- `send_pgn`; returns the result and the Python return value -/
def sendPgn (cfg : Cfg) (s : St) (now dp pf ps prio sa : Nat) (data : List Nat) : Res × Bool :=
  let pgn := PGN.ofFields dp pf ps
  if data.length ≤ 8 then
    let mid := MessageId.ofFields prio (PGN.value pgn) sa
    ({ st := s, outs := [.tx { id := MessageId.can_id mid, ext := true, data := data }] }, true)
  else
    let dest := if ps == Const.Addr.GLOBAL || PGN.is_pdu2_format (PGN.ofFields 0 pf ps) then Const.Addr.GLOBAL else ps
    let h := Tp21.buffer_hash sa dest
    if s.snd.contains h then ({ st := s }, false)
    else
      let size := data.length
      let n := Tp21.num_packets size
      if dest == Const.Addr.GLOBAL then
        -- a PDU1 PGN sent to the global address: PS is the destination, not part of the announced PGN
        let pgnB := if PGN.is_pdu1_format pgn then PGN.value { pgn with pdu_specific := 0 } else PGN.value pgn
        let rec_ : Snd := { pgn := pgnB, priority := prio, messageSize := size, numPackages := n, data := data,
                            state := S_SENDING_BM, deadline := now + cfg.bamInterval, src := sa, dest := Const.Addr.GLOBAL,
                            next := 0, waitOn := none }
        ({ st := { s with snd := s.snd.set h rec_ }, outs := [.tx (Tp21.bam sa prio pgnB size n), .wake] }, true)
      else
        let pgn0 := PGN.value { pgn with pdu_specific := 0 }
        let rec_ : Snd := { pgn := pgn0, priority := prio, messageSize := size, numPackages := n, data := data,
                            state := S_WAITING_CTS, deadline := now + Const.T21.T3, src := sa, dest := ps,
                            next := 0, waitOn := some 0 }
        ({ st := { s with snd := s.snd.set h rec_ },
           outs := [.tx (Tp21.rts sa ps prio pgn0 size n (min cfg.maxCmdt n)), .wake] }, true)

/-- what one pass does to one receive record: the record afterwards (none = deleted), the frames emitted, and the
    deadline it contributes to the wake-up computation -/
def tickRcvOne (now : Nat) (buf : Rcv) : Option Rcv × List Out × Option Nat :=
  if buf.deadline != 0 then
    if buf.deadline > now then (some buf, [], some buf.deadline)
    else
      (none, if buf.dest != Const.Addr.GLOBAL then [.tx (Tp21.abort buf.dest buf.src Const.Abort21.TIMEOUT buf.pgn)] else [], none)
  else (some buf, [], none)

/-- receive-table part of `async_job_thread` (iteration over a snapshot of the keys) -/
def tickRcv (now : Nat) : List Nat → St → Nat → List Out → St × Nat × List Out × Option PyErr
  | [], s, nw, o => (s, nw, o, none)
  | k :: ks, s, nw, o =>
    match s.rcv.get? k with
    | none => tickRcv now ks s nw o      -- removed by the receive path since the snapshot: skipped (repair of D19)
    | some buf =>
      let r := tickRcvOne now buf
      let s1 := match r.1 with
        | some _ => s
        | none => { s with rcv := s.rcv.erase k }
      tickRcv now ks s1 (match r.2.2 with | some d => if nw > d then d else nw | none => nw) (o ++ r.2.1)

/-- the `while buf['next_packet_to_send'] < buf['num_packages']` loop of the SENDING_IN_CTS branch -/
def sendWindow (cfg : Cfg) (now : Nat) : Nat → Snd → List Out → Snd × List Out × Option PyErr
  | 0, b, o => (b, o, none)
  | fuel+1, b, o =>
    if b.next < b.numPackages then
      let package := b.next
      let d := chunk b.data package
      let b1 := { b with next := b.next + 1 }
      match b1.waitOn with
      | none => (b1, o, some .KeyError)
      | some w =>
        if (package : Int) == w then
          ({ b1 with state := S_WAITING_CTS, deadline := now + Const.T21.T3 }, o ++ [.tx (Tp21.dt b1.src b1.dest d)], none)
        else match cfg.cmdtInterval with
          | some iv => ({ b1 with deadline := now + iv }, o ++ [.tx (Tp21.dt b1.src b1.dest d)], none)
          | none => sendWindow cfg now fuel b1 (o ++ [.tx (Tp21.dt b1.src b1.dest d)])
    else (b, o, none)

/-- what one pass does to one send record: the record afterwards (none = deleted), frames, exception, and the deadline
    it contributes to the wake-up computation -/
def tickSndOne (cfg : Cfg) (now : Nat) (buf : Snd) : Option Snd × List Out × Option PyErr × Option Nat :=
  if buf.deadline != 0 then
    if buf.deadline > now then (some buf, [], none, some buf.deadline)
    else if buf.state == S_WAITING_CTS then
      (none, [.tx (Tp21.abort buf.src buf.dest Const.Abort21.TIMEOUT buf.pgn)], none, none)
    else if buf.state == S_SENDING_IN_CTS then
      let r := sendWindow cfg now (buf.numPackages - buf.next + 1) buf []
      -- window exhausted without reaching the wait-on packet: back to WAITING_CTS with T3 (repair of D1)
      let b1 := if r.2.2.isNone && r.1.state == S_SENDING_IN_CTS && r.1.next ≥ r.1.numPackages
                then { r.1 with state := S_WAITING_CTS, deadline := now + Const.T21.T3 } else r.1
      (some b1, r.2.1, r.2.2, if r.2.2.isNone then some b1.deadline else none)
    else if buf.state == S_SENDING_BM then
      let d := chunk buf.data buf.next
      let b1 := { buf with next := buf.next + 1 }
      if b1.next < b1.numPackages then
        (some { b1 with deadline := now + cfg.bamInterval }, [.tx (Tp21.dt b1.src b1.dest d)], none, some (now + cfg.bamInterval))
      else (none, [.tx (Tp21.dt b1.src b1.dest d)], none, none)
    else
      -- TRANSMISSION_FINISHED and unknown states: remove the buffer
      (none, [], none, none)
  else (some buf, [], none, none)

/-- send-table part of `async_job_thread` -/
def tickSnd (cfg : Cfg) (now : Nat) : List Nat → St → Nat → List Out → St × Nat × List Out × Option PyErr
  | [], s, nw, o => (s, nw, o, none)
  | k :: ks, s, nw, o =>
    match s.snd.get? k with
    | none => (s, nw, o, some .KeyError)
    | some buf =>
      let r := tickSndOne cfg now buf
      let s1 := match r.1 with
        | some b => { s with snd := s.snd.set k b }
        | none => { s with snd := s.snd.erase k }
      match r.2.2.1 with
      | some err => (s1, nw, o ++ r.2.1, some err)
      | none => tickSnd cfg now ks s1 (match r.2.2.2 with | some d => if nw > d then d else nw | none => nw) (o ++ r.2.1)

/-- `async_job_thread(now)`: result and the wake-up time it returns -/
def tick (cfg : Cfg) (s : St) (now : Nat) : Res × Nat :=
  let nw0 := now + Const.Ecu.idle_wakeup
  let (s1, nw1, o1, e1) := tickRcv now s.rcv.keys s nw0 []
  match e1 with
  | some e => ({ st := s1, outs := o1, err := some e }, nw1)
  | none =>
    let (s2, nw2, o2, e2) := tickSnd cfg now s1.snd.keys s1 nw1 o1
    ({ st := s2, outs := o2, err := e2 }, nw2)

/-- `_process_tp_cm` -/
def processCm (cfg : Cfg) (s : St) (now : Nat) (mid : MessageId) (dest : Nat) (data : List Nat) : Res :=
  if data.length < 8 then { st := s, err := some .IndexError }
  else
    let control := Tp21.cm_control data
    let pgn := Tp21.cm_pgn data
    let src := mid.source_address
    if control == Const.CM21.RTS then
      let size := Tp21.rts_size data
      let n := Tp21.rts_packets data
      let mx := Tp21.rts_max data
      let h := Tp21.buffer_hash src dest
      if s.rcv.contains h then
        { st := s, outs := [.tx (Tp21.abort dest src Const.Abort21.BUSY pgn)] }
      else
        let mx := min mx n
        let r : Rcv := { pgn := pgn, messageSize := size, numPackages := n, nextPacket := min cfg.maxCmdt mx, maxCmdt := cfg.maxCmdt,
                         maxRec := some (min cfg.maxCmdt mx), data := [], deadline := now + Const.T21.T2, src := src, dest := dest }
        { st := { s with rcv := s.rcv.set h r }, outs := [.tx (Tp21.cts dest src (min cfg.maxCmdt mx) 1 pgn), .wake] }
    else if control == Const.CM21.CTS then
      let n := Tp21.cts_packets data
      let nextPkg : Int := Tp21.cts_next data
      let h := Tp21.buffer_hash dest src
      match s.snd.get? h with
      | none => { st := s, outs := [.tx (Tp21.abort dest src Const.Abort21.RESOURCES pgn)] }
      | some b =>
        if n == 0 then
          { st := { s with snd := s.snd.set h { b with deadline := now + Const.T21.Th } }, outs := [.wake] }
        else
          let all := b.numPackages
          let n1 : Int := if n > all then all else n
          let n2 : Int := if nextPkg + n1 > all then (all : Int) - nextPkg else n1
          let b1 := { b with waitOn := some ((b.next : Int) + n2 - 1), state := S_SENDING_IN_CTS, deadline := now }
          { st := { s with snd := s.snd.set h b1 }, outs := [.wake] }
    else if control == Const.CM21.EOM_ACK then
      let h := Tp21.buffer_hash dest src
      match s.snd.get? h with
      | none => { st := s, outs := [.tx (Tp21.abort dest src Const.Abort21.RESOURCES pgn)] }
      | some b =>
        { st := { s with snd := s.snd.set h { b with state := S_FINISHED, deadline := now } },
          outs := [.notify mid.priority pgn mid.source_address dest data, .wake] }
    else if control == Const.CM21.BAM then
      let size := Tp21.bam_size data
      let n := Tp21.bam_packets data
      let h := Tp21.buffer_hash src dest
      let (rcv1, o1) := if s.rcv.contains h then (s.rcv.erase h, [Out.wake]) else (s.rcv, [])
      let r : Rcv := { pgn := pgn, messageSize := size, numPackages := n, nextPacket := 1, maxCmdt := cfg.maxCmdt, maxRec := none,
                       data := [], deadline := now + Const.T21.T1, src := src, dest := dest }
      { st := { s with rcv := PyDict.set rcv1 h r }, outs := o1 ++ [.wake] }
    else if control == Const.CM21.ABORT then
      let h := Tp21.buffer_hash dest src
      match s.snd.get? h with
      | some b =>
        if b.state == S_WAITING_CTS then
          { st := { s with snd := s.snd.set h { b with state := S_FINISHED, deadline := now } }, outs := [.wake] }
        else { st := s }
      | none => { st := s }
    else { st := s, err := some .RuntimeError }

/-- `_process_tp_dt` -/
def processDt (s : St) (now : Nat) (mid : MessageId) (dest : Nat) (data : List Nat) : Res :=
  if data.length < 1 then { st := s, err := some .IndexError }
  else
    let seq := Py.idx data 0
    let src := mid.source_address
    let h := Tp21.buffer_hash src dest
    match s.rcv.get? h with
    | none => { st := s }
    | some r =>
      let r1 := { r with data := r.data ++ data.drop 1 }
      if r1.data.length ≥ r1.messageSize then
        let payload := r1.data.take r1.messageSize
        let o1 := if dest != Const.Addr.GLOBAL then [Out.tx (Tp21.eom_ack dest src r1.messageSize r1.numPackages r1.pgn)] else []
        { st := { s with rcv := s.rcv.erase h }, outs := o1 ++ [.notify mid.priority r1.pgn src dest payload, .wake] }
      else if dest != Const.Addr.GLOBAL && seq ≥ r1.nextPacket then
        match r1.maxRec with
        | none => { st := { s with rcv := s.rcv.set h r1 }, err := some .KeyError }
        | some mr =>
          let n := min mr (r1.numPackages - r1.nextPacket)
          let r2 := { r1 with nextPacket := min (r1.nextPacket + mr) r1.numPackages, deadline := now + Const.T21.T2 }
          { st := { s with rcv := s.rcv.set h r2 }, outs := [.tx (Tp21.cts dest src n (r1.nextPacket + 1) r1.pgn), .wake] }
      else
        { st := { s with rcv := s.rcv.set h { r1 with deadline := now + Const.T21.T1 } }, outs := [.wake] }

/-- `notify(can_id, data, timestamp)`; `acceptable dest` = the ECU has a listener bound to `dest` or a CA accepts it -/
def notify (cfg : Cfg) (s : St) (now : Nat) (acceptable : Nat → Bool) (canId : Nat) (data : List Nat) : Res :=
  let mid := MessageId.ofCanId canId
  let pgn := PGN.from_message_id mid
  if PGN.is_pdu2_format pgn then
    { st := s, outs := [.notify mid.priority (PGN.value pgn) mid.source_address Const.Addr.GLOBAL data] }
  else
    let pgnValue := Tp21.notify_pgn_value pgn
    let dest := pgn.pdu_specific
    if dest != Const.Addr.GLOBAL && !acceptable dest then { st := s }
    else if pgnValue == Const.PGN.ADDRESSCLAIM then { st := s, outs := [.claim mid.source_address data] }
    else if pgnValue == Const.PGN.REQUEST then { st := s, outs := [.request mid.source_address dest data] }
    else if pgnValue == Const.PGN.TP_CM then processCm cfg s now mid dest data
    else if pgnValue == Const.PGN.DATATRANSFER then processDt s now mid dest data
    else { st := s, outs := [.notify mid.priority pgnValue mid.source_address dest data] }

end J1939.Dll21
