/-
  DM1 build / parse (diagnostic_messages.py: Dm1._send, Dm1._parse_dm1_receive_data, DtcLamp.get_data).
  The per-DTC arithmetic, the lamp extraction and the lamp tables are the regenerated leaves; the list handling
  and the length checks are hand-modelled here and tied by correspondence.
-/
import J1939.Gen.Codec
import J1939.Gen.Const
namespace J1939.Dm1
open J1939 J1939.Gen

structure Dtc where
  spn : Nat
  fmi : Nat
  oc  : Nat
deriving DecidableEq, Repr, Inhabited

/-- `DtcLamp.get_data`: statuses in the order pl, awl, rsl, mil; a status outside the table is treated as OFF -/
def lampData (st : List Nat) : List Nat :=
  let norm (s : Nat) : Nat := if s < Const.Lamp.lut_lamp.length then s else Const.Lamp.OFF
  let step (acc : Nat × Nat) (p : Nat × Nat) : Nat × Nat :=
    (acc.1 ||| (Py.idx Const.Lamp.lut_lamp (norm p.1) <<< (p.2 * 2)), acc.2 ||| (Py.idx Const.Lamp.lut_flash (norm p.1) <<< (p.2 * 2)))
  let r := ((st.take Const.Lamp.nkeys).zipIdx).foldl step (0, 0)
  [r.1, r.2]

/-- the four bytes appended per trouble code -/
def dtcBytes (d : Dtc) : List Nat :=
  let v := (DTC.ofFields d.spn d.fmi d.oc).dtc
  [Gen.Dm1.send_byte0 v, Gen.Dm1.send_byte1 v, Gen.Dm1.send_byte2 v, Gen.Dm1.send_byte3 v]

/-- payload built by `Dm1._send` -/
def build (lamps : List Nat) (dtcs : List Dtc) : List Nat := lampData lamps ++ dtcs.flatMap dtcBytes

/-- the `send_pgn` call of `Dm1._send` (priority 7 when the transport protocol is needed) -/
def send (pgn : Nat) (lamps : List Nat) (dtcs : List Dtc) : PgnReq :=
  let data := build lamps dtcs
  { dp := 0, pf := Gen.Dm1.send_pf pgn, ps := Gen.Dm1.send_ps pgn, prio := if data.length > 8 then 7 else 6, data := data }

/-- `_parse_dm1_receive_data`: none = the message is rejected (lamp status and list keep their old values) -/
def parse (data : List Nat) : Option (List Nat × List Dtc) :=
  if data.length < 6 then none
  else if data.length != 8 && (data.length - 2) % 4 != 0 then none
  else
    let n := (data.length - 2) / 4
    some ([Gen.Dm1.parse_lamp_pl data, Gen.Dm1.parse_lamp_awl data, Gen.Dm1.parse_lamp_rsl data, Gen.Dm1.parse_lamp_mil data],
          (List.range n).map (fun i => let d := DTC.ofDtc (Gen.Dm1.parse_dtc_int data i); { spn := d.spn, fmi := d.fmi, oc := d.oc }))

end J1939.Dm1
