/-
  J1939-22 (CAN FD) data link layer (j1939_22.py): FD.TP (RTS/CTS, BAM) with session numbers and the two originator
  session pools, multi-PG packing, send_pgn / notify / async_job_thread.
  Hand-written control logic over the regenerated leaves; tied to the code by lock-step correspondence.
-/
import J1939.Model.Basic
import J1939.Gen.Codec
import J1939.Gen.Const
namespace J1939.Dll22
open J1939 J1939.Gen

structure Cfg where
  maxCmdt      : Nat := 1
  cmdtInterval : Option Nat := none
  bamInterval  : Nat := Const.Default.bam_interval_22
deriving Repr, Inhabited

/-- receive session record; a BAM record has neither 'next_cts_border' nor 'num_segments_max_rec' -/
structure Rcv where
  pgn         : Nat
  session     : Nat
  messageSize : Nat
  numSegments : Nat
  nextPacket  : Nat
  ctsBorder   : Option Nat
  maxRec      : Option Nat
  data        : List Nat
  deadline    : Nat
  src         : Nat
  dest        : Nat
deriving DecidableEq, Repr, Inhabited

/-- send session record; `next` may be negative after a CTS with segment number 0 (Python then indexes from the end) -/
structure Snd where
  pgn         : Nat
  priority    : Nat
  session     : Nat
  messageSize : Nat
  numSegments : Nat
  data        : List (List Nat)          -- 60-byte chunks (+ the remainder, possibly empty)
  state       : Nat
  deadline    : Nat
  src         : Nat
  dest        : Nat
  next        : Int
  waitOn      : Option Int               -- absent for BAM records until a CTS stores one
deriving DecidableEq, Repr, Inhabited

/-- contained parameter group waiting in a multi-PG buffer -/
structure Cpg where
  priority : Nat
  tos      : Nat
  tf       : Nat
  cpgn     : Nat
  data     : List Nat
deriving DecidableEq, Repr, Inhabited

structure MpgBuf where
  deadline : Nat
  cpgs     : List Cpg
  fill     : Nat
deriving DecidableEq, Repr, Inhabited

structure St where
  rcv   : PyDict Rcv := []
  snd   : PyDict Snd := []
  mpg   : PyDict MpgBuf := []
  bamPool : List Bool := List.replicate Const.Pool.bam true        -- True = free
  rtsPool : List Bool := List.replicate Const.Pool.rts_cts true
deriving Repr, Inhabited

inductive Out where
  | tx (f : Frame)
  | notify (prio pgn sa dest : Nat) (data : List Nat)
  | claim (sa : Nat) (data : List Nat)
  | request (sa dest : Nat) (data : List Nat)
  | wake
deriving DecidableEq, Repr, Inhabited

structure Res where
  st   : St
  outs : List Out := []
  err  : Option PyErr := none
deriving Repr, Inhabited

def S_WAITING_CTS := Const.S22.WAITING_CTS
def S_SENDING_RTS_CTS := Const.S22.SENDING_RTS_CTS
def S_SENDING_BAM := Const.S22.SENDING_BAM
def S_SENDING_EOM_STATUS := Const.S22.SENDING_EOM_STATUS
def S_WAITING_EOM_ACK := Const.S22.WAITING_EOM_ACK
def S_EOM_ACK_RECEIVED := Const.S22.EOM_ACK_RECEIVED
def S_FINISHED := Const.S22.TRANSMISSION_FINISHED

/-- `__get_*_session`: first free index, marked used -/
def poolGet : List Bool → Option (Nat × List Bool)
  | [] => none
  | true :: rest => some (0, false :: rest)
  | false :: rest => (poolGet rest).map (fun (i, r) => (i + 1, false :: r))

/-- `__put_*_session(session)`: none = IndexError -/
def poolPut (p : List Bool) (i : Nat) : Option (List Bool) := if i < p.length then some (p.set i true) else none

/-- the 60-byte chunks `np.split`/`reshape`/`tolist` produce: all full chunks, then the remainder (also when empty) -/
def chunks60 (data : List Nat) : List (List Nat) :=
  let full := data.length / Const.DL22.TP
  (List.range full).map (fun k => (data.drop (k * Const.DL22.TP)).take Const.DL22.TP) ++ [data.drop (full * Const.DL22.TP)]

/-- `__send_multi_pg`: none = IndexError (more than 64 bytes) -/
def multiPgFrame (ff : Nat) (cpgs : List Cpg) (src dst : Nat) : Option Frame :=
  let prio := cpgs.foldl (fun p c => min c.priority p) 7
  let data := cpgs.flatMap (fun c => [Mpg.hdr0 c.tos c.tf c.cpgn, Mpg.hdr1 c.tos c.tf c.cpgn, Mpg.hdr2 c.tos c.tf c.cpgn, c.data.length] ++ c.data)
  if data.length ≥ Const.LUT_FD_DLC.length then none
  else
    let n := Py.idx Const.LUT_FD_DLC data.length
    -- up to three 0x00 (padding service header), then 0xAA
    let padLen := n - data.length
    let padded := data ++ List.replicate (min padLen 3) 0 ++ List.replicate (padLen - 3) 170
    if ff == Const.FF.FBFF then some { id := src, ext := false, data := padded, fd := true }
    else some { id := MessageId.can_id (MessageId.ofFields prio (Const.PGN.FEFF_MULTI_PG ||| (dst &&& 255)) src),
                ext := true, data := padded, fd := true }

/-- the `while True` loop of the time-limited multi-PG path: find / create a buffer for the group -/
def mpgPlace (now deadline ff src dst : Nat) (cpg : Cpg) : Nat → Nat → PyDict MpgBuf → List Out → PyDict MpgBuf × List Out
  | 0, _, m, o => (m, o)
  | fuel+1, session, m, o =>
    let h := Tp22.buffer_hash_mpg ff session src dst
    match m.get? h with
    | none => (m.set h { deadline := deadline, cpgs := [cpg], fill := 4 + cpg.data.length }, o ++ [.wake])
    | some b =>
      if b.fill ≤ Const.DL22.TP - cpg.data.length then
        let earlier := b.deadline > deadline
        (m.set h { b with fill := b.fill + 4 + cpg.data.length, deadline := if earlier then deadline else b.deadline, cpgs := b.cpgs ++ [cpg] },
         if earlier then o ++ [.wake] else o)
      else mpgPlace now deadline ff src dst cpg fuel (session + 1) (m.set h { b with deadline := now }) (o ++ [.wake])

/-- `send_pgn`; the Python return value is the second component.  `timeLimit` in µs (0 = immediately). -/
def sendPgn (cfg : Cfg) (s : St) (now dp pf ps prio sa : Nat) (data : List Nat) (timeLimit ff : Nat) : Res × Bool :=
  let pgn := PGN.ofFields dp pf ps
  if data.length ≤ Const.DL22.TP then
    let (cpgn, dst) := if PGN.is_pdu1_format pgn then (Mpg.cpgn_pdu1 pgn, ps) else (PGN.value pgn, Const.Addr.GLOBAL)
    let prio := if ff == Const.FF.FBFF then 0 else prio
    if ff == Const.FF.FBFF && dst != Const.Addr.GLOBAL then ({ st := s }, false)
    else
      let cpg : Cpg := { priority := prio &&& 7, tos := 2, tf := 0, cpgn := cpgn &&& 262143, data := data }
      if timeLimit == 0 then
        match multiPgFrame ff [cpg] sa dst with
        | some f => ({ st := s, outs := [.tx f] }, true)
        | none => ({ st := s, err := some .IndexError }, true)
      else
        let (m, o) := mpgPlace now (now + timeLimit) ff sa dst cpg 257 0 s.mpg []
        ({ st := { s with mpg := m }, outs := o }, true)
  else
    let bcast := ps == Const.Addr.GLOBAL || PGN.is_pdu2_format (PGN.ofFields 0 pf ps)
    let got := if bcast then poolGet s.bamPool else poolGet s.rtsPool
    match got with
    | none => ({ st := s }, false)
    | some (session, pool) =>
      let dest := if bcast then Const.Addr.GLOBAL else ps
      let s1 := if bcast then { s with bamPool := pool } else { s with rtsPool := pool }
      let h := Tp22.buffer_hash session sa dest
      let size := data.length
      let n := Tp22.num_segments size
      let ch := chunks60 data
      if bcast then
        let pgnB := if PGN.is_pdu1_format pgn then PGN.value { pgn with pdu_specific := 0 } else PGN.value pgn
        let r : Snd := { pgn := pgnB, priority := prio, session := session, messageSize := size, numSegments := n, data := ch,
                         state := S_SENDING_BAM, deadline := now + cfg.bamInterval, src := sa, dest := Const.Addr.GLOBAL, next := 0,
                         waitOn := none }
        ({ st := { s1 with snd := s1.snd.set h r }, outs := [.tx (Tp22.bam prio sa session pgnB size n), .wake] }, true)
      else
        let pgn0 := PGN.value { pgn with pdu_specific := 0 }
        let r : Snd := { pgn := pgn0, priority := prio, session := session, messageSize := size, numSegments := n, data := ch,
                         state := S_WAITING_CTS, deadline := now + Const.T22.T3, src := sa, dest := ps, next := 0, waitOn := some 0 }
        ({ st := { s1 with snd := s1.snd.set h r },
           outs := [.tx (Tp22.rts prio sa ps session pgn0 size n (min cfg.maxCmdt n) 0), .wake] }, true)

/-- Python list indexing with a possibly negative index: none = IndexError -/
def pyIndex {α} (l : List α) (i : Int) : Option α :=
  if 0 ≤ i then l[i.toNat]? else if -(l.length : Int) ≤ i then l[(l.length - (-i).toNat)]? else none

/-- receive-table part of `async_job_thread`: one record -/
def tickRcvOne (now : Nat) (buf : Rcv) : Option Rcv × List Out × Option Nat :=
  if buf.deadline != 0 then
    if buf.deadline > now then (some buf, [], some buf.deadline)
    else
      (none, if buf.dest != Const.Addr.GLOBAL then [.tx (Tp22.abort buf.dest buf.src buf.session Const.Abort22.TIMEOUT buf.pgn)] else [], none)
  else (some buf, [], none)

def tickRcv (now : Nat) : List Nat → St → Nat → List Out → St × Nat × List Out × Option PyErr
  | [], s, nw, o => (s, nw, o, none)
  | k :: ks, s, nw, o =>
    match s.rcv.get? k with
    | none => tickRcv now ks s nw o      -- removed by the receive path since the snapshot: skipped (repair of D19)
    | some buf =>
      let r := tickRcvOne now buf
      let s1 := match r.1 with
        | some _ => s
        | none => { s with rcv := s.rcv.erase k }
      tickRcv now ks s1 (match r.2.2 with | some d => if nw > d then d else nw | none => nw) (o ++ r.2.1)

/-- multi-PG buffers part of `async_job_thread` -/
def tickMpg (now : Nat) : List Nat → St → Nat → List Out → St × Nat × List Out × Option PyErr
  | [], s, nw, o => (s, nw, o, none)
  | k :: ks, s, nw, o =>
    match s.mpg.get? k with
    | none => (s, nw, o, some .KeyError)
    | some buf =>
      if buf.deadline > now then tickMpg now ks s (if nw > buf.deadline then buf.deadline else nw) o
      else
        let (ff, _, src, dst) := Tp22.buffer_unhash_mpg k
        match multiPgFrame ff buf.cpgs src dst with
        | none => (s, nw, o, some .IndexError)
        | some f => tickMpg now ks { s with mpg := s.mpg.erase k } nw (o ++ [.tx f])

/-- the `while buf['next_packet_to_send'] < buf['num_segments']` loop of the SENDING_RTS_CTS branch -/
def sendWindow (cfg : Cfg) (now : Nat) : Nat → Snd → List Out → Snd × List Out × Option PyErr
  | 0, b, o => (b, o, none)
  | fuel+1, b, o =>
    if b.next < b.numSegments then
      let package := b.next
      match pyIndex b.data package with
      | none => (b, o, some .IndexError)
      | some seg =>
        let o1 := o ++ [.tx (Tp22.dt Const.LUT_FD_DLC b.src b.dest b.session (package + 1).toNat seg 0)]
        let b1 := { b with next := b.next + 1 }
        if package + 1 == (b1.numSegments : Int) then
          ({ b1 with deadline := now + Const.T22.T5, state := S_WAITING_EOM_ACK },
           o1 ++ [.tx (Tp22.eom_status b1.src b1.dest b1.session b1.messageSize b1.numSegments b1.pgn 0 0)], none)
        else match b1.waitOn with
          | none => (b1, o1, some .KeyError)
          | some w =>
            if package == w then ({ b1 with state := S_WAITING_CTS, deadline := now + Const.T22.T3 }, o1, none)
            else match cfg.cmdtInterval with
              | some iv => ({ b1 with deadline := now + iv }, o1, none)
              | none => sendWindow cfg now fuel b1 o1
    else (b, o, none)

/-- which pool a released session number goes back to -/
inductive Release where
  | none | rts (i : Nat) | bam (i : Nat)
deriving DecidableEq, Repr, Inhabited

/-- send-table part of `async_job_thread`: one record -/
def tickSndOne (cfg : Cfg) (now : Nat) (buf : Snd) : Option Snd × List Out × Option PyErr × Option Nat × Release :=
  if buf.deadline != 0 then
    if buf.deadline > now then (some buf, [], none, some buf.deadline, .none)
    else if buf.state == S_WAITING_CTS then
      (none, [.tx (Tp22.abort buf.src buf.dest buf.session Const.Abort22.TIMEOUT buf.pgn)], none, none, .rts buf.session)
    else if buf.state == S_SENDING_RTS_CTS then
      let fuel := if buf.next < buf.numSegments then (buf.numSegments - buf.next).toNat + 1 else 1
      let r := sendWindow cfg now fuel buf []
      let b1 := if r.2.2.isNone && r.1.state == S_SENDING_RTS_CTS && r.1.next ≥ (r.1.numSegments : Int)
                then { r.1 with state := S_WAITING_CTS, deadline := now + Const.T22.T3 } else r.1
      (some b1, r.2.1, r.2.2, if r.2.2.isNone then some b1.deadline else none, .none)
    else if buf.state == S_WAITING_EOM_ACK then (none, [], none, none, .rts buf.session)
    else if buf.state == S_EOM_ACK_RECEIVED then (none, [], none, none, .rts buf.session)
    else if buf.state == S_SENDING_BAM then
      match pyIndex buf.data buf.next with
      | none => (some buf, [], some .IndexError, none, .none)
      | some seg =>
        let o := [Out.tx (Tp22.dt Const.LUT_FD_DLC buf.src buf.dest buf.session (buf.next + 1).toNat seg 0)]
        let b1 := { buf with next := buf.next + 1 }
        if b1.next < b1.numSegments then
          (some { b1 with deadline := now + cfg.bamInterval }, o, none, some (now + cfg.bamInterval), .none)
        else
          (some { b1 with state := S_SENDING_EOM_STATUS, deadline := now + cfg.bamInterval }, o, none, some (now + cfg.bamInterval), .none)
    else if buf.state == S_SENDING_EOM_STATUS then
      (none, [.tx (Tp22.eom_status buf.src buf.dest buf.session buf.messageSize buf.numSegments buf.pgn 0 0)], none, none, .bam buf.session)
    else if buf.state == S_FINISHED then (none, [], none, none, .rts buf.session)
    else (none, [], none, none, .none)
  else (some buf, [], none, none, .none)

/-- the table after one record was handled: replaced or deleted -/
def sndApply (s : St) (k : Nat) : Option Snd → St
  | some b => { s with snd := s.snd.set k b }
  | none => { s with snd := s.snd.erase k }

/-- `__put_*_session`: none = IndexError -/
def release (s1 : St) : Release → Option St
  | .none => some s1
  | .rts i => (poolPut s1.rtsPool i).map (fun p => { s1 with rtsPool := p })
  | .bam i => (poolPut s1.bamPool i).map (fun p => { s1 with bamPool := p })

def tickSnd (cfg : Cfg) (now : Nat) : List Nat → St → Nat → List Out → St × Nat × List Out × Option PyErr
  | [], s, nw, o => (s, nw, o, none)
  | k :: ks, s, nw, o =>
    match s.snd.get? k with
    | none => (s, nw, o, some .KeyError)
    | some buf =>
      let r := tickSndOne cfg now buf
      let s1 := sndApply s k r.1
      match r.2.2.1 with
      | some err => (s1, nw, o ++ r.2.1, some err)
      | none =>
        match release s1 r.2.2.2.2 with
        | none => (s1, nw, o ++ r.2.1, some .IndexError)
        | some s2 =>
          tickSnd cfg now ks s2 (match r.2.2.2.1 with | some d => if nw > d then d else nw | none => nw) (o ++ r.2.1)

/-- `async_job_thread(now)` -/
def tick (cfg : Cfg) (s : St) (now : Nat) : Res × Nat :=
  let nw0 := now + Const.Ecu.idle_wakeup
  let (s1, nw1, o1, e1) := tickRcv now s.rcv.keys s nw0 []
  match e1 with
  | some e => ({ st := s1, outs := o1, err := some e }, nw1)
  | none =>
    let (s2, nw2, o2, e2) := tickMpg now s1.mpg.keys s1 nw1 o1
    match e2 with
    | some e => ({ st := s2, outs := o2, err := some e }, nw2)
    | none =>
      let (s3, nw3, o3, e3) := tickSnd cfg now s2.snd.keys s2 nw2 o2
      ({ st := s3, outs := o3, err := e3 }, nw3)

/-- `_process_tp_cm` -/
def processCm (cfg : Cfg) (s : St) (now : Nat) (mid : MessageId) (dest : Nat) (data : List Nat) : Res :=
  if data.length < 12 then { st := s }
  else
    let src := mid.source_address
    -- the global address is no valid source (repair of D29)
    if src == Const.Addr.GLOBAL then { st := s } else
    let control := Tp22.cm_control data
    let session := Tp22.cm_session data
    let size := Tp22.cm_size data
    let segNum := Tp22.cm_segment data
    let pgn := Tp22.cm_pgn data
    let b7 := Tp22.cm_byte7 data
    if control == Const.CM22.RTS then
      let h := Tp22.buffer_hash session src dest
      if s.rcv.contains h then { st := s, outs := [.tx (Tp22.abort dest src session Const.Abort22.BUSY pgn)] }
      else
        let mx := min b7 segNum
        let r : Rcv := { pgn := pgn, session := session, messageSize := size, numSegments := segNum, nextPacket := 1,
                         ctsBorder := some (min cfg.maxCmdt mx), maxRec := some (min cfg.maxCmdt mx), data := [],
                         deadline := now + Const.T22.T2, src := src, dest := dest }
        { st := { s with rcv := s.rcv.set h r }, outs := [.tx (Tp22.cts dest src session (min cfg.maxCmdt mx) 1 pgn), .wake] }
    else if control == Const.CM22.CTS then
      let h := Tp22.buffer_hash session dest src
      match s.snd.get? h with
      | none => { st := s, outs := [.tx (Tp22.abort dest src session Const.Abort22.RESOURCES pgn)] }
      | some b =>
        if b7 == 0 then
          { st := { s with snd := s.snd.set h { b with deadline := now + Const.T22.Th } }, outs := [.wake] }
        else
          let all : Int := b.numSegments
          let nxt : Int := (segNum : Int) - 1
          let toBeSent : Int := all - nxt
          let n1 : Int := if (b7 : Int) > all then all else b7
          let n2 : Int := if n1 > (cfg.maxCmdt : Int) then cfg.maxCmdt else n1
          let n3 : Int := if n2 > toBeSent then toBeSent else n2
          let b1 := { b with next := nxt, waitOn := some (nxt + n3 - 1), state := S_SENDING_RTS_CTS, deadline := now }
          { st := { s with snd := s.snd.set h b1 }, outs := [.wake] }
    else if control == Const.CM22.EOM_STATUS then
      let h := Tp22.buffer_hash session src dest
      match s.rcv.get? h with
      | none => { st := s }
      | some r =>
        let ok := r.messageSize == size && r.numSegments == segNum && r.data.length == size
        let o := if ok then
            [Out.notify mid.priority r.pgn src dest r.data] ++
              (if dest != Const.Addr.GLOBAL then [Out.tx (Tp22.eom_ack dest src session size segNum r.pgn)] else [])
          else [Out.tx (Tp22.abort dest src session Const.Abort22.RESOURCES r.pgn)]
        { st := { s with rcv := s.rcv.erase h }, outs := o }
    else if control == Const.CM22.EOM_ACK then
      let h := Tp22.buffer_hash session dest src
      match s.snd.get? h with
      | none => { st := s, outs := [.tx (Tp22.abort dest src session Const.Abort22.RESOURCES pgn)] }
      | some b =>
        { st := { s with snd := s.snd.set h { b with state := S_EOM_ACK_RECEIVED, deadline := now } },
          outs := [.notify mid.priority pgn mid.source_address dest data, .wake] }
    else if control == Const.CM22.BAM then
      let h := Tp22.buffer_hash session src dest
      if s.rcv.contains h then { st := { s with rcv := s.rcv.erase h } }
      else
        let r : Rcv := { pgn := pgn, session := session, messageSize := size, numSegments := segNum, nextPacket := 1,
                         ctsBorder := none, maxRec := none, data := [], deadline := now + Const.T22.T1, src := src, dest := dest }
        { st := { s with rcv := s.rcv.set h r }, outs := [.wake] }
    else if control == Const.CM22.ABORT then
      let h := Tp22.buffer_hash session dest src
      match s.snd.get? h with
      | some b =>
        if b.state == S_WAITING_CTS then { st := { s with snd := s.snd.set h { b with state := S_FINISHED, deadline := now } }, outs := [.wake] }
        else { st := s }
      | none => { st := s }
    else { st := s, err := some .RuntimeError }

/-- `_process_tp_dt` -/
def processDt (s : St) (now : Nat) (mid : MessageId) (dest : Nat) (data : List Nat) : Res :=
  if data.length ≤ 4 then { st := s }
  else
    let src := mid.source_address
    let session := Tp22.dt_session data
    let seg := Tp22.dt_segment data
    if seg == 0 then { st := s }
    else
      let h := Tp22.buffer_hash session src dest
      match s.rcv.get? h with
      | none => { st := s }
      | some r =>
        if r.nextPacket != seg then { st := s }
        else
          let r1 := { r with data := r.data ++ data.drop 4, nextPacket := seg + 1 }
          if r1.data.length ≥ r1.messageSize then
            let r2 := { r1 with data := r1.data.take r1.messageSize }
            let r3 := if dest != Const.Addr.GLOBAL then { r2 with deadline := now + Const.T22.T1 } else r2
            { st := { s with rcv := s.rcv.set h r3 }, outs := [.wake] }
          else if dest != Const.Addr.GLOBAL then
            match r1.ctsBorder, r1.maxRec with
            | some border, some mr =>
              if seg ≥ border then
                let n := min mr (r1.numSegments - border)
                let r2 := { r1 with ctsBorder := some (min (border + mr) r1.numSegments), deadline := now + Const.T22.T2 }
                { st := { s with rcv := s.rcv.set h r2 }, outs := [.tx (Tp22.cts dest src session n (border + 1) r1.pgn), .wake] }
              else { st := { s with rcv := s.rcv.set h { r1 with deadline := now + Const.T22.T1 } } }
            | _, _ => { st := { s with rcv := s.rcv.set h r1 }, err := some .KeyError }
          else { st := { s with rcv := s.rcv.set h { r1 with deadline := now + Const.T22.T1 } } }

/-- `_process_multi_pg`: the contained groups handed to the subscribers, in order -/
def unpackMpg (prio sa dest : Nat) : Nat → List Nat → List Out
  | 0, _ => []
  | fuel+1, data =>
    if data.length ≤ 4 then []
    else
      let tos := Mpg.tos data
      if tos == 0 then []
      else
        let tf := Mpg.tf data
        let cpgn := Mpg.cpgn data
        let len := Mpg.len data
        let here := if tos == 2 && tf == 0 then [Out.notify prio cpgn sa dest ((data.drop 4).take len)] else []
        here ++ unpackMpg prio sa dest fuel (data.drop (4 + len))

/-- `notify(can_id, data, timestamp)` -/
def notify (cfg : Cfg) (s : St) (now : Nat) (acceptable : Nat → Bool) (canId : Nat) (data : List Nat) : Res :=
  let mid := MessageId.ofCanId canId
  let pgn := PGN.from_message_id mid
  if PGN.is_pdu2_format pgn then
    { st := s, outs := [.notify mid.priority (PGN.value pgn) mid.source_address Const.Addr.GLOBAL data] }
  else
    let pgnValue := Tp21.notify_pgn_value pgn
    let dest := pgn.pdu_specific
    if dest != Const.Addr.GLOBAL && !acceptable dest then { st := s }
    else if pgnValue == Const.PGN.FEFF_MULTI_PG then { st := s, outs := unpackMpg mid.priority mid.source_address dest (data.length + 1) data }
    else if pgnValue == Const.PGN.ADDRESSCLAIM then { st := s, outs := [.claim mid.source_address data] }
    else if pgnValue == Const.PGN.REQUEST then { st := s, outs := [.request mid.source_address dest data] }
    else if pgnValue == Const.PGN.FD_TP_CM then processCm cfg s now mid dest data
    else if pgnValue == Const.PGN.FD_TP_DT then processDt s now mid dest data
    else if pgnValue == Const.PGN.TP_CM then { st := s }
    else if pgnValue == Const.PGN.DATATRANSFER then { st := s }
    else { st := s, outs := [.notify mid.priority pgnValue mid.source_address dest data] }

end J1939.Dll22
