/-
  Pre-emption of the J1939-21 background pass by the receive thread, at the granularity the data structures make
  relevant: the pass iterates over SNAPSHOTS of the keys of the two session tables; the receive thread handles a
  frame (atomically — the background thread is the one that is held) before the K-th session lookup of the pass.
  Inside the handling of one session the pass advances the record BEFORE it puts the frame on the bus
  (j1939_21.py:205-223, 240-255), so a reply handled in between finds the state the atomic model produces; the
  per-record step is therefore kept atomic here, and the line-level pre-emption inside it is exercised on the real
  code by the oracle (vlib/preempt.py).
-/
import J1939.Model.Dll21
namespace J1939.Pre21
open J1939 J1939.Gen J1939.Dll21

/-- the receive thread runs: one frame (the exception, if the handler raises, stays in the receive thread) -/
def rx (cfg : Cfg) (acc : Nat → Bool) (now : Nat) (frame : Nat × List Nat) (s : St) : St × List Out × Option PyErr :=
  let r := notify cfg s now acc frame.1 frame.2
  (r.st, r.outs, r.err)

/-- result of a pre-empted pass -/
structure PreRes where
  st : St
  outsBefore : List Out := []      -- the pass, up to the pre-emption point
  rxOuts : List Out := []          -- the receive thread
  rxErr : Option PyErr := none
  outsAfter : List Out := []       -- the rest of the pass
  err : Option PyErr := none       -- exception in the BACKGROUND thread (it would die)
  wakeup : Nat := 0
deriving Repr, Inhabited

/-- one pass; the receive thread handles `frame` before the K-th session lookup (receive table first, then send table —
    whose key snapshot is taken when its loop starts); K beyond the last lookup = after the pass -/
def tickPre (cfg : Cfg) (acc : Nat → Bool) (s : St) (now : Nat) (K : Nat) (frame : Nat × List Nat) : PreRes :=
  let nw0 := now + Const.Ecu.idle_wakeup
  let ks := s.rcv.keys
  if K < ks.length then
    -- pre-empted inside the receive loop
    let (s1, nw1, o1, e1) := tickRcv now (ks.take K) s nw0 []
    match e1 with
    | some e => { st := s1, outsBefore := o1, err := some e, wakeup := nw1 }
    | none =>
      let (s2, ro, re) := rx cfg acc now frame s1
      let (s3, nw3, o3, e3) := tickRcv now (ks.drop K) s2 nw1 []
      match e3 with
      | some e => { st := s3, outsBefore := o1, rxOuts := ro, rxErr := re, outsAfter := o3, err := some e, wakeup := nw3 }
      | none =>
        let (s4, nw4, o4, e4) := tickSnd cfg now s3.snd.keys s3 nw3 o3
        { st := s4, outsBefore := o1, rxOuts := ro, rxErr := re, outsAfter := o4, err := e4, wakeup := nw4 }
  else
    -- pre-empted inside the send loop (its snapshot is taken when the loop starts), or after the last lookup
    let (s1, nw1, o1, e1) := tickRcv now ks s nw0 []
    match e1 with
    | some e => { st := s1, outsBefore := o1, err := some e, wakeup := nw1 }
    | none =>
      let ks2 := s1.snd.keys
      let K' := K - ks.length
      let (s2, nw2, o2, e2) := tickSnd cfg now (ks2.take K') s1 nw1 o1
      match e2 with
      | some e => { st := s2, outsBefore := o2, err := some e, wakeup := nw2 }
      | none =>
        let (s3, ro, re) := rx cfg acc now frame s2
        let (s4, nw4, o4, e4) := tickSnd cfg now (ks2.drop K') s3 nw2 []
        { st := s4, outsBefore := o2, rxOuts := ro, rxErr := re, outsAfter := o4, err := e4, wakeup := nw4 }

end J1939.Pre21
