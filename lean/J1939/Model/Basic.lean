/-
  Basic vocabulary shared by the generated leaves and the hand-written model.
  No imports: everything the driver needs stays Mathlib-free.
-/
namespace J1939

/-- A frame handed to the CAN backend (`send_message(can_id, extended_id, data, fd_format)`). -/
structure Frame where
  id   : Nat
  ext  : Bool
  data : List Nat
  fd   : Bool := false
deriving DecidableEq, Repr, Inhabited

/-- Python exceptions are outcomes, never defaults. -/
inductive PyErr where
  | KeyError | IndexError | RuntimeError | AssertionError | ValueError | TypeError
  | Empty | RuntimeWarning | OverflowError
deriving DecidableEq, Repr, Inhabited

def PyErr.name : PyErr → String
  | .KeyError => "KeyError" | .IndexError => "IndexError" | .RuntimeError => "RuntimeError"
  | .AssertionError => "AssertionError" | .ValueError => "ValueError" | .TypeError => "TypeError"
  | .Empty => "Empty" | .RuntimeWarning => "RuntimeWarning" | .OverflowError => "OverflowError"

namespace Py

/-- `int.from_bytes(l, byteorder='little', signed=False)` -/
def fromBytesLE : List Nat → Nat
  | [] => 0
  | b :: bs => b + 256 * fromBytesLE bs

/-- `x.to_bytes(n, byteorder='little')` (the caller guards `x < 256^n`; Python raises OverflowError otherwise). -/
def toBytesLE : Nat → Nat → List Nat
  | 0, _ => []
  | n+1, x => (x % 256) :: toBytesLE n (x / 256)

/-- `l[i]` for an index the caller has shown to be in range (see the `minLen` companions). -/
def idx (l : List Nat) (i : Nat) : Nat := l.getD i 0

/-- `l[a:b]` for non-negative bounds (Python clamps, so do `take`/`drop`). -/
def slice (l : List Nat) (a b : Nat) : List Nat := (l.take b).drop a

/-- `while len(l) < n: l.append(v)` -/
def pad (l : List Nat) (n v : Nat) : List Nat := l ++ List.replicate (n - l.length) v

/-- `l[i] = v` -/
def set (l : List Nat) (i v : Nat) : List Nat := l.set i v

/-- `l.insert(i, v)` for `i ≤ len l` -/
def insert (l : List Nat) (i v : Nat) : List Nat := l.take i ++ v :: l.drop i

def b2n (b : Bool) : Nat := if b then 1 else 0

end Py
end J1939

namespace J1939

/-- CPython `dict` with integer keys: insertion ordered; overwrite keeps the position, insert appends,
    delete keeps the order of the rest; `list(d)` is the list of keys. -/
abbrev PyDict (α : Type) := List (Nat × α)

namespace PyDict
variable {α : Type}

def get? (d : PyDict α) (k : Nat) : Option α := (d.find? (·.1 == k)).map (·.2)
def contains (d : PyDict α) (k : Nat) : Bool := d.any (·.1 == k)
def keys (d : PyDict α) : List Nat := d.map (·.1)
def erase (d : PyDict α) (k : Nat) : PyDict α := d.filter (·.1 != k)
/-- `d[k] = v` (keys are unique: the first entry with the key is the only one) -/
def set : PyDict α → Nat → α → PyDict α
  | [], k, v => [(k, v)]
  | p :: d, k, v => if p.1 == k then (k, v) :: d else p :: set d k v
/-- update the value at `k` if present -/
def modify (d : PyDict α) (k : Nat) (f : α → α) : PyDict α := d.map (fun p => if p.1 == k then (p.1, f p.2) else p)

end PyDict
end J1939
