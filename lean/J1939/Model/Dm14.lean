/-
  DM14 memory access at message level: one controller application with its `MemoryAccess` facade, `Dm14Query`
  (client) and `DM14Server`, and the ECU subscriber list their handlers edit while the ECU iterates it.

  Transcribed from memory_access.py / Dm14Query.py / Dm14Server.py (as repaired by the fix: commits D13–D17, D21,
  D26, D27).  PDUs are (pgn, sa, data) already addressed to this CA; sending is an output.  The blocking
  `queue.get` calls split `read` / `write` / `respond` into a begin part and a resumption.
  External callables are parameters: key functions (`Env`), and per operation the value the seed generator returns if
  it is asked and the answer of the application's proceed callback if it is asked.
-/
import J1939.Model.Basic
import J1939.Gen.Codec
import J1939.Gen.Const
namespace J1939.Dm14
open J1939 J1939.Gen

/-- the five handlers the three objects register with the ECU, and foreign application callbacks -/
inductive Cb where
  | listen | srv14 | srv16 | q15 | q16 | app (k : Nat)
deriving DecidableEq, Repr, Inhabited

structure Pdu where
  pgn : Nat
  sa : Nat
  data : List Nat
deriving DecidableEq, Repr, Inhabited

inductive QState where | idle | waitSeed | waitDm16 | waitOper
deriving DecidableEq, Repr, Inhabited
inductive SState where
  | idle | waitDm14 | waitKey | sendProceed | sendOperComplete | waitOperComplete | sendError | waitDm16
deriving DecidableEq, Repr, Inhabited
inductive FState where | idle | requestStarted | waitResponse | waitQuery
deriving DecidableEq, Repr, Inhabited

/-- what the client's exception queue holds -/
inductive Exc where
  | device (sa error edcp : Nat)      -- RuntimeError("Device <sa> error: <error> [<text>] edcp: <edcp>")
  | noKeyAlgo                         -- RuntimeError("Key requested from host but no seed-key algorithm ...")
deriving DecidableEq, Repr, Inhabited

structure Query where
  state : QState := .idle
  hasKey : Bool := false
  dataQ : List (Option (List Nat)) := []
  excQ : List Exc := []
  memData : Option (List Nat) := none
  dest : Nat := 0
  direct : Nat := 0
  address : Nat := 0
  objectCount : Nat := 0
  objSize : Nat := 1
  signed : Bool := false
  raw : Bool := false
  command : Nat := 0
  bytes : List Nat := []
  userLevel : Nat := 7
  isRead : Bool := true        -- ghost: which blocking call is pending
deriving DecidableEq, Repr, Inhabited

structure Server where
  busy : Bool := false
  sa : Option Nat := none
  state : SState := .idle
  hasKey : Bool := false
  dataQ : List (List Nat) := []
  address : Option (List Nat) := none
  length : Nat := 8
  proceed : Bool := false
  data : List Nat := []
  error : Nat := 0
  edcp : Nat := 7
  status : Nat := 0
  direct : Nat := 0
  command : Nat := 0
  pointerType : Nat := 0
  objectCount : Nat := 0
  accessLevel : Nat := 0
  seed : Nat := 0
  key : Nat := 0
deriving DecidableEq, Repr, Inhabited

structure Node where
  subs : List Cb := [.listen]
  q : Query := {}
  s : Server := {}
  f : FState := .idle
  seedSecurity : Bool := false
  hasProceed : Bool := false
deriving DecidableEq, Repr, Inhabited

/-- the key functions of both roles (`set_seed_key_algorithm`) -/
structure Env where
  skey : Nat → Nat
  ckey : Nat → Nat

inductive Out where
  | tx (pgn dest prio : Nat) (data : List Nat)     -- ca.send_pgn(0, pgn >> 8, dest, prio, data)
  | proceed (command address pointerType length count key sa level seed : Nat)
  | notify
deriving DecidableEq, Repr, Inhabited

/-- handler results: state, outputs so far, exception that aborts the notification -/
structure Res where
  n : Node
  outs : List Out := []
  err : Option PyErr := none
deriving Repr, Inhabited

def PGN_DM14 : Nat := 0xD900
def PGN_DM15 : Nat := 0xD800
def PGN_DM16 : Nat := 0xD700

def CMD_READ : Nat := 1
def CMD_WRITE : Nat := 2
def CMD_OPER_COMPLETED : Nat := 4
def ST_PROCEED : Nat := 0
def ST_BUSY : Nat := 1
def ST_OPER_FAILED : Nat := 5

/-- `ecu.subscribe` / `ecu.unsubscribe` (every registration of the callback goes) -/
def sub (n : Node) (c : Cb) : Node := { n with subs := n.subs ++ [c] }
def unsub (n : Node) (c : Cb) : Node := { n with subs := n.subs.filter (· != c) }

-- ------------------------------------------------------------------------------------------------ client
/-- `Dm14Query._send_dm14(key_or_user_level)` -/
def qDm14 (q : Query) (keyOrLevel : Nat) : Out :=
  .tx PGN_DM14 (q.dest &&& 0xFF) 6
    ([q.objectCount, (q.direct <<< 4) + (q.command <<< 1) + 1] ++ Py.toBytesLE 4 q.address ++ [keyOrLevel &&& 0xFF, keyOrLevel >>> 8])

/-- `Dm14Query._send_dm16()` -/
def qDm16 (q : Query) : Out :=
  .tx PGN_DM16 (q.dest &&& 0xFF) 6 ((if q.bytes.length > 7 then 0xFF else q.bytes.length) :: q.bytes)

/-- `Dm14Query._wait_for_data()` -/
def qWaitForData (n : Node) : Res :=
  if n.q.state != .waitSeed then { n := n, err := some .AssertionError }
  else if n.q.command == CMD_WRITE then
    { n := { n with q := { n.q with state := .waitOper } }, outs := [qDm16 n.q] }
  else
    { n := sub (unsub { n with q := { n.q with state := .waitDm16 } } .q15) .q16 }

/-- `Dm14Query._parse_dm15` -/
def qParseDm15 (env : Env) (n : Node) (p : Pdu) : Res :=
  if p.pgn != PGN_DM15 || p.sa != n.q.dest then { n := n }
  else if p.data.length < 8 then { n := n, err := some .IndexError }
  else
    let seed := Dm14.q_dm15_seed p.data
    let status := Dm14.q_dm15_status p.data
    if status == ST_BUSY || status == ST_OPER_FAILED then
      let error := Dm14.q_dm15_error p.data
      let edcp := Py.idx p.data 5
      let q1 := { n.q with dataQ := n.q.dataQ ++ [none] }
      if edcp == 6 || edcp == 7 then { n := { n with q := { q1 with excQ := q1.excQ ++ [.device p.sa error edcp] } } }
      else { n := { n with q := q1 } }
    else
      let length := Py.idx p.data 0
      if seed == 0xFFFF && length == n.q.objectCount then qWaitForData n
      else if n.q.state == .waitOper then
        if status != CMD_OPER_COMPLETED then { n := n, err := some .AssertionError }
        else
          let q1 := { n.q with objectCount := 1, command := CMD_OPER_COMPLETED }
          { n := { n with q := { q1 with state := .idle, dataQ := q1.dataQ ++ [q1.memData] } }, outs := [qDm14 q1 0xFFFF] }
      else if n.q.state != .waitSeed then { n := n, err := some .AssertionError }
      else if n.q.hasKey then { n := n, outs := [qDm14 n.q (env.ckey seed)] }
      else { n := { n with q := { n.q with dataQ := n.q.dataQ ++ [none], excQ := n.q.excQ ++ [.noKeyAlgo] } } }

/-- `Dm14Query._parse_dm16` -/
def qParseDm16 (n : Node) (p : Pdu) : Res :=
  if p.pgn != PGN_DM16 || p.sa != n.q.dest then { n := n }
  else if p.data.length < 1 then { n := n, err := some .IndexError }
  else
    let length := min (Py.idx p.data 0) (p.data.length - 1)
    let n1 := { n with q := { n.q with memData := some (Py.slice p.data 1 (length + 1)) } }
    let n2 := sub (unsub n1 .q16) .q15
    { n := { n2 with q := { n2.q with state := .waitOper } } }

/-- `Dm14Query._end_transaction` (repair of D16) -/
def qEnd (n : Node) : Node :=
  let n1 := unsub (unsub n .q15) .q16
  { n1 with q := { n1.q with state := .idle } }

-- ------------------------------------------------------------------------------------------------ server
/-- `DM14Server._send_dm15`: the PDU, or ValueError for a state without a DM15 form; the new server (seed / command /
    state side effects) -/
def sDm15 (s : Server) (seedIn : Nat) (length direct status : Nat) (state : SState) (objectCount : Nat) (sa : Option Nat)
    (error edcp : Nat) : Server × List Out × Option PyErr :=
  let data0 := Py.set (List.replicate length 0xFF) 1 ((direct <<< 4) + (status <<< 1) + 1)
  let fin (s' : Server) (d : List Nat) : Server × List Out × Option PyErr :=
    match sa with
    | some a => (s', [.tx PGN_DM15 (a &&& 0xFF) 6 d], none)
    | none => (s', [], some .TypeError)
  match state with
  | .waitKey =>
    let s1 := { s with seed := seedIn }
    fin s1 (Py.set (Py.set (Py.set data0 0 0) (length - 2) (seedIn &&& 0xFF)) (length - 1) (seedIn >>> 8))
  | .sendProceed => fin s (Py.set data0 0 objectCount)
  | .sendOperComplete =>
    let s1 := { s with command := CMD_OPER_COMPLETED, state := .waitOperComplete }
    fin s1 (Py.set (Py.set data0 0 0) 1 ((direct <<< 4) + (CMD_OPER_COMPLETED <<< 1) + 1))
  | .sendError =>
    let d := Py.set (Py.set data0 0 0) 1 ((direct <<< 4) + (ST_OPER_FAILED <<< 1) + 1)
    let d := Py.set d (length - 6) (error &&& 0xFF)
    let d := Py.set d (length - 5) ((error >>> 8) &&& 0xFF)
    let d := Py.set d (length - 4) (error >>> 16)
    let d := Py.set d (length - 3) edcp
    fin s d
  | _ => (s, [], some .ValueError)

/-- `DM14Server._send_dm16()` — the PDU and whether the acknowledgement listener is registered -/
def sDm16 (n : Node) : Res :=
  let s := n.s
  let bc := s.data.length
  let data := ((if bc > 7 then 0xFF else bc) :: s.data) ++ List.replicate (s.length - bc - 1) 0xFF
  let n1 := if bc > 7 then sub n .srv16 else n
  match s.sa with
  | some a => { n := n1, outs := [.tx PGN_DM16 (a &&& 0xFF) 7 data] }
  | none => { n := n1, err := some .TypeError }

/-- the guard in front of the server's state machine: another requester, another pointer, or the busy flag -/
def sRejects (s : Server) (p : Pdu) : Bool :=
  (match s.sa with | some a => p.sa != a | none => false)
  || (match s.address with | some ad => ad != Py.slice p.data 2 (s.length - 2) | none => false)
  || s.busy

/-- `DM14Server.parse_dm14` -/
def sParseDm14 (n : Node) (seedIn : Nat) (p : Pdu) : Res :=
  if p.pgn != PGN_DM14 then { n := n }
  else if p.data.length < 8 then { n := n, err := some .IndexError }
  else
    let s := n.s
    let data := p.data
    if sRejects s p then
      let r := sDm15 s seedIn s.length (Py.idx data 1 >>> 4) ST_OPER_FAILED .sendError (Py.idx data 0) (some p.sa)
                (if s.error != 0 then s.error else 2) 7
      { n := { n with s := { r.1 with busy := false } }, outs := r.2.1, err := r.2.2 }
    else
      let len := data.length
      let s0 := { s with length := len, direct := Py.idx data 1 >>> 4 }
      match s.state with
      | .idle =>
        let s1 := { s0 with sa := some p.sa, status := ST_PROCEED, address := some (Py.slice data 2 (len - 2)),
                            command := Dm14.s_command data, pointerType := Dm14.s_pointer_type data,
                            objectCount := Py.idx data 0,
                            accessLevel := (Py.idx data (len - 1) <<< 8) + Py.idx data (len - 2), data := data }
        if s1.hasKey then
          let s2 := { s1 with state := .waitKey }
          let r := sDm15 s2 seedIn s2.length s2.direct s2.status s2.state s2.objectCount s2.sa 0 0
          { n := { n with s := r.1 }, outs := r.2.1, err := r.2.2 }
        else { n := { n with s := { s1 with state := .sendProceed } } }
      | .waitKey =>
        let s1 := { s0 with address := some (Py.slice data 2 (len - 2)), command := Dm14.s_command data,
                            objectCount := Py.idx data 0,
                            key := (Py.idx data (len - 1) <<< 8) + Py.idx data (len - 2), data := data,
                            state := .sendProceed }
        { n := { n with s := s1 } }
      | .waitOperComplete =>
        { n := unsub { n with s := { s0 with state := .idle, sa := none, address := none } } .srv14 }
      | _ => { n := { n with s := s0 }, err := some .ValueError }

/-- `DM14Server._parse_dm16` (also runs on the end-of-message acknowledgement of the server's own multi-packet DM16) -/
def sParseDm16 (n : Node) (seedIn : Nat) (p : Pdu) : Res :=
  if p.pgn != PGN_DM16 || some p.sa != n.s.sa then { n := n }
  else if p.data.length < 1 then { n := n, err := some .IndexError }
  else
    let length := min (Py.idx p.data 0) (p.data.length - 1)
    let s1 := if n.s.state == .waitDm16 then { n.s with dataQ := n.s.dataQ ++ [Py.slice p.data 1 (length + 1)] } else n.s
    let n1 := sub (unsub { n with s := s1 } .srv16) .srv14
    let s2 := { n1.s with state := .sendOperComplete }
    let r := sDm15 s2 seedIn s2.length s2.direct s2.status s2.state s2.objectCount s2.sa 0 0
    { n := { n1 with s := r.1 }, outs := r.2.1, err := r.2.2 }

/-- `DM14Server.reset_query` -/
def sReset (n : Node) : Node :=
  let s := n.s
  let n1 := { n with s := { s with state := .idle, sa := none, seed := 0, key := 0, busy := false, address := none, length := 8,
                                   proceed := false, data := [], error := 0, edcp := 7, status := ST_PROCEED, direct := 0 } }
  unsub (unsub n1 .srv14) .srv16

/-- `DM14Server._wait_for_data` -/
def sWaitForData (n : Node) (seedIn : Nat) : Res :=
  let n0 := sub n .srv16
  let s := n0.s
  let r := sDm15 s seedIn s.length s.direct s.status s.state s.objectCount s.sa s.error s.edcp
  match r.2.2 with
  | some e => { n := { n0 with s := r.1 }, outs := r.2.1, err := some e }
  | none =>
    let n1 := { n0 with s := r.1 }
    if n1.s.command == CMD_READ && n1.s.state == .sendProceed then
      let n2 := unsub n1 .srv16
      let r2 := sDm16 n2
      match r2.err with
      | some e => { n := r2.n, outs := r.2.1 ++ r2.outs, err := some e }
      | none =>
        if r2.n.s.data.length ≤ 7 then
          let n3 := sub { r2.n with s := { r2.n.s with proceed := true, state := .sendOperComplete } } .srv14
          let s3 := n3.s
          let r3 := sDm15 s3 seedIn s3.length s3.direct s3.status s3.state s3.objectCount s3.sa s3.error s3.edcp
          { n := { n3 with s := r3.1 }, outs := r.2.1 ++ r2.outs ++ r3.2.1, err := r3.2.2 }
        else { n := r2.n, outs := r.2.1 ++ r2.outs }
    else if n1.s.command == CMD_WRITE && n1.s.state == .sendProceed then
      { n := { n1 with s := { n1.s with state := .waitDm16 } }, outs := r.2.1 }
    else
      let n2 := unsub n1 .srv16
      { n := { n2 with s := { n2.s with state := .idle, sa := none, address := none } }, outs := r.2.1 }

-- ------------------------------------------------------------------------------------------------ facade
/-- the facade's refusal sequence: error code, busy flag, `parse_dm14` (answers 'operation failed'), reset -/
def fRefuse (n : Node) (seedIn : Nat) (p : Pdu) (code : Nat) (facadeReset : Bool) : Res :=
  let n1 := { n with s := { n.s with error := code, busy := true } }
  let r := sParseDm14 n1 seedIn p
  match r.err with
  | some e => { n := r.n, outs := r.outs, err := some e }
  | none =>
    let n2 := { r.n with s := { r.n.s with busy := false } }
    let n3 := if facadeReset then sReset (sub n2 .listen) else sReset n2
    { n := { n3 with f := .idle, s := { n3.s with error := 0 } }, outs := r.outs }

/-- call the application's proceed callback and act on its answer -/
def fConsult (n : Node) (seedIn : Nat) (accept : Bool) (p : Pdu) (key seed : Nat) (facadeReset : Bool) : Res :=
  if !n.hasProceed then { n := n }
  else
    let s := n.s
    let call := Out.proceed s.command (Py.fromBytesLE (s.address.getD [])) s.pointerType s.length s.objectCount key (s.sa.getD 0)
                  s.accessLevel seed
    if accept then { n := n, outs := [call, .notify] }
    else
      let r := fRefuse n seedIn p 0x100 facadeReset
      { r with outs := call :: r.outs }

/-- `MemoryAccess._listen_for_dm14` -/
def fListen (env : Env) (n : Node) (seedIn : Nat) (accept : Bool) (p : Pdu) : Res :=
  if p.pgn != PGN_DM14 then { n := n }
  else match n.f with
    | .idle =>
      if n.s.state != .idle then { n := n }
      else
        let r := sParseDm14 { n with f := .requestStarted } seedIn p
        match r.err with
        | some e => r
        | none =>
          if !r.n.seedSecurity then
            let n1 := unsub { r.n with f := .waitResponse } .listen
            let r2 := fConsult n1 seedIn accept p 0xFFFF 0 true
            { r2 with outs := r.outs ++ r2.outs }
          else r
    | .requestStarted =>
      let r := sParseDm14 n seedIn p
      match r.err with
      | some e => r
      | none =>
        if r.n.s.state == .sendProceed then
          let n1 := { r.n with f := .waitResponse }
          if n1.seedSecurity then
            if env.skey n1.s.seed == n1.s.key then
              let r2 := fConsult n1 seedIn accept p n1.s.key n1.s.seed false
              { r2 with outs := r.outs ++ r2.outs }
            else
              let r2 := fRefuse n1 seedIn p 0x1003 false
              { r2 with outs := r.outs ++ r2.outs }
          else { n := n1, outs := r.outs }
        else r
    | .waitQuery =>
      let r := sParseDm14 { n with s := { n.s with busy := true } } seedIn p
      { r with n := { r.n with s := { r.n.s with busy := false } } }
    | .waitResponse => { n := n }

-- ------------------------------------------------------------------------------------------------ ECU dispatch
def runCb (env : Env) (n : Node) (seedIn : Nat) (accept : Bool) (p : Pdu) : Cb → Res
  | .listen => fListen env n seedIn accept p
  | .srv14 => sParseDm14 n seedIn p
  | .srv16 => sParseDm16 n seedIn p
  | .q15 => qParseDm15 env n p
  | .q16 => qParseDm16 n p
  | .app _ => { n := n }

/-- `for dic in self._subscribers: dic['cb'](...)` — the LIVE list, by position: handlers that unsubscribe themselves
    make the loop skip the registration that follows them, handlers that subscribe are reached in the same pass -/
def notifyLoop (env : Env) (seedIn : Nat) (accept : Bool) (p : Pdu) : Nat → Nat → Node → List Out → Res
  | 0, _, n, o => { n := n, outs := o, err := some .RuntimeError }       -- fuel exhausted: reported, never silent
  | fuel + 1, i, n, o =>
    match n.subs[i]? with
    | none => { n := n, outs := o }
    | some c =>
      let r := runCb env n seedIn accept p c
      match r.err with
      | some e => { n := r.n, outs := o ++ r.outs, err := some e }
      | none => notifyLoop env seedIn accept p fuel (i + 1) r.n (o ++ r.outs)

/-- a PDU addressed to this CA arrives -/
def deliver (env : Env) (n : Node) (seedIn : Nat) (accept : Bool) (p : Pdu) : Res :=
  notifyLoop env seedIn accept p 64 0 n []

-- ------------------------------------------------------------------------------------------------ blocking calls
/-- results of the blocking API calls -/
inductive Ret where
  | values (v : List Int)        -- read(): converted values (or the raw bytes as values)
  | none                         -- write() / respond() without data
  | data (d : List Nat)          -- respond(): the written bytes
  | raiseExc (e : Exc)           -- RuntimeError from the exception queue
  | raiseNoResponse              -- RuntimeError("No response from server")
  | raisePy (e : PyErr)
  | blocked                      -- the call is waiting in queue.get
deriving DecidableEq, Repr, Inhabited

/-- `MemoryAccess.read` up to the blocking wait -/
def readBegin (n : Node) (dest direct address count objSize : Nat) (signed raw : Bool) : Node × List Out × Ret :=
  if n.f != .idle then (n, [], .raisePy .RuntimeWarning)
  else if count == 0 then ({ n with f := .idle }, [], .raisePy .AssertionError)
  else if address ≥ 2 ^ 32 then
    -- to_bytes raises inside _send_dm14, after the subscription: the facade's finally puts it back to idle
    let n1 := sub { n with q := { n.q with dest := dest, direct := direct, address := address, objectCount := count,
                                           objSize := objSize, signed := signed, raw := raw, command := CMD_READ, isRead := true } } .q15
    (n1, [], .raisePy .OverflowError)
  else
    let q1 := { n.q with dest := dest, direct := direct, address := address, objectCount := count, objSize := objSize,
                         signed := signed, raw := raw, command := CMD_READ, isRead := true }
    let n1 := sub { n with f := .waitQuery, q := q1 } .q15
    ({ n1 with q := { q1 with state := .waitSeed } }, [qDm14 q1 q1.userLevel], .blocked)

/-- `int.from_bytes(chunk, 'little', signed=…)` for every object -/
def chunkValues (size : Nat) (signed : Bool) : Nat → List Nat → List Int
  | 0, _ => []
  | k + 1, l =>
    let v := Py.fromBytesLE (l.take size)
    (if signed && v ≥ 2 ^ (8 * size - 1) then (v : Int) - (2 : Int) ^ (8 * size) else (v : Int)) :: chunkValues size signed k (l.drop size)

def bytesToValues (size : Nat) (signed : Bool) (raw : List Nat) : List Int :=
  chunkValues size signed (raw.length / size) raw

/-- the client's wait ends: an item arrived (`timedOut = false`, queue non-empty) or the timeout passed -/
def clientResume (n : Node) (timedOut : Bool) : Node × Ret :=
  let isRead := n.q.isRead
  let fin (n' : Node) (r : Ret) : Node × Ret := ({ qEnd n' with f := .idle }, r)
  match timedOut, n.q.dataQ with
  | false, item :: rest =>
    let n1 := { n with q := { n.q with dataQ := rest } }
    (match n1.q.excQ with
     | e :: es => fin { n1 with q := { n1.q with excQ := es } } (.raiseExc e)
     | [] =>
       if isRead then
         match item with
         | some d => if d.isEmpty then fin n1 (.values []) else
                       fin n1 (.values (if n1.q.raw then d.map (fun (x : Nat) => (x : Int)) else bytesToValues n1.q.objSize n1.q.signed d))
         | none => fin n1 (.values [])
       else fin n1 .none)
  | _, _ =>
    if n.q.state == .waitSeed then fin n .raiseNoResponse
    else
      if isRead then
        (match n.q.excQ with
         | e :: es => fin { n with q := { n.q with excQ := es } } (.raiseExc e)
         | [] => fin n (.values []))
      else fin n .none

/-- `MemoryAccess.read`: when the queue already holds an item the wait returns at once -/
def read (n : Node) (dest direct address count objSize : Nat) (signed raw : Bool) : Node × List Out × Ret :=
  let r := readBegin n dest direct address count objSize signed raw
  if r.2.2 == .blocked && !r.1.q.dataQ.isEmpty then
    let r2 := clientResume r.1 false
    (r2.1, r.2.1, r2.2)
  else r

/-- `MemoryAccess.write` up to the blocking wait (a facade that is not idle returns silently) -/
def writeBegin (n : Node) (dest direct address : Nat) (values : List Nat) (objSize : Nat) : Node × List Out × Ret :=
  if n.f != .idle then (n, [], .none)
  else
    let q0 := { n.q with dest := dest, direct := direct, address := address, objSize := objSize, command := CMD_WRITE, isRead := false }
    if values.any (fun v => v ≥ 256 ^ objSize) then ({ n with q := q0 }, [], .raisePy .OverflowError)
    else
      let q1 := { q0 with bytes := (values.map (Py.toBytesLE objSize)).flatten, objectCount := values.length }
      let n1 := sub { n with q := q1 } .q15
      if address ≥ 2 ^ 32 then (n1, [], .raisePy .OverflowError)
      else ({ n1 with f := .waitQuery, q := { q1 with state := .waitSeed } }, [qDm14 q1 q1.userLevel], .blocked)

def write (n : Node) (dest direct address : Nat) (values : List Nat) (objSize : Nat) : Node × List Out × Ret :=
  let r := writeBegin n dest direct address values objSize
  if r.2.2 == .blocked && !r.1.q.dataQ.isEmpty then
    let r2 := clientResume r.1 false
    (r2.1, r.2.1, r2.2)
  else r

/-- the server application's wait for the written data ends -/
def respondResume (n : Node) (timedOut : Bool) : Node × Ret :=
  match timedOut, n.s.dataQ with
  | false, d :: rest => (sub { n with s := { n.s with dataQ := rest } } .listen, .data d)
  | _, _ => (n, .raisePy .Empty)

/-- `MemoryAccess.respond(proceed, data, error, edcp)` up to the blocking wait -/
def respond (n : Node) (seedIn : Nat) (proceed : Bool) (data : List Nat) (error edcp : Nat) : Node × List Out × Ret :=
  if n.f != .waitResponse then (n, [], .data data)
  else
    let n1 := unsub { n with f := .idle } .listen
    let s1 := { n1.s with proceed := proceed, data := data, error := error, edcp := edcp,
                          status := if proceed then ST_PROCEED else ST_OPER_FAILED,
                          state := if proceed then .sendProceed else .sendError }
    let r := sWaitForData { n1 with s := s1 } seedIn
    match r.err with
    | some e => (r.n, r.outs, .raisePy e)
    | none =>
      if r.n.s.state == .waitDm16 then
        if r.n.s.dataQ.isEmpty then (r.n, r.outs, .blocked)
        else let r2 := respondResume r.n false; (r2.1, r.outs, r2.2)
      else (sub r.n .listen, r.outs, .none)

/-- `MemoryAccess.reset_query()` -/
def facadeReset (n : Node) : Node := sReset (sub n .listen)

end J1939.Dm14
