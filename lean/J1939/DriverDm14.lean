/-
  Line-protocol operations for the DM14 model (m14.*).  Kept apart from Driver.lean (compile time).
-/
import J1939.Gen.Eval
import J1939.Model.Dm14
namespace J1939.Driver14
open J1939 J1939.Gen J1939.Dm14

/-- the key function both roles are configured with in the scripts; the client's may be off by `delta` -/
def keyFn (s : Nat) : Nat := ((s * 40503) ^^^ 0x5A5A) &&& 0xFFFF

structure NodeSt where
  n : Node := {}
  delta : Nat := 0
  pendC : Bool := false       -- a read/write is waiting in queue.get
  pendS : Bool := false       -- a respond is waiting in queue.get
deriving Inhabited

def NodeSt.env (e : NodeSt) : Env := { skey := keyFn, ckey := fun s => (keyFn s + e.delta) &&& 0xFFFF }

def parseList (s : String) : Option (List Nat) :=
  if s.startsWith "[" && s.endsWith "]" then
    let inner : String := ((s.drop 1).dropEnd 1).toString
    if inner.isEmpty then some [] else (inner.splitOn ",").mapM (fun t => t.toNat?)
  else none

def showInts (l : List Int) : String := "[" ++ ",".intercalate (l.map toString) ++ "]"

def showOut : Out → String
  | .tx pgn dest prio data => s!"tx {pgn} {dest} {prio} {showList data}"
  | .proceed c a p l n k sa lv sd => s!"proceed {c} {a} {p} {l} {n} {k} {sa} {lv} {sd}"
  | .notify => "notify"

def showExc : Exc → String
  | .device sa e edcp => s!"raise device {sa} {e} {edcp} {if Const.ErrorInfo.keys.contains e then 1 else 0}"
  | .noKeyAlgo => "raise nokey"

def showRet : Ret → String
  | .values v => s!"ret values {showInts v}"
  | .none => "ret none"
  | .data d => s!"ret data {showList d}"
  | .raiseExc e => showExc e
  | .raiseNoResponse => "raise noresponse"
  | .raisePy e => s!"raise {e.name}"
  | .blocked => "blocked"

def showCb : Cb → String
  | .listen => "listen" | .srv14 => "srv14" | .srv16 => "srv16" | .q15 => "q15" | .q16 => "q16" | .app k => s!"app{k}"

def showQ : QState → String
  | .idle => "IDLE" | .waitSeed => "WAIT_FOR_SEED" | .waitDm16 => "WAIT_FOR_DM16" | .waitOper => "WAIT_FOR_OPER_COMPLETE"
def showS : SState → String
  | .idle => "IDLE" | .waitDm14 => "WAIT_FOR_DM14" | .waitKey => "WAIT_FOR_KEY" | .sendProceed => "SEND_PROCEED"
  | .sendOperComplete => "SEND_OPERATION_COMPLETE" | .waitOperComplete => "WAIT_OPERATION_COMPLETE" | .sendError => "SEND_ERROR"
  | .waitDm16 => "WAIT_FOR_DM16"
def showF : FState → String
  | .idle => "IDLE" | .requestStarted => "REQUEST_STARTED" | .waitResponse => "WAIT_RESPONSE" | .waitQuery => "WAIT_QUERY"

def showOptNat : Option Nat → String
  | none => "-"
  | some v => toString v

def dump (n : Node) : String :=
  s!"f {showF n.f} q {showQ n.q.state} s {showS n.s.state} subs {",".intercalate (n.subs.map showCb)} qdata {n.q.dataQ.length} " ++
  s!"qexc {n.q.excQ.length} sdata {n.s.dataQ.length} sa {showOptNat n.s.sa} addr {match n.s.address with | none => "-" | some a => showList a} " ++
  s!"busy {Py.b2n n.s.busy} len {n.s.length} err {n.s.error}"

def withNode (ns : List NodeSt) (i : Nat) (f : NodeSt → NodeSt × List String) : List NodeSt × List String :=
  match ns[i]? with
  | some e => let (e', o) := f e; (ns.set i e', o)
  | none => (ns, ["bad-node"])

def resLines (r : Res) : List String :=
  r.outs.map showOut ++ (match r.err with | some e => [s!"exc {e.name}"] | none => [])

def step (ns : List NodeSt) (toks : List String) : List NodeSt × List String :=
  match toks with
  | ["m14.new", sec, hp, delta, _own] =>
    match sec.toNat?, hp.toNat?, delta.toNat? with
    | some sec, some hp, some delta =>
      let b := sec != 0
      (ns ++ [{ n := { seedSecurity := b, hasProceed := hp != 0, q := { hasKey := b }, s := { hasKey := b } }, delta := delta }], [])
    | _, _, _ => (ns, ["bad-args"])
  | ["m14.deliver", i, pgn, sa, data, seed, accept] =>
    match i.toNat?, pgn.toNat?, sa.toNat?, parseList data, seed.toNat?, accept.toNat? with
    | some i, some pgn, some sa, some data, some seed, some accept => withNode ns i fun e =>
        let r := deliver e.env e.n seed (accept != 0) { pgn := pgn, sa := sa, data := data }
        ({ e with n := r.n }, resLines r)
    | _, _, _, _, _, _ => (ns, ["bad-args"])
  | ["m14.read", i, dest, direct, address, count, osize, signed, raw] =>
    match i.toNat?, dest.toNat?, direct.toNat?, address.toNat?, count.toNat?, osize.toNat?, signed.toNat?, raw.toNat? with
    | some i, some dest, some direct, some address, some count, some osize, some signed, some raw => withNode ns i fun e =>
        if e.pendC then (e, ["busy-call"]) else
        let r := read e.n dest direct address count osize (signed != 0) (raw != 0)
        ({ e with n := r.1, pendC := r.2.2 == .blocked }, r.2.1.map showOut ++ [showRet r.2.2])
    | _, _, _, _, _, _, _, _ => (ns, ["bad-args"])
  | ["m14.write", i, dest, direct, address, values, osize] =>
    match i.toNat?, dest.toNat?, direct.toNat?, address.toNat?, parseList values, osize.toNat? with
    | some i, some dest, some direct, some address, some values, some osize => withNode ns i fun e =>
        if e.pendC then (e, ["busy-call"]) else
        let r := write e.n dest direct address values osize
        ({ e with n := r.1, pendC := r.2.2 == .blocked }, r.2.1.map showOut ++ [showRet r.2.2])
    | _, _, _, _, _, _ => (ns, ["bad-args"])
  | ["m14.resume", i] =>
    match i.toNat? with
    | some i => withNode ns i fun e =>
        if !e.pendC then (e, ["no-call"])
        else if e.n.q.dataQ.isEmpty then (e, ["still-blocked"])
        else let r := clientResume e.n false; ({ e with n := r.1, pendC := false }, [showRet r.2])
    | none => (ns, ["bad-args"])
  | ["m14.timeout", i] =>
    match i.toNat? with
    | some i => withNode ns i fun e =>
        if !e.pendC then (e, ["no-call"])
        else let r := clientResume e.n true; ({ e with n := r.1, pendC := false }, [showRet r.2])
    | none => (ns, ["bad-args"])
  | ["m14.respond", i, proceed, data, error, edcp, seed] =>
    match i.toNat?, proceed.toNat?, parseList data, error.toNat?, edcp.toNat?, seed.toNat? with
    | some i, some proceed, some data, some error, some edcp, some seed => withNode ns i fun e =>
        if e.pendS then (e, ["busy-call"]) else
        let r := respond e.n seed (proceed != 0) data error edcp
        ({ e with n := r.1, pendS := r.2.2 == .blocked }, r.2.1.map showOut ++ [showRet r.2.2])
    | _, _, _, _, _, _ => (ns, ["bad-args"])
  | ["m14.rresume", i] =>
    match i.toNat? with
    | some i => withNode ns i fun e =>
        if !e.pendS then (e, ["no-call"])
        else if e.n.s.dataQ.isEmpty then (e, ["still-blocked"])
        else let r := respondResume e.n false; ({ e with n := r.1, pendS := false }, [showRet r.2])
    | none => (ns, ["bad-args"])
  | ["m14.rtimeout", i] =>
    match i.toNat? with
    | some i => withNode ns i fun e =>
        if !e.pendS then (e, ["no-call"])
        else let r := respondResume e.n true; ({ e with n := r.1, pendS := false }, [showRet r.2])
    | none => (ns, ["bad-args"])
  | ["m14.reset", i] =>
    match i.toNat? with
    | some i => withNode ns i fun e => ({ e with n := facadeReset e.n }, [])
    | none => (ns, ["bad-args"])
  | ["m14.appsub", i, k] =>
    match i.toNat?, k.toNat? with
    | some i, some k => withNode ns i fun e => ({ e with n := sub e.n (.app k) }, [])
    | _, _ => (ns, ["bad-args"])
  | ["m14.appunsub", i, k] =>
    match i.toNat?, k.toNat? with
    | some i, some k => withNode ns i fun e => ({ e with n := unsub e.n (.app k) }, [])
    | _, _ => (ns, ["bad-args"])
  | ["m14.dump", i] =>
    match i.toNat? with
    | some i => withNode ns i fun e => (e, [dump e.n])
    | none => (ns, ["bad-args"])
  | _ => (ns, ["bad-op"])

end J1939.Driver14
