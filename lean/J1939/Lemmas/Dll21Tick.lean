/-
  Invariants of the J1939-21 background pass.  Property statements: Props/C07.lean.
-/
import J1939.Lemmas.Dll21
namespace J1939.Dll21
open J1939 J1939.Gen

/-- configured pacing intervals are positive -/
def CfgPos (cfg : Cfg) : Prop := 0 < cfg.bamInterval ∧ ∀ iv, cfg.cmdtInterval = some iv → 0 < iv

def SndOk (b : Snd) : Prop := b.deadline ≠ 0 ∧ (b.state = S_SENDING_IN_CTS → b.waitOn.isSome = true)
def RcvOk (r : Rcv) : Prop := r.deadline ≠ 0

/-- well-formed tables: unique keys, every record has a deadline, a record that is sending in a CTS window knows
    where the window ends -/
def WF (s : St) : Prop := s.rcv.keys.Nodup ∧ s.snd.keys.Nodup ∧ PyDict.All RcvOk s.rcv ∧ PyDict.All SndOk s.snd

/-- the send window loop in general (any wait-on packet): no exception, and the record ends in one of three ways -/
theorem sendWindow_general (cfg : Cfg) (now : Nat) (fuel : Nat) (b : Snd) (o : List Out) (w : Int)
    (hw : b.waitOn = some w) (hfuel : b.numPackages - b.next < fuel)
    (r1 : Snd) (ro : List Out) (re : Option PyErr) (hr : sendWindow cfg now fuel b o = (r1, ro, re)) :
    re = none ∧ r1.waitOn = some w ∧
    ((r1.state = S_WAITING_CTS ∧ r1.deadline = now + Const.T21.T3) ∨
     (∃ iv, cfg.cmdtInterval = some iv ∧ r1.deadline = now + iv ∧ r1.state = b.state) ∨
     (r1.numPackages ≤ r1.next ∧ r1.state = b.state ∧ r1.deadline = b.deadline)) := by
  induction fuel generalizing b o with
  | zero => omega
  | succ fuel ih =>
    obtain ⟨pgn, prio, ms, np, data, st, dl, src, dst, nx, wo⟩ := b
    simp only at hw hfuel
    subst hw
    unfold sendWindow at hr
    by_cases hlt : nx < np
    · simp only [hlt, if_true] at hr
      by_cases heq : (nx : Int) = w
      · have hb : ((nx : Int) == w) = true := by simpa using heq
        simp only [hb, if_true, Prod.mk.injEq] at hr
        obtain ⟨rfl, rfl, rfl⟩ := hr
        exact ⟨rfl, rfl, Or.inl ⟨rfl, rfl⟩⟩
      · have hb : ((nx : Int) == w) = false := by simpa using heq
        simp only [hb, Bool.false_eq_true, if_false] at hr
        cases hiv : cfg.cmdtInterval with
        | some iv =>
          simp only [hiv, Prod.mk.injEq] at hr
          obtain ⟨rfl, rfl, rfl⟩ := hr
          exact ⟨rfl, rfl, Or.inr (Or.inl ⟨iv, rfl, rfl, rfl⟩)⟩
        | none =>
          simp only [hiv] at hr
          have := ih _ _ rfl (by show np - (nx + 1) < fuel; omega) hr
          simpa [hiv] using this
    · simp only [hlt, if_false, Prod.mk.injEq] at hr
      obtain ⟨rfl, rfl, rfl⟩ := hr
      exact ⟨rfl, rfl, Or.inr (Or.inr ⟨by show np ≤ nx; omega, rfl, rfl⟩)⟩

/-- one record of the send table through one pass: no exception; what remains is well-formed and due in the future;
    the wake-up it contributes is in the future -/
theorem tickSndOne_spec (cfg : Cfg) (now : Nat) (b : Snd) (hnow : 0 < now) (hc : CfgPos cfg) (hb : SndOk b) :
    (tickSndOne cfg now b).2.2.1 = none ∧
    (∀ b', (tickSndOne cfg now b).1 = some b' → SndOk b' ∧ now < b'.deadline) ∧
    (∀ d, (tickSndOne cfg now b).2.2.2 = some d → now < d) := by
  obtain ⟨hd0, hwo⟩ := hb
  have ht := t21_pos
  have e1 : (b.deadline != 0) = true := by simpa using hd0
  unfold tickSndOne
  simp only [e1, if_true]
  by_cases hfut : b.deadline > now
  · simp only [hfut, if_true]
    refine ⟨by first | rfl | trivial, ?_, ?_⟩
    · intro b' h; cases h; exact ⟨⟨hd0, hwo⟩, hfut⟩
    · intro d h; cases h; exact hfut
  · simp only [hfut, if_false]
    by_cases h1 : b.state = S_WAITING_CTS
    · simp [h1]
    · have h1' : (b.state == S_WAITING_CTS) = false := by simpa using h1
      simp only [h1', Bool.false_eq_true, if_false]
      by_cases h2 : b.state = S_SENDING_IN_CTS
      · have h2' : (b.state == S_SENDING_IN_CTS) = true := by simpa using h2
        simp only [h2', if_true]
        have hsome := hwo h2
        cases hw : b.waitOn with
        | none => rw [hw] at hsome; cases hsome
        | some w =>
          cases hres : sendWindow cfg now (b.numPackages - b.next + 1) b [] with
          | mk r1 rest =>
            cases rest with
            | mk ro re =>
              obtain ⟨hre, hwo1, hcase⟩ := sendWindow_general cfg now _ b [] w hw (by omega) r1 ro re hres
              subst hre
              simp only [Option.isNone_none, Bool.true_and, if_true]
              refine ⟨by first | rfl | trivial, ?_, ?_⟩
              · intro b' hb'
                simp only [Option.some.injEq] at hb'
                subst hb'
                split
                · refine ⟨⟨by simp; omega, by intro h; simp at h⟩, by simp; omega⟩
                · rename_i hcond
                  rcases hcase with ⟨hs, hd⟩ | ⟨iv, hiv, hd, hs⟩ | ⟨hn, hs, hd⟩
                  · exact ⟨⟨by rw [hd]; omega, by intro h; rw [hs] at h; simp at h⟩, by rw [hd]; omega⟩
                  · have := hc.2 iv hiv
                    exact ⟨⟨by rw [hd]; omega, by intro _; rw [hwo1]; rfl⟩, by rw [hd]; omega⟩
                  · exfalso; apply hcond
                    rw [hs, h2]; simp [hn]
              · intro d hd
                simp only [Option.some.injEq] at hd
                subst hd
                split
                · simp; omega
                · rename_i hcond
                  rcases hcase with ⟨hs, hd⟩ | ⟨iv, hiv, hd, hs⟩ | ⟨hn, hs, hd⟩
                  · rw [hd]; omega
                  · have := hc.2 iv hiv; rw [hd]; omega
                  · exfalso; apply hcond
                    rw [hs, h2]; simp [hn]
      · have h2' : (b.state == S_SENDING_IN_CTS) = false := by simpa using h2
        simp only [h2', Bool.false_eq_true, if_false]
        by_cases h3 : b.state = S_SENDING_BM
        · have h3' : (b.state == S_SENDING_BM) = true := by simpa using h3
          simp only [h3', if_true]
          have := hc.1
          split
          · refine ⟨by first | rfl | trivial, ?_, ?_⟩
            · intro b' hb'; cases hb'
              refine ⟨⟨by simp; omega, ?_⟩, by simp; omega⟩
              intro h; simp only at h; rw [h3] at h; simp at h
            · intro d hd; cases hd; omega
          · simp
        · have h3c : ¬ b.state = Const.S21.SENDING_BM := h3
          simp [h3c]

theorem tickRcvOne_spec (now : Nat) (r : Rcv) (hr : RcvOk r) :
    (∀ r', (tickRcvOne now r).1 = some r' → r' = r ∧ now < r.deadline) ∧
    (∀ d, (tickRcvOne now r).2.2 = some d → now < d) := by
  have e1 : (r.deadline != 0) = true := by simpa [RcvOk] using hr
  unfold tickRcvOne
  simp only [e1, if_true]
  by_cases hfut : r.deadline > now
  · rw [if_pos hfut]
    exact ⟨by intro r' h; cases h; exact ⟨rfl, hfut⟩, by intro d h; cases h; exact hfut⟩
  · simp [hfut]

end J1939.Dll21

namespace J1939.Dll21
open J1939 J1939.Gen

theorem mem_keys_of_get? {α} (d : PyDict α) (k : Nat) (v : α) (h : d.get? k = some v) : k ∈ d.keys := by
  simp only [PyDict.get?, Option.map_eq_some_iff] at h
  obtain ⟨p, hp, _⟩ := h
  have hm := List.mem_of_find?_eq_some hp
  have hk : p.1 = k := by simpa using List.find?_some hp
  exact List.mem_map.mpr ⟨p, hm, hk⟩

/-- the receive loop: never raises on keys that are present, keeps the tables well-formed, leaves only records
    that are due in the future (among the visited ones), and asks for a wake-up in the future -/
theorem tickRcv_inv (now : Nat) (ks : List Nat) (s : St) (nw : Nat) (o : List Out)
    (hks : ks.Nodup) (hpres : ∀ k ∈ ks, (s.rcv.get? k).isSome = true) (hwf : WF s) (hnw : now < nw)
    (hdone : ∀ k v, s.rcv.get? k = some v → k ∉ ks → now < v.deadline) :
    (tickRcv now ks s nw o).2.2.2 = none ∧ WF (tickRcv now ks s nw o).1 ∧ now < (tickRcv now ks s nw o).2.1 ∧
    (∀ k v, (tickRcv now ks s nw o).1.rcv.get? k = some v → now < v.deadline) ∧
    (tickRcv now ks s nw o).1.snd = s.snd := by
  induction ks generalizing s nw o with
  | nil => exact ⟨rfl, hwf, hnw, fun k v h => hdone k v h (by simp), rfl⟩
  | cons k ks ih =>
    obtain ⟨hkn, hks'⟩ := List.nodup_cons.mp hks
    unfold tickRcv
    have hk := hpres k (List.mem_cons_self ..)
    cases hg : s.rcv.get? k with
    | none => rw [hg] at hk; cases hk
    | some buf =>
      simp only
      obtain ⟨h1, h2⟩ := tickRcvOne_spec now buf (hwf.2.2.1 k buf hg)
      cases hr : (tickRcvOne now buf).1 with
      | some r' =>
        obtain ⟨rfl, hfut⟩ := h1 r' hr
        simp only
        apply ih s _ _ hks' (fun k' hk' => hpres k' (List.mem_cons_of_mem _ hk')) hwf
        · cases hd : (tickRcvOne now r').2.2 with
          | none => exact hnw
          | some d => have := h2 d hd; simp only; split <;> omega
        · intro k' v hv hnot
          by_cases hkk : k' = k
          · subst hkk; rw [hg] at hv; cases hv; exact hfut
          · exact hdone k' v hv (by simp [hkk, hnot])
      | none =>
        simp only
        have hwf' : WF { s with rcv := s.rcv.erase k } :=
          ⟨PyDict.keys_erase_nodup _ _ hwf.1, hwf.2.1, PyDict.all_erase _ _ _ hwf.2.2.1, hwf.2.2.2⟩
        have := ih { s with rcv := s.rcv.erase k }
          (match (tickRcvOne now buf).2.2 with | some d => if nw > d then d else nw | none => nw) (o ++ (tickRcvOne now buf).2.1) hks'
          (by intro k' hk'
              have hne : k' ≠ k := by intro h; subst h; exact hkn hk'
              simp only; rw [PyDict.get?_erase_ne _ _ _ hne]; exact hpres k' (List.mem_cons_of_mem _ hk'))
          hwf'
          (by cases hd : (tickRcvOne now buf).2.2 with
              | none => exact hnw
              | some d => have := h2 d hd; simp only; split <;> omega)
          (by intro k' v hv hnot
              by_cases hkk : k' = k
              · subst hkk; simp only at hv; rw [PyDict.get?_erase_self] at hv; cases hv
              · simp only at hv; rw [PyDict.get?_erase_ne _ _ _ hkk] at hv
                exact hdone k' v hv (by simp [hkk, hnot]))
        exact this

theorem tickSnd_inv (cfg : Cfg) (now : Nat) (hnow : 0 < now) (hc : CfgPos cfg) (ks : List Nat) (s : St) (nw : Nat) (o : List Out)
    (hks : ks.Nodup) (hpres : ∀ k ∈ ks, (s.snd.get? k).isSome = true) (hwf : WF s) (hnw : now < nw)
    (hdone : ∀ k v, s.snd.get? k = some v → k ∉ ks → now < v.deadline) :
    (tickSnd cfg now ks s nw o).2.2.2 = none ∧ WF (tickSnd cfg now ks s nw o).1 ∧ now < (tickSnd cfg now ks s nw o).2.1 ∧
    (∀ k v, (tickSnd cfg now ks s nw o).1.snd.get? k = some v → now < v.deadline) ∧
    (tickSnd cfg now ks s nw o).1.rcv = s.rcv := by
  induction ks generalizing s nw o with
  | nil => exact ⟨rfl, hwf, hnw, fun k v h => hdone k v h (by simp), rfl⟩
  | cons k ks ih =>
    obtain ⟨hkn, hks'⟩ := List.nodup_cons.mp hks
    unfold tickSnd
    have hk := hpres k (List.mem_cons_self ..)
    cases hg : s.snd.get? k with
    | none => rw [hg] at hk; cases hk
    | some buf =>
      simp only
      obtain ⟨h0, h1, h2⟩ := tickSndOne_spec cfg now buf hnow hc (hwf.2.2.2 k buf hg)
      rw [h0]
      simp only
      have hnw' : now < (match (tickSndOne cfg now buf).2.2.2 with | some d => if nw > d then d else nw | none => nw) := by
        cases hd : (tickSndOne cfg now buf).2.2.2 with
        | none => exact hnw
        | some d => have := h2 d hd; simp only; split <;> omega
      cases hr : (tickSndOne cfg now buf).1 with
      | some b' =>
        obtain ⟨hok, hfut⟩ := h1 b' hr
        simp only
        have hwf' : WF { s with snd := s.snd.set k b' } :=
          ⟨hwf.1, PyDict.keys_set_nodup _ _ _ hwf.2.1, hwf.2.2.1, PyDict.all_set _ _ _ _ hwf.2.2.2 hok⟩
        have := ih { s with snd := s.snd.set k b' } _ (o ++ (tickSndOne cfg now buf).2.1) hks'
          (by intro k' hk'
              have hne : k' ≠ k := by intro h; subst h; exact hkn hk'
              simp only; rw [PyDict.get?_set_ne _ _ _ _ hne]; exact hpres k' (List.mem_cons_of_mem _ hk'))
          hwf' hnw'
          (by intro k' v hv hnot
              by_cases hkk : k' = k
              · subst hkk; simp only at hv; rw [PyDict.get?_set_self] at hv; cases hv; exact hfut
              · simp only at hv; rw [PyDict.get?_set_ne _ _ _ _ hkk] at hv
                exact hdone k' v hv (by simp [hkk, hnot]))
        exact this
      | none =>
        simp only
        have hwf' : WF { s with snd := s.snd.erase k } :=
          ⟨hwf.1, PyDict.keys_erase_nodup _ _ hwf.2.1, hwf.2.2.1, PyDict.all_erase _ _ _ hwf.2.2.2⟩
        have := ih { s with snd := s.snd.erase k } _ (o ++ (tickSndOne cfg now buf).2.1) hks'
          (by intro k' hk'
              have hne : k' ≠ k := by intro h; subst h; exact hkn hk'
              simp only; rw [PyDict.get?_erase_ne _ _ _ hne]; exact hpres k' (List.mem_cons_of_mem _ hk'))
          hwf' hnw'
          (by intro k' v hv hnot
              by_cases hkk : k' = k
              · subst hkk; simp only at hv; rw [PyDict.get?_erase_self] at hv; cases hv
              · simp only at hv; rw [PyDict.get?_erase_ne _ _ _ hkk] at hv
                exact hdone k' v hv (by simp [hkk, hnot]))
        exact this

end J1939.Dll21
