/-
  A whole J1939-22 (FD.TP) reception: the segments of a message fed to the responder, then the end-of-message status.
  The frames are characterised by what the receive path extracts from them (session, segment number, payload), so the
  statements hold for the frames of ANY conforming originator; `Props/C02.lean` shows that the frames this stack
  builds are of that kind.
-/
import J1939.Model.Dll22
import J1939.Lemmas.PyDict
namespace J1939.Dll22
open J1939 J1939.Gen

/-- the deliveries to the application contained in an output list -/
def deliveries (o : List Out) : List (Nat × Nat × Nat × Nat × List Nat) :=
  o.filterMap (fun x => match x with | .notify p g sa d data => some (p, g, sa, d, data) | _ => none)

theorem deliveries_append (a b : List Out) : deliveries (a ++ b) = deliveries a ++ deliveries b := by
  simp [deliveries, List.filterMap_append]

/-- one in-order FD.TP.DT segment at the responder: the payload bytes are appended (cut to the announced size once it
    is reached), the expected segment number advances, nothing is delivered yet, nothing raises -/
theorem dt22_step (s : St) (now : Nat) (mid : MessageId) (dest : Nat) (f : List Nat) (r : Rcv) (session seg : Nat)
    (hlen : 4 < f.length) (hs : Tp22.dt_session f = session) (hg : Tp22.dt_segment f = seg) (hseg : seg ≠ 0)
    (hr : s.rcv.get? (Tp22.buffer_hash session mid.source_address dest) = some r) (hnext : r.nextPacket = seg)
    (hmr : dest ≠ Const.Addr.GLOBAL → (∃ b, r.ctsBorder = some b) ∧ ∃ m, r.maxRec = some m) :
    deliveries (processDt s now mid dest f).outs = [] ∧ (processDt s now mid dest f).err = none ∧
    (processDt s now mid dest f).st.snd = s.snd ∧
    ∃ r', (processDt s now mid dest f).st.rcv.get? (Tp22.buffer_hash session mid.source_address dest) = some r' ∧
      r'.data = (if (r.data ++ f.drop 4).length ≥ r.messageSize then (r.data ++ f.drop 4).take r.messageSize else r.data ++ f.drop 4) ∧
      r'.nextPacket = seg + 1 ∧ r'.messageSize = r.messageSize ∧ r'.numSegments = r.numSegments ∧ r'.pgn = r.pgn ∧
      (dest ≠ Const.Addr.GLOBAL → (∃ b, r'.ctsBorder = some b) ∧ ∃ m, r'.maxRec = some m) := by
  have hl : ¬ f.length ≤ 4 := by omega
  have hseg' : (seg == 0) = false := by simpa using hseg
  have hnx : (r.nextPacket != seg) = false := by simp [hnext]
  unfold processDt
  simp only [hl, if_false, hs, hg, hseg', Bool.false_eq_true, hr, hnx]
  by_cases hfull : (r.data ++ f.drop 4).length ≥ r.messageSize
  · simp only [hfull, if_true]
    by_cases hd : dest = Const.Addr.GLOBAL
    · have : (dest != Const.Addr.GLOBAL) = false := by simp [hd]
      simp only [this, Bool.false_eq_true, if_false]
      simp [deliveries, PyDict.get?_set_self, hd]
    · have : (dest != Const.Addr.GLOBAL) = true := by simpa using hd
      simp only [this, if_true]
      have := hmr hd
      simp [deliveries, PyDict.get?_set_self, hd, this]
  · simp only [hfull, if_false]
    by_cases hd : dest = Const.Addr.GLOBAL
    · have : (dest != Const.Addr.GLOBAL) = false := by simp [hd]
      simp only [this, Bool.false_eq_true, if_false]
      simp [deliveries, PyDict.get?_set_self, hd]
    · have hdt : (dest != Const.Addr.GLOBAL) = true := by simpa using hd
      obtain ⟨⟨b, hb⟩, ⟨m, hm⟩⟩ := hmr hd
      simp only [hdt, if_true, hb, hm]
      by_cases hbd : seg ≥ b
      · simp only [hbd, if_true]
        simp [deliveries, PyDict.get?_set_self, hd, hm]
      · simp only [hbd, if_false]
        simp [deliveries, PyDict.get?_set_self, hd, hm, hb]

/-- feed the FD.TP.DT frames of one session one after the other, each at its own time -/
def feedDt (s : St) (mid : MessageId) (dest : Nat) : List (Nat × List Nat) → St × List Out
  | [] => (s, [])
  | (now, f) :: fs =>
    let r := processDt s now mid dest f
    let q := feedDt r.st mid dest fs
    (q.1, r.outs ++ q.2)

/-- what the receive path must be able to extract from the frame of segment `k` (0-based) of `data`: the session
    number, the 1-based segment number, and as payload the k-th 60-byte chunk — followed, on the LAST segment only, by
    whatever the originator pads the frame with -/
structure SegFrame (data : List Nat) (session k : Nat) (f : List Nat) : Prop where
  len : 4 < f.length
  sess : Tp22.dt_session f = session
  seg : Tp22.dt_segment f = k + 1
  pay : ∃ pad, f.drop 4 = (data.drop (60 * k)).take 60 ++ pad ∧ (data.length ≤ 60 * (k + 1) ∨ pad = [])

theorem num_segments_spec (size : Nat) : 60 * Tp22.num_segments size ≥ size ∧ (0 < size → 60 * (Tp22.num_segments size - 1) < size) := by
  unfold Tp22.num_segments Py.b2n
  by_cases h : size % 60 = 0
  · have : (size % 60 != 0) = false := by simp [h]
    simp only [this, Bool.false_eq_true, if_false]; omega
  · have : (size % 60 != 0) = true := by simpa using h
    simp only [this, if_true]; omega

theorem take_add_chunk (data : List Nat) (j : Nat) : data.take (60 * j) ++ (data.drop (60 * j)).take 60 = data.take (60 * (j + 1)) := by
  have : 60 * (j + 1) = 60 * j + 60 := by omega
  rw [this, List.take_add]

/-- RESPONDER TRACE (FD.TP): a receive record that holds the first `j` segments of `data`, fed the remaining segment
    frames in order (at arbitrary times), ends up holding exactly `data` — the last segment's padding is cut off — with
    nothing delivered yet and nothing raised -/
theorem feed22_accumulates (data : List Nat) (hpos : 0 < data.length) (mid : MessageId) (dest session : Nat)
    (m j : Nat) (hj : j + m = Tp22.num_segments data.length) (hm : 0 < m)
    (frames : List (Nat × List Nat)) (hfl : frames.length = m)
    (hframes : ∀ i (h : i < frames.length), SegFrame data session (j + i) (frames[i]).2)
    (s : St) (r : Rcv) (hr : s.rcv.get? (Tp22.buffer_hash session mid.source_address dest) = some r)
    (hsize : r.messageSize = data.length) (hnext : r.nextPacket = j + 1) (hdata : r.data = data.take (60 * j))
    (hmr : dest ≠ Const.Addr.GLOBAL → (∃ b, r.ctsBorder = some b) ∧ ∃ m, r.maxRec = some m) :
    deliveries (feedDt s mid dest frames).2 = [] ∧ (feedDt s mid dest frames).1.snd = s.snd ∧
    ∃ r', (feedDt s mid dest frames).1.rcv.get? (Tp22.buffer_hash session mid.source_address dest) = some r' ∧
      r'.data = data ∧ r'.messageSize = data.length ∧ r'.numSegments = r.numSegments ∧ r'.pgn = r.pgn := by
  induction m generalizing j frames s r with
  | zero => omega
  | succ m ih =>
    obtain ⟨⟨t, f⟩, rest, rfl⟩ : ∃ x xs, frames = x :: xs := by
      cases frames with
      | nil => simp at hfl
      | cons x xs => exact ⟨x, xs, rfl⟩
    simp only [List.length_cons, Nat.add_right_cancel_iff] at hfl
    have hf0 := hframes 0 (by simp)
    simp only [List.getElem_cons_zero, Nat.add_zero] at hf0
    obtain ⟨pad, hpay, hpad⟩ := hf0.pay
    obtain ⟨d1, d2, d3, r', hr', hd', hn', hs', hns', hp', hmr'⟩ :=
      dt22_step s t mid dest f r session (j + 1) hf0.len hf0.sess hf0.seg (by omega) hr hnext hmr
    obtain ⟨hcover, hshort⟩ := num_segments_spec data.length
    simp only [feedDt]
    by_cases hlast : m = 0
    · -- the last segment: everything is there, the padding is cut off
      subst hlast
      have hrest : rest = [] := List.eq_nil_of_length_eq_zero hfl
      subst hrest
      simp only [feedDt, List.append_nil]
      refine ⟨d1, d3, r', hr', ?_, by rw [hs', hsize], hns', hp'⟩
      have hn : j + 1 = Tp22.num_segments data.length := by omega
      have hall : data.length ≤ 60 * (j + 1) := by rw [hn]; exact hcover
      have hchunk : (data.drop (60 * j)).take 60 = data.drop (60 * j) := List.take_of_length_le (by simp; omega)
      have hcat : r.data ++ f.drop 4 = data ++ pad := by
        rw [hdata, hpay, hchunk, ← List.append_assoc, List.take_append_drop]
      rw [hd', hcat, hsize]
      have : (data ++ pad).length ≥ data.length := by simp
      simp only [this, if_true]
      simp
    · -- an inner segment: a full chunk, no padding, the message is not complete
      have hnotlast : 60 * (j + 1) < data.length := by
        have := hshort hpos
        have : j + 1 ≤ Tp22.num_segments data.length - 1 := by omega
        have : 60 * (j + 1) ≤ 60 * (Tp22.num_segments data.length - 1) := Nat.mul_le_mul_left 60 this
        omega
      have hpad0 : pad = [] := by
        rcases hpad with h | h
        · omega
        · exact h
      have hcat : r.data ++ f.drop 4 = data.take (60 * (j + 1)) := by
        rw [hdata, hpay, hpad0, List.append_nil, take_add_chunk]
      have hlen : (data.take (60 * (j + 1))).length = 60 * (j + 1) := by simp; omega
      have hnf : ¬ (r.data ++ f.drop 4).length ≥ r.messageSize := by rw [hcat, hlen, hsize]; omega
      have hd'' : r'.data = data.take (60 * (j + 1)) := by rw [hd']; simp only [hnf, if_false]; exact hcat
      obtain ⟨i1, i2, r'', hr'', h1, h2, h3, h4⟩ := ih (j + 1) (by omega) (by omega) rest hfl
        (by intro i hi
            have := hframes (i + 1) (by simp; omega)
            simp only [List.getElem_cons_succ] at this
            have e : j + (i + 1) = j + 1 + i := by omega
            rw [e] at this; exact this)
        (processDt s t mid dest f).st r' hr' (by rw [hs', hsize]) hn' hd'' hmr'
      refine ⟨?_, ?_, r'', hr'', h1, h2, by rw [h3, hns'], by rw [h4, hp']⟩
      · rw [deliveries_append, d1, i1]; rfl
      · rw [i2, d3]

/-- END OF MESSAGE: when the end-of-message status for the announced size and segment count arrives and the record
    holds exactly that many bytes, the message is handed up ONCE with the announced PGN and exactly those bytes, the
    record is removed, and (connection mode) the acknowledgement is sent -/
theorem eom22_delivers (cfg : Cfg) (s : St) (now : Nat) (mid : MessageId) (dest : Nat) (f : List Nat) (r : Rcv) (session : Nat)
    (hlen : 12 ≤ f.length) (hc : Tp22.cm_control f = Const.CM22.EOM_STATUS) (hs : Tp22.cm_session f = session)
    (hsz : Tp22.cm_size f = r.messageSize) (hn : Tp22.cm_segment f = r.numSegments)
    (hr : s.rcv.get? (Tp22.buffer_hash session mid.source_address dest) = some r) (hd : r.data.length = r.messageSize)
    (hsrc : mid.source_address ≠ Const.Addr.GLOBAL) :
    deliveries (processCm cfg s now mid dest f).outs = [(mid.priority, r.pgn, mid.source_address, dest, r.data)] ∧
    (processCm cfg s now mid dest f).err = none ∧
    (processCm cfg s now mid dest f).st.rcv.get? (Tp22.buffer_hash session mid.source_address dest) = none ∧
    (processCm cfg s now mid dest f).st.snd = s.snd := by
  have hl : ¬ f.length < 12 := by omega
  have c1 : (Const.CM22.EOM_STATUS == Const.CM22.RTS) = false := by decide
  have c2 : (Const.CM22.EOM_STATUS == Const.CM22.CTS) = false := by decide
  have hsrc' : (mid.source_address == Const.Addr.GLOBAL) = false := by simpa using hsrc
  unfold processCm
  simp only [hl, if_false, hsrc', hc, c1, c2, Bool.false_eq_true, hs, hr, hsz, hn, hd, beq_self_eq_true, Bool.and_self, if_true]
  refine ⟨?_, trivial, PyDict.get?_erase_self _ _, trivial⟩
  split <;> simp [deliveries]

end J1939.Dll22
