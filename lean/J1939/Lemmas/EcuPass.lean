/-
  Invariants of one pass of the background loop over the timer list.  Property statements: Props/C12.lean.
-/
import J1939.Lemmas.Ecu
namespace J1939.Ecu

/-- every `add` a scripted callback performs has a positive period -/
def CbsPos (c : Core) : Prop := ∀ b ∈ c.cbs, ∀ d cb ck, TOp.add d cb ck ∈ b.ops → 0 < d

/-- ghost relation of a timer to its registration: positive period, deadline on the grid born + k·delta, k ≥ 1 -/
def Timer.OnGrid (t : Timer) : Prop := 0 < t.delta ∧ ∃ k, 1 ≤ k ∧ t.deadline = t.born + k * t.delta

/-- identities are unique and below the allocation counter -/
def Core.UidOk (c : Core) : Prop := (c.timers.map (·.uid)).Nodup ∧ ∀ t ∈ c.timers, t.uid < c.nextUid

theorem cbOf_mem_or_default (c : Core) (k : Nat) : c.cbOf k ∈ c.cbs ∨ c.cbOf k = {} := by
  unfold Core.cbOf
  by_cases h : k < c.cbs.length
  · left; simp [List.getD, h]
  · right; simp [List.getD, List.getElem?_eq_none (Nat.le_of_not_lt h)]

/-! ### arithmetic of the catch-up -/

theorem catchUp_spec (dl delta now : Nat) (hd : 0 < delta) (hdue : dl ≤ now) :
    now < catchUp dl delta now ∧ catchUp dl delta now ≤ now + delta ∧
    ∃ k, 1 ≤ k ∧ catchUp dl delta now = dl + k * delta := by
  unfold catchUp
  rw [if_pos hdue, if_neg (by omega)]
  have h1 := Nat.div_add_mod (now - dl) delta
  have h2 := Nat.mod_lt (now - dl) hd
  have h3 : ((now - dl) / delta + 1) * delta = delta * ((now - dl) / delta) + delta := by
    rw [Nat.add_mul, Nat.mul_comm, Nat.one_mul]
  refine ⟨?_, ?_, ⟨(now - dl) / delta + 1, Nat.le_add_left _ _, rfl⟩⟩
  · rw [h3]; generalize delta * ((now - dl) / delta) = m at *; generalize (now - dl) % delta = r at *; omega
  · rw [h3]; generalize delta * ((now - dl) / delta) = m at *; generalize (now - dl) % delta = r at *; omega

/-! ### the effect of a callback's operations -/

theorem applyOp_wake_le (s : Core × Nat) (op : TOp) : s.1.wake ≤ (Core.applyOp s op).1.wake := by
  cases op <;> simp [Core.applyOp, Core.addTimer, Core.removeTimer, Core.subscribe, Core.unsubscribe]

theorem applyOps_wake_le (c : Core) (clk : Nat) (ops : List TOp) : c.wake ≤ (c.applyOps clk ops).1.wake := by
  unfold Core.applyOps
  suffices ∀ s : Core × Nat, s.1.wake ≤ (ops.foldl Core.applyOp s).1.wake from this (c, clk)
  induction ops with
  | nil => intro s; exact Nat.le_refl _
  | cons op ops ih => intro s; exact Nat.le_trans (applyOp_wake_le s op) (ih _)

/-- if no wake token was produced the timer list is untouched -/
theorem applyOps_timers_of_wake (c : Core) (clk : Nat) (ops : List TOp)
    (h : (c.applyOps clk ops).1.wake = c.wake) : (c.applyOps clk ops).1.timers = c.timers := by
  unfold Core.applyOps at *
  suffices ∀ s : Core × Nat, (ops.foldl Core.applyOp s).1.wake = s.1.wake → (ops.foldl Core.applyOp s).1.timers = s.1.timers
    from this (c, clk) h
  clear h
  induction ops with
  | nil => intro s _; rfl
  | cons op ops ih =>
    intro s hs
    simp only [List.foldl_cons] at *
    have h1 := applyOp_wake_le s op
    have h2 : (Core.applyOp s op).1.wake ≤ (ops.foldl Core.applyOp (Core.applyOp s op)).1.wake := by
      have := applyOps_wake_le (Core.applyOp s op).1 (Core.applyOp s op).2 ops
      simpa [Core.applyOps] using this
    have h3 : (Core.applyOp s op).1.wake = s.1.wake := by omega
    have h4 := ih (Core.applyOp s op) (by omega)
    rw [h4]
    cases op <;> simp_all [Core.applyOp, Core.addTimer, Core.removeTimer, Core.subscribe, Core.unsubscribe]

theorem applyOps_cbs (c : Core) (clk : Nat) (ops : List TOp) : (c.applyOps clk ops).1.cbs = c.cbs := by
  unfold Core.applyOps
  suffices ∀ s : Core × Nat, (ops.foldl Core.applyOp s).1.cbs = s.1.cbs from this (c, clk)
  induction ops with
  | nil => intro s; rfl
  | cons op ops ih =>
    intro s; simp only [List.foldl_cons]; rw [ih]
    cases op <;> simp [Core.applyOp, Core.addTimer, Core.removeTimer, Core.subscribe, Core.unsubscribe]

theorem applyOps_clk_le (c : Core) (clk : Nat) (ops : List TOp) : clk ≤ (c.applyOps clk ops).2 := by
  unfold Core.applyOps
  suffices ∀ s : Core × Nat, s.2 ≤ (ops.foldl Core.applyOp s).2 from this (c, clk)
  induction ops with
  | nil => intro s; exact Nat.le_refl _
  | cons op ops ih =>
    intro s; simp only [List.foldl_cons]
    refine Nat.le_trans ?_ (ih _)
    cases op <;> simp [Core.applyOp]

/-- a property of timers that every freshly added timer has and that is stable is preserved by callbacks -/
theorem applyOps_forall (P : Timer → Prop) (c : Core) (clk : Nat) (ops : List TOp)
    (hadd : ∀ d cb ck, TOp.add d cb ck ∈ ops → ∀ clk' uid, clk ≤ clk' →
        P { uid := uid, delta := d, cb := cb, deadline := clk' + d, cookie := ck, born := clk' })
    (h : ∀ t ∈ c.timers, P t) : ∀ t ∈ (c.applyOps clk ops).1.timers, P t := by
  unfold Core.applyOps
  suffices ∀ s : Core × Nat, clk ≤ s.2 → (∀ t ∈ s.1.timers, P t) → ∀ t ∈ (ops.foldl Core.applyOp s).1.timers, P t
    from this (c, clk) (Nat.le_refl _) h
  induction ops with
  | nil => intro s _ hs; exact hs
  | cons op ops ih =>
    intro s hclk hs
    simp only [List.foldl_cons]
    apply ih (fun d cb ck hm => hadd d cb ck (List.mem_cons_of_mem _ hm))
    · refine Nat.le_trans hclk ?_
      cases op <;> simp [Core.applyOp]
    · cases op with
      | add d cb ck =>
        intro t ht
        simp only [Core.applyOp, Core.addTimer, List.mem_append, List.mem_singleton] at ht
        rcases ht with ht | ht
        · exact hs t ht
        · rw [ht]; exact hadd d cb ck (List.mem_cons_self ..) s.2 _ hclk
      | remove cb =>
        intro t ht
        simp only [Core.applyOp] at ht
        rw [removeTimer_timers] at ht
        exact hs t (List.mem_filter.mp ht).1
      | sub cb a => exact hs
      | unsub cb => exact hs
      | busy dt => exact hs

theorem applyOps_uidOk (c : Core) (clk : Nat) (ops : List TOp) (h : c.UidOk) :
    (c.applyOps clk ops).1.UidOk ∧ c.nextUid ≤ (c.applyOps clk ops).1.nextUid := by
  unfold Core.applyOps
  suffices ∀ s : Core × Nat, s.1.UidOk → (ops.foldl Core.applyOp s).1.UidOk ∧ s.1.nextUid ≤ (ops.foldl Core.applyOp s).1.nextUid
    from this (c, clk) h
  induction ops with
  | nil => intro s hs; exact ⟨hs, Nat.le_refl _⟩
  | cons op ops ih =>
    intro s hs
    simp only [List.foldl_cons]
    have step : (Core.applyOp s op).1.UidOk ∧ s.1.nextUid ≤ (Core.applyOp s op).1.nextUid := by
      obtain ⟨hnd, hlt⟩ := hs
      cases op with
      | add d cb ck =>
        simp only [Core.applyOp, Core.addTimer, Core.UidOk, List.map_append, List.map_cons, List.map_nil]
        refine ⟨⟨?_, ?_⟩, by omega⟩
        · rw [List.nodup_append]
          refine ⟨hnd, by simp, ?_⟩
          intro a ha b hb
          simp only [List.mem_singleton] at hb
          obtain ⟨t, ht, rfl⟩ := List.mem_map.mp ha
          have := hlt t ht
          omega
        · intro t ht
          simp only [List.mem_append, List.mem_singleton] at ht
          rcases ht with ht | ht
          · have := hlt t ht; omega
          · rw [ht]; simp
      | remove cb =>
        simp only [Core.applyOp, Core.UidOk]
        rw [removeTimer_timers]
        refine ⟨⟨?_, ?_⟩, by simp [Core.removeTimer]⟩
        · exact List.Nodup.sublist (List.Sublist.map _ List.filter_sublist) hnd
        · intro t ht; simpa [Core.removeTimer] using hlt t (List.mem_filter.mp ht).1
      | sub cb a => exact ⟨⟨hnd, hlt⟩, Nat.le_refl _⟩
      | unsub cb => exact ⟨⟨hnd, hlt⟩, Nat.le_refl _⟩
      | busy dt => exact ⟨⟨hnd, hlt⟩, Nat.le_refl _⟩
    have := ih _ step.1
    exact ⟨this.1, Nat.le_trans step.2 this.2⟩

end J1939.Ecu

namespace J1939.Ecu

theorem catchUp_onGrid (t : Timer) (now : Nat) (h : t.OnGrid) :
    ({ t with deadline := catchUp t.deadline t.delta now } : Timer).OnGrid := by
  obtain ⟨hd, k, hk, he⟩ := h
  refine ⟨hd, ?_⟩
  by_cases hdue : t.deadline ≤ now
  · obtain ⟨_, _, k', hk', he'⟩ := catchUp_spec t.deadline t.delta now hd hdue
    refine ⟨k + k', by omega, ?_⟩
    show catchUp t.deadline t.delta now = t.born + (k + k') * t.delta
    rw [he', he, Nat.add_mul]; omega
  · refine ⟨k, hk, ?_⟩
    show catchUp t.deadline t.delta now = t.born + k * t.delta
    unfold catchUp; rw [if_neg hdue]; exact he

theorem nodup_map_inj {α β} (f : α → β) (l : List α) (h : (l.map f).Nodup) :
    ∀ x ∈ l, ∀ y ∈ l, f x = f y → x = y := by
  induction l with
  | nil => intro x hx; cases hx
  | cons a l ih =>
    simp only [List.map_cons, List.nodup_cons] at h
    obtain ⟨hna, hnd⟩ := h
    intro x hx y hy he
    rcases List.mem_cons.mp hx with rfl | hx' <;> rcases List.mem_cons.mp hy with rfl | hy'
    · rfl
    · exact absurd (he ▸ List.mem_map_of_mem hy') hna
    · exact absurd (he ▸ List.mem_map_of_mem hx') hna
    · exact ih hnd x hx' y hy' he

theorem uid_unique (c : Core) (h : c.UidOk) (t t' : Timer) (ht : t ∈ c.timers) (ht' : t' ∈ c.timers)
    (he : t.uid = t'.uid) : t = t' :=
  nodup_map_inj (·.uid) c.timers h.1 t ht t' ht' he

theorem find_uid_spec (l : List Timer) (u : Nat) :
    (l.find? (·.uid == u) = none → ∀ t ∈ l, t.uid ≠ u) ∧
    (∀ ev, l.find? (·.uid == u) = some ev → ev ∈ l ∧ ev.uid = u) := by
  constructor
  · intro h t ht
    have := List.find?_eq_none.mp h t ht
    simpa using this
  · intro ev h
    exact ⟨List.mem_of_find?_eq_some h, by simpa using List.find?_some h⟩

/-- the invariant carried through the timer loop of one pass -/
structure LoopInv (now : Nat) (snap : List Nat) (c : Core) (nw : Nat) (obs : List Obs) : Prop where
  uid   : c.UidOk
  grid  : ∀ t ∈ c.timers, t.OnGrid
  cbs   : CbsPos c
  due   : ∀ ev, Obs.call ev ∈ obs → ev.born + ev.delta ≤ now ∧ ev.deadline ≤ now
  cover : c.wake = 0 → ∀ t ∈ c.timers, t.uid ∈ snap ∨ (nw ≤ t.deadline ∧ now < t.deadline)

theorem cbOf_ops_pos (c : Core) (h : CbsPos c) (k : Nat) :
    ∀ d cb ck, TOp.add d cb ck ∈ (c.cbOf k).ops → 0 < d := by
  rcases cbOf_mem_or_default c k with hm | hd
  · exact h _ hm
  · rw [hd]; intro d cb ck hmem; cases hmem

theorem applyOps_grid (c : Core) (clk : Nat) (k : Nat) (hc : CbsPos c) (h : ∀ t ∈ c.timers, t.OnGrid) :
    ∀ t ∈ (c.applyOps clk (c.cbOf k).ops).1.timers, t.OnGrid := by
  apply applyOps_forall Timer.OnGrid c clk _ _ h
  intro d cb ck hm clk' uid _
  exact ⟨cbOf_ops_pos c hc k d cb ck hm, 1, Nat.le_refl _, by simp⟩

theorem timerLoop_inv (now : Nat) (snap : List Nat) (c : Core) (clk nw : Nat) (obs : List Obs)
    (h : LoopInv now snap c nw obs) :
    LoopInv now [] (timerLoop now snap c clk nw obs).1 (timerLoop now snap c clk nw obs).2.2.1
      (timerLoop now snap c clk nw obs).2.2.2 := by
  induction snap generalizing c clk nw obs with
  | nil => exact h
  | cons u snap ih =>
    unfold timerLoop
    obtain ⟨hnone, hsome⟩ := find_uid_spec c.timers u
    split
    · rename_i hf
      apply ih
      refine { h with cover := ?_ }
      intro hw t ht
      rcases h.cover hw t ht with hm | hacc
      · rcases List.mem_cons.mp hm with he | hm'
        · exact absurd he (hnone hf t ht)
        · exact Or.inl hm'
      · exact Or.inr hacc
    · rename_i ev hf
      obtain ⟨hev, hevu⟩ := hsome ev hf
      have hgrid := h.grid ev hev
      split
      · -- not yet due
        rename_i hnd
        apply ih
        refine { h with cover := ?_ }
        intro hw t ht
        rcases h.cover hw t ht with hm | hacc
        · rcases List.mem_cons.mp hm with he | hm'
          · have : t = ev := uid_unique c h.uid t ev ht hev (by rw [he, hevu])
            subst this
            exact Or.inr ⟨Nat.min_le_right _ _, hnd⟩
          · exact Or.inl hm'
        · exact Or.inr ⟨Nat.le_trans (Nat.min_le_left _ _) hacc.1, hacc.2⟩
      · -- due: the callback runs
        rename_i hdue
        have hdue' : ev.deadline ≤ now := Nat.le_of_not_gt hdue
        have hcall : ev.born + ev.delta ≤ now ∧ ev.deadline ≤ now := by
          obtain ⟨hd, k, hk, he⟩ := hgrid
          refine ⟨?_, hdue'⟩
          have : ev.delta ≤ k * ev.delta := Nat.le_mul_of_pos_left _ hk
          omega
        have huid1 := (applyOps_uidOk c clk (c.cbOf ev.cb).ops h.uid).1
        have hgrid1 := applyOps_grid c clk ev.cb h.cbs h.grid
        have hcbs1 : CbsPos (c.applyOps clk (c.cbOf ev.cb).ops).1 := by
          unfold CbsPos; rw [applyOps_cbs]; exact h.cbs
        have hwake := applyOps_wake_le c clk (c.cbOf ev.cb).ops
        have hdue1 : ∀ e, Obs.call e ∈ obs ++ [Obs.call ev] → e.born + e.delta ≤ now ∧ e.deadline ≤ now := by
          intro e he
          rcases List.mem_append.mp he with he | he
          · exact h.due e he
          · simp only [List.mem_singleton, Obs.call.injEq] at he; rw [he]; exact hcall
        split
        · -- returns True: deadline advanced in place
          apply ih
          refine ⟨?_, ?_, hcbs1, hdue1, ?_⟩
          · refine ⟨?_, ?_⟩
            · have : ((c.applyOps clk (c.cbOf ev.cb).ops).1.timers.map (fun t =>
                  if t.uid == u then { t with deadline := catchUp t.deadline t.delta now } else t)).map (·.uid)
                  = (c.applyOps clk (c.cbOf ev.cb).ops).1.timers.map (·.uid) := by
                rw [List.map_map]; apply List.map_congr_left; intro t _; simp only [Function.comp]; split <;> rfl
              simp only; rw [this]; exact huid1.1
            · intro t ht
              obtain ⟨t0, ht0, rfl⟩ := List.mem_map.mp ht
              have := huid1.2 t0 ht0
              split <;> simpa using this
          · intro t ht
            obtain ⟨t0, ht0, rfl⟩ := List.mem_map.mp ht
            split
            · exact catchUp_onGrid t0 now (hgrid1 t0 ht0)
            · exact hgrid1 t0 ht0
          · intro hw t ht
            have hw1 : (c.applyOps clk (c.cbOf ev.cb).ops).1.wake = 0 := hw
            have hw0 : c.wake = 0 := by omega
            have htim := applyOps_timers_of_wake c clk (c.cbOf ev.cb).ops (by omega)
            obtain ⟨t0, ht0, rfl⟩ := List.mem_map.mp ht
            rw [htim] at ht0
            obtain ⟨hgt, hle, _⟩ := catchUp_spec ev.deadline ev.delta now hgrid.1 hdue'
            by_cases hu : t0.uid = u
            · have : t0 = ev := uid_unique c h.uid t0 ev ht0 hev (by rw [hu, hevu])
              subst this
              simp only [hu, beq_self_eq_true, if_true]
              exact Or.inr ⟨Nat.min_le_right _ _, hgt⟩
            · have hne : (t0.uid == u) = false := by simpa using hu
              simp only [hne]
              rcases h.cover hw0 t0 ht0 with hm | hacc
              · rcases List.mem_cons.mp hm with he | hm'
                · exact absurd he hu
                · exact Or.inl hm'
              · exact Or.inr ⟨Nat.le_trans (Nat.min_le_left _ _) hacc.1, hacc.2⟩
        · -- returns something else: the event is removed
          apply ih
          refine ⟨?_, ?_, hcbs1, hdue1, ?_⟩
          · refine ⟨?_, ?_⟩
            · exact List.Nodup.sublist (List.Sublist.map _ List.filter_sublist) huid1.1
            · intro t ht; exact huid1.2 t (List.mem_filter.mp ht).1
          · intro t ht; exact hgrid1 t (List.mem_filter.mp ht).1
          · intro hw t ht
            have hw1 : (c.applyOps clk (c.cbOf ev.cb).ops).1.wake = 0 := hw
            have hw0 : c.wake = 0 := by omega
            have htim := applyOps_timers_of_wake c clk (c.cbOf ev.cb).ops (by omega)
            obtain ⟨ht0, hne⟩ := List.mem_filter.mp ht
            rw [htim] at ht0
            have hu : t.uid ≠ u := by simpa using hne
            rcases h.cover hw0 t ht0 with hm | hacc
            · rcases List.mem_cons.mp hm with he | hm'
              · exact absurd he hu
              · exact Or.inl hm'
            · exact Or.inr hacc

end J1939.Ecu

namespace J1939.Ecu

/-- a property of timers that callbacks cannot break is an invariant of the loop, and every call satisfies it -/
theorem timerLoop_forall (P : Timer → Prop) (now : Nat)
    (hstable : ∀ t d, P t → P { t with deadline := d })
    (snap : List Nat) (c : Core) (clk nw : Nat) (obs : List Obs)
    (hadd : ∀ b ∈ c.cbs, ∀ d cb ck, TOp.add d cb ck ∈ b.ops → ∀ clk' uid,
        P { uid := uid, delta := d, cb := cb, deadline := clk' + d, cookie := ck, born := clk' })
    (h : ∀ t ∈ c.timers, P t) (hobs : ∀ ev, Obs.call ev ∈ obs → P ev) :
    (∀ t ∈ (timerLoop now snap c clk nw obs).1.timers, P t) ∧
    (∀ ev, Obs.call ev ∈ (timerLoop now snap c clk nw obs).2.2.2 → P ev) := by
  induction snap generalizing c clk nw obs with
  | nil => exact ⟨h, hobs⟩
  | cons u snap ih =>
    unfold timerLoop
    split
    · exact ih c clk nw obs hadd h hobs
    · rename_i ev hf
      have hev : ev ∈ c.timers := List.mem_of_find?_eq_some hf
      split
      · exact ih c clk _ obs hadd h hobs
      · have h1 : ∀ t ∈ (c.applyOps clk (c.cbOf ev.cb).ops).1.timers, P t := by
          apply applyOps_forall P c clk _ _ h
          intro d cb ck hm clk' uid _
          rcases cbOf_mem_or_default c ev.cb with hmem | hdef
          · exact hadd _ hmem d cb ck hm clk' uid
          · rw [hdef] at hm; cases hm
        have hobs1 : ∀ e, Obs.call e ∈ obs ++ [Obs.call ev] → P e := by
          intro e he
          rcases List.mem_append.mp he with he | he
          · exact hobs e he
          · simp only [List.mem_singleton, Obs.call.injEq] at he; rw [he]; exact h ev hev
        split
        · apply ih
          · simp only [applyOps_cbs]; exact hadd
          · intro t ht
            obtain ⟨t0, ht0, rfl⟩ := List.mem_map.mp ht
            split
            · exact hstable t0 _ (h1 t0 ht0)
            · exact h1 t0 ht0
          · exact hobs1
        · apply ih
          · simp only [applyOps_cbs]; exact hadd
          · intro t ht; exact h1 t (List.mem_filter.mp ht).1
          · exact hobs1

/-- callbacks that never call remove_timer keep every registered timer in the list -/
theorem applyOps_mem_of_noRemove (c : Core) (clk : Nat) (ops : List TOp) (hno : ∀ cb, TOp.remove cb ∉ ops)
    (t : Timer) (ht : t ∈ c.timers) : t ∈ (c.applyOps clk ops).1.timers := by
  unfold Core.applyOps
  suffices ∀ s : Core × Nat, t ∈ s.1.timers → t ∈ (ops.foldl Core.applyOp s).1.timers from this (c, clk) ht
  induction ops with
  | nil => intro s hs; exact hs
  | cons op ops ih =>
    intro s hs
    simp only [List.foldl_cons]
    apply ih (fun cb hm => hno cb (List.mem_cons_of_mem _ hm))
    cases op with
    | add d cb ck => simp only [Core.applyOp, Core.addTimer, List.mem_append]; exact Or.inl hs
    | remove cb => exact absurd (List.mem_cons_self ..) (hno cb)
    | sub cb a => exact hs
    | unsub cb => exact hs
    | busy dt => exact hs

def NoRemoveOps (c : Core) : Prop := ∀ b ∈ c.cbs, ∀ cb, TOp.remove cb ∉ b.ops

/-- no suppression: every timer that is in the list and due is called in this pass (callbacks without remove_timer) -/
theorem timerLoop_calls_due (now : Nat) (t : Timer) (hdue : t.deadline ≤ now)
    (snap : List Nat) (c : Core) (clk nw : Nat) (obs : List Obs)
    (hsnap : snap.Nodup) (huid : c.UidOk) (hno : NoRemoveOps c)
    (h : Obs.call t ∈ obs ∨ (t.uid ∈ snap ∧ t ∈ c.timers)) :
    Obs.call t ∈ (timerLoop now snap c clk nw obs).2.2.2 := by
  induction snap generalizing c clk nw obs with
  | nil =>
    rcases h with h | ⟨hm, _⟩
    · exact h
    · cases hm
  | cons u snap ih =>
    obtain ⟨hu_notin, hsnap'⟩ := List.nodup_cons.mp hsnap
    obtain ⟨hnone, hsome⟩ := find_uid_spec c.timers u
    unfold timerLoop
    split
    · rename_i hf
      apply ih c clk nw obs hsnap' huid hno
      rcases h with h | ⟨hm, ht⟩
      · exact Or.inl h
      · rcases List.mem_cons.mp hm with he | hm'
        · exact absurd he (hnone hf t ht)
        · exact Or.inr ⟨hm', ht⟩
    · rename_i ev hf
      obtain ⟨hev, hevu⟩ := hsome ev hf
      split
      · rename_i hnd
        apply ih c clk _ obs hsnap' huid hno
        rcases h with h | ⟨hm, ht⟩
        · exact Or.inl h
        · rcases List.mem_cons.mp hm with he | hm'
          · have : t = ev := uid_unique c huid t ev ht hev (by rw [he, hevu])
            subst this; omega
          · exact Or.inr ⟨hm', ht⟩
      · have hnoev : ∀ cb, TOp.remove cb ∉ (c.cbOf ev.cb).ops := by
          rcases cbOf_mem_or_default c ev.cb with hmem | hdef
          · exact hno _ hmem
          · rw [hdef]; intro cb hm; cases hm
        have huid1 := (applyOps_uidOk c clk (c.cbOf ev.cb).ops huid).1
        have hno1 : NoRemoveOps (c.applyOps clk (c.cbOf ev.cb).ops).1 := by
          unfold NoRemoveOps; rw [applyOps_cbs]; exact hno
        have key : Obs.call t ∈ obs ++ [Obs.call ev] ∨
            (t.uid ∈ snap ∧ t.uid ≠ u ∧ t ∈ (c.applyOps clk (c.cbOf ev.cb).ops).1.timers) := by
          rcases h with h | ⟨hm, ht⟩
          · exact Or.inl (List.mem_append_left _ h)
          · rcases List.mem_cons.mp hm with he | hm'
            · have : t = ev := uid_unique c huid t ev ht hev (by rw [he, hevu])
              subst this; exact Or.inl (by simp)
            · refine Or.inr ⟨hm', ?_, applyOps_mem_of_noRemove c clk _ hnoev t ht⟩
              intro he; rw [he] at hm'; exact hu_notin hm'
        split
        · apply ih
          · exact hsnap'
          · refine ⟨?_, ?_⟩
            · have : ((c.applyOps clk (c.cbOf ev.cb).ops).1.timers.map (fun t =>
                  if t.uid == u then { t with deadline := catchUp t.deadline t.delta now } else t)).map (·.uid)
                  = (c.applyOps clk (c.cbOf ev.cb).ops).1.timers.map (·.uid) := by
                rw [List.map_map]; apply List.map_congr_left; intro t _; simp only [Function.comp]; split <;> rfl
              simp only; rw [this]; exact huid1.1
            · intro t' ht'
              obtain ⟨t0, ht0, rfl⟩ := List.mem_map.mp ht'
              have := huid1.2 t0 ht0
              split <;> simpa using this
          · exact hno1
          · rcases key with k | ⟨k1, k2, k3⟩
            · exact Or.inl k
            · refine Or.inr ⟨k1, List.mem_map.mpr ⟨t, k3, ?_⟩⟩
              have : (t.uid == u) = false := by simpa using k2
              simp [this]
        · apply ih
          · exact hsnap'
          · exact ⟨List.Nodup.sublist (List.Sublist.map _ List.filter_sublist) huid1.1,
              fun t' ht' => huid1.2 t' (List.mem_filter.mp ht').1⟩
          · exact hno1
          · rcases key with k | ⟨k1, k2, k3⟩
            · exact Or.inl k
            · exact Or.inr ⟨k1, List.mem_filter.mpr ⟨k3, by simpa using k2⟩⟩

end J1939.Ecu

namespace J1939.Ecu

/-- the wake-up time only decreases through the loop -/
theorem timerLoop_nw_le (now : Nat) (snap : List Nat) (c : Core) (clk nw : Nat) (obs : List Obs) :
    (timerLoop now snap c clk nw obs).2.2.1 ≤ nw := by
  induction snap generalizing c clk nw obs with
  | nil => exact Nat.le_refl _
  | cons u snap ih =>
    unfold timerLoop
    split
    · exact ih ..
    · split
      · exact Nat.le_trans (ih ..) (Nat.min_le_left _ _)
      · split
        · exact Nat.le_trans (ih ..) (Nat.min_le_left _ _)
        · exact ih ..

/-- an identity that is below the allocation counter and absent stays absent through a callback's operations -/
theorem applyOps_absent (c : Core) (clk : Nat) (ops : List TOp) (u : Nat)
    (h : u < c.nextUid ∧ ∀ t ∈ c.timers, t.uid ≠ u) :
    u < (c.applyOps clk ops).1.nextUid ∧ ∀ t ∈ (c.applyOps clk ops).1.timers, t.uid ≠ u := by
  unfold Core.applyOps
  suffices ∀ s : Core × Nat, (u < s.1.nextUid ∧ ∀ t ∈ s.1.timers, t.uid ≠ u) →
      u < (ops.foldl Core.applyOp s).1.nextUid ∧ ∀ t ∈ (ops.foldl Core.applyOp s).1.timers, t.uid ≠ u from this (c, clk) h
  induction ops with
  | nil => intro s hs; exact hs
  | cons op ops ih =>
    intro s hs
    simp only [List.foldl_cons]
    apply ih
    obtain ⟨hlt, hab⟩ := hs
    cases op with
    | add d cb ck =>
      simp only [Core.applyOp, Core.addTimer]
      refine ⟨by omega, ?_⟩
      intro t ht
      simp only [List.mem_append, List.mem_singleton] at ht
      rcases ht with ht | ht
      · exact hab t ht
      · rw [ht]; simp only; omega
    | remove cb =>
      simp only [Core.applyOp]
      refine ⟨by simpa [Core.removeTimer] using hlt, ?_⟩
      intro t ht; rw [removeTimer_timers] at ht; exact hab t (List.mem_filter.mp ht).1
    | sub cb a => exact ⟨hlt, hab⟩
    | unsub cb => exact ⟨hlt, hab⟩
    | busy dt => exact ⟨hlt, hab⟩

/-! equations of the loop, one per branch -/
def fireTrue (c : Core) (clk : Nat) (ev : Timer) (u now : Nat) : Core :=
  { (c.applyOps clk (c.cbOf ev.cb).ops).1 with timers := (c.applyOps clk (c.cbOf ev.cb).ops).1.timers.map (fun t =>
      if t.uid == u then { t with deadline := catchUp t.deadline t.delta now } else t) }

def fireFalse (c : Core) (clk : Nat) (ev : Timer) (u : Nat) : Core :=
  { (c.applyOps clk (c.cbOf ev.cb).ops).1 with timers := (c.applyOps clk (c.cbOf ev.cb).ops).1.timers.filter (fun t => t.uid != u) }

theorem timerLoop_none (now u : Nat) (snap : List Nat) (c : Core) (clk nw : Nat) (obs : List Obs)
    (hf : c.timers.find? (·.uid == u) = none) :
    timerLoop now (u :: snap) c clk nw obs = timerLoop now snap c clk nw obs := by
  rw [timerLoop]; simp only [hf]

theorem timerLoop_notdue (now u : Nat) (snap : List Nat) (c : Core) (clk nw : Nat) (obs : List Obs) (ev : Timer)
    (hf : c.timers.find? (·.uid == u) = some ev) (h : ev.deadline > now) :
    timerLoop now (u :: snap) c clk nw obs = timerLoop now snap c clk (min nw ev.deadline) obs := by
  rw [timerLoop]; simp only [hf, if_pos h]

theorem timerLoop_true (now u : Nat) (snap : List Nat) (c : Core) (clk nw : Nat) (obs : List Obs) (ev : Timer)
    (hf : c.timers.find? (·.uid == u) = some ev) (h : ¬ ev.deadline > now) (hr : (c.cbOf ev.cb).ret = true) :
    timerLoop now (u :: snap) c clk nw obs =
      timerLoop now snap (fireTrue c clk ev u now) (c.applyOps clk (c.cbOf ev.cb).ops).2
        (min nw (catchUp ev.deadline ev.delta now)) (obs ++ [Obs.call ev]) := by
  rw [timerLoop]; simp only [hf, if_neg h, hr, if_true, fireTrue]

theorem timerLoop_false (now u : Nat) (snap : List Nat) (c : Core) (clk nw : Nat) (obs : List Obs) (ev : Timer)
    (hf : c.timers.find? (·.uid == u) = some ev) (h : ¬ ev.deadline > now) (hr : (c.cbOf ev.cb).ret = false) :
    timerLoop now (u :: snap) c clk nw obs =
      timerLoop now snap (fireFalse c clk ev u) (c.applyOps clk (c.cbOf ev.cb).ops).2 nw (obs ++ [Obs.call ev]) := by
  rw [timerLoop]; simp only [hf, if_neg h, hr, fireFalse]; rfl

theorem fireTrue_uidOk (c : Core) (clk : Nat) (ev : Timer) (u now : Nat) (h : c.UidOk) : (fireTrue c clk ev u now).UidOk := by
  have huid1 := (applyOps_uidOk c clk (c.cbOf ev.cb).ops h).1
  refine ⟨?_, ?_⟩
  · have : ((c.applyOps clk (c.cbOf ev.cb).ops).1.timers.map (fun t =>
        if t.uid == u then { t with deadline := catchUp t.deadline t.delta now } else t)).map (·.uid)
        = (c.applyOps clk (c.cbOf ev.cb).ops).1.timers.map (·.uid) := by
      rw [List.map_map]; apply List.map_congr_left; intro t _; simp only [Function.comp]; split <;> rfl
    simp only [fireTrue]; rw [this]; exact huid1.1
  · intro t' ht'
    obtain ⟨t0, ht0, rfl⟩ := List.mem_map.mp ht'
    have := huid1.2 t0 ht0
    split <;> simpa [fireTrue] using this

theorem fireFalse_uidOk (c : Core) (clk : Nat) (ev : Timer) (u : Nat) (h : c.UidOk) : (fireFalse c clk ev u).UidOk := by
  have huid1 := (applyOps_uidOk c clk (c.cbOf ev.cb).ops h).1
  exact ⟨List.Nodup.sublist (List.Sublist.map _ List.filter_sublist) huid1.1,
    fun t' ht' => huid1.2 t' (List.mem_filter.mp ht').1⟩

/-- the event of a callback that returned non-True is not in the list after the loop -/
theorem timerLoop_oneshot (now : Nat) (cbs : List UserCb) (snap : List Nat) (c : Core) (clk nw : Nat) (obs : List Obs)
    (hcbs : c.cbs = cbs) (huid : c.UidOk)
    (hobs : ∀ e, Obs.call e ∈ obs → (cbs.getD e.cb {}).ret = false → e.uid < c.nextUid ∧ ∀ t ∈ c.timers, t.uid ≠ e.uid)
    (ev : Timer) (hcall : Obs.call ev ∈ (timerLoop now snap c clk nw obs).2.2.2) (hret : (cbs.getD ev.cb {}).ret = false) :
    ∀ t ∈ (timerLoop now snap c clk nw obs).1.timers, t.uid ≠ ev.uid := by
  induction snap generalizing c clk nw obs with
  | nil => exact (hobs ev hcall hret).2
  | cons u snap ih =>
    obtain ⟨_, hsome⟩ := find_uid_spec c.timers u
    cases hf : c.timers.find? (·.uid == u) with
    | none =>
      rw [timerLoop_none now u snap c clk nw obs hf] at hcall ⊢
      exact ih c clk nw obs hcbs huid hobs hcall
    | some e =>
      obtain ⟨hev, hevu⟩ := hsome e hf
      by_cases hnd : e.deadline > now
      · rw [timerLoop_notdue now u snap c clk nw obs e hf hnd] at hcall ⊢
        exact ih c clk _ obs hcbs huid hobs hcall
      · have huid1 := applyOps_uidOk c clk (c.cbOf e.cb).ops huid
        have hold : ∀ x, Obs.call x ∈ obs → (cbs.getD x.cb {}).ret = false →
            x.uid < (c.applyOps clk (c.cbOf e.cb).ops).1.nextUid ∧
            ∀ t ∈ (c.applyOps clk (c.cbOf e.cb).ops).1.timers, t.uid ≠ x.uid := by
          intro x hx hr
          exact applyOps_absent c clk _ x.uid (hobs x hx hr)
        cases hr : (c.cbOf e.cb).ret with
        | true =>
          rw [timerLoop_true now u snap c clk nw obs e hf hnd hr] at hcall ⊢
          apply ih _ _ _ _ _ (fireTrue_uidOk c clk e u now huid) _ hcall
          · simp only [fireTrue, applyOps_cbs]; exact hcbs
          · intro x hx hrx
            rcases List.mem_append.mp hx with hx | hx
            · obtain ⟨h1, h2⟩ := hold x hx hrx
              refine ⟨h1, ?_⟩
              intro t' ht'
              obtain ⟨t0, ht0, rfl⟩ := List.mem_map.mp ht'
              have := h2 t0 ht0
              split <;> simpa using this
            · simp only [List.mem_singleton, Obs.call.injEq] at hx
              subst hx
              unfold Core.cbOf at hr; rw [hcbs] at hr; rw [hr] at hrx; cases hrx
        | false =>
          rw [timerLoop_false now u snap c clk nw obs e hf hnd hr] at hcall ⊢
          apply ih _ _ _ _ _ (fireFalse_uidOk c clk e u huid) _ hcall
          · simp only [fireFalse, applyOps_cbs]; exact hcbs
          · intro x hx hrx
            rcases List.mem_append.mp hx with hx | hx
            · obtain ⟨h1, h2⟩ := hold x hx hrx
              exact ⟨h1, fun t' ht' => h2 t' (List.mem_filter.mp ht').1⟩
            · simp only [List.mem_singleton, Obs.call.injEq] at hx
              subst hx
              refine ⟨Nat.lt_of_lt_of_le (huid.2 x hev) huid1.2, ?_⟩
              intro t' ht'
              have := (List.mem_filter.mp ht').2
              rw [hevu]; simpa using this

end J1939.Ecu

namespace J1939.Ecu

/-! projections of a pass onto the loop result -/
theorem pass_timers (c : Core) (now clk w : Nat) :
    (c.pass now clk w).1.timers = (timerLoop now (c.timers.map (·.uid)) c clk w []).1.timers := by
  unfold Core.pass; simp only; split <;> (try split) <;> rfl

theorem pass_nextUid (c : Core) (now clk w : Nat) :
    (c.pass now clk w).1.nextUid = (timerLoop now (c.timers.map (·.uid)) c clk w []).1.nextUid := by
  unfold Core.pass; simp only; split <;> (try split) <;> rfl

theorem pass_cbs (c : Core) (now clk w : Nat) :
    (c.pass now clk w).1.cbs = (timerLoop now (c.timers.map (·.uid)) c clk w []).1.cbs := by
  unfold Core.pass; simp only; split <;> (try split) <;> rfl

theorem pass_clk (c : Core) (now clk w : Nat) :
    (c.pass now clk w).2.1 = (timerLoop now (c.timers.map (·.uid)) c clk w []).2.1 := by
  unfold Core.pass; simp only; split <;> (try split) <;> rfl

theorem pass_obs (c : Core) (now clk w : Nat) :
    (c.pass now clk w).2.2.2 = (timerLoop now (c.timers.map (·.uid)) c clk w []).2.2.2 := by
  unfold Core.pass; simp only; split <;> (try split) <;> rfl

/-- the sleep decision in terms of the loop result -/
theorem pass_sleep (c : Core) (now clk w d : Nat) (h : (c.pass now clk w).2.2.1 = Sleep.sleep d) :
    let r := timerLoop now (c.timers.map (·.uid)) c clk w []
    r.2.2.1 > r.2.1 ∧ r.1.wake = 0 ∧ d = r.2.2.1 - r.2.1 := by
  unfold Core.pass at h; simp only at h ⊢
  split at h
  · rename_i hgt
    split at h
    · cases h
    · rename_i hw
      simp only [Sleep.sleep.injEq] at h
      exact ⟨hgt, by omega, h.symm⟩
  · cases h

end J1939.Ecu
