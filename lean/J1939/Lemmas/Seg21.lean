/-
  Segmentation and reassembly of J1939-21 transport messages (7 data bytes per TP.DT).
-/
import J1939.Model.Dll21
import J1939.Model.Ref
import J1939.Lemmas.Codec
namespace J1939.Dll21
open J1939 J1939.Gen

/-- the 7 payload bytes of packet `k` (0-based): the data bytes, 0xFF padding at the end of the message -/
def payload (data : List Nat) (k : Nat) : List Nat := Py.pad ((data.drop (k * 7)).take 7) 7 255

theorem payload_length (data : List Nat) (k : Nat) : (payload data k).length = 7 := by
  simp only [payload, Py.pad, List.length_append, List.length_replicate, List.length_take, List.length_drop]
  omega

theorem chunk_eq (data : List Nat) (k : Nat) : chunk data k = (k + 1) :: payload data k := by
  simp only [chunk, payload, Py.insert, List.take_zero, List.drop_zero, List.nil_append]
  congr 1
  by_cases h : (data.drop (k * 7)).length > 7
  · simp only [h, if_true]
    simp only [Py.pad, List.length_take, List.length_drop] at *
    have : 7 - min 7 (data.length - k * 7) = 0 := by omega
    simp [this]
  · simp only [h, if_false]
    have : (data.drop (k * 7)).take 7 = data.drop (k * 7) := List.take_of_length_le (by omega)
    rw [this]

theorem chunk_length (data : List Nat) (k : Nat) : (chunk data k).length = 8 := by
  rw [chunk_eq, List.length_cons, payload_length]

theorem chunk_drop_one (data : List Nat) (k : Nat) : (chunk data k).drop 1 = payload data k := by
  rw [chunk_eq]; rfl

theorem chunk_head (data : List Nat) (k : Nat) : Py.idx (chunk data k) 0 = k + 1 := by
  rw [chunk_eq]; rfl

/-- the chunk is the SAE TP.DT layout: 1-based sequence number, 7 data bytes, 0xFF padding -/
theorem chunk_ref (data : List Nat) (k : Nat) : chunk data k = Ref.tpDt (k + 1) ((data.drop (k * 7)).take 7) := by
  rw [chunk_eq]; simp [Ref.tpDt, payload, Py.pad]

theorem payload_succ (data : List Nat) (k : Nat) : payload data (k + 1) = payload (data.drop 7) k := by
  simp only [payload, List.drop_drop]
  have : 7 + k * 7 = (k + 1) * 7 := by omega
  rw [this]

/-- all payloads of packets `0 … n-1`, concatenated -/
def payloads (data : List Nat) (n : Nat) : List Nat := (List.range n).flatMap (payload data)

theorem payloads_succ (data : List Nat) (n : Nat) : payloads data (n + 1) = payload data 0 ++ payloads (data.drop 7) n := by
  simp only [payloads, List.range_succ_eq_map, List.flatMap_cons, List.flatMap_map]
  congr 1
  have : (fun x => payload data (x + 1)) = payload (List.drop 7 data) := by
    funext k; exact payload_succ data k
  first | rw [this] | (simp only [Function.comp_def]; rw [this]) | skip

theorem payloads_length (data : List Nat) (n : Nat) : (payloads data n).length = 7 * n := by
  induction n generalizing data with
  | zero => rfl
  | succ n ih => rw [payloads_succ, List.length_append, payload_length, ih]; omega

/-- REASSEMBLY: the first `len` bytes of the concatenated payloads are the message, whenever the packets cover it -/
theorem payloads_take (data : List Nat) (n : Nat) (h : data.length ≤ 7 * n) : (payloads data n).take data.length = data := by
  induction n generalizing data with
  | zero =>
    have : data = [] := List.eq_nil_of_length_eq_zero (by omega)
    subst this; rfl
  | succ n ih =>
    rw [payloads_succ]
    by_cases hs : data.length ≤ 7
    · have h0 : payload data 0 = data ++ List.replicate (7 - data.length) 255 := by
        simp only [payload, Nat.zero_mul, List.drop_zero, Py.pad]
        rw [List.take_of_length_le hs]
      rw [h0, List.append_assoc, List.take_append_of_le_length (Nat.le_refl _), List.take_length]
    · have h0 : payload data 0 = data.take 7 := by
        simp only [payload, Nat.zero_mul, List.drop_zero, Py.pad, List.length_take]
        have : 7 - min 7 data.length = 0 := by omega
        simp [this]
      rw [h0]
      have hl : (data.take 7).length = 7 := by simp; omega
      rw [List.take_append, hl]
      have h2 : data.length - 7 = (data.drop 7).length := by simp
      rw [h2, ih (data.drop 7) (by simp; omega)]
      have h3 : List.take data.length (List.take 7 data) = List.take 7 data := by
        rw [List.take_take]; congr 1; omega
      rw [h3, List.take_append_drop]

/-- the number of packets: ⌈len / 7⌉ — enough to cover the message, and one fewer is not -/
theorem num_packets_spec (len : Nat) : len ≤ 7 * Tp21.num_packets len ∧ (0 < len → 7 * (Tp21.num_packets len - 1) < len) := by
  unfold Tp21.num_packets
  split <;> rename_i h <;> simp at h <;> omega

/-- fewer than all packets never reach the announced size: the completion test cannot fire early -/
theorem partial_too_short (len k : Nat) (hlen : 0 < len) (hk : k < Tp21.num_packets len) : 7 * k < len := by
  have := (num_packets_spec len).2 hlen
  have : 7 * k ≤ 7 * (Tp21.num_packets len - 1) := by
    apply Nat.mul_le_mul_left; omega
  omega

/-- a message fits the protocol (≤ 255 packets) iff it has at most 1785 bytes -/
theorem num_packets_le_255 (len : Nat) : Tp21.num_packets len ≤ 255 ↔ len ≤ 1785 := by
  unfold Tp21.num_packets
  split <;> rename_i h <;> simp at h <;> omega

/-- identifier of a PDU1 frame built through `ParameterGroupNumber(0, pf, da)` and `MessageId(priority, pgn, sa)` -/
theorem pdu1_id (prio pf da sa : Nat) :
    MessageId.can_id (MessageId.ofFields prio (PGN.value (PGN.ofFields 0 pf da)) sa)
      = (prio % 8) * 67108864 + ((pf % 256) * 256 + da % 256) * 256 + sa % 256 := by
  rw [Lemmas.can_id_arith _ (Lemmas.ofFields_wf _ _ _), Lemmas.pgn_value_arith _ (Lemmas.pgn_ofFields_wf _ _ _),
    Lemmas.ofFields_eq, Lemmas.pgn_ofFields_eq]
  simp only
  omega

end J1939.Dll21
