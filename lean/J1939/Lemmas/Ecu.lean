/-
  Helper lemmas about the ECU core model (timer list, subscriber list).  Property statements: Props/C12.lean.
-/
import J1939.Model.Ecu
namespace J1939.Ecu

/-! ### `for x in list(l): if sel x: l.remove(x)` removes every selected element -/

/-- removing an element that fails `q` does not change `filter q` -/
theorem filter_removeFirst {α} (p q : α → Bool) (l : List α) (h : ∀ x, p x = true → q x = false) :
    (removeFirst p l).filter q = l.filter q := by
  induction l with
  | nil => rfl
  | cons x xs ih =>
    simp only [removeFirst]
    split
    · rename_i hp; simp [h x hp]
    · simp [List.filter_cons, ih]

theorem countP_removeFirst_same {α} (p r : α → Bool) (l : List α)
    (hpr : ∀ x, p x = true → r x = true) (hex : ∃ x ∈ l, p x = true) :
    (removeFirst p l).countP r + 1 = l.countP r := by
  induction l with
  | nil => obtain ⟨x, hx, _⟩ := hex; cases hx
  | cons x xs ih =>
    simp only [removeFirst]
    split
    · rename_i hp; simp [hpr x hp]
    · rename_i hp
      have : ∃ y ∈ xs, p y = true := by
        obtain ⟨y, hy, hpy⟩ := hex
        cases hy with
        | head => exact absurd hpy hp
        | tail _ h => exact ⟨y, h, hpy⟩
      have := ih this
      simp only [List.countP_cons]; omega

theorem countP_removeFirst_other {α} (p r : α → Bool) (l : List α) (h : ∀ x, p x = true → r x = false) :
    (removeFirst p l).countP r = l.countP r := by
  induction l with
  | nil => rfl
  | cons x xs ih =>
    simp only [removeFirst]
    split
    · rename_i hp; simp [h x hp]
    · simp [List.countP_cons, ih]

/-- the generic loop: iterate a snapshot, remove (by key equality) from the live list what is selected -/
def remLoop {α κ} [BEq κ] (sel : α → Bool) (key : α → κ) : List α → List α → List α
  | [], l => l
  | x :: snap, l =>
    if sel x then remLoop sel key snap (removeFirst (fun y => key x == key y) l)
    else remLoop sel key snap l

theorem remLoop_spec {α κ} [BEq κ] [LawfulBEq κ] (sel : α → Bool) (key : α → κ)
    (hsel : ∀ x y, key x = key y → sel x = sel y) (snap l : List α)
    (hcount : ∀ x, sel x = true → snap.countP (fun t => key t == key x) = l.countP (fun t => key t == key x)) :
    remLoop sel key snap l = l.filter (fun t => !sel t) := by
  induction snap generalizing l with
  | nil =>
    simp only [remLoop]
    symm; rw [List.filter_eq_self]
    intro t ht
    cases hs : sel t with
    | false => rfl
    | true =>
      have := hcount t hs
      simp only [List.countP_nil] at this
      have hpos : 0 < l.countP (fun x => key x == key t) := List.countP_pos_iff.mpr ⟨t, ht, by simp⟩
      omega
  | cons ev snap ih =>
    simp only [remLoop]
    split
    · rename_i hev
      have hex : ∃ x ∈ l, (key ev == key x) = true := by
        have := hcount ev hev
        have hpos : 0 < l.countP (fun x => key x == key ev) := by
          rw [← this]; simp
        obtain ⟨x, hx, hxc⟩ := List.countP_pos_iff.mp hpos
        exact ⟨x, hx, by simpa using (Eq.symm (by simpa using hxc))⟩
      rw [ih]
      · apply filter_removeFirst
        intro x hx
        have hk : key ev = key x := by simpa using hx
        simp [← hsel ev x hk, hev]
      · intro x hx
        by_cases hk' : key ev = key x
        · have h1 := hcount x hx
          have h2 := countP_removeFirst_same (fun y => key ev == key y) (fun t => key t == key x) l
            (by intro y hy; have : key ev = key y := by simpa using hy
                simp [← this, hk']) hex
          simp only [List.countP_cons, hk', beq_self_eq_true, if_true] at h1
          omega
        · have h1 := hcount x hx
          have h2 := countP_removeFirst_other (fun y => key ev == key y) (fun t => key t == key x) l
            (by intro y hy; have : key ev = key y := by simpa using hy
                simp [← this, hk'])
          have : (key ev == key x) = false := by simpa using hk'
          simp only [List.countP_cons, this] at h1
          simp at h1
          omega
    · rename_i hev
      apply ih
      intro x hx
      have h1 := hcount x hx
      have : (key ev == key x) = false := by
        have : key ev ≠ key x := by
          intro h; have := hsel ev x h; rw [hx] at this; exact hev this
        simpa using this
      simp only [List.countP_cons, this] at h1
      simpa using h1

/-- the four dict entries `list.remove` compares -/
def Timer.content (t : Timer) : Nat × Nat × Nat × Nat := (t.delta, t.cb, t.deadline, t.cookie)

theorem sameContent_eq (a b : Timer) : Timer.sameContent a b = (a.content == b.content) := by
  simp only [Timer.sameContent, Timer.content]
  rw [Bool.eq_iff_iff]
  simp [Prod.ext_iff, and_assoc]

theorem removeTimerLoop_eq (cb : Nat) (snap l : List Timer) :
    removeTimerLoop cb snap l = remLoop (fun t => t.cb == cb) Timer.content snap l := by
  induction snap generalizing l with
  | nil => rfl
  | cons ev snap ih =>
    simp only [removeTimerLoop, remLoop]
    have : Timer.sameContent ev = (fun y => ev.content == y.content) := funext (sameContent_eq ev)
    rw [this]
    split <;> exact ih _

theorem removeTimer_timers (c : Core) (cb : Nat) :
    (c.removeTimer cb).timers = c.timers.filter (fun t => t.cb != cb) := by
  simp only [Core.removeTimer, removeTimerLoop_eq]
  rw [remLoop_spec (sel := fun t : Timer => t.cb == cb) (key := Timer.content)]
  · congr 1
  · intro x y h
    have : x.cb = y.cb := congrArg (fun k => k.2.1) h
    simp [this]
  · intro _ _; rfl

theorem unsubLoop_eq (cb : Nat) (snap l : List Sub) :
    unsubLoop cb snap l = remLoop (fun d => d.cb == cb) id snap l := by
  induction snap generalizing l with
  | nil => rfl
  | cons d snap ih =>
    simp only [unsubLoop, remLoop]
    have : (fun x => x == d) = (fun y => id d == id y) := by
      funext y; simp only [id]; exact BEq.comm
    rw [this]
    split <;> exact ih _

theorem unsubscribe_subs (c : Core) (cb : Nat) :
    (c.unsubscribe cb).subs = c.subs.filter (fun d => d.cb != cb) := by
  simp only [Core.unsubscribe, unsubLoop_eq]
  rw [remLoop_spec (sel := fun d : Sub => d.cb == cb) (key := id)]
  · congr 1
  · intro x y h; simp only [id] at h; rw [h]
  · intro _ _; rfl

end J1939.Ecu
