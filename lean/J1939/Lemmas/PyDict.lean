/-
  Lemmas about the insertion-ordered dictionary model.
-/
import J1939.Model.Basic
namespace J1939.PyDict
variable {α : Type}

theorem contains_iff_get? (d : PyDict α) (k : Nat) : d.contains k = (d.get? k).isSome := by
  induction d with
  | nil => rfl
  | cons p d ih =>
    simp only [contains, get?, List.any_cons, List.find?_cons] at *
    cases h : p.1 == k <;> simp [h, ih]

theorem get?_erase_self (d : PyDict α) (k : Nat) : (d.erase k).get? k = none := by
  simp only [get?, erase, Option.map_eq_none_iff, List.find?_eq_none]
  intro x hx
  have := (List.mem_filter.mp hx).2
  simpa using this

theorem get?_erase_ne (d : PyDict α) (k k' : Nat) (h : k' ≠ k) : (d.erase k).get? k' = d.get? k' := by
  induction d with
  | nil => rfl
  | cons p d ih =>
    simp only [get?, erase, List.filter_cons] at *
    by_cases hp : p.1 = k
    · have : (p.1 != k) = false := by simp [hp]
      have h2 : (p.1 == k') = false := by simp [hp, Ne.symm h]
      simp only [this, List.find?_cons, h2]
      exact ih
    · have : (p.1 != k) = true := by simp [hp]
      simp only [this, if_true, List.find?_cons]
      cases hk : p.1 == k'
      · exact ih
      · rfl

theorem contains_erase_self (d : PyDict α) (k : Nat) : (d.erase k).contains k = false := by
  rw [contains_iff_get?, get?_erase_self]; rfl

theorem get?_set_self (d : PyDict α) (k : Nat) (v : α) : (d.set k v).get? k = some v := by
  induction d with
  | nil => simp [set, get?]
  | cons p d ih =>
    simp only [set]
    split
    · simp [get?]
    · rename_i hp
      simp only [get?, List.find?_cons, hp] at *
      exact ih

theorem get?_set_ne (d : PyDict α) (k k' : Nat) (v : α) (h : k' ≠ k) : (d.set k v).get? k' = d.get? k' := by
  induction d with
  | nil => simp [set, get?, Ne.symm h]
  | cons p d ih =>
    simp only [set]
    split
    · rename_i hp
      have hp' : p.1 = k := by simpa using hp
      have h2 : (p.1 == k') = false := by simp [hp', Ne.symm h]
      have h3 : (k == k') = false := by simp [Ne.symm h]
      simp [get?, List.find?_cons, h2, h3]
    · simp only [get?, List.find?_cons] at *
      cases hk : p.1 == k'
      · exact ih
      · rfl

theorem contains_set_self (d : PyDict α) (k : Nat) (v : α) : (d.set k v).contains k = true := by
  rw [contains_iff_get?, get?_set_self]; rfl

theorem contains_set_ne (d : PyDict α) (k k' : Nat) (v : α) (h : k' ≠ k) : (d.set k v).contains k' = d.contains k' := by
  rw [contains_iff_get?, contains_iff_get?, get?_set_ne d k k' v h]

theorem contains_erase_ne (d : PyDict α) (k k' : Nat) (h : k' ≠ k) : (d.erase k).contains k' = d.contains k' := by
  rw [contains_iff_get?, contains_iff_get?, get?_erase_ne d k k' h]

end J1939.PyDict
