/-
  Lemmas about the insertion-ordered dictionary model.
-/
import J1939.Model.Basic
namespace J1939.PyDict
variable {α : Type}

theorem contains_iff_get? (d : PyDict α) (k : Nat) : d.contains k = (d.get? k).isSome := by
  induction d with
  | nil => rfl
  | cons p d ih =>
    simp only [contains, get?, List.any_cons, List.find?_cons] at *
    cases h : p.1 == k <;> simp [h, ih]

theorem get?_erase_self (d : PyDict α) (k : Nat) : (d.erase k).get? k = none := by
  simp only [get?, erase, Option.map_eq_none_iff, List.find?_eq_none]
  intro x hx
  have := (List.mem_filter.mp hx).2
  simpa using this

theorem get?_erase_ne (d : PyDict α) (k k' : Nat) (h : k' ≠ k) : (d.erase k).get? k' = d.get? k' := by
  induction d with
  | nil => rfl
  | cons p d ih =>
    simp only [get?, erase, List.filter_cons] at *
    by_cases hp : p.1 = k
    · have : (p.1 != k) = false := by simp [hp]
      have h2 : (p.1 == k') = false := by simp [hp, Ne.symm h]
      simp only [this, List.find?_cons, h2]
      exact ih
    · have : (p.1 != k) = true := by simp [hp]
      simp only [this, if_true, List.find?_cons]
      cases hk : p.1 == k'
      · exact ih
      · rfl

theorem contains_erase_self (d : PyDict α) (k : Nat) : (d.erase k).contains k = false := by
  rw [contains_iff_get?, get?_erase_self]; rfl

theorem get?_set_self (d : PyDict α) (k : Nat) (v : α) : (d.set k v).get? k = some v := by
  induction d with
  | nil => simp [set, get?]
  | cons p d ih =>
    simp only [set]
    split
    · simp [get?]
    · rename_i hp
      simp only [get?, List.find?_cons, hp] at *
      exact ih

theorem get?_set_ne (d : PyDict α) (k k' : Nat) (v : α) (h : k' ≠ k) : (d.set k v).get? k' = d.get? k' := by
  induction d with
  | nil => simp [set, get?, Ne.symm h]
  | cons p d ih =>
    simp only [set]
    split
    · rename_i hp
      have hp' : p.1 = k := by simpa using hp
      have h2 : (p.1 == k') = false := by simp [hp', Ne.symm h]
      have h3 : (k == k') = false := by simp [Ne.symm h]
      simp [get?, List.find?_cons, h2, h3]
    · simp only [get?, List.find?_cons] at *
      cases hk : p.1 == k'
      · exact ih
      · rfl

theorem contains_set_self (d : PyDict α) (k : Nat) (v : α) : (d.set k v).contains k = true := by
  rw [contains_iff_get?, get?_set_self]; rfl

theorem contains_set_ne (d : PyDict α) (k k' : Nat) (v : α) (h : k' ≠ k) : (d.set k v).contains k' = d.contains k' := by
  rw [contains_iff_get?, contains_iff_get?, get?_set_ne d k k' v h]

theorem contains_erase_ne (d : PyDict α) (k k' : Nat) (h : k' ≠ k) : (d.erase k).contains k' = d.contains k' := by
  rw [contains_iff_get?, contains_iff_get?, get?_erase_ne d k k' h]

end J1939.PyDict

namespace J1939.PyDict
variable {α : Type}

theorem keys_set_nodup (d : PyDict α) (k : Nat) (v : α) (h : d.keys.Nodup) : (d.set k v).keys.Nodup := by
  induction d with
  | nil => simp [set, keys]
  | cons p d ih =>
    simp only [keys, List.map_cons, List.nodup_cons] at h
    simp only [set]
    split
    · rename_i hp
      have hp' : p.1 = k := by simpa using hp
      simp only [keys, List.map_cons, List.nodup_cons]
      exact ⟨hp' ▸ h.1, h.2⟩
    · rename_i hp
      have hp' : p.1 ≠ k := by simpa using hp
      simp only [keys, List.map_cons, List.nodup_cons]
      refine ⟨?_, ih h.2⟩
      intro hm
      -- keys of (set d k v) are the keys of d, plus k
      have : ∀ (d : PyDict α) x, x ∈ (set d k v).map (·.1) → x = k ∨ x ∈ d.map (·.1) := by
        intro d
        induction d with
        | nil => intro x hx; simp [set] at hx; exact Or.inl hx
        | cons q d ih2 =>
          intro x hx
          simp only [set] at hx
          split at hx
          · rename_i hq
            simp only [List.map_cons, List.mem_cons] at hx ⊢
            rcases hx with hx | hx
            · exact Or.inl hx
            · exact Or.inr (Or.inr hx)
          · simp only [List.map_cons, List.mem_cons] at hx ⊢
            rcases hx with hx | hx
            · exact Or.inr (Or.inl hx)
            · rcases ih2 x hx with h1 | h1
              · exact Or.inl h1
              · exact Or.inr (Or.inr h1)
      rcases this d p.1 hm with h1 | h1
      · exact hp' h1
      · exact h.1 h1

theorem keys_erase_nodup (d : PyDict α) (k : Nat) (h : d.keys.Nodup) : (d.erase k).keys.Nodup := by
  exact List.Nodup.sublist (List.Sublist.map _ List.filter_sublist) h

theorem get?_isSome_of_mem_keys (d : PyDict α) (k : Nat) (h : k ∈ d.keys) : (d.get? k).isSome := by
  rw [← contains_iff_get?]
  simp only [keys, List.mem_map] at h
  obtain ⟨p, hp, rfl⟩ := h
  simp only [contains, List.any_eq_true]
  exact ⟨p, hp, by simp⟩

/-- every value satisfies `P` -/
def All (P : α → Prop) (d : PyDict α) : Prop := ∀ k v, d.get? k = some v → P v

theorem all_set (P : α → Prop) (d : PyDict α) (k : Nat) (v : α) (h : All P d) (hv : P v) : All P (d.set k v) := by
  intro k' v' hg
  by_cases hk : k' = k
  · subst hk; rw [get?_set_self] at hg; cases hg; exact hv
  · rw [get?_set_ne d k k' v hk] at hg; exact h k' v' hg

theorem all_erase (P : α → Prop) (d : PyDict α) (k : Nat) (h : All P d) : All P (d.erase k) := by
  intro k' v' hg
  by_cases hk : k' = k
  · subst hk; rw [get?_erase_self] at hg; cases hg
  · rw [get?_erase_ne d k k' hk] at hg; exact h k' v' hg

theorem all_nil (P : α → Prop) : All P ([] : PyDict α) := by intro k v h; cases h

end J1939.PyDict
