/-
  J1939-21 connection mode (RTS/CTS) from end to end: originator passes, responder windows, the answers, rounds.
  Helper lemmas; the property statements are in Props/C01.lean.
-/
import J1939.Lemmas.Bam21
namespace J1939.Dll21
open J1939 J1939.Gen J1939.Lemmas

/-- the whole window in one pass (no minimum interval configured) -/
theorem sendWindow_all (cfg : Cfg) (now : Nat) (hiv : cfg.cmdtInterval = none) (fuel : Nat) (b : Snd) (o : List Out) (wn : Nat)
    (hw : b.waitOn = some (wn : Int)) (hle : b.next ≤ wn) (hwn : wn < b.numPackages) (hfuel : wn - b.next < fuel) :
    sendWindow cfg now fuel b o =
      ({ b with next := wn + 1, state := S_WAITING_CTS, deadline := now + Const.T21.T3 },
       o ++ dtFrames b b.next (wn + 1 - b.next), none) := by
  induction fuel generalizing b o with
  | zero => omega
  | succ fuel ih =>
    obtain ⟨pgn, prio, ms, np, data, st, dl, src, dst, nx, wo⟩ := b
    simp only at hw hle hwn hfuel
    subst hw
    unfold sendWindow
    have hlt : nx < np := by omega
    simp only [hlt, if_true]
    by_cases heq : nx = wn
    · subst heq
      have : nx + 1 - nx = 1 := by omega
      simp [this, dtFrames, List.range'_succ]
    · have hb : ((nx : Int) == (wn : Int)) = false := by
        simp only [beq_eq_false_iff_ne, ne_eq]; omega
      simp only [hb, Bool.false_eq_true, if_false, hiv]
      rw [ih _ _ rfl (by show nx + 1 ≤ wn; omega) (by show wn < np; omega) (by show wn - (nx + 1) < fuel; omega)]
      have hn : wn + 1 - nx = (wn + 1 - (nx + 1)) + 1 := by omega
      simp only [hn, dtFrames_succ]
      simp [dtFrames]
/-- one packet per pass (a minimum interval is configured) -/
theorem sendWindow_one (cfg : Cfg) (now iv : Nat) (hiv : cfg.cmdtInterval = some iv) (fuel : Nat) (b : Snd) (o : List Out) (wn : Nat)
    (hw : b.waitOn = some (wn : Int)) (hle : b.next ≤ wn) (hwn : wn < b.numPackages) :
    sendWindow cfg now (fuel + 1) b o =
      (if b.next = wn then { b with next := b.next + 1, state := S_WAITING_CTS, deadline := now + Const.T21.T3 }
       else { b with next := b.next + 1, deadline := now + iv },
       o ++ [.tx (Tp21.dt b.src b.dest (chunk b.data b.next))], none) := by
  obtain ⟨pgn, prio, ms, np, data, st, dl, src, dst, nx, wo⟩ := b
  simp only at hw hle hwn
  subst hw
  unfold sendWindow
  have hlt : nx < np := by omega
  simp only [hlt, if_true]
  by_cases heq : nx = wn
  · subst heq; simp
  · have hb : ((nx : Int) == (wn : Int)) = false := by
      simp only [beq_eq_false_iff_ne, ne_eq]; omega
    simp only [hb, Bool.false_eq_true, if_false, hiv, heq]

/-- ORIGINATOR, one due pass in SENDING_IN_CTS with the wait-on packet `wn` still ahead: the TP.DT frames of packets
    next … j'−1 go out (at least one, never beyond `wn`), nothing raises; when `wn` went out the record waits for the
    CTS with T3, otherwise only `next` and the deadline (now + configured interval) changed -/
theorem tickSndOne_sending (cfg : Cfg) (now : Nat) (b : Snd) (wn : Nat) (hs : b.state = S_SENDING_IN_CTS)
    (hw : b.waitOn = some (wn : Int)) (hle : b.next ≤ wn) (hwn : wn < b.numPackages) (hd0 : b.deadline ≠ 0) (hdt : b.deadline ≤ now) :
    ∃ j', b.next < j' ∧ j' ≤ wn + 1 ∧ (tickSndOne cfg now b).2.1 = dtFrames b b.next (j' - b.next) ∧
      (tickSndOne cfg now b).2.2.1 = none ∧
      ((j' = wn + 1 ∧ (tickSndOne cfg now b).1 = some { b with next := j', state := S_WAITING_CTS, deadline := now + Const.T21.T3 }) ∨
       (j' ≤ wn ∧ ∃ iv, cfg.cmdtInterval = some iv ∧ (tickSndOne cfg now b).1 = some { b with next := j', deadline := now + iv })) := by
  have e1 : (b.deadline != 0) = true := by simpa using hd0
  have e2 : ¬ b.deadline > now := by omega
  have ne1 : (S_SENDING_IN_CTS == S_WAITING_CTS) = false := by decide
  have eqs : (S_SENDING_IN_CTS == S_SENDING_IN_CTS) = true := by decide
  have new : (S_WAITING_CTS == S_SENDING_IN_CTS) = false := by decide
  unfold tickSndOne
  simp only [e1, if_true, e2, if_false, hs, ne1, eqs, Bool.false_eq_true]
  cases hiv : cfg.cmdtInterval with
  | none =>
    rw [sendWindow_all cfg now hiv _ b [] wn hw hle hwn (by omega)]
    refine ⟨wn + 1, by omega, by omega, by simp, by simp, Or.inl ⟨rfl, ?_⟩⟩
    simp
  | some iv =>
    rw [sendWindow_one cfg now iv hiv _ b [] wn hw hle hwn]
    refine ⟨b.next + 1, by omega, by omega, ?_, ?_, ?_⟩
    · have : b.next + 1 - b.next = 1 := by omega
      simp [this, dtFrames, List.range'_succ]
    · simp
    · by_cases heq : b.next = wn
      · left; simp [heq]
      · right
        have hge : ¬ b.next + 1 ≥ b.numPackages := by omega
        refine ⟨by omega, iv, rfl, ?_⟩
        simp [heq, hs, hge]
/-! ### responder, one TP.DT frame, exactly -/

/-- inside a window, message incomplete: the bytes are appended, T1 re-armed, nothing is sent -/
theorem dt_mid (s : St) (now : Nat) (mid : MessageId) (dest : Nat) (f : List Nat) (r : Rcv)
    (hf : f.length = 8) (hr : s.rcv.get? (Tp21.buffer_hash mid.source_address dest) = some r)
    (hc : r.data.length + 7 < r.messageSize) (hseq : Py.idx f 0 < r.nextPacket) :
    processDt s now mid dest f =
      { st := { s with rcv := s.rcv.set (Tp21.buffer_hash mid.source_address dest)
                                    ({ r with data := r.data ++ f.drop 1, deadline := now + Const.T21.T1 }) },
        outs := [.wake] } := by
  have hl : ¬ f.length < 1 := by omega
  have hc' : ¬ (r.data ++ f.drop 1).length ≥ r.messageSize := by simp; omega
  have hs : ¬ Py.idx f 0 ≥ r.nextPacket := by omega
  have hb : (dest != Const.Addr.GLOBAL && decide (Py.idx f 0 ≥ r.nextPacket)) = false := by simp [hs]
  unfold processDt
  simp only [hl, if_false, hr, hc', hb, Bool.false_eq_true]

/-- last packet of a window, message incomplete: the next CTS -/
theorem dt_window_end (s : St) (now : Nat) (mid : MessageId) (dest : Nat) (f : List Nat) (r : Rcv) (mr : Nat)
    (hf : f.length = 8) (hr : s.rcv.get? (Tp21.buffer_hash mid.source_address dest) = some r)
    (hd : dest ≠ Const.Addr.GLOBAL) (hmr : r.maxRec = some mr)
    (hc : r.data.length + 7 < r.messageSize) (hseq : r.nextPacket ≤ Py.idx f 0) :
    processDt s now mid dest f =
      { st := { s with rcv := s.rcv.set (Tp21.buffer_hash mid.source_address dest)
                                    ({ r with data := r.data ++ f.drop 1, nextPacket := min (r.nextPacket + mr) r.numPackages,
                                              deadline := now + Const.T21.T2 }) },
        outs := [.tx (Tp21.cts dest mid.source_address (min mr (r.numPackages - r.nextPacket)) (r.nextPacket + 1) r.pgn), .wake] } := by
  have hl : ¬ f.length < 1 := by omega
  have hc' : ¬ (r.data ++ f.drop 1).length ≥ r.messageSize := by simp; omega
  have hs : Py.idx f 0 ≥ r.nextPacket := hseq
  have hd' : (dest != Const.Addr.GLOBAL) = true := by simpa using hd
  have hb : (dest != Const.Addr.GLOBAL && decide (Py.idx f 0 ≥ r.nextPacket)) = true := by
    rw [hd']; simp [hs]
  unfold processDt
  simp only [hl, if_false, hr, hc', hb, if_true, hmr]

/-- the packet that completes the message (destination specific): EndOfMsgACK, ONE delivery, record removed -/
theorem dt_last (s : St) (now : Nat) (mid : MessageId) (dest : Nat) (f : List Nat) (r : Rcv)
    (hf : f.length = 8) (hr : s.rcv.get? (Tp21.buffer_hash mid.source_address dest) = some r)
    (hd : dest ≠ Const.Addr.GLOBAL) (hc : r.messageSize ≤ r.data.length + 7) :
    processDt s now mid dest f =
      { st := { s with rcv := s.rcv.erase (Tp21.buffer_hash mid.source_address dest) },
        outs := [.tx (Tp21.eom_ack dest mid.source_address r.messageSize r.numPackages r.pgn),
                 .notify mid.priority r.pgn mid.source_address dest ((r.data ++ f.drop 1).take r.messageSize), .wake] } := by
  have hl : ¬ f.length < 1 := by omega
  have hc' : (r.data ++ f.drop 1).length ≥ r.messageSize := by simp; omega
  have hd' : (dest != Const.Addr.GLOBAL) = true := by simpa using hd
  unfold processDt
  simp only [hl, if_false, hr, hc', if_true, hd']
  rfl
/-! ### responder, a run of TP.DT frames inside one window -/

/-- the receive record holds the first `j` packets of `data`; its window ends with sequence number `W` -/
structure RInv (data : List Nat) (pgn j W mr : Nat) (r : Rcv) : Prop where
  hdata : r.data = payloads data j
  hsize : r.messageSize = data.length
  hnum  : r.numPackages = Tp21.num_packets data.length
  hnext : r.nextPacket = W
  hmr   : r.maxRec = some mr
  hpgn  : r.pgn = pgn

theorem txFrames_append (a b : List Out) : txFrames (a ++ b) = txFrames a ++ txFrames b := by
  simp [txFrames, List.filterMap_append]

theorem dt_mid_inv (data : List Nat) (pgn j W mr : Nat) (s : St) (now : Nat) (mid : MessageId) (dest : Nat) (r : Rcv)
    (hlen : 0 < data.length)
    (hr : s.rcv.get? (Tp21.buffer_hash mid.source_address dest) = some r) (hi : RInv data pgn j W mr r)
    (hjw : j + 1 < W) (hwn : W ≤ Tp21.num_packets data.length) :
    (processDt s now mid dest (chunk data j)).outs = [.wake] ∧
    ∃ r', (processDt s now mid dest (chunk data j)).st.rcv.get? (Tp21.buffer_hash mid.source_address dest) = some r' ∧
      RInv data pgn (j + 1) W mr r' := by
  have hdl : r.data.length = 7 * j := by rw [hi.hdata, payloads_length]
  have hshort := partial_too_short data.length (j + 1) hlen (by omega)
  have h := dt_mid s now mid dest (chunk data j) r (chunk_length data j) hr (by rw [hi.hsize, hdl]; omega)
    (by rw [chunk_head, hi.hnext]; omega)
  rw [h]
  refine ⟨rfl, _, PyDict.get?_set_self _ _ _, ?_⟩
  exact ⟨by simp only [chunk_drop_one, hi.hdata, payloads_snoc], hi.hsize, hi.hnum, hi.hnext, hi.hmr, hi.hpgn⟩

/-- frames that stay inside the window: nothing is sent, nothing delivered, the record grows -/
theorem feed_partial (data : List Nat) (pgn W mr : Nat) (mid : MessageId) (dest : Nat) (hlen : 0 < data.length)
    (hwn : W ≤ Tp21.num_packets data.length) (k : Nat) (j : Nat) (hjk : j + k < W) (times : List Nat) (ht : times.length = k)
    (s : St) (r : Rcv) (hr : s.rcv.get? (Tp21.buffer_hash mid.source_address dest) = some r) (hi : RInv data pgn j W mr r) :
    let q := feedDt s mid dest (times.zip ((List.range' j k).map (chunk data)))
    txFrames q.2 = [] ∧ deliveries q.2 = [] ∧
    ∃ r', q.1.rcv.get? (Tp21.buffer_hash mid.source_address dest) = some r' ∧ RInv data pgn (j + k) W mr r' := by
  induction k generalizing j times s r with
  | zero =>
    simp only [List.range'_zero, List.map_nil, List.zip_nil_right, feedDt]
    exact ⟨rfl, rfl, r, hr, hi⟩
  | succ k ih =>
    obtain ⟨t, times, rfl⟩ : ∃ t ts, times = t :: ts := by
      cases times with
      | nil => simp at ht
      | cons t ts => exact ⟨t, ts, rfl⟩
    simp only [List.length_cons, Nat.add_right_cancel_iff] at ht
    simp only [List.range'_succ, List.map_cons, List.zip_cons_cons, feedDt]
    obtain ⟨ho, r', hr', hi'⟩ := dt_mid_inv data pgn j W mr s t mid dest r hlen hr hi (by omega) hwn
    have := ih (j + 1) (by omega) times ht _ r' hr' hi'
    simp only at this
    obtain ⟨a1, a2, r'', a3, a4⟩ := this
    rw [txFrames_append, deliveries_append, ho, a1, a2]
    refine ⟨rfl, rfl, r'', a3, ?_⟩
    have : j + (k + 1) = j + 1 + k := by omega
    rw [this]; exact a4
/-- frames up to the end of a window that does not end the message: exactly one CTS, for the packets after the
    window, never more than the agreed limit nor than what is left; nothing delivered -/
theorem feed_window_end (data : List Nat) (pgn W mr : Nat) (mid : MessageId) (dest : Nat) (hlen : 0 < data.length)
    (hd : dest ≠ Const.Addr.GLOBAL)
    (hwn : W < Tp21.num_packets data.length) (k : Nat) (j : Nat) (hjk : j + (k + 1) = W) (times : List Nat) (ht : times.length = k + 1)
    (s : St) (r : Rcv) (hr : s.rcv.get? (Tp21.buffer_hash mid.source_address dest) = some r) (hi : RInv data pgn j W mr r) :
    let q := feedDt s mid dest (times.zip ((List.range' j (k + 1)).map (chunk data)))
    txFrames q.2 = [Tp21.cts dest mid.source_address (min mr (Tp21.num_packets data.length - W)) (W + 1) pgn] ∧
    deliveries q.2 = [] ∧
    ∃ r', q.1.rcv.get? (Tp21.buffer_hash mid.source_address dest) = some r' ∧
      RInv data pgn W (min (W + mr) (Tp21.num_packets data.length)) mr r' := by
  induction k generalizing j times s r with
  | zero =>
    obtain ⟨t, rfl⟩ : ∃ t, times = [t] := by
      match times, ht with
      | [t], _ => exact ⟨t, rfl⟩
    simp only [Nat.zero_add, List.range'_one, List.map_cons, List.map_nil, List.zip_cons_cons, List.zip_nil_right, feedDt, List.append_nil]
    have hdl : r.data.length = 7 * j := by rw [hi.hdata, payloads_length]
    have hshort := partial_too_short data.length (j + 1) hlen (by omega)
    have h := dt_window_end s t mid dest (chunk data j) r mr (chunk_length data j) hr hd hi.hmr (by rw [hi.hsize, hdl]; omega)
      (by rw [chunk_head, hi.hnext]; omega)
    rw [h]
    refine ⟨?_, by simp [deliveries], _, PyDict.get?_set_self _ _ _, ?_⟩
    · simp [txFrames, hi.hnum, hi.hnext, hi.hpgn]
    · have : W = j + 1 := by omega
      exact ⟨by simp only [chunk_drop_one, hi.hdata, this, payloads_snoc], hi.hsize, hi.hnum,
        by simp only [hi.hnext, hi.hnum], hi.hmr, hi.hpgn⟩
  | succ k ih =>
    obtain ⟨t, times, rfl⟩ : ∃ t ts, times = t :: ts := by
      cases times with
      | nil => simp at ht
      | cons t ts => exact ⟨t, ts, rfl⟩
    simp only [List.length_cons, Nat.add_right_cancel_iff] at ht
    rw [List.range'_succ]
    simp only [List.map_cons, List.zip_cons_cons, feedDt]
    obtain ⟨ho, r', hr', hi'⟩ := dt_mid_inv data pgn j W mr s t mid dest r hlen hr hi (by omega) (by omega)
    have := ih (j + 1) (by omega) times (by simpa using ht) _ r' hr' hi'
    simp only at this
    obtain ⟨a1, a2, a3⟩ := this
    rw [txFrames_append, deliveries_append, ho, a1, a2]
    exact ⟨rfl, rfl, a3⟩

/-- frames up to the last packet of the message: EndOfMsgACK, exactly ONE delivery of the byte-identical message,
    the record is removed -/
theorem feed_to_end (data : List Nat) (pgn W mr : Nat) (mid : MessageId) (dest : Nat) (hlen : 0 < data.length)
    (hd : dest ≠ Const.Addr.GLOBAL)
    (hwn : W = Tp21.num_packets data.length) (k : Nat) (j : Nat) (hjk : j + (k + 1) = W) (times : List Nat) (ht : times.length = k + 1)
    (s : St) (r : Rcv) (hr : s.rcv.get? (Tp21.buffer_hash mid.source_address dest) = some r) (hi : RInv data pgn j W mr r) :
    let q := feedDt s mid dest (times.zip ((List.range' j (k + 1)).map (chunk data)))
    txFrames q.2 = [Tp21.eom_ack dest mid.source_address data.length (Tp21.num_packets data.length) pgn] ∧
    deliveries q.2 = [(mid.priority, pgn, mid.source_address, dest, data)] ∧
    q.1.rcv.get? (Tp21.buffer_hash mid.source_address dest) = none := by
  induction k generalizing j times s r with
  | zero =>
    obtain ⟨t, rfl⟩ : ∃ t, times = [t] := by
      match times, ht with
      | [t], _ => exact ⟨t, rfl⟩
    simp only [Nat.zero_add, List.range'_one, List.map_cons, List.map_nil, List.zip_cons_cons, List.zip_nil_right, feedDt, List.append_nil]
    have hdl : r.data.length = 7 * j := by rw [hi.hdata, payloads_length]
    have hcov := (num_packets_spec data.length).1
    have h := dt_last s t mid dest (chunk data j) r (chunk_length data j) hr hd (by rw [hi.hsize, hdl]; omega)
    rw [h]
    refine ⟨?_, ?_, PyDict.get?_erase_self _ _⟩
    · simp [txFrames, hi.hnum, hi.hsize, hi.hpgn]
    · have hj : j + 1 = Tp21.num_packets data.length := by omega
      simp only [deliveries, List.filterMap_cons, List.filterMap_nil, chunk_drop_one, hi.hdata, ← payloads_snoc, hi.hsize, hi.hpgn, hj,
        payloads_take data _ hcov]
  | succ k ih =>
    obtain ⟨t, times, rfl⟩ : ∃ t ts, times = t :: ts := by
      cases times with
      | nil => simp at ht
      | cons t ts => exact ⟨t, ts, rfl⟩
    simp only [List.length_cons, Nat.add_right_cancel_iff] at ht
    rw [List.range'_succ]
    simp only [List.map_cons, List.zip_cons_cons, feedDt]
    obtain ⟨ho, r', hr', hi'⟩ := dt_mid_inv data pgn j W mr s t mid dest r hlen hr hi (by omega) (by omega)
    have := ih (j + 1) (by omega) times (by simpa using ht) _ r' hr' hi'
    simp only at this
    obtain ⟨a1, a2, a3⟩ := this
    rw [txFrames_append, deliveries_append, ho, a1, a2]
    exact ⟨rfl, rfl, a3⟩
/-! ### originator, the responder's answers -/

/-- ORIGINATOR, a CTS of the responder for the packets it expects next: the record goes to SENDING_IN_CTS, due at once,
    and will wait again after the last granted packet -/
theorem cts_accepted (cfg : Cfg) (s : St) (now : Nat) (mid : MessageId) (dest : Nat) (b : Snd) (g pgn : Nat)
    (hb : s.snd.get? (Tp21.buffer_hash dest mid.source_address) = some b)
    (hg : 0 < g) (hfit : b.next + g ≤ b.numPackages) :
    processCm cfg s now mid dest (Tp21.cts mid.source_address dest g (b.next + 1) pgn).data =
      { st := { s with snd := s.snd.set (Tp21.buffer_hash dest mid.source_address)
                                ({ b with waitOn := some (((b.next + g - 1 : Nat) : Int)), state := S_SENDING_IN_CTS, deadline := now }) },
        outs := [.wake] } := by
  have hd : (Tp21.cts mid.source_address dest g (b.next + 1) pgn).data = Ref.tpCts g (b.next + 1) pgn :=
    (J1939.Props.C03.c03_cm_data 0 0 0 0 g 0 (b.next + 1) 0 pgn).2.1
  obtain ⟨d1, d2, d3, d4⟩ := J1939.Props.C03.c03_decode_cts g (b.next + 1) pgn (by omega)
  rw [hd]
  generalize Ref.tpCts g (b.next + 1) pgn = data at *
  have hl : ¬ data.length < 8 := by omega
  have c1 : (17 == Const.CM21.RTS) = false := by decide
  have c2 : (17 == Const.CM21.CTS) = true := by decide
  have hg0 : (g == 0) = false := by simp; omega
  have hga : ¬ g > b.numPackages := by omega
  unfold processCm
  simp only [hl, if_false, d1, d2, d3, c1, c2, Bool.false_eq_true, if_true, hb, hg0, hga]
  have hfit' : ¬ ((((b.next + 1 : Nat) : Int) - 1 + (g : Int)) > (b.numPackages : Int)) := by omega
  simp only [hfit', if_false]
  have : ((b.next : Int) + (g : Int) - 1) = ((b.next + g - 1 : Nat) : Int) := by omega
  rw [this]
/-- ORIGINATOR, the EndOfMsgACK of the responder: reported once to the listeners, session finished, due at once -/
theorem ack_accepted (cfg : Cfg) (s : St) (now : Nat) (mid : MessageId) (dest : Nat) (b : Snd) (size n pgn : Nat)
    (hb : s.snd.get? (Tp21.buffer_hash dest mid.source_address) = some b) (hs : size < 65536) (hn : n < 256) (hp : pgn < 16777216) :
    processCm cfg s now mid dest (Tp21.eom_ack mid.source_address dest size n pgn).data =
      { st := { s with snd := s.snd.set (Tp21.buffer_hash dest mid.source_address)
                                ({ b with state := S_FINISHED, deadline := now }) },
        outs := [.notify mid.priority pgn mid.source_address dest (Tp21.eom_ack mid.source_address dest size n pgn).data, .wake] } := by
  have hd : (Tp21.eom_ack mid.source_address dest size n pgn).data = Ref.tpEomAck size n pgn :=
    (J1939.Props.C03.c03_cm_ref 0 0 0 size n 0 pgn).2.1
  obtain ⟨_, _, _, _, h5, _⟩ := J1939.Props.C03.c03_decode_rts size n 255 pgn hs hn (by omega) hp
  have d1 : Tp21.cm_control (Ref.tpEomAck size n pgn) = 19 := rfl
  have d2 : Tp21.cm_pgn (Ref.tpEomAck size n pgn) = pgn := h5
  have d4 : (Ref.tpEomAck size n pgn).length = 8 := rfl
  rw [hd]
  generalize Ref.tpEomAck size n pgn = data at *
  have hl : ¬ data.length < 8 := by omega
  have c1 : (19 == Const.CM21.RTS) = false := by decide
  have c2 : (19 == Const.CM21.CTS) = false := by decide
  have c3 : (19 == Const.CM21.EOM_ACK) = true := by decide
  unfold processCm
  simp only [hl, if_false, d1, d2, c1, c2, c3, Bool.false_eq_true, if_true, hb]

/-- RESPONDER, the RTS of the originator on a free pair: a receive record for the announced size and one CTS for
    packet 1 granting min(own maximum, announced limit, packets) -/
theorem rts_accepted (cfg : Cfg) (s : St) (now : Nat) (mid : MessageId) (dest : Nat) (prio pgn size n mx : Nat)
    (hs : size < 65536) (hn : n < 256) (hm : mx < 256) (hp : pgn < 16777216)
    (hfree : s.rcv.contains (Tp21.buffer_hash mid.source_address dest) = false) :
    processCm cfg s now mid dest (Tp21.rts mid.source_address dest prio pgn size n mx).data =
      { st := { s with rcv := s.rcv.set (Tp21.buffer_hash mid.source_address dest)
                                ({ pgn := pgn, messageSize := size, numPackages := n, nextPacket := min cfg.maxCmdt (min mx n),
                                   maxCmdt := cfg.maxCmdt, maxRec := some (min cfg.maxCmdt (min mx n)), data := [],
                                   deadline := now + Const.T21.T2, src := mid.source_address, dest := dest }) },
        outs := [.tx (Tp21.cts dest mid.source_address (min cfg.maxCmdt (min mx n)) 1 pgn), .wake] } := by
  have hd : (Tp21.rts mid.source_address dest prio pgn size n mx).data = Ref.tpRts size n mx pgn :=
    (J1939.Props.C03.c03_cm_ref _ _ _ size n mx pgn).1
  obtain ⟨d1, d2, d3, d4, d5, d6⟩ := J1939.Props.C03.c03_decode_rts size n mx pgn hs hn hm hp
  rw [hd]
  generalize Ref.tpRts size n mx pgn = data at *
  have hl : ¬ data.length < 8 := by omega
  have c1 : (16 == Const.CM21.RTS) = true := by decide
  unfold processCm
  simp only [hl, if_false, d1, d2, d3, d4, d5, c1, if_true, hfree, Bool.false_eq_true]
/-! ### the two parties together -/

/-- the originator handles every frame the responder answered with (they are TP.CM frames), at time `t` -/
def answer (cfg : Cfg) (t : Nat) (mid : MessageId) (dest : Nat) : St → List Frame → St × List Out
  | s, [] => (s, [])
  | s, f :: fs =>
    let r := processCm cfg s t mid dest f.data
    let q := answer cfg t mid dest r.st fs
    (q.1, r.outs ++ q.2)

/-- one ROUND of the session originator → responder (`midO`/`midR`: the identifiers their frames arrive with): the
    originator's background pass serves the send record at `x.1`; the responder handles the TP.DT frames of that pass, in
    order, at `x.2.1`; the originator handles the responder's answers at `x.2.2`.  None: the originator has no record.
    Result: both states, the responder's outputs, the originator's outputs while handling the answers -/
def round (cfgO : Cfg) (midO midR : MessageId) (x : Nat × Nat × Nat) (sO sR : St) : Option (St × St × List Out × List Out) :=
  match sO.snd.get? (Tp21.buffer_hash midO.source_address midR.source_address) with
  | none => none
  | some b =>
    let p := tickSndOne cfgO x.1 b
    let sO1 : St := match p.1 with
      | some b' => { sO with snd := sO.snd.set (Tp21.buffer_hash midO.source_address midR.source_address) b' }
      | none => { sO with snd := sO.snd.erase (Tp21.buffer_hash midO.source_address midR.source_address) }
    let q := feedDt sR midO midR.source_address ((txFrames p.2.1).map (fun f => (x.2.1, f.data)))
    let a := answer cfgO x.2.2 midR midO.source_address sO1 (txFrames q.2)
    some (a.1, q.1, q.2, a.2)

/-- rounds until the list ends or the originator's record is gone -/
def run (cfgO : Cfg) (midO midR : MessageId) : List (Nat × Nat × Nat) → St → St → St × St × List Out × List Out
  | [], sO, sR => (sO, sR, [], [])
  | x :: xs, sO, sR =>
    match round cfgO midO midR x sO sR with
    | none => (sO, sR, [], [])
    | some (sO', sR', oR, oO) =>
      let q := run cfgO midO midR xs sO' sR'
      (q.1, q.2.1, oR ++ q.2.2.1, oO ++ q.2.2.2)

/-- every round's pass finds the record due: not before the deadline `d`, and the next one not before the answers of
    this round were handled nor before the configured minimum packet interval has passed -/
def Sched (cfg : Cfg) : Nat → List (Nat × Nat × Nat) → Prop
  | _, [] => True
  | d, x :: xs => d ≤ x.1 ∧ 0 < x.1 ∧ 0 < x.2.2 ∧ Sched cfg (max x.2.2 (x.1 + cfg.cmdtInterval.getD 0)) xs

theorem Sched_mono (cfg : Cfg) (d d' : Nat) (xs : List (Nat × Nat × Nat)) (h : Sched cfg d xs) (hd : d' ≤ d) : Sched cfg d' xs := by
  cases xs with
  | nil => trivial
  | cons x xs => exact ⟨by have := h.1; omega, h.2.1, h.2.2.1, h.2.2.2⟩

/-- the originator's record between rounds: packets 0 … j−1 are out, it may send up to packet `wn` -/
structure OInv (data : List Nat) (j wn : Nat) (b : Snd) : Prop where
  hdata  : b.data = data
  hnum   : b.numPackages = Tp21.num_packets data.length
  hnext  : b.next = j
  hstate : b.state = S_SENDING_IN_CTS
  hwait  : b.waitOn = some ((wn : Nat) : Int)
  hdl    : b.deadline ≠ 0

theorem frames_as_zip (data : List Nat) (src dst t : Nat) (l : List Nat) :
    (txFrames (l.map (fun p => Out.tx (Tp21.dt src dst (chunk data p))))).map (fun f => (t, f.data)) =
      (List.replicate l.length t).zip (l.map (chunk data)) := by
  induction l with
  | nil => rfl
  | cons a l ih =>
    simp only [List.map_cons, txFrames, List.filterMap_cons, List.length_cons, List.replicate_succ, List.zip_cons_cons] at ih ⊢
    rw [ih]; rfl
/-- ONE ROUND preserves the session invariant and makes progress, or completes the transfer -/
theorem round_step (cfgO : Cfg) (midO midR : MessageId) (data : List Nat) (pgn mr : Nat) (hlen : 0 < data.length)
    (hmax : data.length ≤ 1785) (hp : pgn < 16777216) (hd : midR.source_address ≠ Const.Addr.GLOBAL) (hmr : 0 < mr)
    (x : Nat × Nat × Nat) (sO sR : St) (j wn : Nat) (b : Snd) (r : Rcv)
    (hj : j ≤ wn) (hwn : wn < Tp21.num_packets data.length)
    (hb : sO.snd.get? (Tp21.buffer_hash midO.source_address midR.source_address) = some b)
    (hr : sR.rcv.get? (Tp21.buffer_hash midO.source_address midR.source_address) = some r)
    (ob : OInv data j wn b) (rb : RInv data pgn j (wn + 1) mr r)
    (hdue : b.deadline ≤ x.1) (ht : 0 < x.1) (htO : 0 < x.2.2) :
    ∃ sO' sR' oR oO, round cfgO midO midR x sO sR = some (sO', sR', oR, oO) ∧
      ((∃ j' wn' b' r', j < j' ∧ j' ≤ wn' ∧ wn' < Tp21.num_packets data.length ∧
          sO'.snd.get? (Tp21.buffer_hash midO.source_address midR.source_address) = some b' ∧
          sR'.rcv.get? (Tp21.buffer_hash midO.source_address midR.source_address) = some r' ∧
          OInv data j' wn' b' ∧ RInv data pgn j' (wn' + 1) mr r' ∧
          b'.deadline ≤ max x.2.2 (x.1 + cfgO.cmdtInterval.getD 0) ∧ deliveries oR = [] ∧ deliveries oO = []) ∨
       (deliveries oR = [(midO.priority, pgn, midO.source_address, midR.source_address, data)] ∧
        sR'.rcv.get? (Tp21.buffer_hash midO.source_address midR.source_address) = none ∧
        deliveries oO = [(midR.priority, pgn, midR.source_address, midO.source_address,
          (Tp21.eom_ack midR.source_address midO.source_address data.length (Tp21.num_packets data.length) pgn).data)] ∧
        ∃ bf, sO'.snd.get? (Tp21.buffer_hash midO.source_address midR.source_address) = some bf ∧
          bf.state = S_FINISHED ∧ bf.deadline = x.2.2)) := by
  obtain ⟨j', hj1, hj2, hout, herr, hcase⟩ := tickSndOne_sending cfgO x.1 b wn ob.hstate ob.hwait (by rw [ob.hnext]; exact hj)
    (by rw [ob.hnum]; exact hwn) ob.hdl hdue
  rw [ob.hnext] at hj1 hout
  have hn255 : Tp21.num_packets data.length < 256 := by
    have := (num_packets_le_255 data.length).2 hmax; omega
  -- the frames of the pass, as the responder sees them
  have hfeed : (txFrames (tickSndOne cfgO x.1 b).2.1).map (fun f => (x.2.1, f.data)) =
      (List.replicate (j' - j) x.2.1).zip ((List.range' j (j' - j)).map (chunk data)) := by
    rw [hout, dtFrames, ob.hdata]
    have := frames_as_zip data b.src b.dest x.2.1 (List.range' j (j' - j))
    simpa using this
  rcases hcase with ⟨hje, hp1⟩ | ⟨hjl, iv, hiv, hp1⟩
  · -- the window was completed
    subst hje
    by_cases hend : wn + 1 < Tp21.num_packets data.length
    · -- … and the message is not: CTS for the next window
      have hk : wn + 1 - j = (wn - j) + 1 := by omega
      have hf := feed_window_end data pgn (wn + 1) mr midO midR.source_address hlen hd hend (wn - j) j (by omega)
        (List.replicate (wn + 1 - j) x.2.1) (by simp; omega) sR r hr rb
      simp only at hf
      rw [← hk] at hf
      obtain ⟨f1, f2, r', f3, f4⟩ := hf
      have hg : 0 < min mr (Tp21.num_packets data.length - (wn + 1)) := by omega
      let bW : Snd := { b with next := wn + 1, state := S_WAITING_CTS, deadline := x.1 + Const.T21.T3 }
      have hc := cts_accepted cfgO { sO with snd := sO.snd.set (Tp21.buffer_hash midO.source_address midR.source_address) bW }
        x.2.2 midR midO.source_address bW (min mr (Tp21.num_packets data.length - (wn + 1))) pgn
        (PyDict.get?_set_self _ _ _) hg (by simp only [bW, ob.hnum]; omega)
      refine ⟨_, _, _, _, by simp only [round, hb, hp1, hfeed]; rfl, Or.inl ?_⟩
      refine ⟨wn + 1, wn + min mr (Tp21.num_packets data.length - (wn + 1)),
        { bW with waitOn := some (((bW.next + min mr (Tp21.num_packets data.length - (wn + 1)) - 1 : Nat) : Int)),
                  state := S_SENDING_IN_CTS, deadline := x.2.2 },
        r', by omega, by omega, by omega, ?_, f3, ?_, ?_, ?_, f2, ?_⟩
      · simp only [f1, answer]
        rw [hc]
        exact PyDict.get?_set_self _ _ _
      · refine ⟨ob.hdata, ob.hnum, rfl, rfl, ?_, by simp only; omega⟩
        simp only [bW]
        congr 2; omega
      · have e : min (wn + 1 + mr) (Tp21.num_packets data.length) = wn + min mr (Tp21.num_packets data.length - (wn + 1)) + 1 := by omega
        rw [← e]; exact f4
      · simp only; omega
      · simp only [f1, answer]
        rw [hc]; simp [deliveries]
    · -- … and so is the message: EndOfMsgACK and the delivery
      have hk : wn + 1 - j = (wn - j) + 1 := by omega
      have hf := feed_to_end data pgn (wn + 1) mr midO midR.source_address hlen hd (by omega) (wn - j) j (by omega)
        (List.replicate (wn + 1 - j) x.2.1) (by simp; omega) sR r hr rb
      simp only at hf
      rw [← hk] at hf
      obtain ⟨f1, f2, f3⟩ := hf
      let bW : Snd := { b with next := wn + 1, state := S_WAITING_CTS, deadline := x.1 + Const.T21.T3 }
      have hc := ack_accepted cfgO { sO with snd := sO.snd.set (Tp21.buffer_hash midO.source_address midR.source_address) bW }
        x.2.2 midR midO.source_address bW data.length (Tp21.num_packets data.length) pgn
        (PyDict.get?_set_self _ _ _) (by omega) hn255 hp
      refine ⟨_, _, _, _, by simp only [round, hb, hp1, hfeed]; rfl, Or.inr ⟨f2, f3, ?_, { bW with state := S_FINISHED, deadline := x.2.2 }, ?_, rfl, rfl⟩⟩
      · simp only [f1, answer]
        rw [hc]; simp [deliveries]
      · simp only [f1, answer]
        rw [hc]
        exact PyDict.get?_set_self _ _ _
  · -- one packet of the window (a minimum packet interval is configured)
    have hf := feed_partial data pgn (wn + 1) mr midO midR.source_address hlen (by omega) (j' - j) j (by omega)
      (List.replicate (j' - j) x.2.1) (by simp) sR r hr rb
    simp only at hf
    obtain ⟨f1, f2, r', f3, f4⟩ := hf
    have hjj : j + (j' - j) = j' := by omega
    rw [hjj] at f4
    refine ⟨_, _, _, _, by simp only [round, hb, hp1, hfeed]; rfl, Or.inl ?_⟩
    refine ⟨j', wn, { b with next := j', deadline := x.1 + iv }, r', hj1, hjl, hwn, ?_, f3, ?_, f4, ?_, f2, ?_⟩
    · simp only [f1, answer]
      exact PyDict.get?_set_self _ _ _
    · exact ⟨ob.hdata, ob.hnum, rfl, ob.hstate, ob.hwait, by simp only; omega⟩
    · simp only [hiv, Option.getD_some]; omega
    · simp only [f1, answer]; rfl
theorem run_gone (cfgO : Cfg) (midO midR : MessageId) (xs : List (Nat × Nat × Nat)) (sO sR : St)
    (h : sO.snd.get? (Tp21.buffer_hash midO.source_address midR.source_address) = none) :
    run cfgO midO midR xs sO sR = (sO, sR, [], []) := by
  cases xs with
  | nil => rfl
  | cons x xs => simp only [run, round, h]

/-- the round after the acknowledgement: the finished record is removed, nothing else happens -/
theorem round_finished (cfgO : Cfg) (midO midR : MessageId) (x : Nat × Nat × Nat) (sO sR : St) (b : Snd)
    (hb : sO.snd.get? (Tp21.buffer_hash midO.source_address midR.source_address) = some b)
    (hs : b.state = S_FINISHED) (hd0 : b.deadline ≠ 0) (hdue : b.deadline ≤ x.1) :
    round cfgO midO midR x sO sR =
      some ({ sO with snd := sO.snd.erase (Tp21.buffer_hash midO.source_address midR.source_address) }, sR, [], []) := by
  have e1 : (b.deadline != 0) = true := by simpa using hd0
  have e2 : ¬ b.deadline > x.1 := by omega
  have n1 : (S_FINISHED == S_WAITING_CTS) = false := by decide
  have n2 : (S_FINISHED == S_SENDING_IN_CTS) = false := by decide
  have n3 : (S_FINISHED == S_SENDING_BM) = false := by decide
  have ht : tickSndOne cfgO x.1 b = (none, [], none, none) := by
    unfold tickSndOne
    simp only [e1, if_true, e2, if_false, hs, n1, n2, n3, Bool.false_eq_true]
  simp only [round, hb, ht, txFrames, List.filterMap_nil, List.map_nil, feedDt, answer]

/-- THE SESSION RUNS TO COMPLETION: from any state of the invariant, any schedule of due rounds that is long enough
    delivers the message exactly once, reports exactly one acknowledgement, and leaves no record on either side -/
theorem run_delivers (cfgO : Cfg) (midO midR : MessageId) (data : List Nat) (pgn mr : Nat) (hlen : 0 < data.length)
    (hmax : data.length ≤ 1785) (hp : pgn < 16777216) (hd : midR.source_address ≠ Const.Addr.GLOBAL) (hmr : 0 < mr)
    (m : Nat) : ∀ (xs : List (Nat × Nat × Nat)) (sO sR : St) (j wn d : Nat) (b : Snd) (r : Rcv),
    Tp21.num_packets data.length - j ≤ m → j ≤ wn → wn < Tp21.num_packets data.length →
    sO.snd.get? (Tp21.buffer_hash midO.source_address midR.source_address) = some b →
    sR.rcv.get? (Tp21.buffer_hash midO.source_address midR.source_address) = some r →
    OInv data j wn b → RInv data pgn j (wn + 1) mr r → b.deadline ≤ d → Sched cfgO d xs → m + 1 ≤ xs.length →
    deliveries (run cfgO midO midR xs sO sR).2.2.1 = [(midO.priority, pgn, midO.source_address, midR.source_address, data)] ∧
    (run cfgO midO midR xs sO sR).2.1.rcv.get? (Tp21.buffer_hash midO.source_address midR.source_address) = none ∧
    deliveries (run cfgO midO midR xs sO sR).2.2.2 = [(midR.priority, pgn, midR.source_address, midO.source_address,
      (Tp21.eom_ack midR.source_address midO.source_address data.length (Tp21.num_packets data.length) pgn).data)] ∧
    (run cfgO midO midR xs sO sR).1.snd.get? (Tp21.buffer_hash midO.source_address midR.source_address) = none := by
  induction m with
  | zero => intro xs sO sR j wn d b r h1 h2 h3; omega
  | succ m ih =>
    intro xs sO sR j wn d b r hm hj hwn hb hr ob rb hdl hsched hxs
    obtain ⟨x, xs, rfl⟩ : ∃ x xs', xs = x :: xs' := by
      cases xs with
      | nil => simp at hxs
      | cons x xs => exact ⟨x, xs, rfl⟩
    simp only [List.length_cons, Nat.add_le_add_iff_right] at hxs
    obtain ⟨s1, s2, s3, s4⟩ := hsched
    obtain ⟨sO', sR', oR, oO, hround, hcase⟩ := round_step cfgO midO midR data pgn mr hlen hmax hp hd hmr x sO sR j wn b r hj hwn hb hr ob rb
      (by omega) s2 s3
    simp only [run, hround]
    rcases hcase with ⟨j', wn', b', r', c1, c2, c3, c4, c5, c6, c7, c8, c9, c10⟩ | ⟨c1, c2, c3, bf, c4, c5, c6⟩
    · obtain ⟨i1, i2, i3, i4⟩ := ih xs sO' sR' j' wn' _ b' r' (by omega) c2 c3 c4 c5 c6 c7 c8 s4 hxs
      rw [deliveries_append, deliveries_append, c9, c10, List.nil_append, List.nil_append]
      exact ⟨i1, i2, i3, i4⟩
    · obtain ⟨x', xs', rfl⟩ : ∃ x xs', xs = x :: xs' := by
        cases xs with
        | nil => simp at hxs
        | cons x xs => exact ⟨x, xs, rfl⟩
      obtain ⟨t1, _, _, _⟩ := s4
      have hfin := round_finished cfgO midO midR x' sO' sR' bf c4 c5 (by rw [c6]; omega) (by rw [c6]; omega)
      simp only [run, hfin]
      rw [run_gone cfgO midO midR xs' _ sR' (PyDict.get?_erase_self _ _)]
      simp only [List.append_nil]
      exact ⟨c1, c2, c3, PyDict.get?_erase_self _ _⟩
/-- the PGN a destination-specific transfer announces: PS cleared -/
def rtsPgn (dp pf ps : Nat) : Nat := PGN.value { PGN.ofFields dp pf ps with pdu_specific := 0 }

theorem rtsPgn_lt (dp pf ps : Nat) : rtsPgn dp pf ps < 16777216 := by
  unfold rtsPgn
  have w := pgn_ofFields_wf dp pf ps
  have w0 : PGN.WF { PGN.ofFields dp pf ps with pdu_specific := 0 } := by
    obtain ⟨a, b, _⟩ := w
    exact ⟨a, b, by simp⟩
  rw [pgn_value_arith _ w0]; obtain ⟨a, b, c⟩ := w0; simp only at a b c ⊢; omega

/-- the send record of a destination-specific transfer -/
def rtsRec (now dp pf ps prio sa : Nat) (data : List Nat) : Snd :=
  { pgn := rtsPgn dp pf ps, priority := prio, messageSize := data.length, numPackages := Tp21.num_packets data.length,
    data := data, state := S_WAITING_CTS, deadline := now + Const.T21.T3, src := sa, dest := ps, next := 0, waitOn := some 0 }

/-- an accepted destination-specific message of more than 8 bytes, exactly -/
theorem sendPgn_rts (cfg : Cfg) (s : St) (now dp pf ps prio sa : Nat) (data : List Nat) (hl : 8 < data.length)
    (hb : (ps == Const.Addr.GLOBAL || PGN.is_pdu2_format (PGN.ofFields 0 pf ps)) = false)
    (hacc : (sendPgn cfg s now dp pf ps prio sa data).2 = true) :
    (sendPgn cfg s now dp pf ps prio sa data).1 =
      { st := { s with snd := s.snd.set (Tp21.buffer_hash sa ps) (rtsRec now dp pf ps prio sa data) },
        outs := [.tx (Tp21.rts sa ps prio (rtsPgn dp pf ps) data.length (Tp21.num_packets data.length)
                        (min cfg.maxCmdt (Tp21.num_packets data.length))), .wake] } := by
  have hl' : ¬ data.length ≤ 8 := by omega
  unfold sendPgn at hacc ⊢
  simp only [hl', if_false, hb, Bool.false_eq_true] at hacc ⊢
  split at hacc
  · cases hacc
  · rename_i hc
    have hne : ¬ ps = 255 := by
      intro h; simp [h] at hb
    have hc' : s.snd.contains (Tp21.buffer_hash sa ps) = false := by simpa using hc
    simp [hc', hne, rtsPgn, rtsRec]

/-- DISPATCH of the stack's own TP frames: the identifier the builders compose (priority, PF 236/235, destination, source)
    is parsed back to exactly those fields, and `notify` hands the frame to `_process_tp_cm` / `_process_tp_dt` with that
    destination whenever the destination is global or locally accepted -/
theorem tp_dispatch (cfg : Cfg) (s : St) (now : Nat) (acc : Nat → Bool) (prio da sa : Nat) (data : List Nat)
    (hp : prio < 8) (hda : da < 256) (hsa : sa < 256) (hacc : da = 255 ∨ acc da = true) :
    let idCm := MessageId.can_id (MessageId.ofFields prio (PGN.value (PGN.ofFields 0 236 da)) sa)
    let idDt := MessageId.can_id (MessageId.ofFields prio (PGN.value (PGN.ofFields 0 235 da)) sa)
    (MessageId.ofCanId idCm).source_address = sa ∧ (MessageId.ofCanId idCm).priority = prio ∧
    (MessageId.ofCanId idDt).source_address = sa ∧ (MessageId.ofCanId idDt).priority = prio ∧
    notify cfg s now acc idCm data = processCm cfg s now (MessageId.ofCanId idCm) da data ∧
    notify cfg s now acc idDt data = processDt s now (MessageId.ofCanId idDt) da data := by
  intro idCm idDt
  obtain ⟨a1, a2, a3⟩ := tp_id_parse prio 236 da sa hp (by omega) hda hsa
  obtain ⟨b1, b2, b3⟩ := tp_id_parse prio 235 da sa hp (by omega) hda hsa
  exact ⟨a1, a2, b1, b2, notify_tp_cm cfg s now acc idCm da data a3 hda hacc, notify_tp_dt cfg s now acc idDt da data b3 hda hacc⟩

/-- … and these are the identifiers of the frames the builders produce -/
theorem tp_builder_ids (sa da prio pgn size n mx nxt reason : Nat) (d : List Nat) :
    (Tp21.rts sa da prio pgn size n mx).id = MessageId.can_id (MessageId.ofFields prio (PGN.value (PGN.ofFields 0 236 da)) sa) ∧
    (Tp21.cts sa da n nxt pgn).id = MessageId.can_id (MessageId.ofFields 7 (PGN.value (PGN.ofFields 0 236 da)) sa) ∧
    (Tp21.eom_ack sa da size n pgn).id = MessageId.can_id (MessageId.ofFields 7 (PGN.value (PGN.ofFields 0 236 da)) sa) ∧
    (Tp21.abort sa da reason pgn).id = MessageId.can_id (MessageId.ofFields 7 (PGN.value (PGN.ofFields 0 236 da)) sa) ∧
    (Tp21.dt sa da d).id = MessageId.can_id (MessageId.ofFields 7 (PGN.value (PGN.ofFields 0 235 da)) sa) :=
  ⟨rfl, rfl, rfl, rfl, rfl⟩

end J1939.Dll21
