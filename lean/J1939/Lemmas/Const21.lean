/-
  Side conditions on the reflected J1939-21 constants (control bytes and buffer states pairwise distinct, timeouts positive)
  as simp facts: if an edit of the source makes two of them equal, these `decide`s fail and with them every theorem that
  relies on the case distinction.
-/
import J1939.Gen.Const
import J1939.Model.Dll21
namespace J1939.Dll21
open J1939.Gen

@[simp] theorem cm21_rts_ne_cts : (Const.CM21.RTS = Const.CM21.CTS) = False := by decide
@[simp] theorem cm21_rts_ne_eom_ack : (Const.CM21.RTS = Const.CM21.EOM_ACK) = False := by decide
@[simp] theorem cm21_rts_ne_bam : (Const.CM21.RTS = Const.CM21.BAM) = False := by decide
@[simp] theorem cm21_rts_ne_abort : (Const.CM21.RTS = Const.CM21.ABORT) = False := by decide
@[simp] theorem cm21_cts_ne_rts : (Const.CM21.CTS = Const.CM21.RTS) = False := by decide
@[simp] theorem cm21_cts_ne_eom_ack : (Const.CM21.CTS = Const.CM21.EOM_ACK) = False := by decide
@[simp] theorem cm21_cts_ne_bam : (Const.CM21.CTS = Const.CM21.BAM) = False := by decide
@[simp] theorem cm21_cts_ne_abort : (Const.CM21.CTS = Const.CM21.ABORT) = False := by decide
@[simp] theorem cm21_eom_ack_ne_rts : (Const.CM21.EOM_ACK = Const.CM21.RTS) = False := by decide
@[simp] theorem cm21_eom_ack_ne_cts : (Const.CM21.EOM_ACK = Const.CM21.CTS) = False := by decide
@[simp] theorem cm21_eom_ack_ne_bam : (Const.CM21.EOM_ACK = Const.CM21.BAM) = False := by decide
@[simp] theorem cm21_eom_ack_ne_abort : (Const.CM21.EOM_ACK = Const.CM21.ABORT) = False := by decide
@[simp] theorem cm21_bam_ne_rts : (Const.CM21.BAM = Const.CM21.RTS) = False := by decide
@[simp] theorem cm21_bam_ne_cts : (Const.CM21.BAM = Const.CM21.CTS) = False := by decide
@[simp] theorem cm21_bam_ne_eom_ack : (Const.CM21.BAM = Const.CM21.EOM_ACK) = False := by decide
@[simp] theorem cm21_bam_ne_abort : (Const.CM21.BAM = Const.CM21.ABORT) = False := by decide
@[simp] theorem cm21_abort_ne_rts : (Const.CM21.ABORT = Const.CM21.RTS) = False := by decide
@[simp] theorem cm21_abort_ne_cts : (Const.CM21.ABORT = Const.CM21.CTS) = False := by decide
@[simp] theorem cm21_abort_ne_eom_ack : (Const.CM21.ABORT = Const.CM21.EOM_ACK) = False := by decide
@[simp] theorem cm21_abort_ne_bam : (Const.CM21.ABORT = Const.CM21.BAM) = False := by decide
@[simp] theorem s21_waiting_cts_ne_sending_in_cts : (Const.S21.WAITING_CTS = Const.S21.SENDING_IN_CTS) = False := by decide
@[simp] theorem s21_waiting_cts_ne_sending_bm : (Const.S21.WAITING_CTS = Const.S21.SENDING_BM) = False := by decide
@[simp] theorem s21_waiting_cts_ne_transmission_finished : (Const.S21.WAITING_CTS = Const.S21.TRANSMISSION_FINISHED) = False := by decide
@[simp] theorem s21_sending_in_cts_ne_waiting_cts : (Const.S21.SENDING_IN_CTS = Const.S21.WAITING_CTS) = False := by decide
@[simp] theorem s21_sending_in_cts_ne_sending_bm : (Const.S21.SENDING_IN_CTS = Const.S21.SENDING_BM) = False := by decide
@[simp] theorem s21_sending_in_cts_ne_transmission_finished : (Const.S21.SENDING_IN_CTS = Const.S21.TRANSMISSION_FINISHED) = False := by decide
@[simp] theorem s21_sending_bm_ne_waiting_cts : (Const.S21.SENDING_BM = Const.S21.WAITING_CTS) = False := by decide
@[simp] theorem s21_sending_bm_ne_sending_in_cts : (Const.S21.SENDING_BM = Const.S21.SENDING_IN_CTS) = False := by decide
@[simp] theorem s21_sending_bm_ne_transmission_finished : (Const.S21.SENDING_BM = Const.S21.TRANSMISSION_FINISHED) = False := by decide
@[simp] theorem s21_transmission_finished_ne_waiting_cts : (Const.S21.TRANSMISSION_FINISHED = Const.S21.WAITING_CTS) = False := by decide
@[simp] theorem s21_transmission_finished_ne_sending_in_cts : (Const.S21.TRANSMISSION_FINISHED = Const.S21.SENDING_IN_CTS) = False := by decide
@[simp] theorem s21_transmission_finished_ne_sending_bm : (Const.S21.TRANSMISSION_FINISHED = Const.S21.SENDING_BM) = False := by decide

@[simp] theorem s_waiting_def : S_WAITING_CTS = Const.S21.WAITING_CTS := rfl
@[simp] theorem s_sending_def : S_SENDING_IN_CTS = Const.S21.SENDING_IN_CTS := rfl
@[simp] theorem s_bm_def : S_SENDING_BM = Const.S21.SENDING_BM := rfl
@[simp] theorem s_finished_def : S_FINISHED = Const.S21.TRANSMISSION_FINISHED := rfl

theorem t21_pos : 0 < Const.T21.T1 ∧ 0 < Const.T21.T2 ∧ 0 < Const.T21.T3 ∧ 0 < Const.T21.Th := by decide
@[simp] theorem addr_global : Const.Addr.GLOBAL = 255 := by decide

end J1939.Dll21
