/-
  Helper lemmas about the J1939-21 model: the send window loop, segmentation.  Property statements: Props/C0x.lean.
-/
import J1939.Model.Dll21
import J1939.Lemmas.PyDict
import J1939.Lemmas.Tactics
import J1939.Lemmas.Const21
namespace J1939.Dll21
open J1939 J1939.Gen

/-- the destination a message of more than 8 bytes is sent to: PS for a PDU1 PGN with PS ≠ 255, else global -/
def _root_.J1939.Props.C09.C10dest (pf ps : Nat) : Nat :=
  if ps == Const.Addr.GLOBAL || PGN.is_pdu2_format (PGN.ofFields 0 pf ps) then Const.Addr.GLOBAL else ps

/-- the TP.DT frames of packages `a, a+1, …, a+n-1` of a record -/
def dtFrames (b : Snd) (a n : Nat) : List Out :=
  (List.range' a n).map (fun p => Out.tx (Tp21.dt b.src b.dest (chunk b.data p)))

theorem dtFrames_succ (b : Snd) (a n : Nat) :
    dtFrames b a (n + 1) = Out.tx (Tp21.dt b.src b.dest (chunk b.data a)) :: dtFrames b (a + 1) n := by
  simp [dtFrames, List.range'_succ]

/-- SEND WINDOW: with the wait-on packet `w` not yet passed, the loop emits the DT frames of consecutive packages
    starting at `next`, never goes beyond package `w`, raises nothing, keeps everything but (next, state, deadline),
    and leaves WAITING_CTS exactly when package `w` went out -/
theorem sendWindow_spec (cfg : Cfg) (now : Nat) (fuel : Nat) (b : Snd) (o : List Out) (w : Int)
    (hw : b.waitOn = some w) (hle : (b.next : Int) ≤ w) (hnp : b.next ≤ b.numPackages) (hfuel : b.numPackages - b.next < fuel)
    (r1 : Snd) (ro : List Out) (re : Option PyErr) (hr : sendWindow cfg now fuel b o = (r1, ro, re)) :
    re = none ∧ b.next ≤ r1.next ∧ (r1.next : Int) ≤ w + 1 ∧ r1.next ≤ b.numPackages ∧
    ro = o ++ dtFrames b b.next (r1.next - b.next) ∧
    (r1.state = S_WAITING_CTS ∨ (r1.state = b.state ∧ ((r1.next : Int) ≤ w ∨ r1.next = b.numPackages))) ∧
    r1.src = b.src ∧ r1.dest = b.dest ∧ r1.data = b.data ∧ r1.numPackages = b.numPackages ∧ r1.waitOn = b.waitOn ∧
    r1.pgn = b.pgn := by
  induction fuel generalizing b o with
  | zero => omega
  | succ fuel ih =>
    obtain ⟨pgn, prio, ms, np, data, st, dl, src, dst, nx, wo⟩ := b
    simp only at hw hle hfuel hnp
    subst hw
    unfold sendWindow at hr
    by_cases hlt : nx < np
    · simp only [hlt, if_true] at hr
      by_cases heq : (nx : Int) = w
      · have hb : ((nx : Int) == w) = true := by simpa using heq
        simp only [hb, if_true, Prod.mk.injEq] at hr
        obtain ⟨rfl, rfl, rfl⟩ := hr
        refine ⟨rfl, ?_, ?_, ?_, ?_, Or.inl rfl, rfl, rfl, rfl, rfl, rfl, rfl⟩
        · show nx ≤ nx + 1; omega
        · show ((nx + 1 : Nat) : Int) ≤ w + 1; omega
        · show nx + 1 ≤ np; omega
        · show _ = o ++ dtFrames _ nx (nx + 1 - nx)
          have : nx + 1 - nx = 1 := by omega
          rw [this]; simp [dtFrames, List.range'_succ]
      · have hb : ((nx : Int) == w) = false := by simpa using heq
        simp only [hb, Bool.false_eq_true, if_false] at hr
        cases hiv : cfg.cmdtInterval with
        | some iv =>
          simp only [hiv, Prod.mk.injEq] at hr
          obtain ⟨rfl, rfl, rfl⟩ := hr
          refine ⟨rfl, ?_, ?_, ?_, ?_, Or.inr ⟨rfl, Or.inl ?_⟩, rfl, rfl, rfl, rfl, rfl, rfl⟩
          · show nx ≤ nx + 1; omega
          · show ((nx + 1 : Nat) : Int) ≤ w + 1; omega
          · show nx + 1 ≤ np; omega
          · show _ = o ++ dtFrames _ nx (nx + 1 - nx)
            have : nx + 1 - nx = 1 := by omega
            rw [this]; simp [dtFrames, List.range'_succ]
          · show ((nx + 1 : Nat) : Int) ≤ w; omega
        | none =>
          simp only [hiv] at hr
          have := ih _ _ rfl (by show ((nx + 1 : Nat) : Int) ≤ w; omega) (by show nx + 1 ≤ np; omega) (by show np - (nx + 1) < fuel; omega) hr
          simp only at this
          obtain ⟨h1, h2, h3, h4, h5, h6, h7, h8, h9, h10, h11, h12⟩ := this
          refine ⟨h1, by show nx ≤ r1.next; omega, h3, h4, ?_, h6, h7, h8, h9, h10, h11, h12⟩
          rw [h5]
          show _ = o ++ dtFrames _ nx (r1.next - nx)
          have hn : r1.next - nx = (r1.next - (nx + 1)) + 1 := by omega
          rw [hn, dtFrames_succ]
          simp [dtFrames]
    · simp only [hlt, if_false, Prod.mk.injEq] at hr
      obtain ⟨rfl, rfl, rfl⟩ := hr
      refine ⟨rfl, Nat.le_refl _, by show ((nx : Nat) : Int) ≤ w + 1; omega, by show nx ≤ np; omega, by simp [dtFrames],
        Or.inr ⟨rfl, Or.inr (by show nx = np; omega)⟩, rfl, rfl, rfl, rfl, rfl, rfl⟩

end J1939.Dll21
