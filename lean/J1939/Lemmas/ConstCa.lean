/- side conditions on the reflected CA claim states (pairwise distinct) and addresses, as simp facts -/
import J1939.Model.Ca
namespace J1939.Ca
open J1939.Gen

@[simp] theorem none_ne_wait_veto : (NONE = WAIT_VETO) = False := by decide
@[simp] theorem none_ne_normal : (NONE = NORMAL) = False := by decide
@[simp] theorem none_ne_cannot_claim : (NONE = CANNOT_CLAIM) = False := by decide
@[simp] theorem wait_veto_ne_none : (WAIT_VETO = NONE) = False := by decide
@[simp] theorem wait_veto_ne_normal : (WAIT_VETO = NORMAL) = False := by decide
@[simp] theorem wait_veto_ne_cannot_claim : (WAIT_VETO = CANNOT_CLAIM) = False := by decide
@[simp] theorem normal_ne_none : (NORMAL = NONE) = False := by decide
@[simp] theorem normal_ne_wait_veto : (NORMAL = WAIT_VETO) = False := by decide
@[simp] theorem normal_ne_cannot_claim : (NORMAL = CANNOT_CLAIM) = False := by decide
@[simp] theorem cannot_claim_ne_none : (CANNOT_CLAIM = NONE) = False := by decide
@[simp] theorem cannot_claim_ne_wait_veto : (CANNOT_CLAIM = WAIT_VETO) = False := by decide
@[simp] theorem cannot_claim_ne_normal : (CANNOT_CLAIM = NORMAL) = False := by decide
@[simp] theorem addr_global_255 : Const.Addr.GLOBAL = 255 := by decide
@[simp] theorem addr_null_254 : Const.Addr.NULL = 254 := by decide

end J1939.Ca
