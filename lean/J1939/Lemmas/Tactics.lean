/-
  `crack`: case-split every `if`/`match` in the goal and close the branches by simplification
  (the handlers of the model are nested conditionals over records; most single-step facts are of this kind).
-/
namespace J1939

macro "crack" : tactic =>
  `(tactic| ((repeat' split) <;> (try simp_all) <;> (repeat' split) <;> (try simp_all) <;> (repeat' split) <;> (try simp_all)))

macro "crack" "[" ls:Lean.Parser.Tactic.simpLemma,* "]" : tactic =>
  `(tactic| ((repeat' split) <;> (try simp_all [$ls,*]) <;> (repeat' split) <;> (try simp_all [$ls,*]) <;> (repeat' split) <;> (try simp_all [$ls,*])))

end J1939
