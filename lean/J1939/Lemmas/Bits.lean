/-
  Bit operations on `Nat` → arithmetic normal forms, so that `omega` can finish codec goals.
  Generic statements carry a symbolic exponent; they are specialised per literal (`by simpa using …`)
  where used — never leave `2^k` with a big `k` for the elaborator to unify against a literal.
-/
namespace J1939.Bits

theorem and_mask (x k : Nat) : x &&& (2^k - 1) = x % 2^k := Nat.and_two_pow_sub_one_eq_mod x k

theorem shr (x k : Nat) : x >>> k = x / 2^k := Nat.shiftRight_eq_div_pow x k

theorem shl (x k : Nat) : x <<< k = x * 2^k := Nat.shiftLeft_eq x k

/-- `a·2^k ||| b = a·2^k + b` when `b` fits below bit `k` -/
theorem mul_or (a b k : Nat) (h : b < 2^k) : a * 2^k ||| b = a * 2^k + b := by
  rw [← Nat.shiftLeft_eq]; exact (Nat.shiftLeft_add_eq_or_of_lt h a).symm

/-- three fields packed by shifts and ors -/
theorem shl_or_shl_or (a b c i j : Nat) (hb : b < 2^i) (hc : c < 2^j) :
    (a <<< (i + j)) ||| (b <<< j) ||| c = a * 2^(i+j) + b * 2^j + c := by
  rw [Nat.shiftLeft_add, ← Nat.shiftLeft_or_distrib, shl a i, mul_or a b i hb, shl, mul_or _ c j hc,
      Nat.pow_add, Nat.add_mul, Nat.mul_assoc]

/-- two fields packed by a shift and an or -/
theorem shl_or (a b i : Nat) (hb : b < 2^i) : (a <<< i) ||| b = a * 2^i + b := by
  rw [shl, mul_or a b i hb]

/-- masks 2^k-1 as literals -/
theorem and_1 (x : Nat) : x &&& 1 = x % 2 := by have := and_mask x 1; simpa using this
theorem and_3 (x : Nat) : x &&& 3 = x % 4 := by have := and_mask x 2; simpa using this
theorem and_7 (x : Nat) : x &&& 7 = x % 8 := by have := and_mask x 3; simpa using this
theorem and_15 (x : Nat) : x &&& 15 = x % 16 := by have := and_mask x 4; simpa using this
theorem and_31 (x : Nat) : x &&& 31 = x % 32 := by have := and_mask x 5; simpa using this
theorem and_127 (x : Nat) : x &&& 127 = x % 128 := by have := and_mask x 7; simpa using this
theorem and_255 (x : Nat) : x &&& 255 = x % 256 := by have := and_mask x 8; simpa using this
theorem and_2047 (x : Nat) : x &&& 2047 = x % 2048 := by have := and_mask x 11; simpa using this
theorem and_65535 (x : Nat) : x &&& 65535 = x % 65536 := by have := and_mask x 16; simpa using this
theorem and_262143 (x : Nat) : x &&& 262143 = x % 262144 := by have := and_mask x 18; simpa using this
theorem and_2097151 (x : Nat) : x &&& 2097151 = x % 2097152 := by have := and_mask x 21; simpa using this

/-- shifts by literal amounts -/
theorem shl_1 (x : Nat) : x <<< 1 = x * 2 := by have := shl x 1; simpa using this
theorem shr_1 (x : Nat) : x >>> 1 = x / 2 := by have := shr x 1; simpa using this
theorem shl_2 (x : Nat) : x <<< 2 = x * 4 := by have := shl x 2; simpa using this
theorem shr_2 (x : Nat) : x >>> 2 = x / 4 := by have := shr x 2; simpa using this
theorem shl_4 (x : Nat) : x <<< 4 = x * 16 := by have := shl x 4; simpa using this
theorem shr_4 (x : Nat) : x >>> 4 = x / 16 := by have := shr x 4; simpa using this
theorem shl_5 (x : Nat) : x <<< 5 = x * 32 := by have := shl x 5; simpa using this
theorem shr_5 (x : Nat) : x >>> 5 = x / 32 := by have := shr x 5; simpa using this
theorem shl_8 (x : Nat) : x <<< 8 = x * 256 := by have := shl x 8; simpa using this
theorem shr_8 (x : Nat) : x >>> 8 = x / 256 := by have := shr x 8; simpa using this
theorem shl_16 (x : Nat) : x <<< 16 = x * 65536 := by have := shl x 16; simpa using this
theorem shr_16 (x : Nat) : x >>> 16 = x / 65536 := by have := shr x 16; simpa using this
theorem shl_21 (x : Nat) : x <<< 21 = x * 2097152 := by have := shl x 21; simpa using this
theorem shr_21 (x : Nat) : x >>> 21 = x / 2097152 := by have := shr x 21; simpa using this
theorem shl_24 (x : Nat) : x <<< 24 = x * 16777216 := by have := shl x 24; simpa using this
theorem shr_24 (x : Nat) : x >>> 24 = x / 16777216 := by have := shr x 24; simpa using this
theorem shl_26 (x : Nat) : x <<< 26 = x * 67108864 := by have := shl x 26; simpa using this
theorem shr_26 (x : Nat) : x >>> 26 = x / 67108864 := by have := shr x 26; simpa using this
theorem shl_32 (x : Nat) : x <<< 32 = x * 4294967296 := by have := shl x 32; simpa using this
theorem shr_32 (x : Nat) : x >>> 32 = x / 4294967296 := by have := shr x 32; simpa using this
theorem shl_35 (x : Nat) : x <<< 35 = x * 34359738368 := by have := shl x 35; simpa using this
theorem shr_35 (x : Nat) : x >>> 35 = x / 34359738368 := by have := shr x 35; simpa using this
theorem shl_40 (x : Nat) : x <<< 40 = x * 1099511627776 := by have := shl x 40; simpa using this
theorem shr_40 (x : Nat) : x >>> 40 = x / 1099511627776 := by have := shr x 40; simpa using this
theorem shl_48 (x : Nat) : x <<< 48 = x * 281474976710656 := by have := shl x 48; simpa using this
theorem shr_48 (x : Nat) : x >>> 48 = x / 281474976710656 := by have := shr x 48; simpa using this
theorem shl_49 (x : Nat) : x <<< 49 = x * 562949953421312 := by have := shl x 49; simpa using this
theorem shr_49 (x : Nat) : x >>> 49 = x / 562949953421312 := by have := shr x 49; simpa using this
theorem shl_56 (x : Nat) : x <<< 56 = x * 72057594037927936 := by have := shl x 56; simpa using this
theorem shr_56 (x : Nat) : x >>> 56 = x / 72057594037927936 := by have := shr x 56; simpa using this
theorem shl_60 (x : Nat) : x <<< 60 = x * 1152921504606846976 := by have := shl x 60; simpa using this
theorem shr_60 (x : Nat) : x >>> 60 = x / 1152921504606846976 := by have := shr x 60; simpa using this
theorem shl_63 (x : Nat) : x <<< 63 = x * 9223372036854775808 := by have := shl x 63; simpa using this
theorem shr_63 (x : Nat) : x >>> 63 = x / 9223372036854775808 := by have := shr x 63; simpa using this
theorem shl_3 (x : Nat) : x <<< 3 = x * 8 := by have := shl x 3; simpa using this
theorem shr_3 (x : Nat) : x >>> 3 = x / 8 := by have := shr x 3; simpa using this
theorem shl_6 (x : Nat) : x <<< 6 = x * 64 := by have := shl x 6; simpa using this
theorem shr_6 (x : Nat) : x >>> 6 = x / 64 := by have := shr x 6; simpa using this
theorem shl_7 (x : Nat) : x <<< 7 = x * 128 := by have := shl x 7; simpa using this
theorem shr_7 (x : Nat) : x >>> 7 = x / 128 := by have := shr x 7; simpa using this
theorem shl_11 (x : Nat) : x <<< 11 = x * 2048 := by have := shl x 11; simpa using this
theorem shr_11 (x : Nat) : x >>> 11 = x / 2048 := by have := shr x 11; simpa using this

end J1939.Bits
