/-
  Arithmetic normal forms of the generated identifier / PGN / NAME codecs.
  Helper lemmas only; the property statements are in Props/C15.lean.
-/
import J1939.Gen.Codec
import J1939.Lemmas.Bits
namespace J1939.Lemmas
open J1939 J1939.Gen J1939.Bits

/-- in-range identifier fields -/
def MessageId.WF (m : MessageId) : Prop :=
  m.priority < 8 ∧ m.parameter_group_number < 262144 ∧ m.source_address < 256

theorem ofFields_eq (p g s : Nat) :
    MessageId.ofFields p g s = { source_address := s % 256, parameter_group_number := g % 262144, priority := p % 8 } := by
  simp only [MessageId.ofFields, and_7, and_262143, and_255]

theorem ofFields_wf (p g s : Nat) : MessageId.WF (MessageId.ofFields p g s) := by
  rw [ofFields_eq]; simp only [MessageId.WF]; omega

theorem can_id_arith (m : MessageId) (h : MessageId.WF m) :
    MessageId.can_id m = m.priority * 67108864 + m.parameter_group_number * 256 + m.source_address := by
  obtain ⟨_, hg, hs⟩ := h
  simp only [MessageId.can_id]
  have := shl_or_shl_or m.priority m.parameter_group_number m.source_address 18 8 (by simpa using hg) (by simpa using hs)
  simpa using this

theorem ofCanId_eq (c : Nat) :
    MessageId.ofCanId c = { source_address := c % 256, parameter_group_number := c / 256 % 262144, priority := c / 67108864 % 8 } := by
  simp only [MessageId.ofCanId, and_7, and_262143, and_255]
  have h1 : c >>> 8 = c / 256 := by have := shr c 8; simpa using this
  have h2 : c >>> 26 = c / 67108864 := by have := shr c 26; simpa using this
  rw [h1, h2]

theorem ofCanId_wf (c : Nat) : MessageId.WF (MessageId.ofCanId c) := by
  rw [ofCanId_eq]; simp only [MessageId.WF]; omega

/-- in-range PGN fields -/
def PGN.WF (p : PGN) : Prop := p.data_page < 2 ∧ p.pdu_format < 256 ∧ p.pdu_specific < 256

theorem pgn_ofFields_eq (dp pf ps : Nat) :
    PGN.ofFields dp pf ps = { data_page := dp % 2, pdu_format := pf % 256, pdu_specific := ps % 256 } := by
  simp only [PGN.ofFields, and_1, and_255]

theorem pgn_ofFields_wf (dp pf ps : Nat) : PGN.WF (PGN.ofFields dp pf ps) := by
  rw [pgn_ofFields_eq]; simp only [PGN.WF]; omega

theorem pgn_value_arith (p : PGN) (h : PGN.WF p) :
    PGN.value p = p.data_page * 65536 + p.pdu_format * 256 + p.pdu_specific := by
  obtain ⟨_, hf, hs⟩ := h
  simp only [PGN.value]
  have := shl_or_shl_or p.data_page p.pdu_format p.pdu_specific 8 8 (by simpa using hf) (by simpa using hs)
  simpa using this

theorem pgn_from_mid_eq (m : MessageId) :
    PGN.from_message_id m = { data_page := m.parameter_group_number / 65536 % 2,
                              pdu_format := m.parameter_group_number / 256 % 256,
                              pdu_specific := m.parameter_group_number % 256 } := by
  simp only [PGN.from_message_id, and_1, and_255]
  have h1 : m.parameter_group_number >>> 16 = m.parameter_group_number / 65536 := by
    have := shr m.parameter_group_number 16; simpa using this
  have h2 : m.parameter_group_number >>> 8 = m.parameter_group_number / 256 := by
    have := shr m.parameter_group_number 8; simpa using this
  rw [h1, h2]

theorem pgn_from_mid_wf (m : MessageId) : PGN.WF (PGN.from_message_id m) := by
  rw [pgn_from_mid_eq]; simp only [PGN.WF]; omega

end J1939.Lemmas

namespace J1939.Lemmas
open J1939 J1939.Gen J1939.Bits

/-- the range checks of `Name.__init__`, plus the reserved bit the constructor always clears -/
def Name.WF (n : Name) : Prop :=
  n.arbitrary_address_capable < 2 ∧ n.industry_group < 8 ∧ n.vehicle_system_instance < 16 ∧ n.vehicle_system < 128 ∧
  n.reserved_bit = 0 ∧ n.function < 256 ∧ n.function_instance < 32 ∧ n.ecu_instance < 8 ∧
  n.manufacturer_code < 2048 ∧ n.identity_number < 2097152

theorem name_value_shifts (n : Name) :
    Name.value n = n.identity_number + n.manufacturer_code <<< 21 + n.ecu_instance <<< 32
      + n.function_instance <<< 35 + n.function <<< 40 + n.reserved_bit <<< 48
      + n.vehicle_system <<< 49 + n.vehicle_system_instance <<< 56
      + n.industry_group <<< 60 + n.arbitrary_address_capable <<< 63 := rfl

theorem name_value_arith (n : Name) :
    Name.value n = n.identity_number + n.manufacturer_code * 2097152 + n.ecu_instance * 4294967296
      + n.function_instance * 34359738368 + n.function * 1099511627776 + n.reserved_bit * 281474976710656
      + n.vehicle_system * 562949953421312 + n.vehicle_system_instance * 72057594037927936
      + n.industry_group * 1152921504606846976 + n.arbitrary_address_capable * 9223372036854775808 := by
  rw [name_value_shifts, shl_21, shl_32, shl_35, shl_40, shl_48, shl_49, shl_56, shl_60, shl_63]

theorem name_ofValue_eq (v : Nat) :
    Name.ofValue v = { arbitrary_address_capable := v / 9223372036854775808 % 2,
                       industry_group := v / 1152921504606846976 % 8,
                       vehicle_system_instance := v / 72057594037927936 % 16,
                       vehicle_system := v / 562949953421312 % 128,
                       reserved_bit := 0,
                       function := v / 1099511627776 % 256,
                       function_instance := v / 34359738368 % 32,
                       ecu_instance := v / 4294967296 % 8,
                       manufacturer_code := v / 2097152 % 2048,
                       identity_number := v % 2097152 } := by
  simp only [Name.ofValue, Nat.reducePow, Nat.reduceSub, and_1, and_7, and_15, and_31, and_127, and_255, and_2047, and_2097151,
    shr_21, shr_32, shr_35, shr_40, shr_49, shr_56, shr_60, shr_63]

theorem name_ofValue_wf (v : Nat) : Name.WF (Name.ofValue v) := by
  rw [name_ofValue_eq]; unfold Name.WF; dsimp only; omega

theorem name_ofFields_some (a ig vsi vs f fi e m i : Nat) (n : Name) (h : Name.ofFields a ig vsi vs f fi e m i = some n) :
    n = { arbitrary_address_capable := a, industry_group := ig, vehicle_system_instance := vsi, vehicle_system := vs,
          reserved_bit := 0, function := f, function_instance := fi, ecu_instance := e, manufacturer_code := m,
          identity_number := i } ∧ Name.WF n := by
  simp only [Name.ofFields, Nat.reducePow, Nat.reduceSub] at h
  repeat (split at h; · exact absurd h (by simp))
  have := (Option.some.inj h).symm
  subst this
  refine ⟨rfl, ?_⟩
  unfold Name.WF; dsimp only
  simp only [Bool.or_eq_true, decide_eq_true_eq, not_or, Nat.not_lt, true_and] at *
  omega

/-- eight little-endian bytes of a value -/
def le64 (v : Nat) : List Nat :=
  [v % 256, v / 256 % 256, v / 65536 % 256, v / 16777216 % 256, v / 4294967296 % 256, v / 1099511627776 % 256,
   v / 281474976710656 % 256, v / 72057594037927936 % 256]

theorem name_bytes_eq (n : Name) : Name.bytes n = le64 (Name.value n) := by
  simp only [Name.bytes, le64, and_255, Nat.shiftRight_zero, shr_8, shr_16, shr_24, shr_32, shr_40, shr_48, shr_56]

theorem fromBytesLE_8 (b0 b1 b2 b3 b4 b5 b6 b7 : Nat) :
    Py.fromBytesLE [b0, b1, b2, b3, b4, b5, b6, b7] =
      b0 + 256 * (b1 + 256 * (b2 + 256 * (b3 + 256 * (b4 + 256 * (b5 + 256 * (b6 + 256 * (b7 + 256 * 0))))))) := rfl

theorem name_ofBytes_eq (b : List Nat) : Name.ofBytes b = Name.ofValue (Py.fromBytesLE b) := rfl

theorem name_value_ofValue_lit (v : Nat) (h : v < 18446744073709551616) :
    Name.value (Name.ofValue v) = v - (v / 281474976710656 % 2) * 281474976710656 := by
  rewrite [name_value_arith, name_ofValue_eq]; dsimp only; omega

theorem le64_of_digits (w b0 b1 b2 b3 b4 b5 b6 b7 : Nat)
    (h : w = b0 + 256 * (b1 + 256 * (b2 + 256 * (b3 + 256 * (b4 + 256 * (b5 + 256 * (b6 + 256 * b7)))))))
    (h0 : b0 < 256) (h1 : b1 < 256) (h2 : b2 < 256) (h3 : b3 < 256) (h4 : b4 < 256) (h5 : b5 < 256) (h6 : b6 < 256) (h7 : b7 < 256) :
    le64 w = [b0, b1, b2, b3, b4, b5, b6, b7] := by
  unfold le64
  simp only [List.cons.injEq, and_true]
  refine ⟨?_, ?_, ?_, ?_, ?_, ?_, ?_, ?_⟩ <;> omega

end J1939.Lemmas
