/-
  J1939-22: conservation of the two originator session pools over every history (helper lemmas; statements in
  Props/C10.lean).  The send table is viewed as a lookup function; every operation of the model is one of three abstract
  transitions (update in place / delete + release / take + insert).
-/
import J1939.Model.Dll22
import J1939.Lemmas.PyDict
import J1939.Lemmas.Bits
import J1939.Lemmas.Codec
import J1939.Props.C02
namespace J1939.Dll22
open J1939 J1939.Gen

/-- broadcast-kind states of a send record (its number comes from the broadcast pool) -/
def KBam (st : Nat) : Prop := st = S_SENDING_BAM ∨ st = S_SENDING_EOM_STATUS
/-- connection-mode states (number from the RTS/CTS pool) -/
def KRts (st : Nat) : Prop :=
  st = S_WAITING_CTS ∨ st = S_SENDING_RTS_CTS ∨ st = S_WAITING_EOM_ACK ∨ st = S_EOM_ACK_RECEIVED ∨ st = S_FINISHED

theorem kinds_disjoint (st : Nat) (h1 : KBam st) (h2 : KRts st) : False := by
  have a1 : S_SENDING_BAM ≠ S_WAITING_CTS := by decide
  have a2 : S_SENDING_BAM ≠ S_SENDING_RTS_CTS := by decide
  have a3 : S_SENDING_BAM ≠ S_WAITING_EOM_ACK := by decide
  have a4 : S_SENDING_BAM ≠ S_EOM_ACK_RECEIVED := by decide
  have a5 : S_SENDING_BAM ≠ S_FINISHED := by decide
  have b1 : S_SENDING_EOM_STATUS ≠ S_WAITING_CTS := by decide
  have b2 : S_SENDING_EOM_STATUS ≠ S_SENDING_RTS_CTS := by decide
  have b3 : S_SENDING_EOM_STATUS ≠ S_WAITING_EOM_ACK := by decide
  have b4 : S_SENDING_EOM_STATUS ≠ S_EOM_ACK_RECEIVED := by decide
  have b5 : S_SENDING_EOM_STATUS ≠ S_FINISHED := by decide
  rcases h1 with h1 | h1 <;> rcases h2 with h2 | h2 | h2 | h2 | h2 <;> rw [h1] at h2 <;> simp_all

/-- CONSERVATION INVARIANT over the send table (as a lookup function) and the two pools: every record is of one kind; a
    broadcast record sits at a key whose destination byte is 255, a connection-mode record never; the key carries the
    record's session number; the record's number is marked used in the pool of its kind; two records of one kind never
    share a number; and every used number belongs to a record of that kind -/
structure ConsF (g : Nat → Option Snd) (rp bp : List Bool) : Prop where
  rl : rp.length = 8
  bl : bp.length = 4
  kind : ∀ k b, g k = some b → KBam b.state ∨ KRts b.state
  keyB : ∀ k b, g k = some b → KBam b.state → k % 256 = 255
  keyR : ∀ k b, g k = some b → KRts b.state → k % 256 ≠ 255
  keyS : ∀ k b, g k = some b → k / 65536 % 16 = b.session
  usedB : ∀ k b, g k = some b → KBam b.state → bp[b.session]? = some false
  usedR : ∀ k b, g k = some b → KRts b.state → rp[b.session]? = some false
  injB : ∀ k k' b b', g k = some b → g k' = some b' → KBam b.state → KBam b'.state → b.session = b'.session → k = k'
  injR : ∀ k k' b b', g k = some b → g k' = some b' → KRts b.state → KRts b'.state → b.session = b'.session → k = k'
  ownB : ∀ i, bp[i]? = some false → ∃ k b, g k = some b ∧ KBam b.state ∧ b.session = i
  ownR : ∀ i, rp[i]? = some false → ∃ k b, g k = some b ∧ KRts b.state ∧ b.session = i

/-- UPDATE in place: the record at `k` is replaced by one of the same kind with the same session number -/
theorem consF_upd (g g' : Nat → Option Snd) (rp bp : List Bool) (k : Nat) (b b' : Snd) (h : ConsF g rp bp)
    (hk : g k = some b) (hg : ∀ x, g' x = if x = k then some b' else g x)
    (hs : b'.session = b.session) (hB : KBam b.state → KBam b'.state) (hR : KRts b.state → KRts b'.state) :
    ConsF g' rp bp := by
  have kb' : KBam b'.state → KBam b.state := by
    intro hb'
    rcases h.kind k b hk with hh | hh
    · exact hh
    · exact absurd hb' (fun x => kinds_disjoint _ x (hR hh))
  have kr' : KRts b'.state → KRts b.state := by
    intro hr'
    rcases h.kind k b hk with hh | hh
    · exact absurd hr' (fun x => kinds_disjoint _ (hB hh) x)
    · exact hh
  -- every record of g' corresponds to a record of g at the same key with the same kind and session
  have back : ∀ x c, g' x = some c → ∃ c0, g x = some c0 ∧ c.session = c0.session ∧ (KBam c.state → KBam c0.state) ∧
      (KRts c.state → KRts c0.state) ∧ (KBam c0.state → KBam c.state) ∧ (KRts c0.state → KRts c.state) := by
    intro x c hx
    rw [hg] at hx
    by_cases hxk : x = k
    · subst hxk
      simp only [if_true, Option.some.injEq] at hx
      subst hx
      exact ⟨b, hk, hs, kb', kr', hB, hR⟩
    · simp only [hxk, if_false] at hx
      exact ⟨c, hx, rfl, id, id, id, id⟩
  have fwd : ∀ x c0, g x = some c0 → ∃ c, g' x = some c ∧ c.session = c0.session ∧ (KBam c0.state → KBam c.state) ∧
      (KRts c0.state → KRts c.state) := by
    intro x c0 hx
    by_cases hxk : x = k
    · subst hxk
      rw [hk] at hx; cases hx
      exact ⟨b', by rw [hg]; simp, hs, hB, hR⟩
    · exact ⟨c0, by rw [hg]; simp [hxk, hx], rfl, id, id⟩
  refine ⟨h.rl, h.bl, ?_, ?_, ?_, ?_, ?_, ?_, ?_, ?_, ?_, ?_⟩
  · intro x c hx
    obtain ⟨c0, h0, _, _, _, f1, f2⟩ := back x c hx
    rcases h.kind x c0 h0 with hh | hh
    · exact Or.inl (f1 hh)
    · exact Or.inr (f2 hh)
  · intro x c hx hb
    obtain ⟨c0, h0, _, f1, _⟩ := back x c hx
    exact h.keyB x c0 h0 (f1 hb)
  · intro x c hx hr
    obtain ⟨c0, h0, _, _, f2, _⟩ := back x c hx
    exact h.keyR x c0 h0 (f2 hr)
  · intro x c hx
    obtain ⟨c0, h0, e, _⟩ := back x c hx
    rw [e]; exact h.keyS x c0 h0
  · intro x c hx hb
    obtain ⟨c0, h0, e, f1, _⟩ := back x c hx
    rw [e]; exact h.usedB x c0 h0 (f1 hb)
  · intro x c hx hr
    obtain ⟨c0, h0, e, _, f2, _⟩ := back x c hx
    rw [e]; exact h.usedR x c0 h0 (f2 hr)
  · intro x x' c c' hx hx' hb hb' hs'
    obtain ⟨c0, h0, e, f1, _⟩ := back x c hx
    obtain ⟨c0', h0', e', f1', _⟩ := back x' c' hx'
    exact h.injB x x' c0 c0' h0 h0' (f1 hb) (f1' hb') (by rw [← e, ← e']; exact hs')
  · intro x x' c c' hx hx' hr hr' hs'
    obtain ⟨c0, h0, e, _, f2, _⟩ := back x c hx
    obtain ⟨c0', h0', e', _, f2', _⟩ := back x' c' hx'
    exact h.injR x x' c0 c0' h0 h0' (f2 hr) (f2' hr') (by rw [← e, ← e']; exact hs')
  · intro i hi
    obtain ⟨x, c0, h0, hb, e⟩ := h.ownB i hi
    obtain ⟨c, hc, e', f1, _⟩ := fwd x c0 h0
    exact ⟨x, c, hc, f1 hb, by rw [e', e]⟩
  · intro i hi
    obtain ⟨x, c0, h0, hr, e⟩ := h.ownR i hi
    obtain ⟨c, hc, e', _, f2⟩ := fwd x c0 h0
    exact ⟨x, c, hc, f2 hr, by rw [e', e]⟩
/-- DELETE a broadcast record and return its number to the broadcast pool -/
theorem consF_delB (g g' : Nat → Option Snd) (rp bp bp' : List Bool) (k : Nat) (b : Snd) (h : ConsF g rp bp)
    (hk : g k = some b) (hkb : KBam b.state) (hg : ∀ x, g' x = if x = k then none else g x)
    (hl : bp'.length = bp.length) (hp : ∀ j, bp'[j]? = if j = b.session then some true else bp[j]?) :
    ConsF g' rp bp' := by
  have back : ∀ x c, g' x = some c → x ≠ k ∧ g x = some c := by
    intro x c hx
    rw [hg] at hx
    by_cases hxk : x = k
    · simp [hxk] at hx
    · simp only [hxk, if_false] at hx; exact ⟨hxk, hx⟩
  refine ⟨h.rl, by rw [hl]; exact h.bl, ?_, ?_, ?_, ?_, ?_, ?_, ?_, ?_, ?_, ?_⟩
  · intro x c hx; exact h.kind x c (back x c hx).2
  · intro x c hx; exact h.keyB x c (back x c hx).2
  · intro x c hx; exact h.keyR x c (back x c hx).2
  · intro x c hx; exact h.keyS x c (back x c hx).2
  · intro x c hx hb
    obtain ⟨hne, h0⟩ := back x c hx
    have hs : c.session ≠ b.session := fun e => hne (h.injB x k c b h0 hk hb hkb e)
    rw [hp]; simp only [hs, if_false]; exact h.usedB x c h0 hb
  · intro x c hx hr; exact h.usedR x c (back x c hx).2 hr
  · intro x x' c c' hx hx'; exact h.injB x x' c c' (back x c hx).2 (back x' c' hx').2
  · intro x x' c c' hx hx'; exact h.injR x x' c c' (back x c hx).2 (back x' c' hx').2
  · intro i hi
    rw [hp] at hi
    by_cases hib : i = b.session
    · simp [hib] at hi
    · simp only [hib, if_false] at hi
      obtain ⟨x, c, h0, hb, e⟩ := h.ownB i hi
      have hxk : x ≠ k := by
        intro e'; subst e'; rw [hk] at h0; cases h0; exact hib e.symm
      exact ⟨x, c, by rw [hg]; simp [hxk, h0], hb, e⟩
  · intro i hi
    obtain ⟨x, c, h0, hr, e⟩ := h.ownR i hi
    have hxk : x ≠ k := by
      intro e'; subst e'; rw [hk] at h0; cases h0; exact kinds_disjoint _ hkb hr
    exact ⟨x, c, by rw [hg]; simp [hxk, h0], hr, e⟩

/-- DELETE a connection-mode record and return its number to the RTS/CTS pool -/
theorem consF_delR (g g' : Nat → Option Snd) (rp rp' bp : List Bool) (k : Nat) (b : Snd) (h : ConsF g rp bp)
    (hk : g k = some b) (hkr : KRts b.state) (hg : ∀ x, g' x = if x = k then none else g x)
    (hl : rp'.length = rp.length) (hp : ∀ j, rp'[j]? = if j = b.session then some true else rp[j]?) :
    ConsF g' rp' bp := by
  have back : ∀ x c, g' x = some c → x ≠ k ∧ g x = some c := by
    intro x c hx
    rw [hg] at hx
    by_cases hxk : x = k
    · simp [hxk] at hx
    · simp only [hxk, if_false] at hx; exact ⟨hxk, hx⟩
  refine ⟨by rw [hl]; exact h.rl, h.bl, ?_, ?_, ?_, ?_, ?_, ?_, ?_, ?_, ?_, ?_⟩
  · intro x c hx; exact h.kind x c (back x c hx).2
  · intro x c hx; exact h.keyB x c (back x c hx).2
  · intro x c hx; exact h.keyR x c (back x c hx).2
  · intro x c hx; exact h.keyS x c (back x c hx).2
  · intro x c hx hb; exact h.usedB x c (back x c hx).2 hb
  · intro x c hx hr
    obtain ⟨hne, h0⟩ := back x c hx
    have hs : c.session ≠ b.session := fun e => hne (h.injR x k c b h0 hk hr hkr e)
    rw [hp]; simp only [hs, if_false]; exact h.usedR x c h0 hr
  · intro x x' c c' hx hx'; exact h.injB x x' c c' (back x c hx).2 (back x' c' hx').2
  · intro x x' c c' hx hx'; exact h.injR x x' c c' (back x c hx).2 (back x' c' hx').2
  · intro i hi
    obtain ⟨x, c, h0, hb, e⟩ := h.ownB i hi
    have hxk : x ≠ k := by
      intro e'; subst e'; rw [hk] at h0; cases h0; exact kinds_disjoint _ hb hkr
    exact ⟨x, c, by rw [hg]; simp [hxk, h0], hb, e⟩
  · intro i hi
    rw [hp] at hi
    by_cases hib : i = b.session
    · simp [hib] at hi
    · simp only [hib, if_false] at hi
      obtain ⟨x, c, h0, hr, e⟩ := h.ownR i hi
      have hxk : x ≠ k := by
        intro e'; subst e'; rw [hk] at h0; cases h0; exact hib e.symm
      exact ⟨x, c, by rw [hg]; simp [hxk, h0], hr, e⟩
/-- NEW broadcast record with a number taken from the broadcast pool -/
theorem consF_newB (g g' : Nat → Option Snd) (rp bp bp' : List Bool) (hkey i : Nat) (r : Snd) (h : ConsF g rp bp)
    (hfree : bp[i]? = some true) (hl : bp'.length = bp.length) (hp : ∀ j, bp'[j]? = if j = i then some false else bp[j]?)
    (hg : ∀ x, g' x = if x = hkey then some r else g x)
    (hrs : r.session = i) (hrk : KBam r.state) (hk1 : hkey % 256 = 255) (hk2 : hkey / 65536 % 16 = i) :
    ConsF g' rp bp' := by
  have noB : ∀ x c, g x = some c → KBam c.state → c.session ≠ i := by
    intro x c hx hb e
    have := h.usedB x c hx hb
    rw [e, hfree] at this; cases this
  have fresh : g hkey = none := by
    cases hc : g hkey with
    | none => rfl
    | some c =>
      exfalso
      rcases h.kind hkey c hc with hb | hr
      · exact noB hkey c hc hb ((h.keyS hkey c hc).symm.trans hk2)
      · exact h.keyR hkey c hc hr hk1
  have back : ∀ x c, g' x = some c → (x = hkey ∧ c = r) ∨ (x ≠ hkey ∧ g x = some c) := by
    intro x c hx
    rw [hg] at hx
    by_cases hxk : x = hkey
    · simp only [hxk, if_true, Option.some.injEq] at hx; exact Or.inl ⟨hxk, hx.symm⟩
    · simp only [hxk, if_false] at hx; exact Or.inr ⟨hxk, hx⟩
  have old : ∀ x c, g x = some c → g' x = some c := by
    intro x c hx
    have : x ≠ hkey := by intro e; rw [e, fresh] at hx; cases hx
    rw [hg]; simp [this, hx]
  refine ⟨h.rl, by rw [hl]; exact h.bl, ?_, ?_, ?_, ?_, ?_, ?_, ?_, ?_, ?_, ?_⟩
  · intro x c hx
    rcases back x c hx with ⟨_, rfl⟩ | ⟨_, h0⟩
    · exact Or.inl hrk
    · exact h.kind x c h0
  · intro x c hx hb
    rcases back x c hx with ⟨rfl, _⟩ | ⟨_, h0⟩
    · exact hk1
    · exact h.keyB x c h0 hb
  · intro x c hx hr
    rcases back x c hx with ⟨_, rfl⟩ | ⟨_, h0⟩
    · exact absurd hr (fun y => kinds_disjoint _ hrk y)
    · exact h.keyR x c h0 hr
  · intro x c hx
    rcases back x c hx with ⟨rfl, rfl⟩ | ⟨_, h0⟩
    · rw [hrs]; exact hk2
    · exact h.keyS x c h0
  · intro x c hx hb
    rcases back x c hx with ⟨_, rfl⟩ | ⟨_, h0⟩
    · rw [hp, hrs]; simp
    · rw [hp]; simp only [noB x c h0 hb, if_false]; exact h.usedB x c h0 hb
  · intro x c hx hr
    rcases back x c hx with ⟨_, rfl⟩ | ⟨_, h0⟩
    · exact absurd hr (fun y => kinds_disjoint _ hrk y)
    · exact h.usedR x c h0 hr
  · intro x x' c c' hx hx' hb hb' hs
    rcases back x c hx with ⟨e1, rfl⟩ | ⟨_, h0⟩ <;> rcases back x' c' hx' with ⟨e2, rfl⟩ | ⟨_, h0'⟩
    · rw [e1, e2]
    · exact absurd (hs.symm.trans hrs) (noB x' c' h0' hb')
    · exact absurd (hs.trans hrs) (noB x c h0 hb)
    · exact h.injB x x' c c' h0 h0' hb hb' hs
  · intro x x' c c' hx hx' hr hr' hs
    rcases back x c hx with ⟨_, rfl⟩ | ⟨_, h0⟩
    · exact absurd hr (fun y => kinds_disjoint _ hrk y)
    · rcases back x' c' hx' with ⟨_, rfl⟩ | ⟨_, h0'⟩
      · exact absurd hr' (fun y => kinds_disjoint _ hrk y)
      · exact h.injR x x' c c' h0 h0' hr hr' hs
  · intro j hj
    rw [hp] at hj
    by_cases hji : j = i
    · exact ⟨hkey, r, by rw [hg]; simp, hrk, by rw [hrs, hji]⟩
    · simp only [hji, if_false] at hj
      obtain ⟨x, c, h0, hb, e⟩ := h.ownB j hj
      exact ⟨x, c, old x c h0, hb, e⟩
  · intro j hj
    obtain ⟨x, c, h0, hr, e⟩ := h.ownR j hj
    exact ⟨x, c, old x c h0, hr, e⟩

/-- NEW connection-mode record with a number taken from the RTS/CTS pool -/
theorem consF_newR (g g' : Nat → Option Snd) (rp rp' bp : List Bool) (hkey i : Nat) (r : Snd) (h : ConsF g rp bp)
    (hfree : rp[i]? = some true) (hl : rp'.length = rp.length) (hp : ∀ j, rp'[j]? = if j = i then some false else rp[j]?)
    (hg : ∀ x, g' x = if x = hkey then some r else g x)
    (hrs : r.session = i) (hrk : KRts r.state) (hk1 : hkey % 256 ≠ 255) (hk2 : hkey / 65536 % 16 = i) :
    ConsF g' rp' bp := by
  have noR : ∀ x c, g x = some c → KRts c.state → c.session ≠ i := by
    intro x c hx hr e
    have := h.usedR x c hx hr
    rw [e, hfree] at this; cases this
  have fresh : g hkey = none := by
    cases hc : g hkey with
    | none => rfl
    | some c =>
      exfalso
      rcases h.kind hkey c hc with hb | hr
      · exact hk1 (h.keyB hkey c hc hb)
      · exact noR hkey c hc hr ((h.keyS hkey c hc).symm.trans hk2)
  have back : ∀ x c, g' x = some c → (x = hkey ∧ c = r) ∨ (x ≠ hkey ∧ g x = some c) := by
    intro x c hx
    rw [hg] at hx
    by_cases hxk : x = hkey
    · simp only [hxk, if_true, Option.some.injEq] at hx; exact Or.inl ⟨hxk, hx.symm⟩
    · simp only [hxk, if_false] at hx; exact Or.inr ⟨hxk, hx⟩
  have old : ∀ x c, g x = some c → g' x = some c := by
    intro x c hx
    have : x ≠ hkey := by intro e; rw [e, fresh] at hx; cases hx
    rw [hg]; simp [this, hx]
  refine ⟨by rw [hl]; exact h.rl, h.bl, ?_, ?_, ?_, ?_, ?_, ?_, ?_, ?_, ?_, ?_⟩
  · intro x c hx
    rcases back x c hx with ⟨_, rfl⟩ | ⟨_, h0⟩
    · exact Or.inr hrk
    · exact h.kind x c h0
  · intro x c hx hb
    rcases back x c hx with ⟨_, rfl⟩ | ⟨_, h0⟩
    · exact absurd hb (fun y => kinds_disjoint _ y hrk)
    · exact h.keyB x c h0 hb
  · intro x c hx hr
    rcases back x c hx with ⟨rfl, _⟩ | ⟨_, h0⟩
    · exact hk1
    · exact h.keyR x c h0 hr
  · intro x c hx
    rcases back x c hx with ⟨rfl, rfl⟩ | ⟨_, h0⟩
    · rw [hrs]; exact hk2
    · exact h.keyS x c h0
  · intro x c hx hb
    rcases back x c hx with ⟨_, rfl⟩ | ⟨_, h0⟩
    · exact absurd hb (fun y => kinds_disjoint _ y hrk)
    · exact h.usedB x c h0 hb
  · intro x c hx hr
    rcases back x c hx with ⟨_, rfl⟩ | ⟨_, h0⟩
    · rw [hp, hrs]; simp
    · rw [hp]; simp only [noR x c h0 hr, if_false]; exact h.usedR x c h0 hr
  · intro x x' c c' hx hx' hb hb' hs
    rcases back x c hx with ⟨_, rfl⟩ | ⟨_, h0⟩
    · exact absurd hb (fun y => kinds_disjoint _ y hrk)
    · rcases back x' c' hx' with ⟨_, rfl⟩ | ⟨_, h0'⟩
      · exact absurd hb' (fun y => kinds_disjoint _ y hrk)
      · exact h.injB x x' c c' h0 h0' hb hb' hs
  · intro x x' c c' hx hx' hr hr' hs
    rcases back x c hx with ⟨e1, rfl⟩ | ⟨_, h0⟩ <;> rcases back x' c' hx' with ⟨e2, rfl⟩ | ⟨_, h0'⟩
    · rw [e1, e2]
    · exact absurd (hs.symm.trans hrs) (noR x' c' h0' hr')
    · exact absurd (hs.trans hrs) (noR x c h0 hr)
    · exact h.injR x x' c c' h0 h0' hr hr' hs
  · intro j hj
    obtain ⟨x, c, h0, hb, e⟩ := h.ownB j hj
    exact ⟨x, c, old x c h0, hb, e⟩
  · intro j hj
    rw [hp] at hj
    by_cases hji : j = i
    · exact ⟨hkey, r, by rw [hg]; simp, hrk, by rw [hrs, hji]⟩
    · simp only [hji, if_false] at hj
      obtain ⟨x, c, h0, hr, e⟩ := h.ownR j hj
      exact ⟨x, c, old x c h0, hr, e⟩
/-! ### the model's operations as the three abstract transitions -/

def Cons (s : St) : Prop := ConsF s.snd.get? s.rtsPool s.bamPool

theorem set_fn (d : PyDict Snd) (k : Nat) (v : Snd) (x : Nat) : (d.set k v).get? x = if x = k then some v else d.get? x := by
  by_cases h : x = k
  · subst h; simp [PyDict.get?_set_self]
  · simp [h, PyDict.get?_set_ne _ _ _ _ h]

theorem erase_fn (d : PyDict Snd) (k : Nat) (x : Nat) : (d.erase k).get? x = if x = k then none else d.get? x := by
  by_cases h : x = k
  · subst h; simp [PyDict.get?_erase_self]
  · simp [h, PyDict.get?_erase_ne _ _ _ h]

theorem poolPut_spec (p p' : List Bool) (i : Nat) (h : poolPut p i = some p') :
    p'.length = p.length ∧ ∀ j, p'[j]? = if j = i then some true else p[j]? := by
  unfold poolPut at h
  split at h
  · rename_i hi
    cases h
    refine ⟨by simp, ?_⟩
    intro j
    by_cases hj : j = i
    · subst hj; simp [hi]
    · simp only [hj, if_false]
      rw [List.getElem?_set_ne (Ne.symm hj)]
  · cases h

theorem poolGet_spec (p p' : List Bool) (i : Nat) (h : poolGet p = some (i, p')) :
    p[i]? = some true ∧ p'.length = p.length ∧ ∀ j, p'[j]? = if j = i then some false else p[j]? := by
  obtain ⟨h1, h2, h3⟩ := J1939.Props.C02.poolGet_some p i p' h
  refine ⟨h1, h3, ?_⟩
  intro j
  have hi : i < p.length := by
    rcases Nat.lt_or_ge i p.length with hh | hh
    · exact hh
    · rw [List.getElem?_eq_none hh] at h1; cases h1
  rw [h2]
  by_cases hj : j = i
  · subst hj; simp [hi]
  · simp only [hj, if_false]
    rw [List.getElem?_set_ne (Ne.symm hj)]

theorem hash_low (s a d : Nat) : Tp22.buffer_hash s a d % 256 = d % 256 := by
  unfold Tp22.buffer_hash
  rw [Bits.and_15, Bits.and_255, Bits.and_255, Bits.shl_16, Bits.shl_8]
  have h1 : s % 16 * 65536 ||| a % 256 * 256 = s % 16 * 65536 + a % 256 * 256 := by
    have := Bits.mul_or (s % 16) (a % 256 * 256) 16 (by simp only [Nat.reducePow]; omega); simpa using this
  rw [h1]
  have h2 : (s % 16 * 65536 + a % 256 * 256) ||| d % 256 = s % 16 * 65536 + a % 256 * 256 + d % 256 := by
    have e : s % 16 * 65536 + a % 256 * 256 = (s % 16 * 256 + a % 256) * 2 ^ 8 := by simp only [Nat.reducePow]; omega
    rw [e]
    exact Bits.mul_or _ (d % 256) 8 (by simp only [Nat.reducePow]; omega)
  rw [h2]; omega

theorem hash_session (s a d : Nat) : Tp22.buffer_hash s a d / 65536 % 16 = s % 16 := by
  unfold Tp22.buffer_hash
  rw [Bits.and_15, Bits.and_255, Bits.and_255, Bits.shl_16, Bits.shl_8]
  have h1 : s % 16 * 65536 ||| a % 256 * 256 = s % 16 * 65536 + a % 256 * 256 := by
    have := Bits.mul_or (s % 16) (a % 256 * 256) 16 (by simp only [Nat.reducePow]; omega); simpa using this
  rw [h1]
  have h2 : (s % 16 * 65536 + a % 256 * 256) ||| d % 256 = s % 16 * 65536 + a % 256 * 256 + d % 256 := by
    have e : s % 16 * 65536 + a % 256 * 256 = (s % 16 * 256 + a % 256) * 2 ^ 8 := by simp only [Nat.reducePow]; omega
    rw [e]
    exact Bits.mul_or _ (d % 256) 8 (by simp only [Nat.reducePow]; omega)
  rw [h2]; omega
/-- `send_pgn` (any arguments with a one-byte PS; accepted or refused; short, multi-PG or long) -/
theorem sendPgn_cons (cfg : Cfg) (s : St) (now dp pf ps prio sa : Nat) (data : List Nat) (tl ff : Nat) (hps : ps < 256)
    (h : Cons s) : Cons (sendPgn cfg s now dp pf ps prio sa data tl ff).1.st := by
  unfold sendPgn
  dsimp only
  split
  · -- at most 60 bytes: neither the send table nor a pool is touched
    (repeat' split) <;> exact h
  · by_cases hb : (ps == Const.Addr.GLOBAL || PGN.is_pdu2_format (PGN.ofFields 0 pf ps)) = true
    · simp only [hb, if_true]
      cases hg : poolGet s.bamPool with
      | none => exact h
      | some r =>
        obtain ⟨i, pool⟩ := r
        obtain ⟨g1, g2, g3⟩ := poolGet_spec _ _ _ hg
        have hi : i < 4 := by
          rcases Nat.lt_or_ge i s.bamPool.length with hh | hh
          · rw [h.bl] at hh; exact hh
          · rw [List.getElem?_eq_none hh] at g1; cases g1
        simp only
        refine consF_newB s.snd.get? _ s.rtsPool s.bamPool pool (Tp22.buffer_hash i sa Const.Addr.GLOBAL) i _ h g1 g2 g3
          (fun x => set_fn _ _ _ x) rfl (Or.inl rfl) ?_ ?_
        · rw [hash_low]; rfl
        · rw [hash_session]; omega
    · have hb' : (ps == Const.Addr.GLOBAL || PGN.is_pdu2_format (PGN.ofFields 0 pf ps)) = false := by
        cases hh : (ps == Const.Addr.GLOBAL || PGN.is_pdu2_format (PGN.ofFields 0 pf ps)) with
        | false => rfl
        | true => exact absurd hh hb
      have hne : ps ≠ 255 := by
        have hG : Const.Addr.GLOBAL = 255 := rfl
        intro e; simp [e, hG] at hb'
      simp only [hb', Bool.false_eq_true, if_false]
      cases hg : poolGet s.rtsPool with
      | none => exact h
      | some r =>
        obtain ⟨i, pool⟩ := r
        obtain ⟨g1, g2, g3⟩ := poolGet_spec _ _ _ hg
        have hi : i < 8 := by
          rcases Nat.lt_or_ge i s.rtsPool.length with hh | hh
          · rw [h.rl] at hh; exact hh
          · rw [List.getElem?_eq_none hh] at g1; cases g1
        simp only
        refine consF_newR s.snd.get? _ s.rtsPool pool s.bamPool (Tp22.buffer_hash i sa ps) i _ h g1 g2 g3
          (fun x => set_fn _ _ _ x) rfl (Or.inl rfl) ?_ ?_
        · rw [hash_low]; omega
        · rw [hash_session]; omega
/-- a record at a key whose destination byte is not 255 is replaced by a connection-mode record with the same number -/
theorem cons_upd_rts (s : St) (k : Nat) (b b' : Snd) (h : Cons s) (hk : s.snd.get? k = some b) (hlow : k % 256 ≠ 255)
    (hs : b'.session = b.session) (hr : KRts b'.state) : Cons { s with snd := s.snd.set k b' } := by
  have nb : ¬ KBam b.state := fun hb => hlow (h.keyB k b hk hb)
  exact consF_upd s.snd.get? _ s.rtsPool s.bamPool k b b' h hk (fun x => set_fn _ _ _ x) hs (fun hb => absurd hb nb) (fun _ => hr)

/-- a record is replaced by one with the same state and number -/
theorem cons_upd_same (s : St) (k : Nat) (b b' : Snd) (h : Cons s) (hk : s.snd.get? k = some b)
    (hs : b'.session = b.session) (hst : b'.state = b.state) : Cons { s with snd := s.snd.set k b' } :=
  consF_upd s.snd.get? _ s.rtsPool s.bamPool k b b' h hk (fun x => set_fn _ _ _ x) hs (fun hb => by rw [hst]; exact hb)
    (fun hr => by rw [hst]; exact hr)

theorem krts_sending : KRts S_SENDING_RTS_CTS := Or.inr (Or.inl rfl)
theorem krts_ackrcvd : KRts S_EOM_ACK_RECEIVED := Or.inr (Or.inr (Or.inr (Or.inl rfl)))
theorem krts_finished : KRts S_FINISHED := Or.inr (Or.inr (Or.inr (Or.inr rfl)))

/-- EVERY FD.TP.CM frame (any content, from any one-byte source address) keeps the invariant — this is where the
    repair of D29 is needed: a frame from source 255 would reach a broadcast record -/
theorem processCm_cons (cfg : Cfg) (s : St) (now : Nat) (mid : MessageId) (dest : Nat) (data : List Nat)
    (hsa : mid.source_address < 256) (h : Cons s) : Cons (processCm cfg s now mid dest data).st := by
  unfold processCm
  dsimp only
  split
  · exact h
  · split
    · exact h
    · rename_i hsrc
      have hne : mid.source_address ≠ 255 := by
        have hG : Const.Addr.GLOBAL = 255 := rfl
        intro e; apply hsrc; simp [e, hG]
      have hlow : ∀ sess, Tp22.buffer_hash sess dest mid.source_address % 256 ≠ 255 := by
        intro sess; rw [hash_low]; omega
      (repeat' split) <;> first
        | exact h
        | exact cons_upd_same s _ _ _ h (by assumption) (by rfl) (by rfl)
        | exact cons_upd_rts s _ _ _ h (by assumption) (hlow _) (by rfl) krts_sending
        | exact cons_upd_rts s _ _ _ h (by assumption) (hlow _) (by rfl) krts_ackrcvd
        | exact cons_upd_rts s _ _ _ h (by assumption) (hlow _) (by rfl) krts_finished

theorem processDt_cons (s : St) (now : Nat) (mid : MessageId) (dest : Nat) (data : List Nat) (h : Cons s) :
    Cons (processDt s now mid dest data).st := by
  unfold processDt
  dsimp only
  (repeat' split) <;> exact h

/-- EVERY received frame keeps the invariant -/
theorem notify_cons (cfg : Cfg) (s : St) (now : Nat) (acc : Nat → Bool) (canId : Nat) (data : List Nat) (h : Cons s) :
    Cons (notify cfg s now acc canId data).st := by
  have hsa : (MessageId.ofCanId canId).source_address < 256 := (J1939.Lemmas.ofCanId_wf canId).2.2
  unfold notify
  dsimp only
  (repeat' split) <;> first
    | exact h
    | exact processCm_cons _ _ _ _ _ _ hsa h
    | exact processDt_cons _ _ _ _ _ h
theorem krts_waiting : KRts S_WAITING_CTS := Or.inl rfl
theorem krts_waitack : KRts S_WAITING_EOM_ACK := Or.inr (Or.inr (Or.inl rfl))

theorem sendWindow_kind (cfg : Cfg) (now : Nat) (fuel : Nat) (b : Snd) (o : List Out) (hk : KRts b.state) :
    (sendWindow cfg now fuel b o).1.session = b.session ∧ KRts (sendWindow cfg now fuel b o).1.state := by
  induction fuel generalizing b o with
  | zero => exact ⟨rfl, hk⟩
  | succ fuel ih =>
    unfold sendWindow
    dsimp only
    (repeat' split) <;> first
      | exact ⟨rfl, hk⟩
      | exact ⟨rfl, krts_waitack⟩
      | exact ⟨rfl, krts_waiting⟩
      | exact ih _ _ hk

/-- what one pass does to one record: it stays (same kind, same number, nothing released), or it is deleted without an
    exception and its number goes back to the pool of ITS kind -/
theorem tickSndOne_shape (cfg : Cfg) (now : Nat) (buf : Snd) (hk : KBam buf.state ∨ KRts buf.state) :
    (∃ b', (tickSndOne cfg now buf).1 = some b' ∧ b'.session = buf.session ∧ (KBam buf.state → KBam b'.state) ∧
        (KRts buf.state → KRts b'.state) ∧ (tickSndOne cfg now buf).2.2.2.2 = .none) ∨
    ((tickSndOne cfg now buf).1 = none ∧ (tickSndOne cfg now buf).2.2.1 = none ∧
        (tickSndOne cfg now buf).2.2.2.2 = .rts buf.session ∧ KRts buf.state) ∨
    ((tickSndOne cfg now buf).1 = none ∧ (tickSndOne cfg now buf).2.2.1 = none ∧
        (tickSndOne cfg now buf).2.2.2.2 = .bam buf.session ∧ KBam buf.state) := by
  by_cases h0 : (buf.deadline != 0) = true
  · by_cases h1 : buf.deadline > now
    · have key : tickSndOne cfg now buf = (some buf, [], none, some buf.deadline, .none) := by
        unfold tickSndOne; simp only [h0, if_true, h1]
      rw [key]; exact Or.inl ⟨buf, rfl, rfl, id, id, rfl⟩
    · have n12 : (S_SENDING_RTS_CTS == S_WAITING_CTS) = false := by decide
      have n13 : (S_WAITING_EOM_ACK == S_WAITING_CTS) = false := by decide
      have n23 : (S_WAITING_EOM_ACK == S_SENDING_RTS_CTS) = false := by decide
      have n14 : (S_EOM_ACK_RECEIVED == S_WAITING_CTS) = false := by decide
      have n24 : (S_EOM_ACK_RECEIVED == S_SENDING_RTS_CTS) = false := by decide
      have n34 : (S_EOM_ACK_RECEIVED == S_WAITING_EOM_ACK) = false := by decide
      have n15 : (S_SENDING_BAM == S_WAITING_CTS) = false := by decide
      have n25 : (S_SENDING_BAM == S_SENDING_RTS_CTS) = false := by decide
      have n35 : (S_SENDING_BAM == S_WAITING_EOM_ACK) = false := by decide
      have n45 : (S_SENDING_BAM == S_EOM_ACK_RECEIVED) = false := by decide
      have n16 : (S_SENDING_EOM_STATUS == S_WAITING_CTS) = false := by decide
      have n26 : (S_SENDING_EOM_STATUS == S_SENDING_RTS_CTS) = false := by decide
      have n36 : (S_SENDING_EOM_STATUS == S_WAITING_EOM_ACK) = false := by decide
      have n46 : (S_SENDING_EOM_STATUS == S_EOM_ACK_RECEIVED) = false := by decide
      have n56 : (S_SENDING_EOM_STATUS == S_SENDING_BAM) = false := by decide
      have n17 : (S_FINISHED == S_WAITING_CTS) = false := by decide
      have n27 : (S_FINISHED == S_SENDING_RTS_CTS) = false := by decide
      have n37 : (S_FINISHED == S_WAITING_EOM_ACK) = false := by decide
      have n47 : (S_FINISHED == S_EOM_ACK_RECEIVED) = false := by decide
      have n57 : (S_FINISHED == S_SENDING_BAM) = false := by decide
      have n67 : (S_FINISHED == S_SENDING_EOM_STATUS) = false := by decide
      rcases hk with hb | hr
      · rcases hb with hs | hs
        · -- SENDING_BAM: one more segment, the record stays (possibly as SENDING_EOM_STATUS)
          have hkb : KBam buf.state := Or.inl hs
          have nr : ∀ st, KRts buf.state → KRts st := fun _ hr => absurd hr (fun y => kinds_disjoint _ hkb y)
          left
          generalize hr : tickSndOne cfg now buf = r
          unfold tickSndOne at hr
          simp only [h0, if_true, h1, if_false, hs, n15, n25, n35, n45, Bool.false_eq_true, beq_self_eq_true] at hr
          split at hr
          · subst hr; exact ⟨buf, rfl, rfl, id, id, rfl⟩
          · split at hr
            · subst hr; exact ⟨_, rfl, rfl, fun _ => Or.inl rfl, nr _, rfl⟩
            · subst hr; exact ⟨_, rfl, rfl, fun _ => Or.inr rfl, nr _, rfl⟩
        · have key : tickSndOne cfg now buf = (none, [.tx (Tp22.eom_status buf.src buf.dest buf.session buf.messageSize
              buf.numSegments buf.pgn 0 0)], none, none, .bam buf.session) := by
            unfold tickSndOne
            simp only [h0, if_true, h1, if_false, hs, n16, n26, n36, n46, n56, Bool.false_eq_true, beq_self_eq_true]
          rw [key]; exact Or.inr (Or.inr ⟨rfl, rfl, rfl, Or.inr hs⟩)
      · have hkr : KRts buf.state := hr
        rcases hr with hs | hs | hs | hs | hs
        · have key : tickSndOne cfg now buf = (none, [.tx (Tp22.abort buf.src buf.dest buf.session Const.Abort22.TIMEOUT buf.pgn)],
              none, none, .rts buf.session) := by
            unfold tickSndOne
            simp only [h0, if_true, h1, if_false, hs, beq_self_eq_true]
          rw [key]; exact Or.inr (Or.inl ⟨rfl, rfl, rfl, hkr⟩)
        · -- SENDING_RTS_CTS: the window loop, the record stays in a connection-mode state
          have nb : ∀ st, KBam buf.state → KBam st := fun _ hb => absurd hkr (fun y => kinds_disjoint _ hb y)
          left
          generalize hr : tickSndOne cfg now buf = r
          unfold tickSndOne at hr
          simp only [h0, if_true, h1, if_false, hs, n12, Bool.false_eq_true, beq_self_eq_true] at hr
          generalize hf : (if buf.next < (buf.numSegments : Int) then (↑buf.numSegments - buf.next).toNat + 1 else 1) = fuel at hr
          obtain ⟨w1, w2⟩ := sendWindow_kind cfg now fuel buf [] hkr
          split at hr
          · subst hr; exact ⟨_, rfl, w1, nb _, fun _ => krts_waiting, rfl⟩
          · subst hr; exact ⟨_, rfl, w1, nb _, fun _ => w2, rfl⟩
        · have key : tickSndOne cfg now buf = (none, [], none, none, .rts buf.session) := by
            unfold tickSndOne
            simp only [h0, if_true, h1, if_false, hs, n13, n23, Bool.false_eq_true, beq_self_eq_true]
          rw [key]; exact Or.inr (Or.inl ⟨rfl, rfl, rfl, hkr⟩)
        · have key : tickSndOne cfg now buf = (none, [], none, none, .rts buf.session) := by
            unfold tickSndOne
            simp only [h0, if_true, h1, if_false, hs, n14, n24, n34, Bool.false_eq_true, beq_self_eq_true]
          rw [key]; exact Or.inr (Or.inl ⟨rfl, rfl, rfl, hkr⟩)
        · have key : tickSndOne cfg now buf = (none, [], none, none, .rts buf.session) := by
            unfold tickSndOne
            simp only [h0, if_true, h1, if_false, hs, n17, n27, n37, n47, n57, n67, Bool.false_eq_true, beq_self_eq_true]
          rw [key]; exact Or.inr (Or.inl ⟨rfl, rfl, rfl, hkr⟩)
  · have h0' : (buf.deadline != 0) = false := by
      cases hh : (buf.deadline != 0) with
      | false => rfl
      | true => exact absurd hh h0
    have key : tickSndOne cfg now buf = (some buf, [], none, none, .none) := by
      unfold tickSndOne; simp only [h0', Bool.false_eq_true, if_false]
    rw [key]; exact Or.inl ⟨buf, rfl, rfl, id, id, rfl⟩
theorem poolPut_of_used (p : List Bool) (i : Nat) (h : p[i]? = some false) : ∃ p', poolPut p i = some p' := by
  have hi : i < p.length := by
    rcases Nat.lt_or_ge i p.length with hh | hh
    · exact hh
    · rw [List.getElem?_eq_none hh] at h; cases h
  exact ⟨p.set i true, by simp [poolPut, hi]⟩

/-- the send-table part of a background pass (any snapshot of keys) keeps the invariant -/
theorem tickSnd_cons (cfg : Cfg) (now : Nat) (ks : List Nat) (s : St) (nw : Nat) (o : List Out) (h : Cons s) :
    Cons (tickSnd cfg now ks s nw o).1 := by
  induction ks generalizing s nw o with
  | nil => exact h
  | cons k ks ih =>
    unfold tickSnd
    cases hg : s.snd.get? k with
    | none => exact h
    | some buf =>
      simp only
      rcases tickSndOne_shape cfg now buf (h.kind k buf hg) with ⟨b', e1, e2, e3, e4, e5⟩ | ⟨e1, e2, e3, e4⟩ | ⟨e1, e2, e3, e4⟩
      · have hs1 : Cons (sndApply s k (some b')) :=
          consF_upd s.snd.get? _ s.rtsPool s.bamPool k buf b' h hg (fun x => set_fn _ _ _ x) e2 e3 e4
        rw [e1, e5]
        cases herr : (tickSndOne cfg now buf).2.2.1 with
        | some err => exact hs1
        | none => simp only [release]; exact ih _ _ _ hs1
      · obtain ⟨p', hp'⟩ := poolPut_of_used s.rtsPool buf.session (h.usedR k buf hg e4)
        obtain ⟨q1, q2⟩ := poolPut_spec _ _ _ hp'
        have hs2 : Cons { (sndApply s k none) with rtsPool := p' } :=
          consF_delR s.snd.get? _ s.rtsPool p' s.bamPool k buf h hg e4 (fun x => erase_fn _ _ x) q1 q2
        rw [e1, e2, e3]
        have : release (sndApply s k none) (.rts buf.session) = some { (sndApply s k none) with rtsPool := p' } := by
          simp only [release, sndApply, hp', Option.map_some]
        simp only [this]
        exact ih _ _ _ hs2
      · obtain ⟨p', hp'⟩ := poolPut_of_used s.bamPool buf.session (h.usedB k buf hg e4)
        obtain ⟨q1, q2⟩ := poolPut_spec _ _ _ hp'
        have hs2 : Cons { (sndApply s k none) with bamPool := p' } :=
          consF_delB s.snd.get? _ s.rtsPool s.bamPool p' k buf h hg e4 (fun x => erase_fn _ _ x) q1 q2
        rw [e1, e2, e3]
        have : release (sndApply s k none) (.bam buf.session) = some { (sndApply s k none) with bamPool := p' } := by
          simp only [release, sndApply, hp', Option.map_some]
        simp only [this]
        exact ih _ _ _ hs2

theorem tickRcv_keeps (now : Nat) (ks : List Nat) (s : St) (nw : Nat) (o : List Out) :
    (tickRcv now ks s nw o).1.snd = s.snd ∧ (tickRcv now ks s nw o).1.rtsPool = s.rtsPool ∧
    (tickRcv now ks s nw o).1.bamPool = s.bamPool := by
  induction ks generalizing s nw o with
  | nil => exact ⟨rfl, rfl, rfl⟩
  | cons k ks ih =>
    unfold tickRcv
    cases hg : s.rcv.get? k with
    | none => exact ih _ _ _
    | some buf =>
      simp only
      split
      · exact ih _ _ _
      · obtain ⟨a, b, c⟩ := ih { s with rcv := s.rcv.erase k } (match (tickRcvOne now buf).2.2 with | some d => if nw > d then d else nw | none => nw)
          (o ++ (tickRcvOne now buf).2.1)
        exact ⟨a, b, c⟩

theorem tickMpg_keeps (now : Nat) (ks : List Nat) (s : St) (nw : Nat) (o : List Out) :
    (tickMpg now ks s nw o).1.snd = s.snd ∧ (tickMpg now ks s nw o).1.rtsPool = s.rtsPool ∧
    (tickMpg now ks s nw o).1.bamPool = s.bamPool := by
  induction ks generalizing s nw o with
  | nil => exact ⟨rfl, rfl, rfl⟩
  | cons k ks ih =>
    unfold tickMpg
    cases hg : s.mpg.get? k with
    | none => exact ⟨rfl, rfl, rfl⟩
    | some buf =>
      simp only
      split
      · exact ih _ _ _
      · split
        · exact ⟨rfl, rfl, rfl⟩
        · obtain ⟨a, b, c⟩ := ih { s with mpg := s.mpg.erase k } nw (o ++ [.tx ‹Frame›])
          exact ⟨a, b, c⟩

theorem cons_of_eq (s s' : St) (h : Cons s) (e1 : s'.snd = s.snd) (e2 : s'.rtsPool = s.rtsPool) (e3 : s'.bamPool = s.bamPool) :
    Cons s' := by
  unfold Cons at *; rw [e1, e2, e3]; exact h

/-- a whole background pass keeps the invariant -/
theorem tick_cons (cfg : Cfg) (s : St) (now : Nat) (h : Cons s) : Cons (tick cfg s now).1.st := by
  unfold tick
  simp only
  obtain ⟨a1, a2, a3⟩ := tickRcv_keeps now s.rcv.keys s (now + Const.Ecu.idle_wakeup) []
  have h1 : Cons (tickRcv now s.rcv.keys s (now + Const.Ecu.idle_wakeup) []).1 := cons_of_eq _ _ h a1 a2 a3
  generalize tickRcv now s.rcv.keys s (now + Const.Ecu.idle_wakeup) [] = r1 at h1
  obtain ⟨s1, nw1, o1, e1⟩ := r1
  simp only at h1 ⊢
  cases e1 with
  | some e => exact h1
  | none =>
    simp only
    obtain ⟨b1, b2, b3⟩ := tickMpg_keeps now s1.mpg.keys s1 nw1 o1
    have h2 : Cons (tickMpg now s1.mpg.keys s1 nw1 o1).1 := cons_of_eq _ _ h1 b1 b2 b3
    generalize tickMpg now s1.mpg.keys s1 nw1 o1 = r2 at h2
    obtain ⟨s2, nw2, o2, e2⟩ := r2
    simp only at h2 ⊢
    cases e2 with
    | some e => exact h2
    | none =>
      simp only
      have h3 := tickSnd_cons cfg now s2.snd.keys s2 nw2 o2 h2
      generalize tickSnd cfg now s2.snd.keys s2 nw2 o2 = r3 at h3
      obtain ⟨s3, nw3, o3, e3⟩ := r3
      exact h3

end J1939.Dll22
