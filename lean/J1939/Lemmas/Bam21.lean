/-
  J1939-21 broadcast (BAM) from end to end: the originator's passes, the wire, any receiver.
  Helper lemmas; the property statements are in Props/C01.lean.
-/
import J1939.Lemmas.Trace21
import J1939.Lemmas.Const21
import J1939.Props.C03
import J1939.Props.C15
namespace J1939.Dll21
open J1939 J1939.Gen J1939.Lemmas

theorem mask_cm : ∀ da, da < 256 → (60416 + da) &&& 130816 = 60416 := by decide +kernel
theorem mask_dt : ∀ da, da < 256 → (60160 + da) &&& 130816 = 60160 := by decide +kernel

theorem npv_cm (da : Nat) (h : da < 256) :
    Tp21.notify_pgn_value { data_page := 0, pdu_format := 236, pdu_specific := da } = 60416 := by
  have hv : PGN.value { data_page := 0, pdu_format := 236, pdu_specific := da } = 60416 + da := by
    rw [pgn_value_arith _ (by simp only [PGN.WF]; omega)]; simp only
  rw [Tp21.notify_pgn_value, hv]; exact mask_cm da h

theorem npv_dt (da : Nat) (h : da < 256) :
    Tp21.notify_pgn_value { data_page := 0, pdu_format := 235, pdu_specific := da } = 60160 := by
  have hv : PGN.value { data_page := 0, pdu_format := 235, pdu_specific := da } = 60160 + da := by
    rw [pgn_value_arith _ (by simp only [PGN.WF]; omega)]; simp only
  rw [Tp21.notify_pgn_value, hv]; exact mask_dt da h

theorem notify_tp_cm (cfg : Cfg) (s : St) (now : Nat) (acc : Nat → Bool) (canId da : Nat) (data : List Nat)
    (h : PGN.from_message_id (MessageId.ofCanId canId) = { data_page := 0, pdu_format := 236, pdu_specific := da })
    (hda : da < 256) (hacc : da = 255 ∨ acc da = true) :
    notify cfg s now acc canId data = processCm cfg s now (MessageId.ofCanId canId) da data := by
  have hacc' : (da != Const.Addr.GLOBAL && !acc da) = false := by
    rcases hacc with hg | ha
    · simp [hg]
    · simp [ha]
  unfold notify
  simp only [h, hacc', npv_cm da hda]
  rfl

theorem notify_tp_dt (cfg : Cfg) (s : St) (now : Nat) (acc : Nat → Bool) (canId da : Nat) (data : List Nat)
    (h : PGN.from_message_id (MessageId.ofCanId canId) = { data_page := 0, pdu_format := 235, pdu_specific := da })
    (hda : da < 256) (hacc : da = 255 ∨ acc da = true) :
    notify cfg s now acc canId data = processDt s now (MessageId.ofCanId canId) da data := by
  have hacc' : (da != Const.Addr.GLOBAL && !acc da) = false := by
    rcases hacc with hg | ha
    · simp [hg]
    · simp [ha]
  unfold notify
  simp only [h, hacc', npv_dt da hda]
  rfl

/-! ### BAM end to end -/

/-- successive background passes over ONE broadcast record, at the given times; the frames put on the bus and the
    record left (none = deleted) -/
def bamRun (cfg : Cfg) : List Nat → Snd → List Out × Option Snd
  | [], b => ([], some b)
  | t :: ts, b =>
    let r := tickSndOne cfg t b
    match r.1 with
    | none => (r.2.1, none)
    | some b' => let q := bamRun cfg ts b'; (r.2.1 ++ q.1, q.2)

/-- every pass of the list finds the record due: the first at/after `d`, each next one at/after the previous pass plus
    the configured interval (what the wake-up computation of C11 arranges) -/
def Due (cfg : Cfg) : Nat → List Nat → Prop
  | _, [] => True
  | d, t :: ts => d ≠ 0 ∧ d ≤ t ∧ Due cfg (t + cfg.bamInterval) ts

/-- one due pass over a broadcast record, exactly -/
theorem tickSndOne_bm (cfg : Cfg) (t : Nat) (b : Snd) (hs : b.state = S_SENDING_BM) (hd0 : b.deadline ≠ 0) (hdt : b.deadline ≤ t) :
    tickSndOne cfg t b =
      if b.next + 1 < b.numPackages then
        (some { b with next := b.next + 1, deadline := t + cfg.bamInterval }, [.tx (Tp21.dt b.src b.dest (chunk b.data b.next))], none,
          some (t + cfg.bamInterval))
      else (none, [.tx (Tp21.dt b.src b.dest (chunk b.data b.next))], none, none) := by
  have e1 : (b.deadline != 0) = true := by simpa using hd0
  have e2 : ¬ b.deadline > t := by omega
  unfold tickSndOne
  simp only [e1, if_true, e2, if_false, hs, s_bm_def, s_waiting_def, s_sending_def, beq_iff_eq, s21_sending_bm_ne_waiting_cts,
    s21_sending_bm_ne_sending_in_cts]

/-- ORIGINATOR, broadcast: `m` due passes over a record with `m` packets left emit exactly the TP.DT frames of those
    packets, one per pass, in order, and the last pass deletes the record -/
theorem bamRun_frames (cfg : Cfg) (m : Nat) (times : List Nat) (b : Snd) (ht : times.length = m) (hm : 0 < m)
    (hs : b.state = S_SENDING_BM) (hn : b.next + m = b.numPackages) (hdue : Due cfg b.deadline times) :
    bamRun cfg times b = ((List.range' b.next m).map (fun k => Out.tx (Tp21.dt b.src b.dest (chunk b.data k))), none) := by
  induction m generalizing times b with
  | zero => omega
  | succ m ih =>
    obtain ⟨t, times, rfl⟩ : ∃ t ts, times = t :: ts := by
      cases times with
      | nil => simp at ht
      | cons t ts => exact ⟨t, ts, rfl⟩
    simp only [List.length_cons, Nat.add_right_cancel_iff] at ht
    obtain ⟨hd0, hdt, hrest⟩ := hdue
    have h1 := tickSndOne_bm cfg t b hs hd0 hdt
    by_cases hlast : m = 0
    · subst hlast
      have e3 : ¬ b.next + 1 < b.numPackages := by omega
      simp only [e3, if_false] at h1
      simp [bamRun, h1, List.range'_succ]
    · have e3 : b.next + 1 < b.numPackages := by omega
      simp only [e3, if_true] at h1
      have := ih times { b with next := b.next + 1, deadline := t + cfg.bamInterval } ht (by omega) hs (by simp only; omega) hrest
      simp only [bamRun, h1, this, List.range'_succ, List.map_cons, List.singleton_append]

/-- DECODING a BAM announcement of the stack: control byte, size, packet count and PGN read back exactly -/
theorem decode_bam (sa prio pgnv size n : Nat) (hs : size < 65536) (hn : n < 256) (hp : pgnv < 16777216) :
    let d := (Tp21.bam sa prio pgnv size n).data
    Tp21.cm_control d = 32 ∧ Tp21.bam_size d = size ∧ Tp21.bam_packets d = n ∧ Tp21.cm_pgn d = pgnv ∧ d.length = 8 := by
  intro d
  have hd : d = Ref.tpBam size n pgnv := (J1939.Props.C03.c03_cm_ref sa 0 prio size n 0 pgnv).2.2
  obtain ⟨_, h2, h3, _, h5, _⟩ := J1939.Props.C03.c03_decode_rts size n 255 pgnv hs hn (by omega) hp
  rw [hd]
  exact ⟨rfl, h2, h3, h5, rfl⟩


/-- what the receive path makes of the identifier of a TP frame (PF 236 = TP.CM, 235 = TP.DT) built by the stack -/
theorem tp_id_parse (prio pf da sa : Nat) (hp : prio < 8) (hpf : pf < 240) (hda : da < 256) (hsa : sa < 256) :
    let mid := MessageId.ofCanId (MessageId.can_id (MessageId.ofFields prio (PGN.value (PGN.ofFields 0 pf da)) sa))
    mid.source_address = sa ∧ mid.priority = prio ∧
    PGN.from_message_id mid = { data_page := 0, pdu_format := pf, pdu_specific := da } := by
  intro mid
  have hv : PGN.value (PGN.ofFields 0 pf da) = pf * 256 + da := by
    rw [pgn_value_arith _ (pgn_ofFields_wf _ _ _), pgn_ofFields_eq]; simp only; omega
  have hm : mid = { source_address := sa, parameter_group_number := pf * 256 + da, priority := prio } := by
    simp only [mid]
    rw [J1939.Props.C15.c15_id_parse_compose, hv, ofFields_eq]
    simp only [MessageId.mk.injEq]; refine ⟨?_, ?_, ?_⟩ <;> omega
  rw [hm]
  refine ⟨rfl, rfl, ?_⟩
  rw [pgn_from_mid_eq]
  simp only [PGN.mk.injEq]; refine ⟨?_, ?_, ?_⟩ <;> omega

/-- RESPONDER, announcement: a BAM frame of the stack (any state of the receiver, any acceptance filter) delivers
    nothing, raises nothing and leaves a receive record for (sender, 255) with the announced size and PGN and no data -/
theorem rx_bam (cfg : Cfg) (s : St) (now : Nat) (acc : Nat → Bool) (sa prio pgnv size n : Nat)
    (hsa : sa < 256) (hp : prio < 8) (hs : size < 65536) (hn : n < 256) (hpg : pgnv < 16777216) :
    let r := notify cfg s now acc (Tp21.bam sa prio pgnv size n).id (Tp21.bam sa prio pgnv size n).data
    deliveries r.outs = [] ∧ r.err = none ∧
    ∃ rc, r.st.rcv.get? (Tp21.buffer_hash sa 255) = some rc ∧ rc.messageSize = size ∧ rc.data = [] ∧ rc.pgn = pgnv := by
  intro r
  obtain ⟨h1, h2, h3⟩ := tp_id_parse prio 236 255 sa hp (by omega) (by omega) hsa
  obtain ⟨d1, d2, d3, d4, d5⟩ := decode_bam sa prio pgnv size n hs hn hpg
  have hid : (Tp21.bam sa prio pgnv size n).id =
      MessageId.can_id (MessageId.ofFields prio (PGN.value (PGN.ofFields 0 236 255)) sa) := rfl
  have hr : r = processCm cfg s now (MessageId.ofCanId (Tp21.bam sa prio pgnv size n).id) 255 (Tp21.bam sa prio pgnv size n).data := by
    simp only [r]
    exact notify_tp_cm cfg s now acc _ 255 _ (by rw [hid]; exact h3) (by omega) (Or.inl rfl)
  rw [hid] at hr
  generalize (Tp21.bam sa prio pgnv size n).data = data at *
  generalize MessageId.ofCanId (MessageId.can_id (MessageId.ofFields prio (PGN.value (PGN.ofFields 0 236 255)) sa)) = mid at *
  have hl : ¬ data.length < 8 := by omega
  rw [hr]
  unfold processCm
  have c1 : (32 == Const.CM21.RTS) = false := by decide
  have c2 : (32 == Const.CM21.CTS) = false := by decide
  have c3 : (32 == Const.CM21.EOM_ACK) = false := by decide
  have c4 : (32 == Const.CM21.BAM) = true := by decide
  simp only [hl, if_false, d1, d2, d4, h1, c1, c2, c3, c4, Bool.false_eq_true, if_true]
  split <;> simp [deliveries, PyDict.get?_set_self]

/-- the frames among the outputs of the originator -/
def txFrames (o : List Out) : List Frame :=
  o.filterMap (fun x => match x with | .tx f => some f | _ => none)

/-- a node receives the given frames, each at its own time -/
def rxAll (cfg : Cfg) (acc : Nat → Bool) (s : St) : List (Nat × Frame) → St × List Out
  | [] => (s, [])
  | (t, f) :: fs =>
    let r := notify cfg s t acc f.id f.data
    let q := rxAll cfg acc r.st fs
    (q.1, r.outs ++ q.2)

/-- receiving broadcast TP.DT frames of the stack is `_process_tp_dt` with the sender's address and destination 255 -/
theorem rxAll_dt (cfg : Cfg) (acc : Nat → Bool) (sa : Nat) (hsa : sa < 256) (s : St) (tf : List (Nat × List Nat)) :
    rxAll cfg acc s (tf.map (fun p => (p.1, Tp21.dt sa 255 p.2))) =
      feedDt s (MessageId.ofCanId (MessageId.can_id (MessageId.ofFields 7 (PGN.value (PGN.ofFields 0 235 255)) sa))) 255 tf := by
  obtain ⟨_, _, h3⟩ := tp_id_parse 7 235 255 sa (by omega) (by omega) (by omega) hsa
  induction tf generalizing s with
  | nil => rfl
  | cons p tf ih =>
    obtain ⟨t, d⟩ := p
    have hid : (Tp21.dt sa 255 d).id = MessageId.can_id (MessageId.ofFields 7 (PGN.value (PGN.ofFields 0 235 255)) sa) := rfl
    have hdd : (Tp21.dt sa 255 d).data = d := rfl
    simp only [List.map_cons, rxAll, feedDt, hid, hdd]
    rw [notify_tp_dt cfg s t acc _ 255 d h3 (by omega) (Or.inl rfl), ih]


theorem txFrames_map {α : Type} (l : List α) (g : α → Frame) : txFrames (l.map (fun k => Out.tx (g k))) = l.map g := by
  induction l with
  | nil => rfl
  | cons a l ih => simp only [List.map_cons, txFrames, List.filterMap_cons] at ih ⊢; rw [ih]

/-- the PGN a broadcast announces: PS cleared for a PDU1 PGN -/
def bamPgn (dp pf ps : Nat) : Nat :=
  if PGN.is_pdu1_format (PGN.ofFields dp pf ps) then PGN.value { PGN.ofFields dp pf ps with pdu_specific := 0 }
  else PGN.value (PGN.ofFields dp pf ps)

theorem bamPgn_lt (dp pf ps : Nat) : bamPgn dp pf ps < 16777216 := by
  unfold bamPgn
  have w := pgn_ofFields_wf dp pf ps
  have w0 : PGN.WF { PGN.ofFields dp pf ps with pdu_specific := 0 } := by
    obtain ⟨a, b, _⟩ := w
    exact ⟨a, b, by simp⟩
  split
  · rw [pgn_value_arith _ w0]; obtain ⟨a, b, c⟩ := w0; simp only at a b c ⊢; omega
  · rw [pgn_value_arith _ w]; obtain ⟨a, b, c⟩ := w; omega

/-- the send record of a broadcast -/
def bamRec (cfg : Cfg) (now dp pf ps prio sa : Nat) (data : List Nat) : Snd :=
  { pgn := bamPgn dp pf ps, priority := prio, messageSize := data.length, numPackages := Tp21.num_packets data.length,
    data := data, state := S_SENDING_BM, deadline := now + cfg.bamInterval, src := sa, dest := 255, next := 0, waitOn := none }

/-- an accepted broadcast of more than 8 bytes, exactly -/
theorem sendPgn_bam (cfg : Cfg) (s : St) (now dp pf ps prio sa : Nat) (data : List Nat) (hl : 8 < data.length)
    (hb : (ps == Const.Addr.GLOBAL || PGN.is_pdu2_format (PGN.ofFields 0 pf ps)) = true)
    (hacc : (sendPgn cfg s now dp pf ps prio sa data).2 = true) :
    (sendPgn cfg s now dp pf ps prio sa data).1 =
      { st := { s with snd := s.snd.set (Tp21.buffer_hash sa 255) (bamRec cfg now dp pf ps prio sa data) },
        outs := [.tx (Tp21.bam sa prio (bamPgn dp pf ps) data.length (Tp21.num_packets data.length)), .wake] } := by
  have hl' : ¬ data.length ≤ 8 := by omega
  unfold sendPgn at hacc ⊢
  simp only [hl', if_false, hb, if_true] at hacc ⊢
  split at hacc
  · cases hacc
  · rename_i hc
    have hc' : s.snd.contains (Tp21.buffer_hash sa 255) = false := by simpa using hc
    simp [hc', bamPgn, bamRec]


theorem zip_map_comp {α β γ δ : Type} (ts : List α) (l : List β) (g : β → γ) (f : γ → δ) :
    ts.zip (l.map (fun k => f (g k))) = (ts.zip (l.map g)).map (fun p => (p.1, f p.2)) := by
  induction ts generalizing l with
  | nil => simp
  | cons t ts ih =>
    cases l with
    | nil => simp
    | cons a l => simp only [List.map_cons, List.zip_cons_cons, ih]

end J1939.Dll21
