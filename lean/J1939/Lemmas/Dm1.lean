/-
  List-level lemmas for the DM1 build / parse model.  Property statements: Props/C16.lean.
-/
import J1939.Model.Dm1
import J1939.Lemmas.Dtc
namespace J1939.Dm1
open J1939 J1939.Gen J1939.Lemmas J1939.Bits

/-- an in-range trouble code: SPN 19 bits, FMI 5 bits, OC 7 bits -/
def Dtc.InRange (d : Dtc) : Prop := d.spn < 524288 ∧ d.fmi < 32 ∧ d.oc < 128

theorem dtcBytes_length (d : Dtc) : (dtcBytes d).length = 4 := rfl

theorem flatMap_length (dtcs : List Dtc) : (dtcs.flatMap dtcBytes).length = 4 * dtcs.length := by
  induction dtcs with
  | nil => rfl
  | cons d ds ih => simp only [List.flatMap_cons, List.length_append, dtcBytes_length, ih, List.length_cons]; omega

theorem lampData_length (st : List Nat) : (lampData st).length = 2 := rfl

theorem build_length (lamps : List Nat) (dtcs : List Dtc) : (build lamps dtcs).length = 2 + 4 * dtcs.length := by
  simp only [build, List.length_append, lampData_length, flatMap_length]

theorem idx_append_left (a b : List Nat) (i : Nat) (h : i < a.length) : Py.idx (a ++ b) i = Py.idx a i := by
  simp [Py.idx, List.getD_eq_getElem?_getD, List.getElem?_append_left h]

theorem idx_append_right (a b : List Nat) (i : Nat) (h : a.length ≤ i) : Py.idx (a ++ b) i = Py.idx b (i - a.length) := by
  simp [Py.idx, List.getD_eq_getElem?_getD, List.getElem?_append_right h]

/-- the value read back from four little-endian bytes at position `i` -/
theorem parse_dtc_int_spec (hdr : List Nat) (hh : hdr.length = 2) (pre : List Dtc) (d : Dtc) (rest : List Nat) (hd : Dtc.InRange d) :
    Gen.Dm1.parse_dtc_int (hdr ++ (pre.flatMap dtcBytes ++ (dtcBytes d ++ rest))) pre.length = (DTC.ofFields d.spn d.fmi d.oc).dtc := by
  obtain ⟨h1, h2, h3⟩ := hd
  have hl : (hdr ++ pre.flatMap dtcBytes).length = 2 + 4 * pre.length := by
    simp only [List.length_append, hh, flatMap_length]
  have key : ∀ j, j < 4 → Py.idx (hdr ++ (pre.flatMap dtcBytes ++ (dtcBytes d ++ rest))) (pre.length * 4 + 2 + j) = Py.idx (dtcBytes d) j := by
    intro j hj
    rw [← List.append_assoc, idx_append_right _ _ _ (by rw [hl]; omega), hl]
    have : pre.length * 4 + 2 + j - (2 + 4 * pre.length) = j := by omega
    rw [this, idx_append_left _ _ _ (by rw [dtcBytes_length]; exact hj)]
  have k0 := key 0 (by decide); have k1 := key 1 (by decide); have k2 := key 2 (by decide); have k3 := key 3 (by decide)
  simp only [Nat.add_zero] at k0
  have e1 : pre.length * 4 + 3 = pre.length * 4 + 2 + 1 := by omega
  have e2 : pre.length * 4 + 4 = pre.length * 4 + 2 + 2 := by omega
  have e3 : pre.length * 4 + 5 = pre.length * 4 + 2 + 3 := by omega
  simp only [Gen.Dm1.parse_dtc_int]
  rw [e1, e2, e3, k0, k1, k2, k3]
  have hb := dm1_bytes_arith (DTC.ofFields d.spn d.fmi d.oc).dtc
  simp only [dtcBytes, Py.idx, List.getD_cons_zero, List.getD_cons_succ]
  simp only [List.cons.injEq, and_true] at hb
  obtain ⟨b0, b1, b2, b3⟩ := hb
  rw [b0, b1, b2, b3]
  generalize hv : (DTC.ofFields d.spn d.fmi d.oc).dtc = v
  have hvlt : v < 4294967296 := by rw [← hv, dtc_pack_arith]; omega
  simp only [and_255, shl_8, shl_16, shl_24]
  have m1 : v % 256 % 256 = v % 256 := by omega
  have m2 : v / 256 % 256 % 256 = v / 256 % 256 := by omega
  have m3 : v / 65536 % 256 % 256 = v / 65536 % 256 := by omega
  have m4 : v / 16777216 % 256 % 256 = v / 16777216 % 256 := by omega
  rw [m1, m2, m3, m4]
  -- ((b0 ||| b1·2^8) ||| b2·2^16) ||| b3·2^24 with disjoint fields
  have o1 : v % 256 ||| v / 256 % 256 * 256 = v / 256 % 256 * 256 + v % 256 := by
    rw [Nat.or_comm]; have := mul_or (v / 256 % 256) (v % 256) 8 (by simp only [Nat.reducePow]; omega); simpa using this
  have o2 : (v / 256 % 256 * 256 + v % 256) ||| v / 65536 % 256 * 65536 = v / 65536 % 256 * 65536 + (v / 256 % 256 * 256 + v % 256) := by
    rw [Nat.or_comm]; have := mul_or (v / 65536 % 256) (v / 256 % 256 * 256 + v % 256) 16 (by simp only [Nat.reducePow]; omega); simpa using this
  have o3 : (v / 65536 % 256 * 65536 + (v / 256 % 256 * 256 + v % 256)) ||| v / 16777216 % 256 * 16777216
      = v / 16777216 % 256 * 16777216 + (v / 65536 % 256 * 65536 + (v / 256 % 256 * 256 + v % 256)) := by
    rw [Nat.or_comm]; have := mul_or (v / 16777216 % 256) (v / 65536 % 256 * 65536 + (v / 256 % 256 * 256 + v % 256)) 24 (by simp only [Nat.reducePow]; omega)
    simpa using this
  rw [o1, o2, o3]; omega

set_option maxRecDepth 8000 in
/-- unpacking the packed value of an in-range code gives the code back -/
theorem unpack_pack (d : Dtc) (hd : Dtc.InRange d) :
    (let x := DTC.ofDtc (DTC.ofFields d.spn d.fmi d.oc).dtc; ({ spn := x.spn, fmi := x.fmi, oc := x.oc } : Dtc)) = d := by
  obtain ⟨h1, h2, h3⟩ := hd
  cases d with | mk spn fmi oc =>
  simp only at h1 h2 h3
  simp only [dtc_unpack_eq, dtc_pack_arith, Dtc.mk.injEq]
  have e1 : spn / 65536 % 8 = spn / 65536 := by omega
  have e2 : fmi % 32 = fmi := by omega
  have e3 : oc % 128 = oc := by omega
  rw [e1, e2, e3]
  generalize hq : spn / 65536 = q
  generalize hr : spn % 65536 = r
  have hs : spn = q * 65536 + r := by omega
  have hq8 : q < 8 := by omega
  have hr' : r < 65536 := by omega
  have d1 : (oc * 16777216 + q * 2097152 + fmi * 65536 + r) / 16777216 = oc := by omega
  have d2 : (oc * 16777216 + q * 2097152 + fmi * 65536 + r) / 2097152 = oc * 8 + q := by omega
  have d3 : (oc * 16777216 + q * 2097152 + fmi * 65536 + r) / 65536 = oc * 256 + q * 32 + fmi := by omega
  have d4 : (oc * 16777216 + q * 2097152 + fmi * 65536 + r) % 65536 = r := by omega
  rw [d1, d2, d3, d4]
  refine ⟨?_, ?_, ?_⟩ <;> omega

/-- reading the trouble codes back, one index at a time -/
theorem parse_list (hdr : List Nat) (hh : hdr.length = 2) (pre post : List Dtc) (hp : ∀ d ∈ post, Dtc.InRange d) :
    (List.range post.length).map (fun i =>
        let x := DTC.ofDtc (Gen.Dm1.parse_dtc_int (hdr ++ (pre.flatMap dtcBytes ++ post.flatMap dtcBytes)) (pre.length + i));
        ({ spn := x.spn, fmi := x.fmi, oc := x.oc } : Dtc)) = post := by
  induction post generalizing pre with
  | nil => rfl
  | cons d ds ih =>
    rw [List.length_cons, List.range_succ_eq_map, List.map_cons, List.map_map]
    have hd := hp d (List.mem_cons_self ..)
    congr 1
    · simp only [Nat.add_zero, List.flatMap_cons]
      rw [parse_dtc_int_spec hdr hh pre d _ hd]
      exact unpack_pack d hd
    · have := ih (pre ++ [d]) (fun x hx => hp x (List.mem_cons_of_mem _ hx))
      simp only [List.flatMap_append, List.flatMap_cons, List.flatMap_nil, List.append_nil, List.length_append,
        List.length_cons, List.length_nil, List.append_assoc] at this
      refine Eq.trans ?_ this
      apply List.map_congr_left
      intro i _
      simp only [Function.comp, List.flatMap_cons]
      have : pre.length + (i + 1) = pre.length + (0 + 1) + i := by omega
      rw [this]

end J1939.Dm1
