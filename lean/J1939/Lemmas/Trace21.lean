/-
  A whole J1939-21 reception: feeding the TP.DT frames of a message to the responder.
-/
import J1939.Lemmas.Seg21
import J1939.Lemmas.Dll21
namespace J1939.Dll21
open J1939 J1939.Gen

theorem payloads_snoc (data : List Nat) (j : Nat) : payloads data (j + 1) = payloads data j ++ payload data j := by
  simp [payloads, List.range_succ, List.flatMap_append]

/-- feed the TP.DT frames of one session one after the other, each at its own time -/
def feedDt (s : St) (mid : MessageId) (dest : Nat) : List (Nat × List Nat) → St × List Out
  | [] => (s, [])
  | (now, f) :: fs =>
    let r := processDt s now mid dest f
    let q := feedDt r.st mid dest fs
    (q.1, r.outs ++ q.2)

/-- the deliveries to the application contained in an output list -/
def deliveries (o : List Out) : List (Nat × Nat × Nat × Nat × List Nat) :=
  o.filterMap (fun x => match x with | .notify p g sa d data => some (p, g, sa, d, data) | _ => none)

theorem deliveries_append (a b : List Out) : deliveries (a ++ b) = deliveries a ++ deliveries b := by
  simp [deliveries, List.filterMap_append]

/-- one TP.DT that does not complete the message: the record grows by the 7 payload bytes, nothing is delivered,
    no exception -/
theorem dt_incomplete (s : St) (now : Nat) (mid : MessageId) (dest : Nat) (f : List Nat) (r : Rcv)
    (hf : f.length = 8) (hr : s.rcv.get? (Tp21.buffer_hash mid.source_address dest) = some r)
    (hmr : dest ≠ Const.Addr.GLOBAL → ∃ mr, r.maxRec = some mr)
    (hc : r.data.length + 7 < r.messageSize) :
    deliveries (processDt s now mid dest f).outs = [] ∧ (processDt s now mid dest f).err = none ∧
    ∃ r', (processDt s now mid dest f).st.rcv.get? (Tp21.buffer_hash mid.source_address dest) = some r' ∧
      r'.data = r.data ++ f.drop 1 ∧ r'.messageSize = r.messageSize ∧ r'.pgn = r.pgn ∧ r'.maxRec = r.maxRec ∧
      r'.numPackages = r.numPackages := by
  have hl : ¬ f.length < 1 := by omega
  have hc' : ¬ (r.data ++ f.drop 1).length ≥ r.messageSize := by simp; omega
  unfold processDt
  simp only [hl, if_false, hr, hc']
  by_cases hb : (dest != Const.Addr.GLOBAL && decide (Py.idx f 0 ≥ r.nextPacket)) = true
  · have hd : dest ≠ Const.Addr.GLOBAL := by
      intro h; simp [h] at hb
    obtain ⟨mr, hmr'⟩ := hmr hd
    simp only [hb, if_true, hmr']
    refine ⟨by simp [deliveries], trivial, _, PyDict.get?_set_self _ _ _, rfl, rfl, rfl, ?_, rfl⟩
    first | rfl | (simp [hmr'])
  · have hb' : (dest != Const.Addr.GLOBAL && decide (Py.idx f 0 ≥ r.nextPacket)) = false := by
      cases h : (dest != Const.Addr.GLOBAL && decide (Py.idx f 0 ≥ r.nextPacket)) with
      | false => rfl
      | true => exact absurd h hb
    simp only [hb', Bool.false_eq_true, if_false]
    exact ⟨by simp [deliveries], trivial, _, PyDict.get?_set_self _ _ _, rfl, rfl, rfl, rfl, rfl⟩

/-- the TP.DT that completes the message: exactly one delivery of the first `messageSize` bytes, record removed -/
theorem dt_complete (s : St) (now : Nat) (mid : MessageId) (dest : Nat) (f : List Nat) (r : Rcv)
    (hf : f.length = 8) (hr : s.rcv.get? (Tp21.buffer_hash mid.source_address dest) = some r)
    (hc : r.messageSize ≤ r.data.length + 7) :
    deliveries (processDt s now mid dest f).outs =
      [(mid.priority, r.pgn, mid.source_address, dest, (r.data ++ f.drop 1).take r.messageSize)] ∧
    (processDt s now mid dest f).err = none ∧
    (processDt s now mid dest f).st.rcv.get? (Tp21.buffer_hash mid.source_address dest) = none ∧
    (processDt s now mid dest f).st.snd = s.snd := by
  have hl : ¬ f.length < 1 := by omega
  have hc' : (r.data ++ f.drop 1).length ≥ r.messageSize := by simp; omega
  unfold processDt
  simp only [hl, if_false, hr, hc', if_true]
  refine ⟨?_, trivial, PyDict.get?_erase_self _ _, trivial⟩
  split <;> simp [deliveries]

/-- RESPONDER TRACE: a receive record that holds the first `j` packets of `data`, fed the remaining TP.DT frames in
    order (at arbitrary times), delivers `data` exactly once — at the last packet — and is removed; nothing raises -/
theorem feed_delivers (data : List Nat) (hlen : 0 < data.length) (mid : MessageId) (dest : Nat)
    (m : Nat) (j : Nat) (hj : j + m = Tp21.num_packets data.length) (hm : 0 < m)
    (times : List Nat) (ht : times.length = m) (s : St) (r : Rcv)
    (hr : s.rcv.get? (Tp21.buffer_hash mid.source_address dest) = some r)
    (hsize : r.messageSize = data.length) (hdata : r.data = payloads data j)
    (hmr : dest ≠ Const.Addr.GLOBAL → ∃ mr, r.maxRec = some mr) :
    let frames := (List.range' j m).map (chunk data)
    deliveries (feedDt s mid dest (times.zip frames)).2 = [(mid.priority, r.pgn, mid.source_address, dest, data)] ∧
    (feedDt s mid dest (times.zip frames)).1.rcv.get? (Tp21.buffer_hash mid.source_address dest) = none := by
  induction m generalizing j times s r with
  | zero => omega
  | succ m ih =>
    obtain ⟨t, times, rfl⟩ : ∃ t ts, times = t :: ts := by
      cases times with
      | nil => simp at ht
      | cons t ts => exact ⟨t, ts, rfl⟩
    simp only [List.length_cons, Nat.add_right_cancel_iff] at ht
    simp only [List.range'_succ, List.map_cons, List.zip_cons_cons, feedDt]
    have hfl : (chunk data j).length = 8 := chunk_length data j
    have hdl : r.data.length = 7 * j := by rw [hdata, payloads_length]
    by_cases hlast : m = 0
    · subst hlast
      have hcov := (num_packets_spec data.length).1
      have hc : r.messageSize ≤ r.data.length + 7 := by rw [hsize, hdl]; omega
      obtain ⟨d1, d2, d3, _⟩ := dt_complete s t mid dest (chunk data j) r hfl hr hc
      have ht0 : times = [] := List.eq_nil_of_length_eq_zero ht
      subst ht0
      simp only [List.range'_zero, List.map_nil, List.zip_nil_right, feedDt, List.append_nil]
      refine ⟨?_, d3⟩
      rw [d1, chunk_drop_one, hdata, ← payloads_snoc, hsize]
      have : j + 1 = Tp21.num_packets data.length := by omega
      rw [this, payloads_take data _ hcov]
    · have hshort := partial_too_short data.length (j + 1) hlen (by omega)
      have hc : r.data.length + 7 < r.messageSize := by rw [hsize, hdl]; omega
      obtain ⟨d1, d2, r', hr', hd', hs', hp', hm', _⟩ := dt_incomplete s t mid dest (chunk data j) r hfl hr hmr hc
      have := ih (j + 1) (by omega) (by omega) times ht (processDt s t mid dest (chunk data j)).st r' hr'
        (by rw [hs', hsize]) (by rw [hd', chunk_drop_one, hdata, payloads_snoc])
        (by intro hd; rw [hm']; exact hmr hd)
      simp only at this
      rw [deliveries_append, d1, List.nil_append, this.1, hp']
      exact ⟨rfl, this.2⟩

end J1939.Dll21
