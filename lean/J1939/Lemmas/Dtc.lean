/-
  Arithmetic normal forms of the DTC / DM22 codecs (generated leaves).  Property statements: Props/C16.lean.
-/
import J1939.Gen.Codec
import J1939.Lemmas.Bits
import J1939.Model.Ref
namespace J1939.Lemmas
open J1939 J1939.Gen J1939.Bits

theorem and_458752 (x : Nat) : x &&& 458752 = (x / 65536 % 8) * 65536 := by
  apply Nat.eq_of_testBit_eq
  intro i
  have h : (458752 : Nat) = 7 <<< 16 := by decide
  rw [h, Nat.testBit_and, Nat.testBit_shiftLeft]
  have e : (x / 65536 % 8) * 65536 = ((x >>> 16) &&& 7) <<< 16 := by
    rw [shr_16, and_7, shl_16]
  rw [e, Nat.testBit_shiftLeft, Nat.testBit_and, Nat.testBit_shiftRight]
  by_cases hi : 16 ≤ i
  · simp [hi]
  · simp [hi]

theorem and_224 (x : Nat) : x &&& 224 = (x / 32 % 8) * 32 := by
  apply Nat.eq_of_testBit_eq
  intro i
  have h : (224 : Nat) = 7 <<< 5 := by decide
  rw [h, Nat.testBit_and, Nat.testBit_shiftLeft]
  have e : (x / 32 % 8) * 32 = ((x >>> 5) &&& 7) <<< 5 := by
    rw [shr_5, and_7, shl_5]
  rw [e, Nat.testBit_shiftLeft, Nat.testBit_and, Nat.testBit_shiftRight]
  by_cases hi : 5 ≤ i
  · simp [hi]
  · simp [hi]

/-- the packed 32-bit DTC value -/
theorem dtc_pack_arith (spn fmi oc : Nat) :
    (DTC.ofFields spn fmi oc).dtc = (oc % 128) * 16777216 + (spn / 65536 % 8) * 2097152 + (fmi % 32) * 65536 + spn % 65536 := by
  simp only [DTC.ofFields, and_65535, and_458752, and_31, and_127, shl_5, shl_16, shl_24]
  have hA : spn % 65536 < 2^16 := Nat.mod_lt _ (by decide)
  -- (A ||| B) ||| C  with A = low 16 bits, B = bits 21..23, C = bits 16..20
  have e1 : (spn % 65536 ||| spn / 65536 % 8 * 65536 * 32) ||| fmi % 32 * 65536
      = spn / 65536 % 8 * 65536 * 32 ||| (fmi % 32 * 65536 ||| spn % 65536) := by
    rw [Nat.or_comm (spn % 65536), Nat.or_assoc, Nat.or_comm (spn % 65536)]
  have e2 : fmi % 32 * 65536 ||| spn % 65536 = fmi % 32 * 65536 + spn % 65536 := by
    have := mul_or (fmi % 32) (spn % 65536) 16 hA; simpa using this
  have e3 : spn / 65536 % 8 * 65536 * 32 ||| (fmi % 32 * 65536 + spn % 65536)
      = spn / 65536 % 8 * 2097152 + (fmi % 32 * 65536 + spn % 65536) := by
    have := mul_or (spn / 65536 % 8) (fmi % 32 * 65536 + spn % 65536) 21 (by simp only [Nat.reducePow]; omega)
    simp only [Nat.reducePow] at this
    have e : spn / 65536 % 8 * 65536 * 32 = spn / 65536 % 8 * 2097152 := by omega
    rw [e, this]
  rw [e1, e2, e3, Nat.or_comm]
  have := mul_or (oc % 128) (spn / 65536 % 8 * 2097152 + (fmi % 32 * 65536 + spn % 65536)) 24 (by simp only [Nat.reducePow]; omega)
  simp only [Nat.reducePow] at this
  rw [this]; omega

theorem dtc_unpack_eq (d : Nat) :
    DTC.ofDtc d = { dtc := d, spn := (d / 2097152 % 8) * 65536 + d % 65536, fmi := d / 65536 % 32, oc := d / 16777216 % 128,
                    cm := d / 2147483648 % 2 } := by
  simp only [DTC.ofDtc, and_65535, and_458752, and_31, and_127, and_1, shr_5, shr_16, shr_24, DTC.mk.injEq, true_and]
  refine ⟨?_, ?_⟩
  · have h : d / 32 / 65536 % 8 = d / 2097152 % 8 := by omega
    rw [h, Nat.or_comm]
    have := mul_or (d / 2097152 % 8) (d % 65536) 16 (Nat.mod_lt _ (by decide))
    simpa using this
  · have := shr d 31; simp at this; rw [this]

theorem dm1_bytes_arith (v : Nat) :
    [Dm1.send_byte0 v, Dm1.send_byte1 v, Dm1.send_byte2 v, Dm1.send_byte3 v] =
      [v % 256, v / 256 % 256, v / 65536 % 256, v / 16777216 % 256] := by
  simp only [Dm1.send_byte0, Dm1.send_byte1, Dm1.send_byte2, Dm1.send_byte3, and_255, shr_8, shr_16, shr_24]

set_option maxRecDepth 8000 in
/-- the digits of the packed value of an in-range trouble code -/
theorem dtc_pack_digits (spn fmi oc : Nat) (h1 : spn < 524288) (h2 : fmi < 32) (h3 : oc < 128) :
    (DTC.ofFields spn fmi oc).dtc % 256 = spn % 256 ∧
    (DTC.ofFields spn fmi oc).dtc / 256 % 256 = spn / 256 % 256 ∧
    (DTC.ofFields spn fmi oc).dtc / 65536 % 256 = (spn / 65536 % 8) * 32 + fmi % 32 ∧
    (DTC.ofFields spn fmi oc).dtc / 16777216 % 256 = oc % 128 ∧
    (DTC.ofFields spn fmi oc).dtc / 2147483648 % 2 = 0 := by
  rw [dtc_pack_arith]
  have e1 : spn / 65536 % 8 = spn / 65536 := by omega
  have e2 : fmi % 32 = fmi := by omega
  have e3 : oc % 128 = oc := by omega
  rw [e1, e2, e3]
  generalize hq : spn / 65536 = q
  generalize hr : spn % 65536 = r
  have hs : spn = q * 65536 + r := by omega
  have hq8 : q < 8 := by omega
  have hr' : r < 65536 := by omega
  have d0 : (oc * 16777216 + q * 2097152 + fmi * 65536 + r) % 256 = r % 256 := by omega
  have d1 : (oc * 16777216 + q * 2097152 + fmi * 65536 + r) / 256 = oc * 65536 + q * 8192 + fmi * 256 + r / 256 := by omega
  have d2 : (oc * 16777216 + q * 2097152 + fmi * 65536 + r) / 65536 = oc * 256 + q * 32 + fmi := by omega
  have d3 : (oc * 16777216 + q * 2097152 + fmi * 65536 + r) / 16777216 = oc := by omega
  have d4 : (oc * 16777216 + q * 2097152 + fmi * 65536 + r) / 2147483648 = 0 := by omega
  rw [d0, d1, d2, d3, d4, hs]
  clear d0 d1 d2 d3 d4
  refine ⟨?_, ?_, ?_, ?_, ?_⟩ <;> omega

end J1939.Lemmas
