/-
  Invariants of the J1939-22 (FD) data link layer: what the background pass relies on in the session tables, the
  multi-PG buffers and the session pools; preserved by every entry point; sufficient for the pass never to raise.
-/
import J1939.Model.Dll22
import J1939.Lemmas.PyDict
import J1939.Lemmas.Tactics
import J1939.Props.C11
import J1939.Props.C02
namespace J1939.Dll22
open J1939 J1939.Gen

def CfgPos (cfg : Cfg) : Prop := 0 < cfg.bamInterval ∧ ∀ iv, cfg.cmdtInterval = some iv → 0 < iv

/-- what the background pass relies on in a send record -/
structure SndOk (b : Snd) : Prop where
  dl : b.deadline ≠ 0
  sess : b.session < 8
  bamSess : (b.state = S_SENDING_BAM ∨ b.state = S_SENDING_EOM_STATUS) → b.session < 4
  data1 : 1 ≤ b.data.length
  segs : b.numSegments ≤ b.data.length
  rts : b.state = S_SENDING_RTS_CTS → b.waitOn.isSome = true ∧ -1 ≤ b.next
  bam : b.state = S_SENDING_BAM → 0 ≤ b.next ∧ b.next < b.numSegments

def RcvOk (r : Rcv) : Prop := r.deadline ≠ 0

theorem pyIndex_some {α} (l : List α) (i : Int) (h1 : -1 ≤ i) (h2 : i < l.length) (h3 : 1 ≤ l.length) : (pyIndex l i).isSome = true := by
  unfold pyIndex
  by_cases h : 0 ≤ i
  · simp only [h, if_true]
    have : i.toNat < l.length := by omega
    simp [this]
  · have hi : i = -1 := by omega
    subst hi
    simp only [h, if_false]
    have : -(l.length : Int) ≤ -1 := by omega
    simp only [this, if_true]
    have h' : l.length - (- (-1 : Int)).toNat < l.length := by
      have : (- (-1 : Int)).toNat = 1 := by decide
      rw [this]; omega
    have h'' : l.length - 1 < l.length := by omega
    simp [h'']

/-- what the send-window loop leaves behind -/
structure WinOk (now : Nat) (b : Snd) (r : Snd × List Out × Option PyErr) : Prop where
  err : r.2.2 = none
  sess : r.1.session = b.session
  data : r.1.data = b.data
  segs : r.1.numSegments = b.numSegments
  wait : r.1.waitOn = b.waitOn
  next : -1 ≤ r.1.next
  fin : (now < r.1.deadline ∧ r.1.state ≠ S_SENDING_BAM ∧ r.1.state ≠ S_SENDING_EOM_STATUS) ∨
        (r.1.state = S_SENDING_RTS_CTS ∧ r.1.next ≥ (r.1.numSegments : Int) ∧ r.1.deadline = b.deadline)

/-- the send-window loop from a record with a stored wait-on segment: never raises; the record afterwards still has its
    session, data, segment count and wait-on; it is either re-armed in the future, or still SENDING with nothing left -/
theorem sendWindow_ok (cfg : Cfg) (now : Nat) (hc : CfgPos cfg) (fuel : Nat) (b : Snd) (o : List Out)
    (hw : b.waitOn.isSome = true) (hn : -1 ≤ b.next) (hd1 : 1 ≤ b.data.length) (hseg : b.numSegments ≤ b.data.length)
    (hst : b.state = S_SENDING_RTS_CTS) (hfuel : b.next < b.numSegments → (b.numSegments - b.next).toNat < fuel) :
    WinOk now b (sendWindow cfg now fuel b o) := by
  have T5 : 0 < Const.T22.T5 := by decide
  have T3 : 0 < Const.T22.T3 := by decide
  have ne1 : S_WAITING_EOM_ACK ≠ S_SENDING_BAM := by decide
  have ne2 : S_WAITING_EOM_ACK ≠ S_SENDING_EOM_STATUS := by decide
  have ne3 : S_WAITING_CTS ≠ S_SENDING_BAM := by decide
  have ne4 : S_WAITING_CTS ≠ S_SENDING_EOM_STATUS := by decide
  have ne5 : S_SENDING_RTS_CTS ≠ S_SENDING_BAM := by decide
  have ne6 : S_SENDING_RTS_CTS ≠ S_SENDING_EOM_STATUS := by decide
  induction fuel generalizing b o with
  | zero =>
    unfold sendWindow
    have hnl : ¬ b.next < b.numSegments := by intro h; have := hfuel h; omega
    exact ⟨rfl, rfl, rfl, rfl, rfl, hn, Or.inr ⟨hst, by show b.next ≥ (b.numSegments : Int); omega, rfl⟩⟩
  | succ fuel ih =>
    unfold sendWindow
    by_cases hlt : b.next < b.numSegments
    · simp only [hlt, if_true]
      have hidx := pyIndex_some b.data b.next hn (by omega) hd1
      cases hp : pyIndex b.data b.next with
      | none => rw [hp] at hidx; cases hidx
      | some seg =>
        simp only
        obtain ⟨w, hw'⟩ := Option.isSome_iff_exists.mp hw
        by_cases hlast : (b.next + 1 == (b.numSegments : Int)) = true
        · simp only [hlast, if_true]
          exact ⟨rfl, rfl, rfl, rfl, rfl, by show -1 ≤ b.next + 1; omega,
            Or.inl ⟨by show now < now + Const.T22.T5; omega, ne1, ne2⟩⟩
        · simp only [hlast, Bool.false_eq_true, if_false]
          split
          · rename_i hnone
            have hnone' : b.waitOn = none := hnone
            rw [hnone'] at hw; cases hw
          · rename_i w hw'
            by_cases hwt : (b.next == w) = true
            · simp only [hwt, if_true]
              exact ⟨rfl, rfl, rfl, rfl, rfl, by show -1 ≤ b.next + 1; omega,
                Or.inl ⟨by show now < now + Const.T22.T3; omega, ne3, ne4⟩⟩
            · simp only [hwt, Bool.false_eq_true, if_false]
              cases hiv : cfg.cmdtInterval with
              | some iv =>
                simp only
                have := hc.2 iv hiv
                exact ⟨rfl, rfl, rfl, rfl, rfl, by show -1 ≤ b.next + 1; omega,
                  Or.inl ⟨by show now < now + iv; omega, by show b.state ≠ _; rw [hst]; exact ne5, by show b.state ≠ _; rw [hst]; exact ne6⟩⟩
              | none =>
                simp only
                have r := ih { b with next := b.next + 1 } (o ++ [.tx (Tp22.dt Const.LUT_FD_DLC b.src b.dest b.session (b.next + 1).toNat seg 0)])
                  hw (by show -1 ≤ b.next + 1; omega) hd1 hseg hst (by intro h; have := hfuel hlt; simp only at h ⊢; omega)
                exact ⟨r.err, r.sess, r.data, r.segs, r.wait, r.next, r.fin⟩
    · simp only [hlt, if_false]
      exact ⟨rfl, rfl, rfl, rfl, rfl, hn, Or.inr ⟨hst, by show b.next ≥ (b.numSegments : Int); omega, rfl⟩⟩


def RelOk : Release → Prop
  | .none => True
  | .rts i => i < 8
  | .bam i => i < 4

/-- what one pass does to one send record -/
structure SndStepOk (now : Nat) (r : Option Snd × List Out × Option PyErr × Option Nat × Release) : Prop where
  err : r.2.2.1 = none
  rec_ : ∀ b', r.1 = some b' → SndOk b' ∧ now < b'.deadline
  wake : ∀ d, r.2.2.2.1 = some d → now < d
  rel : RelOk r.2.2.2.2

theorem tickSndOne_ok (cfg : Cfg) (now : Nat) (hc : CfgPos cfg) (b : Snd) (hb : SndOk b) :
    SndStepOk now (tickSndOne cfg now b) := by
  have T3 : 0 < Const.T22.T3 := by decide
  have w_b : S_WAITING_CTS ≠ S_SENDING_BAM := by decide
  have w_e : S_WAITING_CTS ≠ S_SENDING_EOM_STATUS := by decide
  have w_r : S_WAITING_CTS ≠ S_SENDING_RTS_CTS := by decide
  have b_r : S_SENDING_BAM ≠ S_SENDING_RTS_CTS := by decide
  have e_r : S_SENDING_EOM_STATUS ≠ S_SENDING_RTS_CTS := by decide
  have e_b : S_SENDING_EOM_STATUS ≠ S_SENDING_BAM := by decide
  unfold tickSndOne
  have hd0 : (b.deadline != 0) = true := by simpa using hb.dl
  simp only [hd0, if_true]
  by_cases hfut : b.deadline > now
  · simp only [hfut, if_true]
    exact ⟨rfl, fun b' h => by cases h; exact ⟨hb, hfut⟩, fun d h => by cases h; exact hfut, trivial⟩
  simp only [hfut, if_false]
  by_cases h1 : (b.state == S_WAITING_CTS) = true
  · simp only [h1, if_true]
    exact ⟨rfl, (fun b' h => by cases h), (fun d h => by cases h), hb.sess⟩
  simp only [h1, Bool.false_eq_true, if_false]
  by_cases h2 : (b.state == S_SENDING_RTS_CTS) = true
  · simp only [h2, if_true]
    have hst : b.state = S_SENDING_RTS_CTS := by simpa using h2
    obtain ⟨hw, hn⟩ := hb.rts hst
    have W := sendWindow_ok cfg now hc (if b.next < b.numSegments then (b.numSegments - b.next).toNat + 1 else 1) b [] hw hn hb.data1 hb.segs hst
      (by intro h; simp only [h, if_true]; omega)
    generalize sendWindow cfg now (if b.next < b.numSegments then (b.numSegments - b.next).toNat + 1 else 1) b [] = r at *
    obtain ⟨r1, r2, r3⟩ := r
    obtain ⟨e, s1, s2, s3, s4, s5, s6⟩ := W
    simp only at e s1 s2 s3 s4 s5 s6
    subst e
    simp only [Option.isNone_none, Bool.true_and]
    by_cases hcond : (r1.state == S_SENDING_RTS_CTS && decide (r1.next ≥ (r1.numSegments : Int))) = true
    · simp only [hcond, if_true]
      refine ⟨rfl, ?_, fun d h => by cases h; show now < now + Const.T22.T3; omega, trivial⟩
      intro b' h; cases h
      refine ⟨⟨by show now + Const.T22.T3 ≠ 0; omega, by show r1.session < 8; rw [s1]; exact hb.sess, ?_, by show 1 ≤ r1.data.length; rw [s2]; exact hb.data1,
        by show r1.numSegments ≤ r1.data.length; rw [s2, s3]; exact hb.segs, ?_, ?_⟩, by show now < now + Const.T22.T3; omega⟩
      · intro h; exfalso; rcases h with h | h
        · exact w_b h
        · exact w_e h
      · intro h; exact absurd h w_r
      · intro h; exact absurd h w_b
    · simp only [hcond, Bool.false_eq_true, if_false]
      have hfin : now < r1.deadline ∧ r1.state ≠ S_SENDING_BAM ∧ r1.state ≠ S_SENDING_EOM_STATUS := by
        rcases s6 with h | ⟨h1', h2', _⟩
        · exact h
        · exfalso; apply hcond; simp [h1', h2']
      refine ⟨rfl, ?_, fun d h => by cases h; exact hfin.1, trivial⟩
      intro b' h; cases h
      exact ⟨⟨by omega, by rw [s1]; exact hb.sess, (fun h => by rcases h with h | h; exact absurd h hfin.2.1; exact absurd h hfin.2.2),
        by rw [s2]; exact hb.data1, by rw [s2, s3]; exact hb.segs, fun _ => ⟨by rw [s4]; exact hw, s5⟩, fun h => absurd h hfin.2.1⟩, hfin.1⟩
  simp only [h2, Bool.false_eq_true, if_false]
  by_cases h3 : (b.state == S_WAITING_EOM_ACK) = true
  · simp only [h3, if_true]
    exact ⟨rfl, (fun b' h => by cases h), (fun d h => by cases h), hb.sess⟩
  simp only [h3, Bool.false_eq_true, if_false]
  by_cases h4 : (b.state == S_EOM_ACK_RECEIVED) = true
  · simp only [h4, if_true]
    exact ⟨rfl, (fun b' h => by cases h), (fun d h => by cases h), hb.sess⟩
  simp only [h4, Bool.false_eq_true, if_false]
  by_cases h5 : (b.state == S_SENDING_BAM) = true
  · simp only [h5, if_true]
    have hst : b.state = S_SENDING_BAM := by simpa using h5
    obtain ⟨hn0, hn1⟩ := hb.bam hst
    have hidx := pyIndex_some b.data b.next (by omega) (by have := hb.segs; omega) hb.data1
    cases hp : pyIndex b.data b.next with
    | none => rw [hp] at hidx; cases hidx
    | some seg =>
      simp only
      by_cases hmore : b.next + 1 < (b.numSegments : Int)
      · simp only [hmore, if_true]
        refine ⟨rfl, ?_, fun d h => by cases h; have := hc.1; omega, trivial⟩
        intro b' h; cases h
        have := hc.1
        exact ⟨⟨by show now + cfg.bamInterval ≠ 0; omega, hb.sess, fun _ => hb.bamSess (Or.inl hst), hb.data1, hb.segs,
          (fun h => by exfalso; rw [hst] at h; exact b_r h), fun _ => ⟨by show 0 ≤ b.next + 1; omega, hmore⟩⟩, by show now < now + cfg.bamInterval; omega⟩
      · simp only [hmore, if_false]
        refine ⟨rfl, ?_, fun d h => by cases h; have := hc.1; omega, trivial⟩
        intro b' h; cases h
        have := hc.1
        exact ⟨⟨by show now + cfg.bamInterval ≠ 0; omega, hb.sess, fun _ => hb.bamSess (Or.inl hst), hb.data1, hb.segs,
          (fun h => absurd h e_r), (fun h => absurd h e_b)⟩, by show now < now + cfg.bamInterval; omega⟩
  simp only [h5, Bool.false_eq_true, if_false]
  by_cases h6 : (b.state == S_SENDING_EOM_STATUS) = true
  · simp only [h6, if_true]
    exact ⟨rfl, (fun b' h => by cases h), (fun d h => by cases h), hb.bamSess (Or.inr (by simpa using h6))⟩
  simp only [h6, Bool.false_eq_true, if_false]
  by_cases h7 : (b.state == S_FINISHED) = true
  · simp only [h7, if_true]
    exact ⟨rfl, (fun b' h => by cases h), (fun d h => by cases h), hb.sess⟩
  simp only [h7, Bool.false_eq_true, if_false]
  exact ⟨rfl, (fun b' h => by cases h), (fun d h => by cases h), trivial⟩


open J1939.Props.C11 in
/-- table invariant of the J1939-22 layer -/
structure WF (s : St) : Prop where
  rk : s.rcv.keys.Nodup
  sk : s.snd.keys.Nodup
  mkeys : s.mpg.keys.Nodup
  rcv : PyDict.All RcvOk s.rcv
  snd : PyDict.All SndOk s.snd
  mpg : PyDict.All J1939.Props.C11.BufOk s.mpg
  rp : s.rtsPool.length = 8
  bp : s.bamPool.length = 4

theorem flat_len (cpgs : List Cpg) :
    (cpgs.flatMap (fun c => [Mpg.hdr0 c.tos c.tf c.cpgn, Mpg.hdr1 c.tos c.tf c.cpgn, Mpg.hdr2 c.tos c.tf c.cpgn, c.data.length] ++ c.data)).length
      = J1939.Props.C11.packedSize cpgs := by
  unfold J1939.Props.C11.packedSize
  induction cpgs with
  | nil => rfl
  | cons c cs ih =>
    simp only [List.flatMap_cons, List.length_append, List.map_cons, List.sum_cons, List.length_cons, List.length_nil]
    rw [ih]

theorem multiPgFrame_some (ff : Nat) (cpgs : List Cpg) (src dst : Nat) (h : J1939.Props.C11.packedSize cpgs ≤ 64) :
    (multiPgFrame ff cpgs src dst).isSome = true := by
  unfold multiPgFrame
  have hl : Const.LUT_FD_DLC.length = 65 := J1939.Props.C11.c11_lut.1
  simp only [flat_len, hl]
  have : ¬ J1939.Props.C11.packedSize cpgs ≥ 65 := by omega
  simp only [this, if_false]
  split <;> rfl

theorem tickRcv_ok (now : Nat) (ks : List Nat) (s : St) (nw : Nat) (o : List Out) (hwf : WF s) (hnw : now < nw) :
    (tickRcv now ks s nw o).2.2.2 = none ∧ WF (tickRcv now ks s nw o).1 ∧ now < (tickRcv now ks s nw o).2.1 := by
  induction ks generalizing s nw o with
  | nil => exact ⟨rfl, hwf, hnw⟩
  | cons k ks ih =>
    unfold tickRcv
    cases hg : s.rcv.get? k with
    | none => simp only; exact ih s nw o hwf hnw
    | some buf =>
      simp only
      have hr : buf.deadline ≠ 0 := hwf.rcv k buf hg
      have hnw' : now < (match (tickRcvOne now buf).2.2 with | some d => if nw > d then d else nw | none => nw) := by
        unfold tickRcvOne
        have : (buf.deadline != 0) = true := by simpa using hr
        simp only [this, if_true]
        by_cases hf : buf.deadline > now
        · simp only [hf, if_true]; split <;> omega
        · simp only [hf, if_false]; exact hnw
      cases hr1 : (tickRcvOne now buf).1 with
      | some r' => simp only; exact ih s _ _ hwf hnw'
      | none =>
        simp only
        exact ih { s with rcv := s.rcv.erase k } _ _
          ⟨PyDict.keys_erase_nodup _ _ hwf.rk, hwf.sk, hwf.mkeys, PyDict.all_erase _ _ _ hwf.rcv, hwf.snd, hwf.mpg, hwf.rp, hwf.bp⟩ hnw'

theorem tickMpg_ok (now : Nat) (ks : List Nat) (s : St) (nw : Nat) (o : List Out) (hks : ks.Nodup)
    (hpres : ∀ k ∈ ks, (s.mpg.get? k).isSome = true) (hwf : WF s) (hnw : now < nw) :
    (tickMpg now ks s nw o).2.2.2 = none ∧ WF (tickMpg now ks s nw o).1 ∧ now < (tickMpg now ks s nw o).2.1 := by
  induction ks generalizing s nw o with
  | nil => exact ⟨rfl, hwf, hnw⟩
  | cons k ks ih =>
    obtain ⟨hkn, hks'⟩ := List.nodup_cons.mp hks
    unfold tickMpg
    have hk := hpres k (List.mem_cons_self ..)
    cases hg : s.mpg.get? k with
    | none => rw [hg] at hk; cases hk
    | some buf =>
      simp only
      by_cases hf : buf.deadline > now
      · simp only [hf, if_true]
        exact ih s _ o hks' (fun k' hk' => hpres k' (List.mem_cons_of_mem _ hk')) hwf (by split <;> omega)
      · simp only [hf, if_false]
        obtain ⟨b1, b2, _⟩ := hwf.mpg k buf hg
        have hsome := multiPgFrame_some (Tp22.buffer_unhash_mpg k).1 buf.cpgs (Tp22.buffer_unhash_mpg k).2.2.1 (Tp22.buffer_unhash_mpg k).2.2.2
          (by rw [← b1]; exact b2)
        cases hm : multiPgFrame (Tp22.buffer_unhash_mpg k).1 buf.cpgs (Tp22.buffer_unhash_mpg k).2.2.1 (Tp22.buffer_unhash_mpg k).2.2.2 with
        | none => rw [hm] at hsome; cases hsome
        | some f =>
          simp only
          exact ih { s with mpg := s.mpg.erase k } nw _ hks'
            (by intro k' hk'
                have hne : k' ≠ k := by intro h; subst h; exact hkn hk'
                simp only; rw [PyDict.get?_erase_ne _ _ _ hne]; exact hpres k' (List.mem_cons_of_mem _ hk'))
            ⟨hwf.rk, hwf.sk, PyDict.keys_erase_nodup _ _ hwf.mkeys, hwf.rcv, hwf.snd, PyDict.all_erase _ _ _ hwf.mpg, hwf.rp, hwf.bp⟩ hnw

theorem poolPut_some (p : List Bool) (i : Nat) (h : i < p.length) : ∃ q, poolPut p i = some q ∧ q.length = p.length := by
  unfold poolPut
  simp [h]

theorem sndApply_wf (s : St) (k : Nat) (r1 : Option Snd) (hwf : WF s) (hr : ∀ b', r1 = some b' → SndOk b') :
    WF (sndApply s k r1) ∧ (sndApply s k r1).rtsPool = s.rtsPool ∧ (sndApply s k r1).bamPool = s.bamPool ∧
    ∀ k', k' ≠ k → (sndApply s k r1).snd.get? k' = s.snd.get? k' := by
  cases r1 with
  | some b' =>
    exact ⟨⟨hwf.rk, PyDict.keys_set_nodup _ _ _ hwf.sk, hwf.mkeys, hwf.rcv, PyDict.all_set _ _ _ _ hwf.snd (hr b' rfl), hwf.mpg, hwf.rp, hwf.bp⟩,
      rfl, rfl, fun k' hne => PyDict.get?_set_ne _ _ _ _ hne⟩
  | none =>
    exact ⟨⟨hwf.rk, PyDict.keys_erase_nodup _ _ hwf.sk, hwf.mkeys, hwf.rcv, PyDict.all_erase _ _ _ hwf.snd, hwf.mpg, hwf.rp, hwf.bp⟩,
      rfl, rfl, fun k' hne => PyDict.get?_erase_ne _ _ _ hne⟩

theorem release_wf (s1 : St) (rel : Release) (hwf : WF s1) (hrel : RelOk rel) :
    ∃ s2, release s1 rel = some s2 ∧ WF s2 ∧ s2.snd = s1.snd := by
  cases rel with
  | none => exact ⟨s1, rfl, hwf, rfl⟩
  | rts i =>
    obtain ⟨q, hq, hql⟩ := poolPut_some s1.rtsPool i (by rw [hwf.rp]; exact hrel)
    refine ⟨{ s1 with rtsPool := q }, by simp [release, hq], ?_, rfl⟩
    exact ⟨hwf.rk, hwf.sk, hwf.mkeys, hwf.rcv, hwf.snd, hwf.mpg, by show q.length = 8; rw [hql]; exact hwf.rp, hwf.bp⟩
  | bam i =>
    obtain ⟨q, hq, hql⟩ := poolPut_some s1.bamPool i (by rw [hwf.bp]; exact hrel)
    refine ⟨{ s1 with bamPool := q }, by simp [release, hq], ?_, rfl⟩
    exact ⟨hwf.rk, hwf.sk, hwf.mkeys, hwf.rcv, hwf.snd, hwf.mpg, hwf.rp, by show q.length = 4; rw [hql]; exact hwf.bp⟩

theorem tickSnd_ok (cfg : Cfg) (now : Nat) (hc : CfgPos cfg) (ks : List Nat) (s : St) (nw : Nat) (o : List Out)
    (hks : ks.Nodup) (hpres : ∀ k ∈ ks, (s.snd.get? k).isSome = true) (hwf : WF s) (hnw : now < nw) :
    (tickSnd cfg now ks s nw o).2.2.2 = none ∧ WF (tickSnd cfg now ks s nw o).1 ∧ now < (tickSnd cfg now ks s nw o).2.1 := by
  induction ks generalizing s nw o with
  | nil => exact ⟨rfl, hwf, hnw⟩
  | cons k ks ih =>
    obtain ⟨hkn, hks'⟩ := List.nodup_cons.mp hks
    unfold tickSnd
    have hk := hpres k (List.mem_cons_self ..)
    cases hg : s.snd.get? k with
    | none => rw [hg] at hk; cases hk
    | some buf =>
      simp only
      obtain ⟨h0, h1, h2, h3⟩ := tickSndOne_ok cfg now hc buf (hwf.snd k buf hg)
      rw [h0]
      simp only
      have hnw' : now < (match (tickSndOne cfg now buf).2.2.2.1 with | some d => if nw > d then d else nw | none => nw) := by
        cases hd : (tickSndOne cfg now buf).2.2.2.1 with
        | none => exact hnw
        | some d => have := h2 d hd; simp only; split <;> omega
      obtain ⟨w1, _, _, w4⟩ := sndApply_wf s k (tickSndOne cfg now buf).1 hwf (fun b' hb' => (h1 b' hb').1)
      obtain ⟨s2, hs2, hwf2, hsnd2⟩ := release_wf _ _ w1 h3
      rw [hs2]
      simp only
      apply ih s2 _ _ hks' _ hwf2 hnw'
      intro k' hk'
      have hne : k' ≠ k := by intro h; subst h; exact hkn hk'
      rw [hsnd2, w4 k' hne]
      exact hpres k' (List.mem_cons_of_mem _ hk')

/-- THE J1939-22 PASS SURVIVES AND SLEEPS: from a well-formed state, at any time, with positive pacing intervals — no
    exception (no KeyError, no IndexError from chunk indexing, the FD length table or the session pools), well-formed
    afterwards, and the requested wake-up is strictly in the future -/
theorem tick_ok (cfg : Cfg) (s : St) (now : Nat) (hc : CfgPos cfg) (hwf : WF s) :
    (tick cfg s now).1.err = none ∧ WF (tick cfg s now).1.st ∧ now < (tick cfg s now).2 := by
  have hidle : 0 < Const.Ecu.idle_wakeup := by decide
  obtain ⟨r1, r2, r3⟩ := tickRcv_ok now s.rcv.keys s (now + Const.Ecu.idle_wakeup) [] hwf (by omega)
  unfold tick
  simp only
  generalize tickRcv now s.rcv.keys s (now + Const.Ecu.idle_wakeup) [] = res1 at *
  obtain ⟨s1, nw1, o1, e1⟩ := res1
  simp only at r1 r2 r3
  subst r1
  simp only
  obtain ⟨m1, m2, m3⟩ := tickMpg_ok now s1.mpg.keys s1 nw1 o1 r2.mkeys (fun k hk => PyDict.get?_isSome_of_mem_keys _ _ hk) r2 r3
  generalize tickMpg now s1.mpg.keys s1 nw1 o1 = res2 at *
  obtain ⟨s2, nw2, o2, e2⟩ := res2
  simp only at m1 m2 m3
  subst m1
  simp only
  obtain ⟨q1, q2, q3⟩ := tickSnd_ok cfg now hc s2.snd.keys s2 nw2 o2 m2.sk (fun k hk => PyDict.get?_isSome_of_mem_keys _ _ hk) m2 m3
  generalize tickSnd cfg now s2.snd.keys s2 nw2 o2 = res3 at *
  obtain ⟨s3, nw3, o3, e3⟩ := res3
  exact ⟨q1, q2, q3⟩


theorem wf_set_snd (s : St) (k : Nat) (b : Snd) (h : WF s) (hb : SndOk b) : WF { s with snd := s.snd.set k b } :=
  ⟨h.rk, PyDict.keys_set_nodup _ _ _ h.sk, h.mkeys, h.rcv, PyDict.all_set _ _ _ _ h.snd hb, h.mpg, h.rp, h.bp⟩

theorem wf_set_rcv (s : St) (k : Nat) (r : Rcv) (h : WF s) (hr : RcvOk r) : WF { s with rcv := s.rcv.set k r } :=
  ⟨PyDict.keys_set_nodup _ _ _ h.rk, h.sk, h.mkeys, PyDict.all_set _ _ _ _ h.rcv hr, h.snd, h.mpg, h.rp, h.bp⟩

theorem wf_erase_rcv (s : St) (k : Nat) (h : WF s) : WF { s with rcv := s.rcv.erase k } :=
  ⟨PyDict.keys_erase_nodup _ _ h.rk, h.sk, h.mkeys, PyDict.all_erase _ _ _ h.rcv, h.snd, h.mpg, h.rp, h.bp⟩

theorem sndOk_deadline (b : Snd) (d : Nat) (h : SndOk b) (hd : d ≠ 0) : SndOk { b with deadline := d } :=
  ⟨hd, h.sess, h.bamSess, h.data1, h.segs, h.rts, h.bam⟩

/-- a record moved to one of the passive end states -/
theorem sndOk_state (b : Snd) (st d : Nat) (h : SndOk b) (hd : d ≠ 0) (h1 : st ≠ S_SENDING_BAM) (h2 : st ≠ S_SENDING_EOM_STATUS)
    (h3 : st ≠ S_SENDING_RTS_CTS) : SndOk { b with state := st, deadline := d } :=
  ⟨hd, h.sess, fun hh => by rcases hh with hh | hh; exact absurd hh h1; exact absurd hh h2, h.data1, h.segs,
   fun hh => absurd hh h3, fun hh => absurd hh h1⟩

/-- a record opened for sending by a CTS -/
theorem sndOk_cts (b : Snd) (nxt w : Int) (d : Nat) (h : SndOk b) (hd : d ≠ 0) (hn : -1 ≤ nxt) :
    SndOk { b with next := nxt, waitOn := some w, state := S_SENDING_RTS_CTS, deadline := d } := by
  have n1 : S_SENDING_RTS_CTS ≠ S_SENDING_BAM := by decide
  have n2 : S_SENDING_RTS_CTS ≠ S_SENDING_EOM_STATUS := by decide
  exact ⟨hd, h.sess, fun hh => by rcases hh with hh | hh; exact absurd hh n1; exact absurd hh n2,
   h.data1, h.segs, fun _ => ⟨rfl, hn⟩, fun hh => absurd hh n1⟩

theorem processCm_wf (cfg : Cfg) (s : St) (now : Nat) (mid : MessageId) (dest : Nat) (data : List Nat)
    (hnow : 0 < now) (hwf : WF s) : WF (processCm cfg s now mid dest data).st := by
  have T1 : 0 < Const.T22.T1 := by decide
  have T2 : 0 < Const.T22.T2 := by decide
  have Th : 0 < Const.T22.Th := by decide
  unfold processCm
  dsimp only
  split
  · exact hwf
  · split
    · exact hwf
    · (repeat' split) <;> try exact hwf
      all_goals first
        | (apply wf_set_rcv _ _ _ hwf; show _ ≠ 0; simp only; omega)
        | exact wf_erase_rcv _ _ hwf
        | (apply wf_set_snd _ _ _ hwf; apply sndOk_deadline _ _ (hwf.snd _ _ (by assumption)); omega)
        | (apply wf_set_snd _ _ _ hwf; apply sndOk_cts _ _ _ _ (hwf.snd _ _ (by assumption)) (by omega); omega)
        | (apply wf_set_snd _ _ _ hwf; apply sndOk_state _ _ _ (hwf.snd _ _ (by assumption)) (by omega) <;> decide)

theorem processDt_wf (s : St) (now : Nat) (mid : MessageId) (dest : Nat) (data : List Nat)
    (hnow : 0 < now) (hwf : WF s) : WF (processDt s now mid dest data).st := by
  have T1 : 0 < Const.T22.T1 := by decide
  have T2 : 0 < Const.T22.T2 := by decide
  unfold processDt
  dsimp only
  (repeat' split) <;> try exact hwf
  all_goals first
    | (apply wf_set_rcv _ _ _ hwf; show _ ≠ 0; simp only; omega)
    | (apply wf_set_rcv _ _ _ hwf; show _ ≠ 0; simp only; exact hwf.rcv _ _ (by assumption))
    | (dsimp only; apply wf_set_rcv _ _ _ hwf; show _ ≠ 0; simp only; exact hwf.rcv _ _ (by assumption))

/-- EVERY received frame — any identifier, any payload, accepted or not, whether or not the handler raises — keeps the
    J1939-22 tables well-formed -/
theorem notify_wf (cfg : Cfg) (s : St) (now : Nat) (acc : Nat → Bool) (canId : Nat) (data : List Nat)
    (hnow : 0 < now) (hwf : WF s) : WF (notify cfg s now acc canId data).st := by
  unfold notify
  dsimp only
  (repeat' split) <;> first
    | exact hwf
    | exact processCm_wf _ _ _ _ _ _ hnow hwf
    | exact processDt_wf _ _ _ _ _ hnow hwf


theorem mpgPlace_keys (now deadline ff src dst : Nat) (cpg : Cpg) (fuel session : Nat) (m : PyDict MpgBuf) (o : List Out)
    (h : m.keys.Nodup) : (mpgPlace now deadline ff src dst cpg fuel session m o).1.keys.Nodup := by
  induction fuel generalizing session m o with
  | zero => exact h
  | succ fuel ih =>
    unfold mpgPlace
    dsimp only
    split
    · exact PyDict.keys_set_nodup _ _ _ h
    · split
      · exact PyDict.keys_set_nodup _ _ _ h
      · exact ih _ _ _ (PyDict.keys_set_nodup _ _ _ h)

theorem chunks60_len (data : List Nat) : 1 ≤ (chunks60 data).length ∧ Tp22.num_segments data.length ≤ (chunks60 data).length := by
  unfold chunks60 Tp22.num_segments Py.b2n
  have hTP : Const.DL22.TP = 60 := rfl
  simp only [hTP, List.length_append, List.length_map, List.length_range, List.length_cons, List.length_nil]
  constructor
  · omega
  · split <;> omega

/-- `send_pgn` — accepted or refused, short or long, any time limit and frame format — keeps the tables well-formed -/
theorem sendPgn_wf (cfg : Cfg) (s : St) (now dp pf ps prio sa : Nat) (data : List Nat) (tl ff : Nat) (hc : CfgPos cfg) (hwf : WF s) :
    WF (sendPgn cfg s now dp pf ps prio sa data tl ff).1.st := by
  have T3 : 0 < Const.T22.T3 := by decide
  have htp : Const.DL22.TP = 60 := rfl
  have b_r : S_SENDING_BAM ≠ S_SENDING_RTS_CTS := by decide
  have w_b : S_WAITING_CTS ≠ S_SENDING_BAM := by decide
  have w_e : S_WAITING_CTS ≠ S_SENDING_EOM_STATUS := by decide
  have w_r : S_WAITING_CTS ≠ S_SENDING_RTS_CTS := by decide
  unfold sendPgn
  dsimp only
  by_cases hshort : data.length ≤ Const.DL22.TP
  · simp only [hshort, if_true]
    (repeat' split) <;> try exact hwf
    -- time-limited placement
    all_goals
      dsimp only
      refine ⟨hwf.rk, hwf.sk, mpgPlace_keys _ _ _ _ _ _ _ _ _ _ hwf.mkeys, hwf.rcv, hwf.snd, ?_, hwf.rp, hwf.bp⟩
      exact J1939.Props.C11.c11_fill_inv _ _ _ _ _ _ (by show data.length ≤ 60; rw [← htp]; exact hshort) _ _ _ _ hwf.mpg
  · simp only [hshort, if_false]
    have hcl := chunks60_len data
    have hseg2 : 2 ≤ Tp22.num_segments data.length := by
      unfold Tp22.num_segments Py.b2n
      rw [htp] at hshort
      split <;> rename_i h <;> simp at h <;> omega
    split
    · exact hwf
    · rename_i session pool hget
      by_cases hb : (ps == Const.Addr.GLOBAL || PGN.is_pdu2_format (PGN.ofFields 0 pf ps)) = true
      · simp only [hb, if_true] at hget ⊢
        obtain ⟨g1, g2, g3⟩ := J1939.Props.C02.poolGet_some _ _ _ hget
        have hs4 : session < 4 := by
          have := (List.getElem?_eq_some_iff.mp g1).1
          rw [hwf.bp] at this; exact this
        refine wf_set_snd { s with bamPool := pool } _ _ ⟨hwf.rk, hwf.sk, hwf.mkeys, hwf.rcv, hwf.snd, hwf.mpg, hwf.rp, by show pool.length = 4; rw [g3]; exact hwf.bp⟩ ?_
        exact ⟨by show now + cfg.bamInterval ≠ 0; have := hc.1; omega, by show session < 8; omega, fun _ => hs4, hcl.1, hcl.2,
          fun h => absurd h b_r,
          fun _ => ⟨by show (0 : Int) ≤ 0; omega, by show (0 : Int) < (Tp22.num_segments data.length : Int); omega⟩⟩
      · have hb' : (ps == Const.Addr.GLOBAL || PGN.is_pdu2_format (PGN.ofFields 0 pf ps)) = false := by
          cases h : (ps == Const.Addr.GLOBAL || PGN.is_pdu2_format (PGN.ofFields 0 pf ps)) with
          | false => rfl
          | true => exact absurd h hb
        simp only [hb', Bool.false_eq_true, if_false] at hget ⊢
        obtain ⟨g1, g2, g3⟩ := J1939.Props.C02.poolGet_some _ _ _ hget
        have hs8 : session < 8 := by
          have := (List.getElem?_eq_some_iff.mp g1).1
          rw [hwf.rp] at this; exact this
        refine wf_set_snd { s with rtsPool := pool } _ _ ⟨hwf.rk, hwf.sk, hwf.mkeys, hwf.rcv, hwf.snd, hwf.mpg, by show pool.length = 8; rw [g3]; exact hwf.rp, hwf.bp⟩ ?_
        exact ⟨by show now + Const.T22.T3 ≠ 0; omega, hs8,
          fun h => by rcases h with h | h; exact absurd h w_b; exact absurd h w_e,
          hcl.1, hcl.2, fun h => absurd h w_r, fun h => absurd h w_b⟩

theorem wf_init : WF {} :=
  ⟨List.nodup_nil, List.nodup_nil, List.nodup_nil, PyDict.all_nil _, PyDict.all_nil _, PyDict.all_nil _, by decide, by decide⟩

end J1939.Dll22
