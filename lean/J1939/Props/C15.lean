/-
  C15 — Identifier and NAME codecs are exact inverses on their whole domain.
  All statements are about the definitions GENERATED from the repository's source (Gen/Codec.lean) and hold for
  every value of the quantified variables (no sampling).
-/
import J1939.Lemmas.Codec
import J1939.Model.Ref
namespace J1939.Props.C15
open J1939 J1939.Gen J1939.Lemmas

/-- parse ∘ compose = the constructor's masking of the fields (identity on in-range fields) — every `p g s` -/
theorem c15_id_parse_compose (p g s : Nat) :
    MessageId.ofCanId (MessageId.can_id (MessageId.ofFields p g s)) = MessageId.ofFields p g s := by
  rw [can_id_arith _ (ofFields_wf p g s), ofCanId_eq, ofFields_eq]
  simp only [MessageId.mk.injEq]
  refine ⟨?_, ?_, ?_⟩ <;> omega

/-- the constructor keeps in-range fields as they are -/
theorem c15_id_fields (p g s : Nat) (hp : p < 8) (hg : g < 2^18) (hs : s < 256) :
    MessageId.ofFields p g s = { source_address := s, parameter_group_number := g, priority := p } := by
  rw [ofFields_eq]; simp only [MessageId.mk.injEq]; refine ⟨?_, ?_, ?_⟩ <;> omega

/-- compose ∘ parse = id on all 2^29 identifiers -/
theorem c15_id_compose_parse (c : Nat) (h : c < 2^29) : MessageId.can_id (MessageId.ofCanId c) = c := by
  rw [can_id_arith _ (ofCanId_wf c), ofCanId_eq]; simp only; omega

/-- the composed identifier has every field at its SAE J1939-21 position -/
theorem c15_id_layout (p g s : Nat) :
    MessageId.can_id (MessageId.ofFields p g s) = Ref.canId (p % 8) (g % 2^18) (s % 256) := by
  rw [can_id_arith _ (ofFields_wf p g s), ofFields_eq]; simp only [Ref.canId] <;> omega

/-- PGN value agrees with data page / PDU format / PDU specific -/
theorem c15_pgn_value (dp pf ps : Nat) :
    PGN.value (PGN.ofFields dp pf ps) = Ref.pgn (dp % 2) (pf % 256) (ps % 256) := by
  rw [pgn_value_arith _ (pgn_ofFields_wf dp pf ps), pgn_ofFields_eq]; simp only [Ref.pgn] <;> omega

/-- the fields read back from the numeric value -/
theorem c15_pgn_fields_of_value (dp pf ps : Nat) :
    let v := PGN.value (PGN.ofFields dp pf ps)
    Ref.field v 16 1 = dp % 2 ∧ Ref.field v 8 8 = pf % 256 ∧ Ref.field v 0 8 = ps % 256 := by
  simp only [c15_pgn_value, Ref.pgn, Ref.field]; refine ⟨?_, ?_, ?_⟩ <;> omega

/-- PGN taken from an identifier = the identifier's PGN field modulo the extended-data-page bit -/
theorem c15_pgn_from_message_id (c : Nat) :
    PGN.value (PGN.from_message_id (MessageId.ofCanId c)) = (c / 256 % 2^18) % 2^17 := by
  rw [pgn_value_arith _ (pgn_from_mid_wf _), pgn_from_mid_eq, ofCanId_eq]; simp only; omega

/-- PDU1 / PDU2 classification agrees with the numeric PDU format: PDU1 ⇔ PF < 240, PDU2 ⇔ ¬PDU1 -/
theorem c15_pdu_classification (dp pf ps : Nat) :
    (PGN.is_pdu1_format (PGN.ofFields dp pf ps) = true ↔ pf % 256 < 240) ∧
    (PGN.is_pdu2_format (PGN.ofFields dp pf ps) = !PGN.is_pdu1_format (PGN.ofFields dp pf ps)) := by
  rw [pgn_ofFields_eq]
  have h : pf % 256 < 256 := Nat.mod_lt _ (by decide)
  simp only [PGN.is_pdu1_format, PGN.is_pdu2_format]
  by_cases h1 : pf % 256 ≤ 239
  · have h2 : ¬ (pf % 256 ≥ 240) := by omega
    simp [h1, h2]; omega
  · have h2 : pf % 256 ≥ 240 := by omega
    have h3 : pf % 256 ≤ 255 := by omega
    simp [h1, h2, h3] <;> omega

/-- NAME: value → fields → value is the identity on all 2^64 values, the reserved bit reading as 0 -/
theorem c15_name_value_ofValue (v : Nat) (h : v < 2^64) :
    Name.value (Name.ofValue v) = v - (v / 2^48 % 2) * 2^48 := by
  rw [name_value_arith, name_ofValue_eq]; simp only; omega

/-- NAME: fields → value → fields is the identity on every field tuple the constructor accepts -/
theorem c15_name_ofValue_value (n : Name) (h : Name.WF n) : Name.ofValue (Name.value n) = n := by
  obtain ⟨h1, h2, h3, h4, h5, h6, h7, h8, h9, h10⟩ := h
  rw [name_ofValue_eq, name_value_arith]
  cases n
  simp only [Name.mk.injEq] at *
  refine ⟨?_, ?_, ?_, ?_, ?_, ?_, ?_, ?_, ?_, ?_⟩ <;> omega

/-- a NAME built from fields: the constructor accepts exactly the in-range tuples and then value/ofValue round-trips -/
theorem c15_name_ofFields_roundtrip (a ig vsi vs f fi e m i : Nat) (n : Name)
    (h : Name.ofFields a ig vsi vs f fi e m i = some n) : Name.ofValue (Name.value n) = n :=
  c15_name_ofValue_value n (name_ofFields_some a ig vsi vs f fi e m i n h).2

/-- every field sits at the bit position SAE J1939-81 assigns -/
theorem c15_name_layout (n : Name) (h : Name.WF n) :
    Ref.nameFields (Name.value n) =
      { identity := n.identity_number, manufacturer := n.manufacturer_code, ecuInstance := n.ecu_instance,
        functionInstance := n.function_instance, function := n.function, reserved := 0,
        vehicleSystem := n.vehicle_system, vehicleSystemInstance := n.vehicle_system_instance,
        industryGroup := n.industry_group, aac := n.arbitrary_address_capable } := by
  obtain ⟨h1, h2, h3, h4, h5, h6, h7, h8, h9, h10⟩ := h
  rw [name_value_arith]
  simp only [Ref.nameFields, Ref.field, Ref.NameFields.mk.injEq, Nat.reducePow]
  refine ⟨?_, ?_, ?_, ?_, ?_, ?_, ?_, ?_, ?_, ?_⟩ <;> omega

/-- the 8 NAME bytes are the little-endian bytes of the 64-bit value -/
theorem c15_name_bytes_le (n : Name) : Name.bytes n = le64 (Name.value n) := name_bytes_eq n

/-- bytes → NAME → bytes: identity on every 8-byte string except that the reserved bit (bit 0 of byte 7) reads as 0 -/
theorem c15_name_bytes_ofBytes (b0 b1 b2 b3 b4 b5 b6 b7 : Nat)
    (h0 : b0 < 256) (h1 : b1 < 256) (h2 : b2 < 256) (h3 : b3 < 256) (h4 : b4 < 256) (h5 : b5 < 256) (h6 : b6 < 256) (h7 : b7 < 256) :
    Name.bytes (Name.ofBytes [b0, b1, b2, b3, b4, b5, b6, b7]) = [b0, b1, b2, b3, b4, b5, b6 - b6 % 2, b7] := by
  rewrite [name_bytes_eq, name_ofBytes_eq, fromBytesLE_8]
  generalize hv : b0 + 256 * (b1 + 256 * (b2 + 256 * (b3 + 256 * (b4 + 256 * (b5 + 256 * (b6 + 256 * (b7 + 256 * 0))))))) = v
  rewrite [name_value_ofValue_lit v (by omega)]
  apply le64_of_digits <;> omega

/-- NAME → bytes → NAME: identity on every NAME the constructor accepts -/
theorem c15_name_ofBytes_bytes (n : Name) (h : Name.WF n) : Name.ofBytes (Name.bytes n) = n := by
  have hv := c15_name_ofValue_value n h
  obtain ⟨h1, h2, h3, h4, h5, h6, h7, h8, h9, h10⟩ := h
  rewrite [name_bytes_eq, name_ofBytes_eq, le64, fromBytesLE_8]
  have : Name.value n < 18446744073709551616 := by rw [name_value_arith]; omega
  have e : (Name.value n % 256 + 256 * (Name.value n / 256 % 256 + 256 * (Name.value n / 65536 % 256 +
      256 * (Name.value n / 16777216 % 256 + 256 * (Name.value n / 4294967296 % 256 + 256 * (Name.value n / 1099511627776 % 256 +
      256 * (Name.value n / 281474976710656 % 256 + 256 * (Name.value n / 72057594037927936 % 256 + 256 * 0)))))))) = Name.value n := by
    omega
  rewrite [e]; exact hv

/-! Non-vacuity: concrete values meeting the hypotheses. -/
example : Name.WF (Name.ofValue 0x8123456789ABCDEF) := name_ofValue_wf _
example : ∃ n, Name.ofFields 1 2 3 4 5 6 7 8 9 = some n := ⟨_, rfl⟩
example : MessageId.can_id (MessageId.ofFields 6 0xFECA 0x21) = 0x18FECA21 := by decide

/-! ### the order used in arbitration -/

/-- the number a little-endian byte list denotes -/
def leVal : List Nat → Nat
  | [] => 0
  | x :: xs => x + 256 * leVal xs

/-- "less" decided from the MOST significant byte down (the list is little-endian: the tail holds the higher bytes) -/
def msbLess : List Nat → List Nat → Prop
  | x :: xs, y :: ys => msbLess xs ys ∨ (xs = ys ∧ x < y)
  | _, _ => False

theorem leVal_inj (a b : List Nat) (hl : a.length = b.length) (ha : ∀ x ∈ a, x < 256) (hb : ∀ x ∈ b, x < 256)
    (h : leVal a = leVal b) : a = b := by
  induction a generalizing b with
  | nil => cases b with
    | nil => rfl
    | cons y ys => simp at hl
  | cons x xs ih =>
    cases b with
    | nil => simp at hl
    | cons y ys =>
      simp only [leVal] at h
      have hx := ha x (List.mem_cons_self ..)
      have hy := hb y (List.mem_cons_self ..)
      have h1 : x = y := by omega
      have h2 : leVal xs = leVal ys := by omega
      rw [h1, ih ys (by simpa using hl) (fun z hz => ha z (List.mem_cons_of_mem _ hz)) (fun z hz => hb z (List.mem_cons_of_mem _ hz)) h2]

theorem leVal_lt_iff (a b : List Nat) (hl : a.length = b.length) (ha : ∀ x ∈ a, x < 256) (hb : ∀ x ∈ b, x < 256) :
    leVal a < leVal b ↔ msbLess a b := by
  induction a generalizing b with
  | nil => cases b with
    | nil => simp [leVal, msbLess]
    | cons y ys => simp at hl
  | cons x xs ih =>
    cases b with
    | nil => simp at hl
    | cons y ys =>
      have hx := ha x (List.mem_cons_self ..)
      have hy := hb y (List.mem_cons_self ..)
      have hxs : ∀ z ∈ xs, z < 256 := fun z hz => ha z (List.mem_cons_of_mem _ hz)
      have hys : ∀ z ∈ ys, z < 256 := fun z hz => hb z (List.mem_cons_of_mem _ hz)
      have hl' : xs.length = ys.length := by simpa using hl
      have := ih ys hl' hxs hys
      simp only [leVal, msbLess]
      constructor
      · intro h
        by_cases hlt : leVal xs < leVal ys
        · exact Or.inl (this.mp hlt)
        · have he : leVal xs = leVal ys := by omega
          exact Or.inr ⟨leVal_inj xs ys hl' hxs hys he, by omega⟩
      · rintro (h | ⟨he, hlt⟩)
        · have := this.mpr h; omega
        · rw [he]; omega

theorem leVal_le64 (v : Nat) (h : v < 18446744073709551616) : leVal (le64 v) = v := by
  simp only [le64, leVal]; omega

theorem le64_bytes (v : Nat) : ∀ x ∈ le64 v, x < 256 := by
  intro x hx
  simp only [le64, List.mem_cons, List.not_mem_nil, or_false] at hx
  rcases hx with rfl | rfl | rfl | rfl | rfl | rfl | rfl | rfl <;> omega

/-- ARBITRATION ORDER: for any two NAMEs, the order of their 64-bit values is the order of their 8 bytes compared from the
    MOST significant byte (byte 8, index 7) down — never the order of the byte lists as transmitted (least significant
    byte first) -/
theorem c15_name_order_is_msb_first (a b : Name) (wa : Name.WF a) (wb : Name.WF b) :
    Name.value a < Name.value b ↔ msbLess (Name.bytes a) (Name.bytes b) := by
  generalize hva : Name.value a = va
  generalize hvb : Name.value b = vb
  have ha : va < 18446744073709551616 := by
    obtain ⟨_, _, _, _, _, _, _, _, _, _⟩ := wa
    rw [name_value_arith] at hva; omega
  have hb : vb < 18446744073709551616 := by
    obtain ⟨_, _, _, _, _, _, _, _, _, _⟩ := wb
    rw [name_value_arith] at hvb; omega
  rw [name_bytes_eq, name_bytes_eq, hva, hvb]
  have := leVal_lt_iff (le64 va) (le64 vb) (by simp only [le64, List.length_cons, List.length_nil]) (le64_bytes _) (le64_bytes _)
  rw [leVal_le64 _ ha, leVal_le64 _ hb] at this
  exact this

/-- … and the transmitted order really is a different relation: these two values compare one way as numbers and the
    other way as byte lists from the front -/
example : (1 : Nat) * 2^56 + 9 < 2 * 2^56 + 3 ∧ ¬ (le64 (1 * 2^56 + 9) < le64 (2 * 2^56 + 3)) := by decide
end J1939.Props.C15
