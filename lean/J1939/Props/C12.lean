/-
  C12 — Timers fire when due and callback registrations mean what they say.
  Statements about the ECU core model (Model/Ecu.lean): timer list, subscriber list, one pass of the background
  loop, for EVERY state satisfying the reachable-state invariant `WF`, every time, every table of callback
  behaviours (callbacks may add/remove timers, subscribe/unsubscribe and take time).
-/
import J1939.Lemmas.EcuPass
namespace J1939.Props.C12
open J1939 J1939.Ecu

/-- reachable-state invariant: unique event identities, every event on the grid `born + k·delta` (k ≥ 1, delta > 0),
    every `add_timer` a scripted callback performs has a positive period -/
def WF (c : Core) : Prop := c.UidOk ∧ (∀ t ∈ c.timers, t.OnGrid) ∧ CbsPos c

/-! ### `WF` holds initially and is preserved by every operation: it holds in every reachable state -/

theorem c12_wf_init (cbs : List UserCb) (h : ∀ b ∈ cbs, ∀ d cb ck, TOp.add d cb ck ∈ b.ops → 0 < d) :
    WF { cbs := cbs } := by
  exact ⟨⟨List.nodup_nil, fun t ht => (by cases ht)⟩, fun t ht => (by cases ht), h⟩

theorem c12_wf_ops (c : Core) (clk : Nat) (ops : List TOp) (h : WF c)
    (hpos : ∀ d cb ck, TOp.add d cb ck ∈ ops → 0 < d) : WF (c.applyOps clk ops).1 := by
  obtain ⟨hu, hg, hc⟩ := h
  refine ⟨(applyOps_uidOk c clk ops hu).1, ?_, by unfold CbsPos; rw [applyOps_cbs]; exact hc⟩
  apply applyOps_forall Timer.OnGrid c clk ops _ hg
  intro d cb ck hm clk' uid _
  exact ⟨hpos d cb ck hm, 1, Nat.le_refl _, by simp⟩

/-- add_timer / remove_timer / subscribe / unsubscribe from the application thread -/
theorem c12_wf_addTimer (c : Core) (now delta cb ck : Nat) (h : WF c) (hd : 0 < delta) : WF (c.addTimer now delta cb ck) := by
  have := c12_wf_ops c now [TOp.add delta cb ck] h (by intro d cb' ck' hm; simp at hm; omega)
  simpa [Core.applyOps, Core.applyOp] using this

theorem c12_wf_removeTimer (c : Core) (cb : Nat) (h : WF c) : WF (c.removeTimer cb) := by
  have := c12_wf_ops c 0 [TOp.remove cb] h (by intro d cb' ck' hm; simp at hm)
  simpa [Core.applyOps, Core.applyOp] using this

theorem c12_wf_pass (c : Core) (now clk w : Nat) (h : WF c) : WF (c.pass now clk w).1 := by
  obtain ⟨hu, hg, hc⟩ := h
  have inv := timerLoop_inv now (c.timers.map (·.uid)) c clk w []
    ⟨hu, hg, hc, fun ev hm => (by cases hm), fun _ t ht => Or.inl (List.mem_map_of_mem ht)⟩
  refine ⟨⟨?_, ?_⟩, ?_, ?_⟩
  · rw [pass_timers]; exact inv.uid.1
  · rw [pass_timers, pass_nextUid]; exact inv.uid.2
  · rw [pass_timers]; exact inv.grid
  · unfold CbsPos; rw [pass_cbs]; exact inv.cbs

/-! ### the property -/

/-- NOT EARLY: a callback registered with add_timer(delta) at time `born` is called only in a pass whose start time
    is at least `born + delta` (and its deadline has been reached) -/
theorem c12_not_early (c : Core) (now clk w : Nat) (h : WF c) (ev : Timer)
    (hcall : Obs.call ev ∈ (c.pass now clk w).2.2.2) : ev.born + ev.delta ≤ now ∧ ev.deadline ≤ now := by
  obtain ⟨hu, hg, hc⟩ := h
  have inv := timerLoop_inv now (c.timers.map (·.uid)) c clk w []
    ⟨hu, hg, hc, fun ev hm => (by cases hm), fun _ t ht => Or.inl (List.mem_map_of_mem ht)⟩
  apply inv.due
  rw [pass_obs] at hcall; exact hcall

/-- WAKE COVERS: when a pass decides to sleep, the sleep ends no later than the earliest deadline in the timer list
    (and no later than the data link layer's wake-up); a pass that does not sleep (`spin`, `woken`) is followed by
    another pass at once.  Hence, in an idle ECU, every timer is served by its deadline plus scheduling latency. -/
theorem c12_wake_covers (c : Core) (now clk w : Nat) (h : WF c) (d : Nat)
    (hs : (c.pass now clk w).2.2.1 = Sleep.sleep d) :
    0 < d ∧ (c.pass now clk w).2.1 + d ≤ w ∧
    ∀ t ∈ (c.pass now clk w).1.timers, (c.pass now clk w).2.1 + d ≤ t.deadline := by
  obtain ⟨hu, hg, hc⟩ := h
  have inv := timerLoop_inv now (c.timers.map (·.uid)) c clk w []
    ⟨hu, hg, hc, fun ev hm => (by cases hm), fun _ t ht => Or.inl (List.mem_map_of_mem ht)⟩
  have hle := timerLoop_nw_le now (c.timers.map (·.uid)) c clk w []
  obtain ⟨hgt, hw, hd⟩ := pass_sleep c now clk w d hs
  rw [pass_clk, pass_timers]
  refine ⟨by omega, by omega, ?_⟩
  intro t ht
  rcases inv.cover hw t ht with hm | hacc
  · cases hm
  · omega

/-- NO DRIFT / ONCE PER PERIOD: after a periodic callback has been served at `now`, its next deadline is the first
    grid point `deadline + k·delta` strictly after `now` — it is not due again in a pass at the same time, it is
    at most one period away, and the grid `born + k·delta` is kept by `c12_wf_pass` -/
theorem c12_periodic_next (dl delta now : Nat) (hd : 0 < delta) (hdue : dl ≤ now) :
    now < catchUp dl delta now ∧ catchUp dl delta now ≤ now + delta ∧
    ∃ k, 1 ≤ k ∧ catchUp dl delta now = dl + k * delta := catchUp_spec dl delta now hd hdue

/-- REMOVE ALL: after remove_timer(cb) no registration of cb remains, however many there were and wherever in the
    list; every other registration is kept, in order -/
theorem c12_remove_timer_all (c : Core) (cb : Nat) :
    (c.removeTimer cb).timers = c.timers.filter (fun t => t.cb != cb) := removeTimer_timers c cb

theorem c12_unsubscribe_all (c : Core) (cb : Nat) :
    (c.unsubscribe cb).subs = c.subs.filter (fun d => d.cb != cb) := unsubscribe_subs c cb

/-- NEVER AGAIN: if no registration of `cb` is in the list and no callback re-registers it, `cb` is not called in
    the pass and is still unregistered afterwards (with `c12_remove_timer_all`: never after remove_timer returns;
    with the one-shot branch of the loop: never after returning non-True) -/
theorem c12_not_called_when_unregistered (c : Core) (now clk w cb : Nat)
    (hnone : ∀ t ∈ c.timers, t.cb ≠ cb)
    (hnoadd : ∀ b ∈ c.cbs, ∀ d ck, TOp.add d cb ck ∉ b.ops) :
    (∀ ev, Obs.call ev ∈ (c.pass now clk w).2.2.2 → ev.cb ≠ cb) ∧ (∀ t ∈ (c.pass now clk w).1.timers, t.cb ≠ cb) := by
  have := timerLoop_forall (fun t => t.cb ≠ cb) now (fun t d ht => ht) (c.timers.map (·.uid)) c clk w []
    (by intro b hb d cb' ck hm clk' uid; intro he; simp only at he; subst he; exact hnoadd b hb d ck hm)
    hnone (by intro ev hm; cases hm)
  rw [pass_obs, pass_timers]; exact ⟨this.2, this.1⟩

/-- a one-shot (non-True) callback's event is gone after the pass that served it; a True one stays registered -/
theorem c12_one_shot_removed (c : Core) (now clk w : Nat) (h : WF c) (ev : Timer)
    (hcall : Obs.call ev ∈ (c.pass now clk w).2.2.2) (hret : (c.cbOf ev.cb).ret = false) :
    ∀ t ∈ (c.pass now clk w).1.timers, t.uid ≠ ev.uid := by
  have key := timerLoop_oneshot now c.cbs (c.timers.map (·.uid)) c clk w [] rfl h.1 (by intro e hm; cases hm) ev
  rw [pass_obs] at hcall; rw [pass_timers]
  exact key hcall hret

/-- NO SUPPRESSION: every timer that is registered and due at the start of a pass is called in that pass, whatever
    else expires, is added or re-armed in the same pass (callbacks that do not call remove_timer) -/
theorem c12_every_due_timer_called (c : Core) (now clk w : Nat) (h : WF c) (hno : NoRemoveOps c)
    (t : Timer) (ht : t ∈ c.timers) (hdue : t.deadline ≤ now) : Obs.call t ∈ (c.pass now clk w).2.2.2 := by
  have := timerLoop_calls_due now t hdue (c.timers.map (·.uid)) c clk w [] h.1.1 h.1 hno
    (Or.inr ⟨List.mem_map_of_mem ht, ht⟩)
  rw [pass_obs]; exact this

/-- INDEPENDENCE: registering or removing one timer leaves every other registration exactly as it was -/
theorem c12_independence (c : Core) (now delta cb ck : Nat) (t : Timer) (ht : t ∈ c.timers) :
    t ∈ (c.addTimer now delta cb ck).timers ∧ (t.cb ≠ cb → t ∈ (c.removeTimer cb).timers) := by
  refine ⟨by simp [Core.addTimer, ht], ?_⟩
  intro hne
  rw [removeTimer_timers]
  exact List.mem_filter.mpr ⟨ht, by simpa using hne⟩

/-- every operation that changes the timer list wakes the background thread (so the new minimum is recomputed) -/
theorem c12_ops_wake (c : Core) (now delta cb ck : Nat) :
    0 < (c.addTimer now delta cb ck).wake ∧ 0 < (c.removeTimer cb).wake := by
  simp [Core.addTimer, Core.removeTimer]

/-! ### non-vacuity: a concrete reachable state with duplicates, a periodic and a one-shot callback -/
def exCore : Core :=
  ((({ cbs := [{ ret := true }, { ret := false, ops := [TOp.add 5000 0 7] }] } : Core).addTimer 1000 100000 0 0).addTimer 1000 100000 0 0).addTimer
    1000 50000 1 3

example : WF exCore :=
  c12_wf_addTimer _ _ _ _ _ (c12_wf_addTimer _ _ _ _ _ (c12_wf_addTimer _ _ _ _ _
    (c12_wf_init _ (by intro b hb d cb ck hm; simp at hb; rcases hb with rfl | rfl <;> simp at hm; omega)) (by decide)) (by decide)) (by decide)
example : ((exCore.removeTimer 0).timers.map (·.cb)) = [1] := by decide
example : (exCore.pass 51000 51000 5051000).2.2.1 = Sleep.woken := by decide

end J1939.Props.C12
