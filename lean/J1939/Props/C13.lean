/-
  C13 — A controller application sends application data only from an address it holds.
  Model/Ca.lean (tied to controller_application.py by correspondence); histories = arbitrary sequences of claim-timer
  firings and received address-claim frames (any source address, any NAME bytes) — induction over the history.
-/
import J1939.Model.Ca
import J1939.Lemmas.Tactics
namespace J1939.Props.C13
open J1939 J1939.Gen J1939.Ca

theorem states_distinct : NONE ≠ NORMAL ∧ WAIT_VETO ≠ NORMAL ∧ CANNOT_CLAIM ≠ NORMAL ∧ NONE ≠ WAIT_VETO ∧ NONE ≠ CANNOT_CLAIM ∧
    WAIT_VETO ≠ CANNOT_CLAIM := by decide

/-- GUARD: without an address (any state but NORMAL) send_message, send_pgn and send_request (for any PGN but the
    address-claim PGN) raise and put nothing on the bus -/
theorem c13_guard (c : Ca) (h : c.state ≠ NORMAL) (prio pgn dest : Nat) (data : List Nat) :
    sendMessage c prio pgn data = none ∧ sendPgnSa c = none ∧ (pgn ≠ Const.PGN.ADDRESSCLAIM → sendRequest c pgn dest = none) := by
  have h' : (c.state != NORMAL) = true := by simpa using h
  refine ⟨by simp [sendMessage, h'], by simp [sendPgnSa, h'], ?_⟩
  intro hp
  have hp' : (pgn != Const.PGN.ADDRESSCLAIM) = true := by simpa using hp
  simp [sendRequest, h', hp']

/-- the one exception: the request for address claim goes out from the null address 254 -/
theorem c13_request_for_claim_from_null (c : Ca) (h : c.state ≠ NORMAL) (dest : Nat) :
    ∃ pf ps prio data, sendRequest c Const.PGN.ADDRESSCLAIM dest = some (254, pf, ps, prio, data) := by
  have h' : (c.state != NORMAL) = true := by simpa using h
  simp [sendRequest, h']
  decide

/-- SOURCE ADDRESS: in state NORMAL every frame of the three entry points carries exactly the held address -/
theorem c13_source_address (c : Ca) (a : Nat) (h : c.state = NORMAL) (ha : c.addr = some a) (prio pgn dest : Nat) (data : List Nat) :
    sendMessage c prio pgn data = some { id := MessageId.can_id (MessageId.ofFields prio pgn a), ext := true, data := data } ∧
    sendPgnSa c = some a ∧ (∃ pf ps pr d, sendRequest c pgn dest = some (a, pf, ps, pr, d)) := by
  have h' : (c.state != NORMAL) = false := by simp [h]
  refine ⟨by simp [sendMessage, h', ha], by simp [sendPgnSa, h', ha], by simp [sendRequest, h', ha]⟩

/-- invariant: an operational CA holds exactly the address it announced -/
def Inv (c : Ca) : Prop := c.state = NORMAL → c.addr = some c.announced

theorem c13_inv_new (name : Name) (pref : Option Nat) (bypass : Bool) : Inv (Ca.new name pref bypass) := by
  have := states_distinct
  unfold Inv Ca.new
  cases bypass <;> cases pref <;> simp_all

theorem c13_inv_claimAsync (c : Ca) (h : Inv c) : Inv (claimAsync c).1 := by
  have := states_distinct
  unfold Inv claimAsync at *
  crack

theorem c13_inv_addressClaim (c : Ca) (sa : Nat) (data : List Nat) (h : Inv c) : Inv (processAddressClaim c sa data).1 := by
  have := states_distinct
  unfold Inv processAddressClaim at *
  crack

/-- over EVERY history of timer firings and received claims -/
inductive Ev where
  | timer
  | claim (sa : Nat) (data : List Nat)

def run (c : Ca) : List Ev → Ca
  | [] => c
  | .timer :: es => run (claimAsync c).1 es
  | .claim sa d :: es => run (processAddressClaim c sa d).1 es

theorem c13_normal_has_address (name : Name) (pref : Option Nat) (bypass : Bool) (hist : List Ev) :
    Inv (run (Ca.new name pref bypass) hist) := by
  suffices ∀ c, Inv c → Inv (run c hist) from this _ (c13_inv_new name pref bypass)
  induction hist with
  | nil => intro c h; exact h
  | cons e es ih =>
    intro c h
    cases e with
    | timer => exact ih _ (c13_inv_claimAsync c h)
    | claim sa d => exact ih _ (c13_inv_addressClaim c sa d h)

/-- NEVER OPERATIONAL AT THE NULL ADDRESS (after the repair of D28): a CA whose preferred address is a real address
    (≤ 253) never announces, waits at, or holds an address above 253 — whatever it loses, however often -/
def InvRange (c : Ca) : Prop :=
  (∀ p, c.preferred = some p → p ≤ 253) ∧ ((c.state = WAIT_VETO ∨ c.state = NORMAL) → c.announced ≤ 253)

theorem c13_range_new (name : Name) (pref : Option Nat) (bypass : Bool) (hp : ∀ p, pref = some p → p ≤ 253) :
    InvRange (Ca.new name pref bypass) := by
  have := states_distinct
  unfold InvRange Ca.new
  cases bypass <;> cases pref <;> simp_all

theorem c13_range_claimAsync (c : Ca) (h : InvRange c) : InvRange (claimAsync c).1 := by
  have := states_distinct
  unfold InvRange claimAsync at *
  obtain ⟨h1, h2⟩ := h
  crack

theorem c13_range_addressClaim (c : Ca) (sa : Nat) (data : List Nat) (h : InvRange c) : InvRange (processAddressClaim c sa data).1 := by
  have := states_distinct
  unfold InvRange processAddressClaim at *
  obtain ⟨h1, h2⟩ := h
  crack <;> omega

theorem c13_never_at_null (name : Name) (pref : Option Nat) (bypass : Bool) (hp : ∀ p, pref = some p → p ≤ 253) (hist : List Ev) :
    let c := run (Ca.new name pref bypass) hist
    c.state = NORMAL → ∃ a, c.addr = some a ∧ a ≤ 253 := by
  have key : ∀ c, Inv c → InvRange c → Inv (run c hist) ∧ InvRange (run c hist) := by
    induction hist with
    | nil => intro c h1 h2; exact ⟨h1, h2⟩
    | cons e es ih =>
      intro c h1 h2
      cases e with
      | timer => exact ih _ (c13_inv_claimAsync c h1) (c13_range_claimAsync c h2)
      | claim sa d => exact ih _ (c13_inv_addressClaim c sa d h1) (c13_range_addressClaim c sa d h2)
  obtain ⟨k1, k2⟩ := key _ (c13_inv_new name pref bypass) (c13_range_new name pref bypass hp)
  intro c hn
  exact ⟨_, k1 hn, k2.2 (Or.inr hn)⟩

/-- and a CA without an address reports the null address -/
theorem c13_no_address_is_null (c : Ca) (h : c.state ≠ NORMAL) : deviceAddress c = some 254 ∧ ∀ d, d ≠ 255 → messageAcceptable c d = false := by
  have h' : (c.state != NORMAL) = true := by simpa using h
  refine ⟨by simp [deviceAddress, h']; decide, by intro d _; simp [messageAcceptable, h']⟩

/-- ONLY CLAIM TRAFFIC: every frame the claim machinery originates is an address-claimed frame (priority 6, PGN 0xEEFF,
    the CA's NAME bytes) whose source is the address being announced, the held address, or the null address -/
theorem c13_only_claim_traffic (c : Ca) (sa : Nat) (data : List Nat) :
    (∀ f ∈ (claimAsync c).2.1, f = claimFrame (claimAsync c).1 (claimAsync c).1.announced) ∧
    (∀ f ∈ (processAddressClaim c sa data).2,
        f = claimFrame c Const.Addr.NULL ∨ f = claimFrame (processAddressClaim c sa data).1 (processAddressClaim c sa data).1.announced ∨
        (c.state = NORMAL ∧ ∃ a, c.addr = some a ∧ f = claimFrame c a)) := by
  refine ⟨?_, ?_⟩
  · unfold claimAsync; crack <;> rfl
  · unfold processAddressClaim
    intro f hf
    crack

end J1939.Props.C13
