/-
  C11 — FD multi-PG packing preserves every group and honours frame and time limits.
-/
import J1939.Model.Dll22
import J1939.Lemmas.PyDict
import J1939.Lemmas.Tactics
import J1939.Lemmas.Bits
namespace J1939.Props.C11
open J1939 J1939.Gen J1939.Dll22 J1939.Bits

/-- legal CAN FD data lengths -/
def legalFd (n : Nat) : Bool := n ≤ 8 || n == 12 || n == 16 || n == 20 || n == 24 || n == 32 || n == 48 || n == 64

/-- THE DLC TABLE (reflected from the source, all 65 entries): every length 0..64 maps to a legal FD length that is at
    least as large and at most 64 -/
theorem c11_lut : Const.LUT_FD_DLC.length = 65 ∧
    ∀ n < 65, n ≤ Py.idx Const.LUT_FD_DLC n ∧ Py.idx Const.LUT_FD_DLC n ≤ 64 ∧ legalFd (Py.idx Const.LUT_FD_DLC n) = true := by
  decide +kernel

/-- FRAME BOUNDS: every multi-PG frame that is emitted is an FD frame of at most 64 bytes with a legal FD length; more
    than 64 bytes of groups can never be emitted (IndexError instead — excluded by the fill invariant below) -/
theorem c11_frame_bounds (ff : Nat) (cpgs : List Cpg) (src dst : Nat) (f : Frame) (h : multiPgFrame ff cpgs src dst = some f) :
    f.data.length ≤ 64 ∧ legalFd f.data.length = true ∧ f.fd = true := by
  unfold multiPgFrame at h
  simp only at h
  split at h
  · cases h
  · rename_i hlen
    have hl := c11_lut
    rw [hl.1] at hlen
    generalize hd : (cpgs.flatMap fun c => [Mpg.hdr0 c.tos c.tf c.cpgn, Mpg.hdr1 c.tos c.tf c.cpgn, Mpg.hdr2 c.tos c.tf c.cpgn, c.data.length] ++ c.data) = d at *
    obtain ⟨h1, h2, h3⟩ := hl.2 d.length (by omega)
    have hpad : (d ++ List.replicate (min (Py.idx Const.LUT_FD_DLC d.length - d.length) 3) 0 ++
        List.replicate (Py.idx Const.LUT_FD_DLC d.length - d.length - 3) 170).length = Py.idx Const.LUT_FD_DLC d.length := by
      simp only [List.length_append, List.length_replicate]; omega
    split at h <;> (cases h; simp only; rw [hpad]; exact ⟨h2, h3, trivial⟩)

/-- the packed size of a list of groups: 4 header bytes + data each -/
def packedSize (cpgs : List Cpg) : Nat := (cpgs.map (fun c => 4 + c.data.length)).sum

/-- buffer invariant: the fill level is the packed size, never above 64, and a buffer is never empty -/
def BufOk (b : MpgBuf) : Prop := b.fill = packedSize b.cpgs ∧ b.fill ≤ 64 ∧ b.cpgs ≠ []

/-- FILL INVARIANT over any history of submissions (groups of at most 60 bytes): every buffer stays within one frame -/
theorem c11_fill_inv (now deadline ff src dst : Nat) (cpg : Cpg) (hlen : cpg.data.length ≤ 60) (fuel session : Nat)
    (m : PyDict MpgBuf) (o : List Out) (h : PyDict.All BufOk m) :
    PyDict.All BufOk (mpgPlace now deadline ff src dst cpg fuel session m o).1 := by
  have htp : Const.DL22.TP = 60 := by decide
  induction fuel generalizing session m o with
  | zero => exact h
  | succ fuel ih =>
    unfold mpgPlace
    cases hg : m.get? (Tp22.buffer_hash_mpg ff session src dst) with
    | none =>
      simp only [hg]
      apply PyDict.all_set _ _ _ _ h
      exact ⟨by simp [packedSize], by simp only; omega, by simp⟩
    | some b =>
      obtain ⟨b1, b2, b3⟩ := h _ _ hg
      simp only [hg]
      split
      · rename_i hfit
        apply PyDict.all_set _ _ _ _ h
        refine ⟨?_, ?_, by simp⟩
        · simp only [packedSize, List.map_append, List.sum_append, List.map_cons, List.map_nil, List.sum_cons, List.sum_nil]
          rw [b1]; simp only [packedSize]; omega
        · simp only; rw [htp] at hfit; omega
      · apply ih
        apply PyDict.all_set _ _ _ _ h
        exact ⟨b1, b2, b3⟩

/-- NEVER COMBINED ACROSS DESTINATIONS OR FRAME FORMATS: the buffer key is (frame format, counter, source, destination) and
    the job thread recovers exactly these from the key when it builds the frame -/
theorem c11_key_separates (ff c src dst : Nat) :
    Tp22.buffer_unhash_mpg (Tp22.buffer_hash_mpg ff c src dst) = (ff % 256, c % 256, src % 256, dst % 256) := by
  simp only [Tp22.buffer_unhash_mpg, Tp22.buffer_hash_mpg, and_255, shr_8, shr_16, shr_24, shl_8, shl_16, shl_24]
  have o1 : src % 256 * 256 ||| dst % 256 = src % 256 * 256 + dst % 256 := by
    have := mul_or (src % 256) (dst % 256) 8 (by simp only [Nat.reducePow]; omega); simpa using this
  have o2 : c % 256 * 65536 ||| (src % 256 * 256 + dst % 256) = c % 256 * 65536 + (src % 256 * 256 + dst % 256) := by
    have := mul_or (c % 256) (src % 256 * 256 + dst % 256) 16 (by simp only [Nat.reducePow]; omega); simpa using this
  have o3 : ff % 256 * 16777216 ||| (c % 256 * 65536 + (src % 256 * 256 + dst % 256)) =
      ff % 256 * 16777216 + (c % 256 * 65536 + (src % 256 * 256 + dst % 256)) := by
    have := mul_or (ff % 256) (c % 256 * 65536 + (src % 256 * 256 + dst % 256)) 24 (by simp only [Nat.reducePow]; omega); simpa using this
  rw [Nat.or_assoc, Nat.or_assoc, o1, o2, o3]
  simp only [Prod.mk.injEq]
  refine ⟨?_, ?_, ?_, ?_⟩ <;> omega

/-- the bytes of one contained parameter group: 3 header bytes (TOS, TF, 18-bit C-PGN), the length, the data -/
def enc (c : Cpg) : List Nat := [Mpg.hdr0 c.tos c.tf c.cpgn, Mpg.hdr1 c.tos c.tf c.cpgn, Mpg.hdr2 c.tos c.tf c.cpgn, c.data.length] ++ c.data

/-- a group as send_pgn creates it: TOS 2 (SAE J1939, no assurance data), TF 0, 18-bit C-PGN, 1..60 data bytes -/
def CpgOk (c : Cpg) : Prop := c.tos = 2 ∧ c.tf = 0 ∧ c.cpgn < 262144 ∧ 1 ≤ c.data.length ∧ c.data.length ≤ 60

set_option maxRecDepth 4000 in
theorem hdr_decode (c : Cpg) (h : CpgOk c) (rest : List Nat) :
    Mpg.tos (enc c ++ rest) = 2 ∧ Mpg.tf (enc c ++ rest) = 0 ∧ Mpg.cpgn (enc c ++ rest) = c.cpgn ∧
    Mpg.len (enc c ++ rest) = c.data.length ∧ ((enc c ++ rest).drop 4).take c.data.length = c.data ∧
    (enc c ++ rest).drop (4 + c.data.length) = rest ∧ 4 < (enc c ++ rest).length := by
  obtain ⟨h1, h2, h3, h4, h5⟩ := h
  have e0 : Mpg.hdr0 c.tos c.tf c.cpgn = 64 + c.cpgn / 65536 % 4 := by
    simp only [Mpg.hdr0, h1, h2, and_3, shr_16]
    have : (2 <<< 5 ||| 0 <<< 2) = 16 * 2 ^ 2 := by decide
    rw [this, mul_or 16 (c.cpgn / 65536 % 4) 2 (by simp only [Nat.reducePow]; omega)]
  have e1 : Mpg.hdr1 c.tos c.tf c.cpgn = c.cpgn / 256 % 256 := by simp only [Mpg.hdr1, and_255, shr_8]
  have e2 : Mpg.hdr2 c.tos c.tf c.cpgn = c.cpgn % 256 := by simp only [Mpg.hdr2, and_255]
  simp only [enc, Mpg.tos, Mpg.tf, Mpg.cpgn, Mpg.len, Py.idx, List.cons_append, List.nil_append, List.getD_cons_zero, List.getD_cons_succ,
    e0, e1, e2, and_7, and_3, and_255, shr_5, shr_2, shl_16, shl_8]
  refine ⟨by omega, by omega, ?_, by omega, ?_, ?_, by simp; omega⟩
  · have eq : (64 + c.cpgn / 65536 % 4) % 4 = c.cpgn / 65536 % 4 := by omega
    rw [eq]
    generalize hq : c.cpgn / 65536 % 4 = q
    generalize hb : c.cpgn / 256 % 256 = b
    generalize hr : c.cpgn % 256 = r
    have hq4 : q < 4 := by omega
    have hb4 : b < 256 := by omega
    have hr4 : r < 256 := by omega
    have o1 : q * 65536 ||| b * 256 = q * 65536 + b * 256 := by
      have := mul_or q (b * 256) 16 (by simp only [Nat.reducePow]; omega)
      simpa using this
    have e : q * 65536 + b * 256 = (q * 256 + b) * 256 := by omega
    have o2 : (q * 256 + b) * 256 ||| r = (q * 256 + b) * 256 + r := by
      have := mul_or (q * 256 + b) r 8 (by simp only [Nat.reducePow]; omega)
      simpa using this
    rw [o1, e, o2]
    clear o1 o2 e e0 e1 e2
    omega
  · simp only [List.drop_succ_cons, List.drop_zero]
    rw [List.take_append_of_le_length (Nat.le_refl _), List.take_length]
  · have : 4 + c.data.length = c.data.length + 4 := by omega
    rw [this]
    simp only [List.drop_succ_cons, List.drop_zero]
    have h0 : c.data.length + 0 = c.data.length := rfl
    simp [List.drop_append_of_le_length]

/-- UNPACK ∘ PACK: for every list of groups as send_pgn creates them, followed by padding as the builder produces it
    (nothing, up to four bytes, or a run starting with the 0x00 padding service header), the stack's own unpack loop
    returns exactly the groups — C-PGN and data byte-identical, in order, each once -/
theorem c11_unpack_pack (prio sa dest : Nat) (cpgs : List Cpg) (pad : List Nat)
    (hc : ∀ c ∈ cpgs, CpgOk c) (hpad : pad.length ≤ 4 ∨ pad.head? = some 0) (fuel : Nat) (hf : cpgs.length < fuel) :
    unpackMpg prio sa dest fuel (cpgs.flatMap enc ++ pad) = cpgs.map (fun c => Out.notify prio c.cpgn sa dest c.data) := by
  induction cpgs generalizing fuel with
  | nil =>
    cases fuel with
    | zero => simp at hf
    | succ fuel =>
      simp only [List.flatMap_nil, List.nil_append, List.map_nil]
      unfold unpackMpg
      rcases hpad with h | h
      · simp [h]
      · by_cases hl : pad.length ≤ 4
        · simp [hl]
        · simp only [hl, if_false]
          cases pad with
          | nil => simp at hl
          | cons x xs =>
            simp only [List.head?_cons, Option.some.injEq] at h
            subst h
            simp [Mpg.tos, Py.idx]
  | cons c cs ih =>
    cases fuel with
    | zero => simp at hf
    | succ fuel =>
      have hok := hc c (List.mem_cons_self ..)
      simp only [List.flatMap_cons, List.append_assoc, List.map_cons]
      obtain ⟨d1, d2, d3, d4, d5, d6, d7⟩ := hdr_decode c hok (cs.flatMap enc ++ pad)
      unfold unpackMpg
      have hl : ¬ (enc c ++ (cs.flatMap enc ++ pad)).length ≤ 4 := by omega
      simp only [hl, if_false, d1, d2, d3, d4, d5, d6]
      simp only [show ((2 : Nat) == 0) = false by decide, Bool.false_eq_true, if_false, beq_self_eq_true, Bool.and_self, if_true,
        List.singleton_append, List.cons.injEq, true_and]
      exact ih (fun x hx => hc x (List.mem_cons_of_mem _ hx)) fuel (by simp only [List.length_cons] at hf; omega)

/-- the padding the builder appends is of that form -/
theorem c11_padding_form (p : Nat) :
    let pad := List.replicate (min p 3) 0 ++ List.replicate (p - 3) 170
    pad.length ≤ 4 ∨ pad.head? = some 0 := by
  simp only
  by_cases h : p ≤ 4
  · left; simp only [List.length_append, List.length_replicate]; omega
  · right
    have : min p 3 = 2 + 1 := by omega
    rw [this, List.replicate_succ]; rfl

theorem mpgPlace_outs_mono (now deadline ff src dst : Nat) (cpg : Cpg) (fuel session : Nat) (m : PyDict MpgBuf) (o : List Out)
    (x : Out) (hx : x ∈ o) : x ∈ (mpgPlace now deadline ff src dst cpg fuel session m o).2 := by
  induction fuel generalizing session m o with
  | zero => exact hx
  | succ fuel ih =>
    unfold mpgPlace
    cases hg : m.get? (Tp22.buffer_hash_mpg ff session src dst) with
    | none => simp only [hg]; exact List.mem_append_left _ hx
    | some b =>
      simp only [hg]
      split
      · split
        · exact List.mem_append_left _ hx
        · exact hx
      · exact ih _ _ _ (List.mem_append_left _ hx)

/-- TIME LIMIT, placing: a group submitted with a limit ends up in exactly one buffer, whose deadline is then not later
    than the group's own deadline; and unless that buffer already had a deadline at least as early (so the job thread
    already knows when to get up), the job thread is woken -/
theorem c11_deadline_placed (now deadline ff src dst : Nat) (cpg : Cpg) (fuel session : Nat) (m : PyDict MpgBuf) (o : List Out)
    (hroom : ∃ k, k < fuel ∧ ∀ b, m.get? (Tp22.buffer_hash_mpg ff (session + k) src dst) = some b →
        b.fill ≤ Const.DL22.TP - cpg.data.length) :
    ∃ h b', (mpgPlace now deadline ff src dst cpg fuel session m o).1.get? h = some b' ∧ cpg ∈ b'.cpgs ∧ b'.deadline ≤ deadline ∧
      (Out.wake ∈ (mpgPlace now deadline ff src dst cpg fuel session m o).2 ∨ ∃ b, m.get? h = some b ∧ b.deadline ≤ deadline) := by
  induction fuel generalizing session m o with
  | zero => obtain ⟨k, hk, _⟩ := hroom; omega
  | succ fuel ih =>
    unfold mpgPlace
    cases hg : m.get? (Tp22.buffer_hash_mpg ff session src dst) with
    | none =>
      simp only [hg]
      exact ⟨_, _, PyDict.get?_set_self _ _ _, by simp, Nat.le_refl _, Or.inl (by simp)⟩
    | some b =>
      simp only [hg]
      by_cases hfit : b.fill ≤ Const.DL22.TP - cpg.data.length
      · simp only [hfit, if_true]
        refine ⟨_, _, PyDict.get?_set_self _ _ _, by simp, ?_, ?_⟩
        · simp only; split <;> omega
        · by_cases he : b.deadline > deadline
          · left; simp [he]
          · right; exact ⟨b, hg, by omega⟩
      · simp only [hfit, if_false]
        obtain ⟨k, hk, hkroom⟩ := hroom
        cases k with
        | zero => exact absurd (hkroom b (by simpa using hg)) hfit
        | succ k =>
          have hne : ∀ j, Tp22.buffer_hash_mpg ff (session + 1 + j) src dst ≠ Tp22.buffer_hash_mpg ff session src dst →
              PyDict.get? (m.set (Tp22.buffer_hash_mpg ff session src dst) { b with deadline := now }) (Tp22.buffer_hash_mpg ff (session + 1 + j) src dst)
                = m.get? (Tp22.buffer_hash_mpg ff (session + 1 + j) src dst) := fun j hj => PyDict.get?_set_ne _ _ _ _ hj
          by_cases hsame : Tp22.buffer_hash_mpg ff (session + 1 + k) src dst = Tp22.buffer_hash_mpg ff session src dst
          · -- the counter wrapped onto the full buffer: no room there, contradiction with hkroom
            have : session + (k + 1) = session + 1 + k := by omega
            rw [this, hsame] at hkroom
            exact absurd (hkroom b hg) hfit
          · obtain ⟨h', b', g1, g2, g3, g4⟩ := ih (session + 1) (m.set (Tp22.buffer_hash_mpg ff session src dst) { b with deadline := now })
              (o ++ [Out.wake]) ⟨k, by omega, by
                intro b2 hb2
                rw [hne k hsame] at hb2
                have : session + (k + 1) = session + 1 + k := by omega
                rw [this] at hkroom
                exact hkroom b2 hb2⟩
            refine ⟨h', b', g1, g2, g3, Or.inl ?_⟩
            rcases g4 with g4 | ⟨_, _, _⟩
            · exact g4
            · -- the recursive call starts from `o ++ [wake]`: the wake is in its output (outputs only grow)
              exact mpgPlace_outs_mono now deadline ff src dst cpg fuel (session + 1) _ _ Out.wake (by simp)

/-- TIME LIMIT, serving: the job thread sends a buffer whose deadline has come and removes it; for a buffer that is not
    yet due the wake-up it asks for is not later than the buffer's deadline -/
theorem c11_deadline_served (now k : Nat) (ks : List Nat) (s : St) (nw : Nat) (o : List Out) (buf : MpgBuf)
    (hg : s.mpg.get? k = some buf) :
    (buf.deadline ≤ now → ∀ f, multiPgFrame (Tp22.buffer_unhash_mpg k).1 buf.cpgs (Tp22.buffer_unhash_mpg k).2.2.1 (Tp22.buffer_unhash_mpg k).2.2.2 = some f →
        tickMpg now (k :: ks) s nw o = tickMpg now ks { s with mpg := s.mpg.erase k } nw (o ++ [.tx f])) ∧
    (now < buf.deadline → tickMpg now (k :: ks) s nw o = tickMpg now ks s (if nw > buf.deadline then buf.deadline else nw) o ∧
        (if nw > buf.deadline then buf.deadline else nw) ≤ buf.deadline) := by
  refine ⟨?_, ?_⟩
  · intro hdue f hf
    have : ¬ buf.deadline > now := by omega
    rw [tickMpg]
    simp only [hg, this, if_false]
    simp only [hf]
  · intro hnd
    have : buf.deadline > now := hnd
    rw [tickMpg]
    simp only [hg, this, if_true]
    exact ⟨trivial, by split <;> omega⟩

end J1939.Props.C11
