/-
  C11 — FD multi-PG packing preserves every group and honours frame and time limits.
-/
import J1939.Model.Dll22
import J1939.Lemmas.PyDict
import J1939.Lemmas.Tactics
import J1939.Lemmas.Bits
import J1939.Props.C15
namespace J1939.Props.C11
open J1939 J1939.Gen J1939.Dll22 J1939.Bits J1939.Lemmas

/-- legal CAN FD data lengths -/
def legalFd (n : Nat) : Bool := n ≤ 8 || n == 12 || n == 16 || n == 20 || n == 24 || n == 32 || n == 48 || n == 64

/-- THE DLC TABLE (reflected from the source, all 65 entries): every length 0..64 maps to a legal FD length that is at
    least as large and at most 64 -/
theorem c11_lut : Const.LUT_FD_DLC.length = 65 ∧
    ∀ n < 65, n ≤ Py.idx Const.LUT_FD_DLC n ∧ Py.idx Const.LUT_FD_DLC n ≤ 64 ∧ legalFd (Py.idx Const.LUT_FD_DLC n) = true := by
  decide +kernel

/-- FRAME BOUNDS: every multi-PG frame that is emitted is an FD frame of at most 64 bytes with a legal FD length; more
    than 64 bytes of groups can never be emitted (IndexError instead — excluded by the fill invariant below) -/
theorem c11_frame_bounds (ff : Nat) (cpgs : List Cpg) (src dst : Nat) (f : Frame) (h : multiPgFrame ff cpgs src dst = some f) :
    f.data.length ≤ 64 ∧ legalFd f.data.length = true ∧ f.fd = true := by
  unfold multiPgFrame at h
  simp only at h
  split at h
  · cases h
  · rename_i hlen
    have hl := c11_lut
    rw [hl.1] at hlen
    generalize hd : (cpgs.flatMap fun c => [Mpg.hdr0 c.tos c.tf c.cpgn, Mpg.hdr1 c.tos c.tf c.cpgn, Mpg.hdr2 c.tos c.tf c.cpgn, c.data.length] ++ c.data) = d at *
    obtain ⟨h1, h2, h3⟩ := hl.2 d.length (by omega)
    have hpad : (d ++ List.replicate (min (Py.idx Const.LUT_FD_DLC d.length - d.length) 3) 0 ++
        List.replicate (Py.idx Const.LUT_FD_DLC d.length - d.length - 3) 170).length = Py.idx Const.LUT_FD_DLC d.length := by
      simp only [List.length_append, List.length_replicate]; omega
    split at h <;> (cases h; simp only; rw [hpad]; exact ⟨h2, h3, trivial⟩)

/-- the packed size of a list of groups: 4 header bytes + data each -/
def packedSize (cpgs : List Cpg) : Nat := (cpgs.map (fun c => 4 + c.data.length)).sum

/-- buffer invariant: the fill level is the packed size, never above 64, and a buffer is never empty -/
def BufOk (b : MpgBuf) : Prop := b.fill = packedSize b.cpgs ∧ b.fill ≤ 64 ∧ b.cpgs ≠ []

/-- FILL INVARIANT over any history of submissions (groups of at most 60 bytes): every buffer stays within one frame -/
theorem c11_fill_inv (now deadline ff src dst : Nat) (cpg : Cpg) (hlen : cpg.data.length ≤ 60) (fuel session : Nat)
    (m : PyDict MpgBuf) (o : List Out) (h : PyDict.All BufOk m) :
    PyDict.All BufOk (mpgPlace now deadline ff src dst cpg fuel session m o).1 := by
  have htp : Const.DL22.TP = 60 := by decide
  induction fuel generalizing session m o with
  | zero => exact h
  | succ fuel ih =>
    unfold mpgPlace
    cases hg : m.get? (Tp22.buffer_hash_mpg ff session src dst) with
    | none =>
      simp only [hg]
      apply PyDict.all_set _ _ _ _ h
      exact ⟨by simp [packedSize], by simp only; omega, by simp⟩
    | some b =>
      obtain ⟨b1, b2, b3⟩ := h _ _ hg
      simp only [hg]
      split
      · rename_i hfit
        apply PyDict.all_set _ _ _ _ h
        refine ⟨?_, ?_, by simp⟩
        · simp only [packedSize, List.map_append, List.sum_append, List.map_cons, List.map_nil, List.sum_cons, List.sum_nil]
          rw [b1]; simp only [packedSize]; omega
        · simp only; rw [htp] at hfit; omega
      · apply ih
        apply PyDict.all_set _ _ _ _ h
        exact ⟨b1, b2, b3⟩

/-- NEVER COMBINED ACROSS DESTINATIONS OR FRAME FORMATS: the buffer key is (frame format, counter, source, destination) and
    the job thread recovers exactly these from the key when it builds the frame -/
theorem c11_key_separates (ff c src dst : Nat) :
    Tp22.buffer_unhash_mpg (Tp22.buffer_hash_mpg ff c src dst) = (ff % 256, c % 256, src % 256, dst % 256) := by
  simp only [Tp22.buffer_unhash_mpg, Tp22.buffer_hash_mpg, and_255, shr_8, shr_16, shr_24, shl_8, shl_16, shl_24]
  have o1 : src % 256 * 256 ||| dst % 256 = src % 256 * 256 + dst % 256 := by
    have := mul_or (src % 256) (dst % 256) 8 (by simp only [Nat.reducePow]; omega); simpa using this
  have o2 : c % 256 * 65536 ||| (src % 256 * 256 + dst % 256) = c % 256 * 65536 + (src % 256 * 256 + dst % 256) := by
    have := mul_or (c % 256) (src % 256 * 256 + dst % 256) 16 (by simp only [Nat.reducePow]; omega); simpa using this
  have o3 : ff % 256 * 16777216 ||| (c % 256 * 65536 + (src % 256 * 256 + dst % 256)) =
      ff % 256 * 16777216 + (c % 256 * 65536 + (src % 256 * 256 + dst % 256)) := by
    have := mul_or (ff % 256) (c % 256 * 65536 + (src % 256 * 256 + dst % 256)) 24 (by simp only [Nat.reducePow]; omega); simpa using this
  rw [Nat.or_assoc, Nat.or_assoc, o1, o2, o3]
  simp only [Prod.mk.injEq]
  refine ⟨?_, ?_, ?_, ?_⟩ <;> omega

/-- the bytes of one contained parameter group: 3 header bytes (TOS, TF, 18-bit C-PGN), the length, the data -/
def enc (c : Cpg) : List Nat := [Mpg.hdr0 c.tos c.tf c.cpgn, Mpg.hdr1 c.tos c.tf c.cpgn, Mpg.hdr2 c.tos c.tf c.cpgn, c.data.length] ++ c.data

/-- a group as send_pgn creates it: TOS 2 (SAE J1939, no assurance data), TF 0, 18-bit C-PGN, 1..60 data bytes -/
def CpgOk (c : Cpg) : Prop := c.tos = 2 ∧ c.tf = 0 ∧ c.cpgn < 262144 ∧ 1 ≤ c.data.length ∧ c.data.length ≤ 60

set_option maxRecDepth 4000 in
theorem hdr_decode (c : Cpg) (h : CpgOk c) (rest : List Nat) :
    Mpg.tos (enc c ++ rest) = 2 ∧ Mpg.tf (enc c ++ rest) = 0 ∧ Mpg.cpgn (enc c ++ rest) = c.cpgn ∧
    Mpg.len (enc c ++ rest) = c.data.length ∧ ((enc c ++ rest).drop 4).take c.data.length = c.data ∧
    (enc c ++ rest).drop (4 + c.data.length) = rest ∧ 4 < (enc c ++ rest).length := by
  obtain ⟨h1, h2, h3, h4, h5⟩ := h
  have e0 : Mpg.hdr0 c.tos c.tf c.cpgn = 64 + c.cpgn / 65536 % 4 := by
    simp only [Mpg.hdr0, h1, h2, and_3, shr_16]
    have : (2 <<< 5 ||| 0 <<< 2) = 16 * 2 ^ 2 := by decide
    rw [this, mul_or 16 (c.cpgn / 65536 % 4) 2 (by simp only [Nat.reducePow]; omega)]
  have e1 : Mpg.hdr1 c.tos c.tf c.cpgn = c.cpgn / 256 % 256 := by simp only [Mpg.hdr1, and_255, shr_8]
  have e2 : Mpg.hdr2 c.tos c.tf c.cpgn = c.cpgn % 256 := by simp only [Mpg.hdr2, and_255]
  simp only [enc, Mpg.tos, Mpg.tf, Mpg.cpgn, Mpg.len, Py.idx, List.cons_append, List.nil_append, List.getD_cons_zero, List.getD_cons_succ,
    e0, e1, e2, and_7, and_3, and_255, shr_5, shr_2, shl_16, shl_8]
  refine ⟨by omega, by omega, ?_, by omega, ?_, ?_, by simp; omega⟩
  · have eq : (64 + c.cpgn / 65536 % 4) % 4 = c.cpgn / 65536 % 4 := by omega
    rw [eq]
    generalize hq : c.cpgn / 65536 % 4 = q
    generalize hb : c.cpgn / 256 % 256 = b
    generalize hr : c.cpgn % 256 = r
    have hq4 : q < 4 := by omega
    have hb4 : b < 256 := by omega
    have hr4 : r < 256 := by omega
    have o1 : q * 65536 ||| b * 256 = q * 65536 + b * 256 := by
      have := mul_or q (b * 256) 16 (by simp only [Nat.reducePow]; omega)
      simpa using this
    have e : q * 65536 + b * 256 = (q * 256 + b) * 256 := by omega
    have o2 : (q * 256 + b) * 256 ||| r = (q * 256 + b) * 256 + r := by
      have := mul_or (q * 256 + b) r 8 (by simp only [Nat.reducePow]; omega)
      simpa using this
    rw [o1, e, o2]
    clear o1 o2 e e0 e1 e2
    omega
  · simp only [List.drop_succ_cons, List.drop_zero]
    rw [List.take_append_of_le_length (Nat.le_refl _), List.take_length]
  · have : 4 + c.data.length = c.data.length + 4 := by omega
    rw [this]
    simp only [List.drop_succ_cons, List.drop_zero]
    have h0 : c.data.length + 0 = c.data.length := rfl
    simp [List.drop_append_of_le_length]

/-- UNPACK ∘ PACK: for every list of groups as send_pgn creates them, followed by padding as the builder produces it
    (nothing, up to four bytes, or a run starting with the 0x00 padding service header), the stack's own unpack loop
    returns exactly the groups — C-PGN and data byte-identical, in order, each once -/
theorem c11_unpack_pack (prio sa dest : Nat) (cpgs : List Cpg) (pad : List Nat)
    (hc : ∀ c ∈ cpgs, CpgOk c) (hpad : pad.length ≤ 4 ∨ pad.head? = some 0) (fuel : Nat) (hf : cpgs.length < fuel) :
    unpackMpg prio sa dest fuel (cpgs.flatMap enc ++ pad) = cpgs.map (fun c => Out.notify prio c.cpgn sa dest c.data) := by
  induction cpgs generalizing fuel with
  | nil =>
    cases fuel with
    | zero => simp at hf
    | succ fuel =>
      simp only [List.flatMap_nil, List.nil_append, List.map_nil]
      unfold unpackMpg
      rcases hpad with h | h
      · simp [h]
      · by_cases hl : pad.length ≤ 4
        · simp [hl]
        · simp only [hl, if_false]
          cases pad with
          | nil => simp at hl
          | cons x xs =>
            simp only [List.head?_cons, Option.some.injEq] at h
            subst h
            simp [Mpg.tos, Py.idx]
  | cons c cs ih =>
    cases fuel with
    | zero => simp at hf
    | succ fuel =>
      have hok := hc c (List.mem_cons_self ..)
      simp only [List.flatMap_cons, List.append_assoc, List.map_cons]
      obtain ⟨d1, d2, d3, d4, d5, d6, d7⟩ := hdr_decode c hok (cs.flatMap enc ++ pad)
      unfold unpackMpg
      have hl : ¬ (enc c ++ (cs.flatMap enc ++ pad)).length ≤ 4 := by omega
      simp only [hl, if_false, d1, d2, d3, d4, d5, d6]
      simp only [show ((2 : Nat) == 0) = false by decide, Bool.false_eq_true, if_false, beq_self_eq_true, Bool.and_self, if_true,
        List.singleton_append, List.cons.injEq, true_and]
      exact ih (fun x hx => hc x (List.mem_cons_of_mem _ hx)) fuel (by simp only [List.length_cons] at hf; omega)

/-- the padding the builder appends is of that form -/
theorem c11_padding_form (p : Nat) :
    let pad := List.replicate (min p 3) 0 ++ List.replicate (p - 3) 170
    pad.length ≤ 4 ∨ pad.head? = some 0 := by
  simp only
  by_cases h : p ≤ 4
  · left; simp only [List.length_append, List.length_replicate]; omega
  · right
    have : min p 3 = 2 + 1 := by omega
    rw [this, List.replicate_succ]; rfl

theorem mpgPlace_outs_mono (now deadline ff src dst : Nat) (cpg : Cpg) (fuel session : Nat) (m : PyDict MpgBuf) (o : List Out)
    (x : Out) (hx : x ∈ o) : x ∈ (mpgPlace now deadline ff src dst cpg fuel session m o).2 := by
  induction fuel generalizing session m o with
  | zero => exact hx
  | succ fuel ih =>
    unfold mpgPlace
    cases hg : m.get? (Tp22.buffer_hash_mpg ff session src dst) with
    | none => simp only [hg]; exact List.mem_append_left _ hx
    | some b =>
      simp only [hg]
      split
      · split
        · exact List.mem_append_left _ hx
        · exact hx
      · exact ih _ _ _ (List.mem_append_left _ hx)

/-- TIME LIMIT, placing: a group submitted with a limit ends up in exactly one buffer, whose deadline is then not later
    than the group's own deadline; and unless that buffer already had a deadline at least as early (so the job thread
    already knows when to get up), the job thread is woken -/
theorem c11_deadline_placed (now deadline ff src dst : Nat) (cpg : Cpg) (fuel session : Nat) (m : PyDict MpgBuf) (o : List Out)
    (hroom : ∃ k, k < fuel ∧ ∀ b, m.get? (Tp22.buffer_hash_mpg ff (session + k) src dst) = some b →
        b.fill ≤ Const.DL22.TP - cpg.data.length) :
    ∃ h b', (mpgPlace now deadline ff src dst cpg fuel session m o).1.get? h = some b' ∧ cpg ∈ b'.cpgs ∧ b'.deadline ≤ deadline ∧
      (Out.wake ∈ (mpgPlace now deadline ff src dst cpg fuel session m o).2 ∨ ∃ b, m.get? h = some b ∧ b.deadline ≤ deadline) := by
  induction fuel generalizing session m o with
  | zero => obtain ⟨k, hk, _⟩ := hroom; omega
  | succ fuel ih =>
    unfold mpgPlace
    cases hg : m.get? (Tp22.buffer_hash_mpg ff session src dst) with
    | none =>
      simp only [hg]
      exact ⟨_, _, PyDict.get?_set_self _ _ _, by simp, Nat.le_refl _, Or.inl (by simp)⟩
    | some b =>
      simp only [hg]
      by_cases hfit : b.fill ≤ Const.DL22.TP - cpg.data.length
      · simp only [hfit, if_true]
        refine ⟨_, _, PyDict.get?_set_self _ _ _, by simp, ?_, ?_⟩
        · simp only; split <;> omega
        · by_cases he : b.deadline > deadline
          · left; simp [he]
          · right; exact ⟨b, hg, by omega⟩
      · simp only [hfit, if_false]
        obtain ⟨k, hk, hkroom⟩ := hroom
        cases k with
        | zero => exact absurd (hkroom b (by simpa using hg)) hfit
        | succ k =>
          have hne : ∀ j, Tp22.buffer_hash_mpg ff (session + 1 + j) src dst ≠ Tp22.buffer_hash_mpg ff session src dst →
              PyDict.get? (m.set (Tp22.buffer_hash_mpg ff session src dst) { b with deadline := now }) (Tp22.buffer_hash_mpg ff (session + 1 + j) src dst)
                = m.get? (Tp22.buffer_hash_mpg ff (session + 1 + j) src dst) := fun j hj => PyDict.get?_set_ne _ _ _ _ hj
          by_cases hsame : Tp22.buffer_hash_mpg ff (session + 1 + k) src dst = Tp22.buffer_hash_mpg ff session src dst
          · -- the counter wrapped onto the full buffer: no room there, contradiction with hkroom
            have : session + (k + 1) = session + 1 + k := by omega
            rw [this, hsame] at hkroom
            exact absurd (hkroom b hg) hfit
          · obtain ⟨h', b', g1, g2, g3, g4⟩ := ih (session + 1) (m.set (Tp22.buffer_hash_mpg ff session src dst) { b with deadline := now })
              (o ++ [Out.wake]) ⟨k, by omega, by
                intro b2 hb2
                rw [hne k hsame] at hb2
                have : session + (k + 1) = session + 1 + k := by omega
                rw [this] at hkroom
                exact hkroom b2 hb2⟩
            refine ⟨h', b', g1, g2, g3, Or.inl ?_⟩
            rcases g4 with g4 | ⟨_, _, _⟩
            · exact g4
            · -- the recursive call starts from `o ++ [wake]`: the wake is in its output (outputs only grow)
              exact mpgPlace_outs_mono now deadline ff src dst cpg fuel (session + 1) _ _ Out.wake (by simp)

/-- TIME LIMIT, serving: the job thread sends a buffer whose deadline has come and removes it; for a buffer that is not
    yet due the wake-up it asks for is not later than the buffer's deadline -/
theorem c11_deadline_served (now k : Nat) (ks : List Nat) (s : St) (nw : Nat) (o : List Out) (buf : MpgBuf)
    (hg : s.mpg.get? k = some buf) :
    (buf.deadline ≤ now → ∀ f, multiPgFrame (Tp22.buffer_unhash_mpg k).1 buf.cpgs (Tp22.buffer_unhash_mpg k).2.2.1 (Tp22.buffer_unhash_mpg k).2.2.2 = some f →
        tickMpg now (k :: ks) s nw o = tickMpg now ks { s with mpg := s.mpg.erase k } nw (o ++ [.tx f])) ∧
    (now < buf.deadline → tickMpg now (k :: ks) s nw o = tickMpg now ks s (if nw > buf.deadline then buf.deadline else nw) o ∧
        (if nw > buf.deadline then buf.deadline else nw) ≤ buf.deadline) := by
  refine ⟨?_, ?_⟩
  · intro hdue f hf
    have : ¬ buf.deadline > now := by omega
    rw [tickMpg]
    simp only [hg, this, if_false]
    simp only [hf]
  · intro hnd
    have : buf.deadline > now := hnd
    rw [tickMpg]
    simp only [hg, this, if_true]
    exact ⟨trivial, by split <;> omega⟩

/-! ### end to end: assembly, wire, reception; conservation through the collection buffers -/

theorem mpg_or : ∀ da, da < 256 → (9472 ||| (da &&& 255)) = 9472 + da := by decide +kernel
theorem mpg_mask : ∀ da, da < 256 → (9472 + da) &&& 130816 = 9472 := by decide +kernel

/-- the priority of a multi-PG frame: the numerically lowest of its groups, at most 7 -/
def framePrio (cpgs : List Cpg) : Nat := cpgs.foldl (fun p c => min c.priority p) 7

theorem foldl_min_le (cpgs : List Cpg) (p : Nat) : cpgs.foldl (fun p c => min c.priority p) p ≤ p := by
  induction cpgs generalizing p with
  | nil => exact Nat.le_refl _
  | cons c cs ih => exact Nat.le_trans (ih _) (Nat.min_le_right ..)

theorem framePrio_lt (cpgs : List Cpg) : framePrio cpgs < 8 := by
  have := foldl_min_le cpgs 7; unfold framePrio; omega

theorem enc_length (cpgs : List Cpg) : (cpgs.flatMap enc).length = packedSize cpgs := by
  induction cpgs with
  | nil => rfl
  | cons c cs ih =>
    simp only [List.flatMap_cons, List.length_append, ih, packedSize, List.map_cons, List.sum_cons, enc, List.length_cons, List.length_nil]

/-- what the receive path makes of the identifier of an extended multi-PG frame -/
theorem mpg_id_parse (prio da sa : Nat) (hp : prio < 8) (hda : da < 256) (hsa : sa < 256) :
    let mid := MessageId.ofCanId (MessageId.can_id (MessageId.ofFields prio (Const.PGN.FEFF_MULTI_PG ||| (da &&& 255)) sa))
    mid.source_address = sa ∧ mid.priority = prio ∧
    PGN.from_message_id mid = { data_page := 0, pdu_format := 37, pdu_specific := da } := by
  intro mid
  have hv : (Const.PGN.FEFF_MULTI_PG ||| (da &&& 255)) = 9472 + da := mpg_or da hda
  have hm : mid = { source_address := sa, parameter_group_number := 9472 + da, priority := prio } := by
    simp only [mid]
    rw [J1939.Props.C15.c15_id_parse_compose, hv, ofFields_eq]
    simp only [MessageId.mk.injEq]; refine ⟨?_, ?_, ?_⟩ <;> omega
  rw [hm]
  refine ⟨rfl, rfl, ?_⟩
  rw [pgn_from_mid_eq]
  simp only [PGN.mk.injEq]; refine ⟨?_, ?_, ?_⟩ <;> omega

/-- the padded payload of a multi-PG frame -/
def paddedData (cpgs : List Cpg) : List Nat :=
  let d := cpgs.flatMap enc
  let p := Py.idx Const.LUT_FD_DLC d.length - d.length
  d ++ (List.replicate (min p 3) 0 ++ List.replicate (p - 3) 170)

/-- the extended (FEFF) multi-PG frame of a list of groups -/
def feffFrame (cpgs : List Cpg) (src dst : Nat) : Frame :=
  { id := MessageId.can_id (MessageId.ofFields (framePrio cpgs) (Const.PGN.FEFF_MULTI_PG ||| (dst &&& 255)) src),
    ext := true, data := paddedData cpgs, fd := true }

theorem length_le_packed (cpgs : List Cpg) : cpgs.length ≤ packedSize cpgs := by
  induction cpgs with
  | nil => simp [packedSize]
  | cons c cs ih => simp only [packedSize, List.length_cons, List.map_cons, List.sum_cons] at ih ⊢; omega

/-- ASSEMBLY: a list of groups whose packed size fits (the fill invariant) is assembled into exactly `feffFrame` -/
theorem multiPgFrame_feff (ff src dst : Nat) (cpgs : List Cpg) (hff : ff ≠ Const.FF.FBFF) (hsz : packedSize cpgs ≤ 64) :
    multiPgFrame ff cpgs src dst = some (feffFrame cpgs src dst) := by
  have hl := c11_lut
  have henc : (cpgs.flatMap fun c => [Mpg.hdr0 c.tos c.tf c.cpgn, Mpg.hdr1 c.tos c.tf c.cpgn, Mpg.hdr2 c.tos c.tf c.cpgn, c.data.length] ++ c.data)
      = cpgs.flatMap enc := rfl
  have hlen := enc_length cpgs
  have hffb : (ff == Const.FF.FBFF) = false := by simpa using hff
  have hlt : ¬ (cpgs.flatMap enc).length ≥ Const.LUT_FD_DLC.length := by rw [hl.1, hlen]; omega
  unfold multiPgFrame
  simp only [henc, hlt, if_false, hffb, Bool.false_eq_true]
  simp only [feffFrame, paddedData, framePrio, List.append_assoc]

/-- RECEPTION of a multi-PG frame by ANY stack (any state, any time) that accepts the destination: the subscribers get
    exactly the groups — C-PGN and data byte-identical, in order, each once, from the sender's address — and the
    receiver's state is unchanged -/
theorem rx_feff (cfg : Cfg) (s : St) (now : Nat) (acc : Nat → Bool) (src dst : Nat) (cpgs : List Cpg)
    (hc : ∀ c ∈ cpgs, CpgOk c) (hsrc : src < 256) (hdst : dst < 256) (hacc : dst = 255 ∨ acc dst = true) :
    notify cfg s now acc (feffFrame cpgs src dst).id (feffFrame cpgs src dst).data =
      { st := s, outs := cpgs.map (fun c => Out.notify (framePrio cpgs) c.cpgn src dst c.data) } := by
  obtain ⟨p1, p2, p3⟩ := mpg_id_parse (framePrio cpgs) dst src (framePrio_lt cpgs) hdst hsrc
  have hG : Const.Addr.GLOBAL = 255 := rfl
  have hacc' : (dst != Const.Addr.GLOBAL && !acc dst) = false := by
    rcases hacc with hg | ha
    · simp [hg, hG]
    · simp [ha]
  have hnpv : Tp21.notify_pgn_value { data_page := 0, pdu_format := 37, pdu_specific := dst } = Const.PGN.FEFF_MULTI_PG := by
    have hv : PGN.value { data_page := 0, pdu_format := 37, pdu_specific := dst } = 9472 + dst := by
      rw [pgn_value_arith _ (by simp only [PGN.WF]; omega)]; simp only
    rw [Tp21.notify_pgn_value, hv]; exact mpg_mask dst hdst
  have hp2 : PGN.is_pdu2_format { data_page := 0, pdu_format := 37, pdu_specific := dst } = false := by simp [PGN.is_pdu2_format]
  have hpad := c11_padding_form (Py.idx Const.LUT_FD_DLC (cpgs.flatMap enc).length - (cpgs.flatMap enc).length)
  simp only at hpad
  have hun := c11_unpack_pack (framePrio cpgs) src dst cpgs _ hc hpad ((paddedData cpgs).length + 1)
    (by
      have h1 := length_le_packed cpgs
      have h2 := enc_length cpgs
      simp only [paddedData, List.length_append]; omega)
  unfold notify
  simp only [feffFrame] at p1 p2 p3 ⊢
  simp only [p1, p2, p3, hp2, hacc', hnpv, Bool.false_eq_true, if_false, beq_self_eq_true, if_true]
  simp only [paddedData] at hun ⊢
  rw [hun]

/-- FRAME END TO END: assembly composed with reception -/
theorem c11_frame_end_to_end (cfg : Cfg) (s : St) (now : Nat) (acc : Nat → Bool) (ff src dst : Nat) (cpgs : List Cpg)
    (hff : ff ≠ Const.FF.FBFF) (hc : ∀ c ∈ cpgs, CpgOk c) (hsz : packedSize cpgs ≤ 64)
    (hsrc : src < 256) (hdst : dst < 256) (hacc : dst = 255 ∨ acc dst = true) :
    ∃ f, multiPgFrame ff cpgs src dst = some f ∧ f.ext = true ∧ f.data.length ≤ 64 ∧
      notify cfg s now acc f.id f.data =
        { st := s, outs := cpgs.map (fun c => Out.notify (framePrio cpgs) c.cpgn src dst c.data) } :=
  ⟨feffFrame cpgs src dst, multiPgFrame_feff ff src dst cpgs hff hsz, rfl,
    (c11_frame_bounds ff cpgs src dst _ (multiPgFrame_feff ff src dst cpgs hff hsz)).1,
    rx_feff cfg s now acc src dst cpgs hc hsrc hdst hacc⟩

/-! ### every group exactly once: conservation through the collection buffers -/

/-- all groups waiting in collection buffers -/
def pending (m : PyDict MpgBuf) : List Cpg := m.flatMap (fun p => p.2.cpgs)

theorem get?_cons (p : Nat × MpgBuf) (d : PyDict MpgBuf) (k : Nat) :
    PyDict.get? (p :: d) k = if p.1 == k then some p.2 else PyDict.get? d k := by
  simp only [PyDict.get?, List.find?_cons]
  split <;> simp_all

theorem pending_set_none (m : PyDict MpgBuf) (k : Nat) (v : MpgBuf) (h : m.get? k = none) :
    pending (m.set k v) = pending m ++ v.cpgs := by
  induction m with
  | nil => simp [PyDict.set, pending]
  | cons p d ih =>
    rw [get?_cons] at h
    by_cases hk : (p.1 == k) = true
    · simp [hk] at h
    · simp only [hk, if_false, Bool.false_eq_true] at h
      simp only [PyDict.set, hk, if_false, Bool.false_eq_true]
      simp only [pending, List.flatMap_cons, List.append_assoc] at ih ⊢
      rw [ih h]

theorem pending_set_some (m : PyDict MpgBuf) (k : Nat) (v b : MpgBuf) (h : m.get? k = some b) (c : Cpg) :
    (pending (m.set k v)).count c + b.cpgs.count c = (pending m).count c + v.cpgs.count c := by
  induction m with
  | nil => simp [PyDict.get?] at h
  | cons p d ih =>
    rw [get?_cons] at h
    by_cases hk : (p.1 == k) = true
    · simp only [hk, if_true, Option.some.injEq] at h
      simp only [PyDict.set, hk, if_true]
      simp only [pending, List.flatMap_cons, List.count_append, h]
      omega
    · simp only [hk, if_false, Bool.false_eq_true] at h
      simp only [PyDict.set, hk, if_false, Bool.false_eq_true]
      have := ih h
      simp only [pending, List.flatMap_cons, List.count_append] at this ⊢
      omega

theorem erase_of_not_mem (d : PyDict MpgBuf) (k : Nat) (h : k ∉ d.keys) : d.erase k = d := by
  induction d with
  | nil => rfl
  | cons p d ih =>
    simp only [PyDict.keys, List.map_cons, List.mem_cons, not_or] at h
    simp only [PyDict.erase, List.filter_cons]
    have : (p.1 != k) = true := by simp only [bne_iff_ne, ne_eq]; exact fun e => h.1 e.symm
    simp only [this, if_true]
    have := ih (by simpa [PyDict.keys] using h.2)
    simp only [PyDict.erase] at this
    rw [this]

theorem pending_erase (m : PyDict MpgBuf) (k : Nat) (b : MpgBuf) (hn : m.keys.Nodup) (h : m.get? k = some b) (c : Cpg) :
    (pending (m.erase k)).count c + b.cpgs.count c = (pending m).count c := by
  induction m with
  | nil => simp [PyDict.get?] at h
  | cons p d ih =>
    rw [get?_cons] at h
    simp only [PyDict.keys, List.map_cons, List.nodup_cons] at hn
    by_cases hk : (p.1 == k) = true
    · simp only [hk, if_true, Option.some.injEq] at h
      have hpk : p.1 = k := by simpa using hk
      have hnot : k ∉ PyDict.keys d := by rw [← hpk]; exact hn.1
      have he : PyDict.erase (p :: d) k = d := by
        have := erase_of_not_mem d k hnot
        simp only [PyDict.erase, List.filter_cons] at this ⊢
        have h2 : (p.1 != k) = false := by simp [hpk]
        simp only [h2, Bool.false_eq_true, if_false]; exact this
      rw [he]
      simp only [pending, List.flatMap_cons, List.count_append, h]
      omega
    · simp only [hk, if_false, Bool.false_eq_true] at h
      have h2 : (p.1 != k) = true := by
        simp only [bne_iff_ne, ne_eq]; intro e; exact hk (by simp [e])
      have he : PyDict.erase (p :: d) k = p :: PyDict.erase d k := by
        simp only [PyDict.erase, List.filter_cons, h2, if_true]
      rw [he]
      have := ih hn.2 h
      simp only [pending, List.flatMap_cons, List.count_append] at this ⊢
      omega

theorem count_single (c cpg : Cpg) : List.count c [cpg] = if c = cpg then 1 else 0 := by
  by_cases h : c = cpg
  · subst h; simp
  · have : cpg ≠ c := fun e => h e.symm
    simp [h, this]

/-- PLACING CONSERVES: a submission with a time limit (some buffer of the chain has room) adds the group to the waiting
    groups exactly once and neither loses nor duplicates any other waiting group -/
theorem c11_place_once (now deadline ff src dst : Nat) (cpg : Cpg) (fuel session : Nat) (m : PyDict MpgBuf) (o : List Out)
    (hroom : ∃ k, k < fuel ∧ ∀ b, m.get? (Tp22.buffer_hash_mpg ff (session + k) src dst) = some b →
        b.fill ≤ Const.DL22.TP - cpg.data.length) (c : Cpg) :
    (pending (mpgPlace now deadline ff src dst cpg fuel session m o).1).count c = (pending m).count c + (if c = cpg then 1 else 0) := by
  induction fuel generalizing session m o with
  | zero => obtain ⟨k, hk, _⟩ := hroom; omega
  | succ fuel ih =>
    unfold mpgPlace
    cases hg : m.get? (Tp22.buffer_hash_mpg ff session src dst) with
    | none =>
      simp only [hg]
      rw [pending_set_none _ _ _ hg, List.count_append, count_single]
    | some b =>
      simp only [hg]
      by_cases hfit : b.fill ≤ Const.DL22.TP - cpg.data.length
      · simp only [hfit, if_true]
        have := pending_set_some m (Tp22.buffer_hash_mpg ff session src dst)
          { b with fill := b.fill + 4 + cpg.data.length, deadline := if b.deadline > deadline then deadline else b.deadline, cpgs := b.cpgs ++ [cpg] } b hg c
        simp only [List.count_append, count_single] at this
        omega
      · simp only [hfit, if_false]
        obtain ⟨k, hk, hkroom⟩ := hroom
        have hkeep := pending_set_some m (Tp22.buffer_hash_mpg ff session src dst) { b with deadline := now } b hg c
        simp only at hkeep
        cases k with
        | zero => exact absurd (hkroom b (by simpa using hg)) hfit
        | succ k =>
          by_cases hsame : Tp22.buffer_hash_mpg ff (session + 1 + k) src dst = Tp22.buffer_hash_mpg ff session src dst
          · have : session + (k + 1) = session + 1 + k := by omega
            rw [this, hsame] at hkroom
            exact absurd (hkroom b hg) hfit
          · have := ih (session + 1) (m.set (Tp22.buffer_hash_mpg ff session src dst) { b with deadline := now })
              (o ++ [Out.wake]) ⟨k, by omega, by
                intro b2 hb2
                rw [PyDict.get?_set_ne _ _ _ _ hsame] at hb2
                have : session + (k + 1) = session + 1 + k := by omega
                rw [this] at hkroom
                exact hkroom b2 hb2⟩
            rw [this]; omega

/-- the groups in buffers are as send_pgn creates them -/
def BufGroupsOk (b : MpgBuf) : Prop := ∀ c ∈ b.cpgs, CpgOk c

theorem c11_groups_inv (now deadline ff src dst : Nat) (cpg : Cpg) (hok : CpgOk cpg) (fuel session : Nat)
    (m : PyDict MpgBuf) (o : List Out) (h : PyDict.All BufGroupsOk m) :
    PyDict.All BufGroupsOk (mpgPlace now deadline ff src dst cpg fuel session m o).1 := by
  induction fuel generalizing session m o with
  | zero => exact h
  | succ fuel ih =>
    unfold mpgPlace
    cases hg : m.get? (Tp22.buffer_hash_mpg ff session src dst) with
    | none =>
      simp only [hg]
      apply PyDict.all_set _ _ _ _ h
      intro c hc; simp only [List.mem_singleton] at hc; rw [hc]; exact hok
    | some b =>
      have hb := h _ _ hg
      simp only [hg]
      split
      · apply PyDict.all_set _ _ _ _ h
        intro c hc
        simp only [List.mem_append, List.mem_singleton] at hc
        rcases hc with hc | hc
        · exact hb c hc
        · rw [hc]; exact hok
      · apply ih
        apply PyDict.all_set _ _ _ _ h
        exact hb

/-- FLUSH END TO END: the job thread finds a due buffer of the extended format under its key: it puts exactly ONE frame
    on the bus — the frame of all the buffer's groups — removes the buffer (its groups leave the waiting set, nothing
    else does), and ANY stack that accepts the destination hands its subscribers exactly those groups, byte-identical,
    in submission order, each once -/
theorem c11_flush_end_to_end (cfgR : Cfg) (sR : St) (t : Nat) (acc : Nat → Bool)
    (now counter src dst : Nat) (ks : List Nat) (s : St) (nw : Nat) (o : List Out) (buf : MpgBuf)
    (hcnt : counter < 256) (hsrc : src < 256) (hdst : dst < 256)
    (hg : s.mpg.get? (Tp22.buffer_hash_mpg Const.FF.FEFF counter src dst) = some buf)
    (hok : BufOk buf) (hgr : BufGroupsOk buf) (hn : s.mpg.keys.Nodup) (hdue : buf.deadline ≤ now)
    (hacc : dst = 255 ∨ acc dst = true) :
    let k := Tp22.buffer_hash_mpg Const.FF.FEFF counter src dst
    tickMpg now (k :: ks) s nw o =
      tickMpg now ks { s with mpg := s.mpg.erase k } nw (o ++ [.tx (feffFrame buf.cpgs src dst)]) ∧
    (∀ c, (pending (s.mpg.erase k)).count c + buf.cpgs.count c = (pending s.mpg).count c) ∧
    notify cfgR sR t acc (feffFrame buf.cpgs src dst).id (feffFrame buf.cpgs src dst).data =
      { st := sR, outs := buf.cpgs.map (fun c => Out.notify (framePrio buf.cpgs) c.cpgn src dst c.data) } := by
  intro k
  have hkey : Tp22.buffer_unhash_mpg k = (Const.FF.FEFF, counter, src, dst) := by
    simp only [k]; rw [c11_key_separates]
    simp only [Prod.mk.injEq]
    refine ⟨by decide, ?_, ?_, ?_⟩ <;> omega
  have hfr : multiPgFrame (Tp22.buffer_unhash_mpg k).1 buf.cpgs (Tp22.buffer_unhash_mpg k).2.2.1 (Tp22.buffer_unhash_mpg k).2.2.2
      = some (feffFrame buf.cpgs src dst) := by
    have hne : Const.FF.FEFF ≠ Const.FF.FBFF := by decide
    simp only [hkey]
    exact multiPgFrame_feff Const.FF.FEFF src dst buf.cpgs hne (by rw [← hok.1]; exact hok.2.1)
  refine ⟨(c11_deadline_served now k ks s nw o buf hg).1 hdue _ hfr, fun c => pending_erase s.mpg k buf hn hg c, ?_⟩
  exact rx_feff cfgR sR t acc src dst buf.cpgs hgr hsrc hdst hacc

/-- IMMEDIATE SEND END TO END: `send_pgn` without a time limit for any parameter group of 1..60 bytes on the extended
    format puts exactly one frame on the bus, keeps no state, and ANY stack accepting the destination hands its
    subscribers exactly one notification with the group's C-PGN, the sender's address and byte-identical data -/
theorem c11_immediate_end_to_end (cfg cfgR : Cfg) (s sR : St) (now t : Nat) (acc : Nat → Bool)
    (dp pf ps prio sa : Nat) (data : List Nat) (h1 : 1 ≤ data.length) (h60 : data.length ≤ 60)
    (hsa : sa < 256) (hps : ps < 256)
    (hacc : PGN.is_pdu1_format (PGN.ofFields dp pf ps) = true → (ps = 255 ∨ acc ps = true)) :
    let pgn := PGN.ofFields dp pf ps
    let dst := if PGN.is_pdu1_format pgn then ps else 255
    let cpgn := (if PGN.is_pdu1_format pgn then Mpg.cpgn_pdu1 pgn else PGN.value pgn) &&& 262143
    ∃ f, sendPgn cfg s now dp pf ps prio sa data 0 Const.FF.FEFF = ({ st := s, outs := [.tx f] }, true) ∧
      f.data.length ≤ 64 ∧
      notify cfgR sR t acc f.id f.data = { st := sR, outs := [.notify (prio &&& 7) cpgn sa dst data] } := by
  intro pgn dst cpgn
  have hne : Const.FF.FEFF ≠ Const.FF.FBFF := by decide
  have hffb : (Const.FF.FEFF == Const.FF.FBFF) = false := by decide
  have hlen : data.length ≤ Const.DL22.TP := by simpa [show Const.DL22.TP = 60 from rfl] using h60
  let cpg : Cpg := { priority := prio &&& 7, tos := 2, tf := 0, cpgn := cpgn, data := data }
  have hok : ∀ c ∈ [cpg], CpgOk c := by
    intro c hc; simp only [List.mem_singleton] at hc; subst hc
    refine ⟨rfl, rfl, ?_, h1, h60⟩
    simp only [cpg, cpgn, and_262143]; omega
  have hsz : packedSize [cpg] ≤ 64 := by simp only [packedSize, List.map_cons, List.map_nil, List.sum_cons, List.sum_nil, cpg]; omega
  have hprio : framePrio [cpg] = prio &&& 7 := by
    simp only [framePrio, List.foldl_cons, List.foldl_nil, cpg, and_7]; omega
  have hdst : dst < 256 := by simp only [dst]; split <;> omega
  have hacc' : dst = 255 ∨ acc dst = true := by
    simp only [dst]
    by_cases hp : PGN.is_pdu1_format pgn = true
    · simp only [hp, if_true]; exact hacc hp
    · simp [hp]
  have hfr := multiPgFrame_feff Const.FF.FEFF sa dst [cpg] hne hsz
  have hrx := rx_feff cfgR sR t acc sa dst [cpg] hok hsa hdst hacc'
  rw [hprio] at hrx
  refine ⟨feffFrame [cpg] sa dst, ?_, (c11_frame_bounds _ _ _ _ _ hfr).1, hrx⟩
  unfold sendPgn
  simp only [hlen, if_true, hffb, Bool.false_and, Bool.false_eq_true, if_false, beq_self_eq_true]
  by_cases hp : PGN.is_pdu1_format (PGN.ofFields dp pf ps) = true
  · simp only [hp, if_true]
    have : multiPgFrame Const.FF.FEFF [{ priority := prio &&& 7, tos := 2, tf := 0, cpgn := Mpg.cpgn_pdu1 (PGN.ofFields dp pf ps) &&& 262143, data := data }] sa ps
        = some (feffFrame [cpg] sa dst) := by
      have hd : dst = ps := by simp only [dst, pgn, hp, if_true]
      have hc : cpgn = Mpg.cpgn_pdu1 (PGN.ofFields dp pf ps) &&& 262143 := by simp only [cpgn, pgn, hp, if_true]
      have e : ({ priority := prio &&& 7, tos := 2, tf := 0, cpgn := Mpg.cpgn_pdu1 (PGN.ofFields dp pf ps) &&& 262143, data := data } : Cpg) = cpg := by
        simp only [cpg, hc]
      rw [e, ← hd]; exact hfr
    simp only [this]
  · simp only [hp, if_false, Bool.false_eq_true]
    have : multiPgFrame Const.FF.FEFF [{ priority := prio &&& 7, tos := 2, tf := 0, cpgn := PGN.value (PGN.ofFields dp pf ps) &&& 262143, data := data }] sa Const.Addr.GLOBAL
        = some (feffFrame [cpg] sa dst) := by
      have hd : dst = Const.Addr.GLOBAL := by simp only [dst, pgn, hp, if_false, Bool.false_eq_true]; rfl
      have hc : cpgn = PGN.value (PGN.ofFields dp pf ps) &&& 262143 := by simp only [cpgn, pgn, hp, if_false, Bool.false_eq_true]
      have e : ({ priority := prio &&& 7, tos := 2, tf := 0, cpgn := PGN.value (PGN.ofFields dp pf ps) &&& 262143, data := data } : Cpg) = cpg := by
        simp only [cpg, hc]
      rw [e, ← hd]; exact hfr
    simp only [this]

/-- the premises are satisfiable: three groups of 8, 20 and 24 bytes fit one frame (4·3 + 52 = 64) and are well formed -/
example :
    let cs : List Cpg := [{ priority := 6, tos := 2, tf := 0, cpgn := 65226, data := List.replicate 8 1 },
                          { priority := 3, tos := 2, tf := 0, cpgn := 61444, data := List.replicate 20 2 },
                          { priority := 7, tos := 2, tf := 0, cpgn := 256, data := List.replicate 24 3 }]
    (∀ c ∈ cs, CpgOk c) ∧ packedSize cs = 64 ∧ framePrio cs = 3 ∧ (feffFrame cs 128 255).data.length = 64 := by
  intro cs
  refine ⟨?_, by decide +kernel, by decide +kernel, by decide +kernel⟩
  intro c hc
  simp only [cs, List.mem_cons, List.not_mem_nil, or_false] at hc
  rcases hc with rfl | rfl | rfl <;> simp [CpgOk]
end J1939.Props.C11
