/-
  C18 — DM14 serves no data without the right key, surfaces errors, and recovers.
  Model: Model/Dm14.lean (message level; tied to memory_access.py / Dm14Query.py / Dm14Server.py by lock-step
  correspondence).  Proved for the code as repaired by D16, D17, D26, D27.
-/
import J1939.Model.Dm14
import J1939.Lemmas.Tactics
namespace J1939.Props.C18
open J1939 J1939.Gen J1939.Dm14

def IsTx (o : Out) : Prop := ∃ pgn d pr data, o = .tx pgn d pr data
def IsConsult (o : Out) : Prop := o = .notify ∨ ∃ c ad pt l k ky sa lv sd, o = .proceed c ad pt l k ky sa lv sd

theorem sDm15_outs_tx (s : Server) (seedIn length direct status : Nat) (st : SState) (count : Nat) (sa : Option Nat) (error edcp : Nat) :
    ∀ o ∈ (sDm15 s seedIn length direct status st count sa error edcp).2.1, ∃ d data, o = .tx PGN_DM15 d 6 data := by
  intro o ho
  unfold sDm15 at ho
  cases st <;> cases sa <;> simp at ho <;> exact ⟨_, _, ho⟩

/-- the server's DM14 handler only ever sends DM15 PDUs -/
theorem sParse_outs_dm15 (n : Node) (seedIn : Nat) (p : Pdu) :
    ∀ o ∈ (sParseDm14 n seedIn p).outs, ∃ d data, o = .tx PGN_DM15 d 6 data := by
  intro o ho
  unfold sParseDm14 at ho
  dsimp only at ho
  repeat' (split at ho)
  all_goals first | (cases ho; done) | exact sDm15_outs_tx _ _ _ _ _ _ _ _ _ _ o ho

theorem sParse_keeps_sec (n : Node) (seedIn : Nat) (p : Pdu) : (sParseDm14 n seedIn p).n.seedSecurity = n.seedSecurity := by
  unfold sParseDm14
  dsimp only
  repeat' split
  all_goals first | rfl | simp [unsub]

/-- KEY GATE (the mechanism): with a seed/key algorithm configured, the facade hands a request to the application
    (proceed callback, notification) only in the step in which the DM14 carrying the key arrives, and only if that key
    is the configured function of the seed the server had sent -/
theorem c18_key_gate (env : Env) (n : Node) (seedIn : Nat) (accept : Bool) (p : Pdu) (hsec : n.seedSecurity = true)
    (o : Out) (ho : o ∈ (fListen env n seedIn accept p).outs) (hc : IsConsult o) :
    n.f = .requestStarted ∧ (sParseDm14 n seedIn p).n.s.state = .sendProceed ∧
    env.skey (sParseDm14 n seedIn p).n.s.seed = (sParseDm14 n seedIn p).n.s.key := by
  have notx : ∀ x, (∃ d data, x = Out.tx PGN_DM15 d 6 data) → ¬ IsConsult x := by
    rintro x ⟨d, data, rfl⟩ h
    rcases h with h | ⟨_, _, _, _, _, _, _, _, _, h⟩ <;> cases h
  unfold fListen at ho
  split at ho
  · cases ho
  cases hf : n.f with
  | idle =>
    rw [hf] at ho
    dsimp only at ho
    split at ho
    · cases ho
    · have hsame : (sParseDm14 { n with f := .requestStarted } seedIn p).n.seedSecurity = true := by
        rw [sParse_keeps_sec]; exact hsec
      split at ho
      · exact absurd hc (notx o (sParse_outs_dm15 _ _ _ o ho))
      · simp only [hsame, Bool.not_true, Bool.false_eq_true, if_false] at ho
        exact absurd hc (notx o (sParse_outs_dm15 _ _ _ o ho))
  | requestStarted =>
    rw [hf] at ho
    dsimp only at ho
    have hsame : (sParseDm14 n seedIn p).n.seedSecurity = true := by
      rw [sParse_keeps_sec]; exact hsec
    split at ho
    · exact absurd hc (notx o (sParse_outs_dm15 _ _ _ o ho))
    · split at ho
      · rename_i hst
        simp only [hsame, if_true] at ho
        split at ho
        · rename_i hkey
          exact ⟨rfl, by simpa using hst, by simpa using hkey⟩
        · -- wrong key: the refusal sequence sends DM15 only
          exfalso
          simp only [fRefuse] at ho
          rcases List.mem_append.mp ho with h | h
          · exact notx o (sParse_outs_dm15 _ _ _ o h) hc
          · split at h <;> exact notx o (sParse_outs_dm15 _ _ _ o h) hc
      · exact absurd hc (notx o (sParse_outs_dm15 _ _ _ o ho))
  | waitQuery =>
    rw [hf] at ho
    dsimp only at ho
    exact absurd hc (notx o (sParse_outs_dm15 _ _ _ o ho))
  | waitResponse =>
    rw [hf] at ho
    cases ho

/-- NOTHING IS SERVED BY THE RECEIVE PATH: whatever arrives, the server-side handlers (facade, DM14 and DM16 handler)
    never send memory data (DM16); data and the 'proceed' answer only leave through `respond` -/
theorem c18_handlers_send_no_data (env : Env) (n : Node) (seedIn : Nat) (accept : Bool) (p : Pdu) (c : Cb)
    (hc : c = .listen ∨ c = .srv14 ∨ c = .srv16) :
    ∀ d pr data, Out.tx PGN_DM16 d pr data ∉ (runCb env n seedIn accept p c).outs := by
  intro d pr data hmem
  have no16 : ∀ x, (∃ d data, x = Out.tx PGN_DM15 d 6 data) → x ≠ Out.tx PGN_DM16 d pr data := by
    rintro x ⟨d', data', rfl⟩ h; cases h
  rcases hc with rfl | rfl | rfl
  · -- facade: its outputs are the DM14 handler's DM15 PDUs and the callbacks
    simp only [runCb] at hmem
    unfold fListen at hmem
    have key : ∀ (m : Node) x, x ∈ (sParseDm14 m seedIn p).outs → x ≠ Out.tx PGN_DM16 d pr data :=
      fun m x hx => no16 x (sParse_outs_dm15 m seedIn p x hx)
    have refuse : ∀ (m : Node) code fr x, x ∈ (fRefuse m seedIn p code fr).outs → x ≠ Out.tx PGN_DM16 d pr data := by
      intro m code fr x hx
      simp only [fRefuse] at hx
      split at hx <;> exact key _ x hx
    have consult : ∀ (m : Node) k sd fr x, x ∈ (fConsult m seedIn accept p k sd fr).outs → x ≠ Out.tx PGN_DM16 d pr data := by
      intro m k sd fr x hx
      unfold fConsult at hx
      split at hx
      · cases hx
      · dsimp only at hx
        split at hx
        · simp at hx; rcases hx with rfl | rfl <;> (intro h; cases h)
        · rcases List.mem_cons.mp hx with rfl | h
          · intro h; cases h
          · exact refuse _ _ _ x h
    split at hmem
    · cases hmem
    split at hmem
    · split at hmem
      · cases hmem
      · dsimp only at hmem
        split at hmem
        · exact key _ _ hmem rfl
        · split at hmem
          · rcases List.mem_append.mp hmem with h | h
            · exact key _ _ h rfl
            · exact consult _ _ _ _ _ h rfl
          · exact key _ _ hmem rfl
    · dsimp only at hmem
      split at hmem
      · exact key _ _ hmem rfl
      · split at hmem
        · split at hmem
          · split at hmem
            · rcases List.mem_append.mp hmem with h | h
              · exact key _ _ h rfl
              · exact consult _ _ _ _ _ h rfl
            · rcases List.mem_append.mp hmem with h | h
              · exact key _ _ h rfl
              · exact refuse _ _ _ _ h rfl
          · exact key _ _ hmem rfl
        · exact key _ _ hmem rfl
    · dsimp only at hmem
      exact key _ _ hmem rfl
    · cases hmem
  · exact no16 _ (sParse_outs_dm15 n seedIn p _ hmem) rfl
  · simp only [runCb] at hmem
    unfold sParseDm16 at hmem
    split at hmem
    · cases hmem
    split at hmem
    · cases hmem
    · dsimp only at hmem
      exact no16 _ (sDm15_outs_tx _ _ _ _ _ _ _ _ _ _ _ hmem) rfl

/-- `respond` serves only a request that has passed the gate: in any other facade state it sends nothing and leaves
    the node as it is -/
theorem c18_respond_guard (n : Node) (seedIn : Nat) (proceed : Bool) (data : List Nat) (error edcp : Nat)
    (h : n.f ≠ .waitResponse) : respond n seedIn proceed data error edcp = (n, [], .data data) := by
  unfold respond
  simp [h]

/-- the DM15 'operation failed' PDU the server builds for error code `e` and EDCP extension `edcp` -/
def errorDm15 (direct e edcp : Nat) : List Nat :=
  [0, (direct <<< 4) + (ST_OPER_FAILED <<< 1) + 1, e &&& 0xFF, (e >>> 8) &&& 0xFF, e >>> 16, edcp, 0xFF, 0xFF]

theorem errorDm15_is_built (s : Server) (seedIn direct status count sa e edcp : Nat) :
    sDm15 s seedIn 8 direct status .sendError count (some sa) e edcp = (s, [.tx PGN_DM15 (sa &&& 0xFF) 6 (errorDm15 direct e edcp)], none) := rfl

theorem error_roundtrip (direct e edcp : Nat) (he : e < 2 ^ 24) : Dm14.q_dm15_error (errorDm15 direct e edcp) = e := by
  simp only [Dm14.q_dm15_error, errorDm15, Py.slice, Py.fromBytesLE, List.take, List.drop]
  have h1 : e &&& 255 = e % 256 := Nat.and_two_pow_sub_one_eq_mod e 8
  have h2 : (e >>> 8) &&& 255 = (e >>> 8) % 256 := Nat.and_two_pow_sub_one_eq_mod _ 8
  rw [h1, h2]
  simp only [Nat.shiftRight_eq_div_pow]
  omega

theorem status_failed (direct e edcp : Nat) (hd : direct < 16) : Dm14.q_dm15_status (errorDm15 direct e edcp) = ST_OPER_FAILED := by
  simp only [Dm14.q_dm15_status, errorDm15, Py.idx, List.getD_cons_succ, List.getD_cons_zero, ST_OPER_FAILED,
    Nat.shiftLeft_eq, Nat.shiftRight_eq_div_pow]
  have : (direct * 2 ^ 4 + 5 * 2 ^ 1 + 1) / 2 ^ 1 = direct * 8 + 5 := by omega
  rw [this]
  have : (direct * 8 + 5) &&& 7 = (direct * 8 + 5) % 8 := Nat.and_two_pow_sub_one_eq_mod _ 3
  rw [this]; omega

/-- ERROR SURFACED, reception: an 'operation failed' DM15 carrying an error indicator (EDCP extension 6 or 7) from the
    addressed server queues, for EVERY 24-bit error code, exactly that code for the waiting caller -/
theorem c18_error_queued (env : Env) (n : Node) (direct e edcp : Nat) (he : e < 2 ^ 24) (hd : direct < 16)
    (hedcp : edcp = 6 ∨ edcp = 7) :
    qParseDm15 env n ⟨PGN_DM15, n.q.dest, errorDm15 direct e edcp⟩ =
      { n := { n with q := { n.q with dataQ := n.q.dataQ ++ [none], excQ := n.q.excQ ++ [.device n.q.dest e edcp] } } } := by
  unfold qParseDm15
  have hlen : ¬ (errorDm15 direct e edcp).length < 8 := by simp [errorDm15]
  have hedcp' : Py.idx (errorDm15 direct e edcp) 5 = edcp := rfl
  simp only [bne_self_eq_false, Bool.or_self, Bool.false_eq_true, if_false, hlen, status_failed direct e edcp hd,
    error_roundtrip direct e edcp he, hedcp']
  rcases hedcp with rfl | rfl <;> simp [ST_OPER_FAILED, ST_BUSY]

/-- ERROR SURFACED, the caller: with that item queued the blocked call ends by raising the device error with exactly
    the code — for a read and for a write — and the client side is clean afterwards -/
theorem c18_error_raised (n : Node) (e : Exc) (rest : List Exc) (item : Option (List Nat)) (items : List (Option (List Nat)))
    (hq : n.q.dataQ = item :: items) (hx : n.q.excQ = e :: rest) :
    (clientResume n false).2 = .raiseExc e ∧ (clientResume n false).1.f = .idle ∧ (clientResume n false).1.q.state = .idle ∧
    Cb.q15 ∉ (clientResume n false).1.subs ∧ Cb.q16 ∉ (clientResume n false).1.subs := by
  unfold clientResume
  simp only [hq, hx]
  simp [qEnd, unsub]

/-- the codes the server itself uses: a wrong key is answered with 0x1003 (and the application is not consulted, see
    `c18_key_gate`), a refusal by the proceed callback with 0x100, both with EDCP extension 7 -/
theorem c18_refusal_codes (n : Node) (seedIn : Nat) (p : Pdu) (code : Nat) (fr : Bool) (hp : p.pgn = PGN_DM14) (hl : 8 ≤ p.data.length)
    (h8 : n.s.length = 8) (hc : code ≠ 0) :
    (fRefuse n seedIn p code fr).outs = [.tx PGN_DM15 (p.sa &&& 0xFF) 6 (errorDm15 (Py.idx p.data 1 >>> 4) code 7)] ∧
    (fRefuse n seedIn p code fr).err = none := by
  have hl' : ¬ p.data.length < 8 := by omega
  have hcode : (code != 0) = true := by simpa using hc
  simp only [fRefuse, sParseDm14, hp, bne_self_eq_false, Bool.false_eq_true, if_false, hl']
  rw [if_pos (by simp [sRejects])]
  simp only [h8, errorDm15_is_built, hcode, if_true]
  exact ⟨trivial, trivial⟩

/-- after the refusal sequence the server side is back in its initial configuration: idle, bound to nobody, not busy,
    its own handlers unsubscribed, and (when the facade had unsubscribed itself, D26) listening again -/
theorem c18_refusal_recovers (n : Node) (seedIn : Nat) (p : Pdu) (code : Nat) (fr : Bool)
    (herr : (fRefuse n seedIn p code fr).err = none) :
    let m := (fRefuse n seedIn p code fr).n
    m.f = .idle ∧ m.s.state = .idle ∧ m.s.sa = none ∧ m.s.address = none ∧ m.s.busy = false ∧ m.s.error = 0 ∧ m.s.length = 8 ∧
    Cb.srv14 ∉ m.subs ∧ Cb.srv16 ∉ m.subs ∧ (fr = true → Cb.listen ∈ m.subs) := by
  unfold fRefuse at herr ⊢
  dsimp only at herr ⊢
  split
  · rename_i e he; rw [he] at herr; cases herr
  · cases fr <;> simp [sReset, unsub, sub]

/-- TIMEOUT: a caller that heard nothing at all gets "No response from server" when its timeout passes -/
theorem c18_timeout (n : Node) (h : n.q.state = .waitSeed) : (clientResume n true).2 = .raiseNoResponse := by
  unfold clientResume
  simp [h]

/-- RECOVERY, client: however a read or write ended — result, device error, no response, timeout in any phase — the
    facade and the query are idle again and no handler of the finished transaction is left behind, so the next call
    is accepted (`c18_next_call_accepted`) -/
theorem c18_client_recovers (n : Node) (timedOut : Bool) :
    (clientResume n timedOut).1.f = .idle ∧ (clientResume n timedOut).1.q.state = .idle ∧
    Cb.q15 ∉ (clientResume n timedOut).1.subs ∧ Cb.q16 ∉ (clientResume n timedOut).1.subs ∧
    (∀ c, c ≠ .q15 → c ≠ .q16 → (c ∈ (clientResume n timedOut).1.subs ↔ c ∈ n.subs)) := by
  unfold clientResume
  dsimp only
  repeat' split
  all_goals (simp [qEnd, unsub]; try (intro c h1 h2; simp [h1, h2]))

theorem c18_next_call_accepted (n : Node) (timedOut : Bool) (dest direct address count objSize : Nat) (signed raw : Bool)
    (hc : count ≠ 0) (ha : address < 2 ^ 32) :
    (readBegin (clientResume n timedOut).1 dest direct address count objSize signed raw).2.2 = .blocked := by
  have h := (c18_client_recovers n timedOut).1
  unfold readBegin
  have ha' : ¬ address ≥ 2 ^ 32 := by omega
  simp [h, hc, ha']

/-- NON-VACUITY: a server with a key function, after seed 0x1234 was issued, consults the application exactly for the
    right key ((s * 3 + 1) mod 2^16 here) and refuses the wrong one with 0x1003 -/
example :
    let env : Env := ⟨fun s => (s * 3 + 1) % 65536, id⟩
    let n0 : Node := { seedSecurity := true, hasProceed := true, s := { hasKey := true } }
    let n1 := (deliver env n0 0x1234 true ⟨PGN_DM14, 0x21, [1, 0x13, 3, 0, 0, 0x92, 7, 0]⟩).n
    (deliver env n1 0 true ⟨PGN_DM14, 0x21, [1, 0x13, 3, 0, 0, 0x92, 0x9D, 0x36]⟩).outs
      = [.proceed 1 0x92000003 1 8 1 0x369D 0x21 7 0x1234, .notify] ∧
    (deliver env n1 0 true ⟨PGN_DM14, 0x21, [1, 0x13, 3, 0, 0, 0x92, 0x9E, 0x36]⟩).outs
      = [.tx PGN_DM15 0x21 6 (errorDm15 1 0x1003 7)] := by decide

end J1939.Props.C18
