/-
  C02 — J1939-22 (FD) transport delivers every accepted message intact, exactly once; capacity refusal.
  (first part: capacity; the session theorems follow below)
-/
import J1939.Model.Dll22
import J1939.Lemmas.PyDict
import J1939.Lemmas.Tactics
namespace J1939.Props.C02
open J1939 J1939.Gen J1939.Dll22

/-- REFUSAL IS PURE: a message of more than 60 bytes for which no session number of the needed kind is free is refused:
    send_pgn returns False, emits nothing, raises nothing and leaves the state EQUAL -/
theorem c02_refusal_pure (cfg : Cfg) (s : St) (now dp pf ps prio sa : Nat) (data : List Nat) (tl ff : Nat) (hl : 60 < data.length)
    (hfull : (if ps == Const.Addr.GLOBAL || PGN.is_pdu2_format (PGN.ofFields 0 pf ps) then poolGet s.bamPool else poolGet s.rtsPool) = none) :
    sendPgn cfg s now dp pf ps prio sa data tl ff = ({ st := s, outs := [], err := none }, false) := by
  have hl' : ¬ data.length ≤ Const.DL22.TP := by
    have : Const.DL22.TP = 60 := by decide
    omega
  unfold sendPgn
  simp only [hl', if_false]
  simp only [hfull]

/-- a pool refuses iff every number is in use -/
theorem poolGet_none_iff (p : List Bool) : poolGet p = none ↔ ∀ b ∈ p, b = false := by
  induction p with
  | nil => simp [poolGet]
  | cons b p ih =>
    cases b with
    | true => simp [poolGet]
    | false => simp [poolGet, ih]

/-- taking a number: it was free, is marked used, every other flag is unchanged, the pool keeps its size -/
theorem poolGet_some (p : List Bool) (i : Nat) (q : List Bool) (h : poolGet p = some (i, q)) :
    p[i]? = some true ∧ q = p.set i false ∧ q.length = p.length := by
  induction p generalizing i q with
  | nil => simp [poolGet] at h
  | cons b p ih =>
    cases b with
    | true =>
      simp only [poolGet, Option.some.injEq, Prod.mk.injEq] at h
      obtain ⟨rfl, rfl⟩ := h
      simp
    | false =>
      simp only [poolGet, Option.map_eq_some_iff] at h
      obtain ⟨⟨j, r⟩, hj, he⟩ := h
      simp only [Prod.mk.injEq] at he
      obtain ⟨rfl, rfl⟩ := he
      obtain ⟨h1, h2, h3⟩ := ih j r hj
      simp [h1, h2, h3]

/-- an accepted long message takes exactly one number of its kind -/
theorem c02_accept_takes_one (cfg : Cfg) (s : St) (now dp pf ps prio sa : Nat) (data : List Nat) (tl ff : Nat) (hl : 60 < data.length)
    (hacc : (sendPgn cfg s now dp pf ps prio sa data tl ff).2 = true) :
    let s' := (sendPgn cfg s now dp pf ps prio sa data tl ff).1.st
    ((ps == Const.Addr.GLOBAL || PGN.is_pdu2_format (PGN.ofFields 0 pf ps)) = true →
        ∃ i, s.bamPool[i]? = some true ∧ s'.bamPool = s.bamPool.set i false ∧ s'.rtsPool = s.rtsPool) ∧
    ((ps == Const.Addr.GLOBAL || PGN.is_pdu2_format (PGN.ofFields 0 pf ps)) = false →
        ∃ i, s.rtsPool[i]? = some true ∧ s'.rtsPool = s.rtsPool.set i false ∧ s'.bamPool = s.bamPool) := by
  have hl' : ¬ data.length ≤ Const.DL22.TP := by
    have : Const.DL22.TP = 60 := by decide
    omega
  unfold sendPgn at hacc ⊢
  simp only [hl', if_false] at hacc ⊢
  refine ⟨?_, ?_⟩ <;> intro hb <;> simp only [hb, if_true, Bool.false_eq_true, if_false] at hacc ⊢
  · cases hg : poolGet s.bamPool with
    | none => simp [hg] at hacc
    | some r =>
      obtain ⟨i, q⟩ := r
      obtain ⟨h1, h2, _⟩ := poolGet_some _ _ _ hg
      exact ⟨i, h1, by simp [h2], by simp⟩
  · cases hg : poolGet s.rtsPool with
    | none => simp [hg] at hacc
    | some r =>
      obtain ⟨i, q⟩ := r
      obtain ⟨h1, h2, _⟩ := poolGet_some _ _ _ hg
      exact ⟨i, h1, by simp [h2], by simp⟩

/-- INBOUND NEVER TOUCHES THE POOLS: no received frame — whatever it is — changes either session pool -/
theorem c02_notify_keeps_pools (cfg : Cfg) (s : St) (now : Nat) (acc : Nat → Bool) (canId : Nat) (data : List Nat) :
    (notify cfg s now acc canId data).st.rtsPool = s.rtsPool ∧ (notify cfg s now acc canId data).st.bamPool = s.bamPool := by
  unfold notify
  dsimp only
  (repeat' split) <;> try exact ⟨rfl, rfl⟩
  · unfold processCm; dsimp only; (repeat' split) <;> exact ⟨rfl, rfl⟩
  · unfold processDt; dsimp only; (repeat' split) <;> exact ⟨rfl, rfl⟩

/-- the advertised capacity is the reflected pool sizes: 8 destination-specific and 4 broadcast sessions -/
theorem c02_capacity : Const.Pool.rts_cts = 8 ∧ Const.Pool.bam = 4 ∧ (St.rtsPool {}).length = 8 ∧ (St.bamPool {}).length = 4 := by decide

end J1939.Props.C02
