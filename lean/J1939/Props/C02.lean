/-
  C02 — J1939-22 (FD) transport delivers every accepted message intact, exactly once; capacity refusal.
  (first part: capacity; the session theorems follow below)
-/
import J1939.Model.Dll22
import J1939.Props.C03
import J1939.Lemmas.Bam21
import J1939.Lemmas.Trace22
import J1939.Lemmas.Bits
import J1939.Lemmas.PyDict
import J1939.Lemmas.Tactics
namespace J1939.Props.C02
open J1939 J1939.Gen J1939.Dll22

/-- REFUSAL IS PURE: a message of more than 60 bytes for which no session number of the needed kind is free is refused:
    send_pgn returns False, emits nothing, raises nothing and leaves the state EQUAL -/
theorem c02_refusal_pure (cfg : Cfg) (s : St) (now dp pf ps prio sa : Nat) (data : List Nat) (tl ff : Nat) (hl : 60 < data.length)
    (hfull : (if ps == Const.Addr.GLOBAL || PGN.is_pdu2_format (PGN.ofFields 0 pf ps) then poolGet s.bamPool else poolGet s.rtsPool) = none) :
    sendPgn cfg s now dp pf ps prio sa data tl ff = ({ st := s, outs := [], err := none }, false) := by
  have hl' : ¬ data.length ≤ Const.DL22.TP := by
    have : Const.DL22.TP = 60 := by decide
    omega
  unfold sendPgn
  simp only [hl', if_false]
  simp only [hfull]

/-- a pool refuses iff every number is in use -/
theorem poolGet_none_iff (p : List Bool) : poolGet p = none ↔ ∀ b ∈ p, b = false := by
  induction p with
  | nil => simp [poolGet]
  | cons b p ih =>
    cases b with
    | true => simp [poolGet]
    | false => simp [poolGet, ih]

/-- taking a number: it was free, is marked used, every other flag is unchanged, the pool keeps its size -/
theorem poolGet_some (p : List Bool) (i : Nat) (q : List Bool) (h : poolGet p = some (i, q)) :
    p[i]? = some true ∧ q = p.set i false ∧ q.length = p.length := by
  induction p generalizing i q with
  | nil => simp [poolGet] at h
  | cons b p ih =>
    cases b with
    | true =>
      simp only [poolGet, Option.some.injEq, Prod.mk.injEq] at h
      obtain ⟨rfl, rfl⟩ := h
      simp
    | false =>
      simp only [poolGet, Option.map_eq_some_iff] at h
      obtain ⟨⟨j, r⟩, hj, he⟩ := h
      simp only [Prod.mk.injEq] at he
      obtain ⟨rfl, rfl⟩ := he
      obtain ⟨h1, h2, h3⟩ := ih j r hj
      simp [h1, h2, h3]

/-- an accepted long message takes exactly one number of its kind -/
theorem c02_accept_takes_one (cfg : Cfg) (s : St) (now dp pf ps prio sa : Nat) (data : List Nat) (tl ff : Nat) (hl : 60 < data.length)
    (hacc : (sendPgn cfg s now dp pf ps prio sa data tl ff).2 = true) :
    let s' := (sendPgn cfg s now dp pf ps prio sa data tl ff).1.st
    ((ps == Const.Addr.GLOBAL || PGN.is_pdu2_format (PGN.ofFields 0 pf ps)) = true →
        ∃ i, s.bamPool[i]? = some true ∧ s'.bamPool = s.bamPool.set i false ∧ s'.rtsPool = s.rtsPool) ∧
    ((ps == Const.Addr.GLOBAL || PGN.is_pdu2_format (PGN.ofFields 0 pf ps)) = false →
        ∃ i, s.rtsPool[i]? = some true ∧ s'.rtsPool = s.rtsPool.set i false ∧ s'.bamPool = s.bamPool) := by
  have hl' : ¬ data.length ≤ Const.DL22.TP := by
    have : Const.DL22.TP = 60 := by decide
    omega
  unfold sendPgn at hacc ⊢
  simp only [hl', if_false] at hacc ⊢
  refine ⟨?_, ?_⟩ <;> intro hb <;> simp only [hb, if_true, Bool.false_eq_true, if_false] at hacc ⊢
  · cases hg : poolGet s.bamPool with
    | none => simp [hg] at hacc
    | some r =>
      obtain ⟨i, q⟩ := r
      obtain ⟨h1, h2, _⟩ := poolGet_some _ _ _ hg
      exact ⟨i, h1, by simp [h2], by simp⟩
  · cases hg : poolGet s.rtsPool with
    | none => simp [hg] at hacc
    | some r =>
      obtain ⟨i, q⟩ := r
      obtain ⟨h1, h2, _⟩ := poolGet_some _ _ _ hg
      exact ⟨i, h1, by simp [h2], by simp⟩

theorem processCm_keeps_pools (cfg : Cfg) (s : St) (now : Nat) (mid : MessageId) (dest : Nat) (data : List Nat) :
    (processCm cfg s now mid dest data).st.rtsPool = s.rtsPool ∧ (processCm cfg s now mid dest data).st.bamPool = s.bamPool := by
  unfold processCm
  dsimp only
  split
  · exact ⟨rfl, rfl⟩
  · split
    · exact ⟨rfl, rfl⟩
    · (repeat' split) <;> exact ⟨rfl, rfl⟩

theorem processDt_keeps_pools (s : St) (now : Nat) (mid : MessageId) (dest : Nat) (data : List Nat) :
    (processDt s now mid dest data).st.rtsPool = s.rtsPool ∧ (processDt s now mid dest data).st.bamPool = s.bamPool := by
  unfold processDt; dsimp only; (repeat' split) <;> exact ⟨rfl, rfl⟩

/-- INBOUND NEVER TOUCHES THE POOLS: no received frame — whatever it is — changes either session pool -/
theorem c02_notify_keeps_pools (cfg : Cfg) (s : St) (now : Nat) (acc : Nat → Bool) (canId : Nat) (data : List Nat) :
    (notify cfg s now acc canId data).st.rtsPool = s.rtsPool ∧ (notify cfg s now acc canId data).st.bamPool = s.bamPool := by
  unfold notify
  dsimp only
  (repeat' split) <;> first
    | exact ⟨rfl, rfl⟩
    | exact processCm_keeps_pools ..
    | exact processDt_keeps_pools ..

/-- the advertised capacity is the reflected pool sizes: 8 destination-specific and 4 broadcast sessions -/
theorem c02_capacity : Const.Pool.rts_cts = 8 ∧ Const.Pool.bam = 4 ∧ (St.rtsPool {}).length = 8 ∧ (St.bamPool {}).length = 4 := by decide

-- ------------------------------------------------------------------------------------------------ the data path
/-- SEGMENTATION: the chunks the originator keeps are the consecutive 60-byte pieces of the message; concatenated
    they are the message (for every length; a length that is a multiple of 60 has an empty last chunk that is never sent) -/
theorem c02_chunks_get (data : List Nat) (k : Nat) (hk : k < Tp22.num_segments data.length) :
    (chunks60 data)[k]? = some ((data.drop (60 * k)).take 60) := by
  unfold chunks60
  have hTP : Const.DL22.TP = 60 := rfl
  simp only [hTP]
  by_cases hfull : k < data.length / 60
  · rw [List.getElem?_append_left (by simpa using hfull)]
    simp [hfull, Nat.mul_comm]
  · have hns : Tp22.num_segments data.length = data.length / 60 + (if data.length % 60 != 0 then 1 else 0) := by
      unfold Tp22.num_segments Py.b2n; rfl
    have hke : k = data.length / 60 := by
      rw [hns] at hk
      split at hk <;> omega
    rw [List.getElem?_append_right (by simp; omega)]
    simp only [List.length_map, List.length_range, hke, Nat.sub_self, List.getElem?_cons_zero, Option.some.injEq]
    rw [Nat.mul_comm]
    exact (List.take_of_length_le (by simp; omega)).symm

theorem c02_chunks_concat (data : List Nat) : (chunks60 data).flatten = data := by
  unfold chunks60
  have hTP : Const.DL22.TP = 60 := rfl
  simp only [hTP, List.flatten_append, List.flatten_cons, List.flatten_nil, List.append_nil]
  generalize data.length / 60 = n
  induction n with
  | zero => simp
  | succ n ih =>
    rw [List.range_succ, List.map_append, List.flatten_append]
    simp only [List.map_cons, List.map_nil, List.flatten_cons, List.flatten_nil, List.append_nil]
    have : (List.map (fun k => List.take 60 (List.drop (k * 60) data)) (List.range n)).flatten ++ List.take 60 (List.drop (n * 60) data) ++
        List.drop ((n + 1) * 60) data = (List.map (fun k => List.take 60 (List.drop (k * 60) data)) (List.range n)).flatten ++ List.drop (n * 60) data := by
      rw [List.append_assoc]
      congr 1
      have : (n + 1) * 60 = n * 60 + 60 := by omega
      rw [this, ← List.drop_drop, List.take_append_drop]
    rw [this]; exact ih

/-- the payload of the FD.TP.DT frame this stack builds: 4 header bytes, the chunk, and 0xFF up to the next CAN FD
    length — none after a full 60-byte chunk -/
theorem ins4 (l : List Nat) (a b c d : Nat) : Py.insert (Py.insert (Py.insert (Py.insert l 0 a) 1 b) 2 c) 3 d = a :: b :: c :: d :: l := by
  simp [Py.insert]
theorem dt22_data (src dest session seg : Nat) (chunk : List Nat) (hc : chunk.length ≤ 60) :
    ∃ pad, (Tp22.dt Const.LUT_FD_DLC src dest session seg chunk 0).data =
      [(0 &&& 15) ||| ((session &&& 15) <<< 4), seg &&& 255, (seg >>> 8) &&& 255, (seg >>> 16) &&& 255] ++ chunk ++ pad ∧
      (chunk.length = 60 → pad = []) := by
  unfold Tp22.dt
  simp only [ins4]
  by_cases h : chunk.length = 60
  · refine ⟨[], ?_, fun _ => rfl⟩
    have : decide ((((0 &&& 15) ||| ((session &&& 15) <<< 4)) :: (seg &&& 255) :: ((seg >>> 8) &&& 255) :: ((seg >>> 16) &&& 255) :: chunk).length ≥ 60 + 4) = true := by
      simp [h]
    simp only [this, if_true, List.append_nil, List.cons_append, List.nil_append]
    exact List.take_of_length_le (by simp [h])
  · have : decide ((((0 &&& 15) ||| ((session &&& 15) <<< 4)) :: (seg &&& 255) :: ((seg >>> 8) &&& 255) :: ((seg >>> 16) &&& 255) :: chunk).length ≥ 60 + 4) = false := by
      simp; omega
    simp only [this, Bool.false_eq_true, if_false, Py.pad]
    exact ⟨_, rfl, fun h' => absurd h' h⟩

/-- THE FRAMES THIS STACK BUILDS ARE SEGMENT FRAMES: the receive path extracts from the k-th FD.TP.DT frame of a message
    exactly the session, the segment number k+1 and the k-th chunk (plus padding on the last one only) -/
theorem c02_built_frame_is_segframe (data : List Nat) (src dest session k : Nat) (hs : session < 16)
    (hk : k < Tp22.num_segments data.length) (hk24 : k + 1 < 2 ^ 24) :
    SegFrame data session k (Tp22.dt Const.LUT_FD_DLC src dest session (k + 1) ((data.drop (60 * k)).take 60) 0).data := by
  have hcl : ((data.drop (60 * k)).take 60).length ≤ 60 := by simp; omega
  obtain ⟨pad, hd, hpad⟩ := dt22_data src dest session (k + 1) ((data.drop (60 * k)).take 60) hcl
  have hne : 0 < ((data.drop (60 * k)).take 60).length := by
    have := (num_segments_spec data.length)
    have hns : Tp22.num_segments data.length = data.length / 60 + (if data.length % 60 != 0 then 1 else 0) := by
      unfold Tp22.num_segments Py.b2n; rfl
    simp only [List.length_take, List.length_drop]
    rw [hns] at hk
    split at hk <;> rename_i h <;> simp at h <;> omega
  rw [hd]
  refine ⟨by simp only [List.length_append, List.length_cons, List.length_nil]; omega, ?_, ?_, ⟨pad, by simp, ?_⟩⟩
  · simp only [Tp22.dt_session, Py.idx, List.cons_append, List.getD_cons_zero]
    rw [Bits.and_15, Bits.and_15, Bits.shl_4, Bits.shr_4, Bits.and_15]
    have : 0 % 16 ||| session % 16 * 16 = session % 16 * 16 := by simp
    rw [this]; omega
  · simp only [Tp22.dt_segment, Py.idx, List.cons_append, List.getD_cons_succ, List.getD_cons_zero]
    have h24 : k + 1 < 16777216 := by simpa using hk24
    rw [Bits.and_255, Bits.and_255, Bits.and_255, Bits.and_255, Bits.and_255, Bits.and_255, Bits.shr_8, Bits.shr_16, Bits.shl_8, Bits.shl_16]
    have e1 : (k + 1) % 256 % 256 ||| (k + 1) / 256 % 256 % 256 * 256 = (k + 1) / 256 % 256 * 256 + (k + 1) % 256 := by
      have := Bits.mul_or ((k + 1) / 256 % 256) ((k + 1) % 256) 8 (by omega)
      simp only [Nat.mod_mod] at *
      rw [Nat.or_comm]; simpa using this
    rw [e1]
    have e2 : ((k + 1) / 256 % 256 * 256 + (k + 1) % 256) ||| (k + 1) / 65536 % 256 % 256 * 65536
        = (k + 1) / 65536 % 256 * 65536 + ((k + 1) / 256 % 256 * 256 + (k + 1) % 256) := by
      have := Bits.mul_or ((k + 1) / 65536 % 256) ((k + 1) / 256 % 256 * 256 + (k + 1) % 256) 16 (by omega)
      simp only [Nat.mod_mod] at *
      rw [Nat.or_comm]; simpa using this
    rw [e2]; omega
  · by_cases h60 : ((data.drop (60 * k)).take 60).length = 60
    · exact Or.inr (hpad h60)
    · left
      simp only [List.length_take, List.length_drop] at h60 hne
      omega

/-- C02, RECEPTION IS EXACT (FD.TP, broadcast and connection mode): a responder record opened for a message of
    `data.length` bytes, fed the segment frames of `data` in order at arbitrary times (the frames of this stack or of any
    conforming originator — its source address is not the global address, repair of D29) and then the end-of-message status, hands `data` up EXACTLY ONCE — byte-identical, with the
    announced PGN — removes the record and never touches the send table -/
theorem c02_reception_exact (cfg : Cfg) (data : List Nat) (hpos : 0 < data.length) (mid : MessageId) (dest session : Nat)
    (frames : List (Nat × List Nat)) (hfl : frames.length = Tp22.num_segments data.length)
    (hframes : ∀ i (h : i < frames.length), SegFrame data session i (frames[i]).2)
    (s : St) (r : Rcv) (hr : s.rcv.get? (Tp22.buffer_hash session mid.source_address dest) = some r)
    (hsize : r.messageSize = data.length) (hnext : r.nextPacket = 1) (hdata : r.data = [])
    (hmr : dest ≠ Const.Addr.GLOBAL → (∃ b, r.ctsBorder = some b) ∧ ∃ m, r.maxRec = some m)
    (now : Nat) (eom : List Nat) (hel : 12 ≤ eom.length) (hec : Tp22.cm_control eom = Const.CM22.EOM_STATUS)
    (hes : Tp22.cm_session eom = session) (hesz : Tp22.cm_size eom = data.length) (hen : Tp22.cm_segment eom = r.numSegments)
    (hsrc : mid.source_address ≠ Const.Addr.GLOBAL) :
    let s1 := (feedDt s mid dest frames).1
    deliveries ((feedDt s mid dest frames).2 ++ (processCm cfg s1 now mid dest eom).outs)
      = [(mid.priority, r.pgn, mid.source_address, dest, data)] ∧
    (processCm cfg s1 now mid dest eom).err = none ∧
    (processCm cfg s1 now mid dest eom).st.rcv.get? (Tp22.buffer_hash session mid.source_address dest) = none ∧
    (processCm cfg s1 now mid dest eom).st.snd = s.snd := by
  intro s1
  have hn : 0 < Tp22.num_segments data.length := by
    have := (num_segments_spec data.length).1; omega
  obtain ⟨a1, a2, r', hr', h1, h2, h3, h4⟩ := feed22_accumulates data hpos mid dest session (Tp22.num_segments data.length) 0
    (by omega) hn frames hfl (by intro i hi; simpa using hframes i hi) s r hr hsize (by simpa using hnext) (by simpa using hdata) hmr
  obtain ⟨e1, e2, e3, e4⟩ := eom22_delivers cfg s1 now mid dest eom r' session hel hec hes (by rw [hesz, h2]) (by rw [hen, h3]) hr'
    (by rw [h1, h2]) hsrc
  refine ⟨?_, e2, e3, by rw [e4, a2]⟩
  rw [deliveries_append, a1, e1, h4, h1]; rfl

/-! ## Broadcast (FD BAM) from end to end -/

/-- successive background passes over ONE broadcast record; frames and the record left -/
def bamRun (cfg : Cfg) : List Nat → Snd → List Out × Option Snd × Release
  | [], b => ([], some b, .none)
  | t :: ts, b =>
    let r := tickSndOne cfg t b
    match r.1 with
    | none => (r.2.1, none, r.2.2.2.2)
    | some b' => let q := bamRun cfg ts b'; (r.2.1 ++ q.1, q.2)

/-- every pass of the list finds the record due -/
def Due (cfg : Cfg) : Nat → List Nat → Prop
  | _, [] => True
  | d, t :: ts => d ≠ 0 ∧ d ≤ t ∧ Due cfg (t + cfg.bamInterval) ts

/-- one due pass over a broadcast record that still has segments to send -/
theorem tickSndOne_bam (cfg : Cfg) (t : Nat) (b : Snd) (msg : List Nat) (j : Nat) (hs : b.state = S_SENDING_BAM)
    (hd0 : b.deadline ≠ 0) (hdt : b.deadline ≤ t) (hdata : b.data = chunks60 msg) (hnext : b.next = (j : Int))
    (hj : j < Tp22.num_segments msg.length) :
    tickSndOne cfg t b =
      (some (if (j : Int) + 1 < (b.numSegments : Int) then { b with next := (j : Int) + 1, deadline := t + cfg.bamInterval }
             else { b with next := (j : Int) + 1, state := S_SENDING_EOM_STATUS, deadline := t + cfg.bamInterval }),
       [.tx (Tp22.dt Const.LUT_FD_DLC b.src b.dest b.session (j + 1) ((msg.drop (60 * j)).take 60) 0)], none,
       some (t + cfg.bamInterval), .none) := by
  have e1 : (b.deadline != 0) = true := by simpa using hd0
  have e2 : ¬ b.deadline > t := by omega
  have n15 : (S_SENDING_BAM == S_WAITING_CTS) = false := by decide
  have n25 : (S_SENDING_BAM == S_SENDING_RTS_CTS) = false := by decide
  have n35 : (S_SENDING_BAM == S_WAITING_EOM_ACK) = false := by decide
  have n45 : (S_SENDING_BAM == S_EOM_ACK_RECEIVED) = false := by decide
  have hidx : pyIndex b.data b.next = some ((msg.drop (60 * j)).take 60) := by
    rw [hdata, hnext]
    unfold pyIndex
    have : (0 : Int) ≤ (j : Int) := by omega
    simp only [this, if_true, Int.toNat_natCast]
    exact c02_chunks_get msg j hj
  have htn : ((j : Int) + 1).toNat = j + 1 := by omega
  rw [hnext] at hidx
  unfold tickSndOne
  simp only [e1, if_true, e2, if_false, hs, n15, n25, n35, n45, Bool.false_eq_true, beq_self_eq_true, hnext, hidx, htn]
  split <;> rfl
/-- the due pass over a record in SENDING_EOM_STATUS: the end-of-message status goes out, the record is deleted and its
    number returns to the broadcast pool -/
theorem tickSndOne_eoms (cfg : Cfg) (t : Nat) (b : Snd) (hs : b.state = S_SENDING_EOM_STATUS) (hd0 : b.deadline ≠ 0) (hdt : b.deadline ≤ t) :
    tickSndOne cfg t b =
      (none, [.tx (Tp22.eom_status b.src b.dest b.session b.messageSize b.numSegments b.pgn 0 0)], none, none, .bam b.session) := by
  have e1 : (b.deadline != 0) = true := by simpa using hd0
  have e2 : ¬ b.deadline > t := by omega
  have n16 : (S_SENDING_EOM_STATUS == S_WAITING_CTS) = false := by decide
  have n26 : (S_SENDING_EOM_STATUS == S_SENDING_RTS_CTS) = false := by decide
  have n36 : (S_SENDING_EOM_STATUS == S_WAITING_EOM_ACK) = false := by decide
  have n46 : (S_SENDING_EOM_STATUS == S_EOM_ACK_RECEIVED) = false := by decide
  have n56 : (S_SENDING_EOM_STATUS == S_SENDING_BAM) = false := by decide
  unfold tickSndOne
  simp only [e1, if_true, e2, if_false, hs, n16, n26, n36, n46, n56, Bool.false_eq_true, beq_self_eq_true]

/-- ORIGINATOR, broadcast (FD): m + 1 due passes over a record with m segments left put exactly the FD.TP.DT frames of
    those segments on the bus — one per pass, in order, the 60-byte chunks of the message — then the end-of-message
    status; the last pass deletes the record and returns its number to the broadcast pool -/
theorem c02_bam_originator_frames (cfg : Cfg) (msg : List Nat) (m : Nat) : ∀ (times : List Nat) (b : Snd) (j : Nat),
    times.length = m + 1 → 0 < m → b.state = S_SENDING_BAM → b.data = chunks60 msg → b.next = (j : Int) →
    b.numSegments = Tp22.num_segments msg.length → j + m = Tp22.num_segments msg.length → Due cfg b.deadline times →
    bamRun cfg times b =
      ((List.range' j m).map (fun k => Out.tx (Tp22.dt Const.LUT_FD_DLC b.src b.dest b.session (k + 1) ((msg.drop (60 * k)).take 60) 0)) ++
        [.tx (Tp22.eom_status b.src b.dest b.session b.messageSize b.numSegments b.pgn 0 0)], none, .bam b.session) := by
  induction m with
  | zero => intro times b j _ h; omega
  | succ m ih =>
    intro times b j ht _ hs hdata hnext hn hjm hdue
    obtain ⟨t, times, rfl⟩ : ∃ t ts, times = t :: ts := by
      cases times with
      | nil => simp at ht
      | cons t ts => exact ⟨t, ts, rfl⟩
    simp only [List.length_cons, Nat.add_right_cancel_iff] at ht
    obtain ⟨hd0, hdt, hrest⟩ := hdue
    have h1 := tickSndOne_bam cfg t b msg j hs hd0 hdt hdata hnext (by omega)
    by_cases hlast : m = 0
    · subst hlast
      have hc : ¬ ((j : Int) + 1 < (b.numSegments : Int)) := by rw [hn]; omega
      simp only [hc, if_false] at h1
      obtain ⟨t', rfl⟩ : ∃ t', times = [t'] := by
        match times, ht with
        | [t'], _ => exact ⟨t', rfl⟩
      obtain ⟨hd0', hdt', _⟩ := hrest
      have h2 := tickSndOne_eoms cfg t' { b with next := (j : Int) + 1, state := S_SENDING_EOM_STATUS, deadline := t + cfg.bamInterval }
        rfl hd0' hdt'
      simp only [bamRun, h1, h2, List.range'_one, List.map_cons, List.map_nil, List.append_nil, List.singleton_append, Nat.zero_add]
    · have hc : (j : Int) + 1 < (b.numSegments : Int) := by rw [hn]; omega
      simp only [hc, if_true] at h1
      have := ih times { b with next := (j : Int) + 1, deadline := t + cfg.bamInterval } (j + 1) ht (by omega) hs hdata
        (by simp only; omega) hn (by omega) hrest
      dsimp only at this
      simp only [bamRun, h1, this, List.range'_succ, List.map_cons, List.cons_append, List.nil_append]
/-- the PGN a broadcast announces: PS cleared for a PDU1 PGN -/
def bamPgn (dp pf ps : Nat) : Nat :=
  if PGN.is_pdu1_format (PGN.ofFields dp pf ps) then PGN.value { PGN.ofFields dp pf ps with pdu_specific := 0 }
  else PGN.value (PGN.ofFields dp pf ps)

theorem bamPgn_lt (dp pf ps : Nat) : bamPgn dp pf ps < 16777216 := by
  unfold bamPgn
  have w := Lemmas.pgn_ofFields_wf dp pf ps
  have w0 : Lemmas.PGN.WF { PGN.ofFields dp pf ps with pdu_specific := 0 } := by
    obtain ⟨a, b, _⟩ := w
    exact ⟨a, b, by simp⟩
  split
  · rw [Lemmas.pgn_value_arith _ w0]; obtain ⟨a, b, c⟩ := w0; simp only at a b c ⊢; omega
  · rw [Lemmas.pgn_value_arith _ w]; obtain ⟨a, b, c⟩ := w; omega

/-- the send record of an FD broadcast that got session number `i` -/
def bamRec (cfg : Cfg) (now dp pf ps prio sa i : Nat) (msg : List Nat) : Snd :=
  { pgn := bamPgn dp pf ps, priority := prio, session := i, messageSize := msg.length, numSegments := Tp22.num_segments msg.length,
    data := chunks60 msg, state := S_SENDING_BAM, deadline := now + cfg.bamInterval, src := sa, dest := Const.Addr.GLOBAL,
    next := 0, waitOn := none }

/-- an accepted broadcast of more than 60 bytes, exactly -/
theorem sendPgn_bam (cfg : Cfg) (s : St) (now dp pf ps prio sa : Nat) (msg : List Nat) (tl ff : Nat) (hl : 60 < msg.length)
    (hb : (ps == Const.Addr.GLOBAL || PGN.is_pdu2_format (PGN.ofFields 0 pf ps)) = true)
    (hacc : (sendPgn cfg s now dp pf ps prio sa msg tl ff).2 = true) :
    ∃ i pool, poolGet s.bamPool = some (i, pool) ∧
      (sendPgn cfg s now dp pf ps prio sa msg tl ff).1 =
        { st := { s with bamPool := pool, snd := s.snd.set (Tp22.buffer_hash i sa Const.Addr.GLOBAL) (bamRec cfg now dp pf ps prio sa i msg) },
          outs := [.tx (Tp22.bam prio sa i (bamPgn dp pf ps) msg.length (Tp22.num_segments msg.length)), .wake] } := by
  have hl' : ¬ msg.length ≤ Const.DL22.TP := by
    have : Const.DL22.TP = 60 := rfl
    omega
  unfold sendPgn at hacc ⊢
  simp only [hl', if_false, hb, if_true] at hacc ⊢
  cases hg : poolGet s.bamPool with
  | none => simp [hg] at hacc
  | some r =>
    obtain ⟨i, pool⟩ := r
    exact ⟨i, pool, rfl, by simp [bamRec, bamPgn]⟩
/-- RESPONDER, the broadcast announcement on a free (session, source) slot: a receive record for the announced size, segment
    count and PGN, no data yet; nothing delivered, nothing raised -/
theorem rx_bam (cfg : Cfg) (s : St) (now : Nat) (mid : MessageId) (prio i pgnv size n : Nat)
    (hsrc : mid.source_address ≠ Const.Addr.GLOBAL) (hi : i < 16) (hs : size < 16777216) (hn : n < 16777216) (hp : pgnv < 16777216)
    (hfree : s.rcv.contains (Tp22.buffer_hash i mid.source_address Const.Addr.GLOBAL) = false) :
    let r := processCm cfg s now mid Const.Addr.GLOBAL (Tp22.bam prio mid.source_address i pgnv size n).data
    r.err = none ∧ r.outs = [.wake] ∧ r.st.snd = s.snd ∧
    ∃ rc, r.st.rcv.get? (Tp22.buffer_hash i mid.source_address Const.Addr.GLOBAL) = some rc ∧ rc.messageSize = size ∧
      rc.numSegments = n ∧ rc.nextPacket = 1 ∧ rc.data = [] ∧ rc.pgn = pgnv := by
  intro r
  have hd : (Tp22.bam prio mid.source_address i pgnv size n).data = Ref.fdCm 4 i size n 255 0 pgnv :=
    (J1939.Props.C03.c03_22_builders mid.source_address 0 prio i pgnv size n 0 0 0 0 0 0).2.2.2.2.1
  obtain ⟨d1, d2, d3, d4, _, d6, d7⟩ := J1939.Props.C03.c03_22_decode_cm 4 i size n 255 0 pgnv (by omega) hi hs hn (by omega) hp
  have hsrc' : (mid.source_address == Const.Addr.GLOBAL) = false := by simpa using hsrc
  simp only [r]
  rw [hd]
  generalize Ref.fdCm 4 i size n 255 0 pgnv = data at *
  have hl : ¬ data.length < 12 := by omega
  have c1 : (4 == Const.CM22.RTS) = false := by decide
  have c2 : (4 == Const.CM22.CTS) = false := by decide
  have c3 : (4 == Const.CM22.EOM_STATUS) = false := by decide
  have c4 : (4 == Const.CM22.EOM_ACK) = false := by decide
  have c5 : (4 == Const.CM22.BAM) = true := by decide
  unfold processCm
  simp only [hl, if_false, hsrc', d1, d2, d3, d4, d6, c1, c2, c3, c4, c5, Bool.false_eq_true, if_true, hfree]
  exact ⟨trivial, trivial, trivial, _, PyDict.get?_set_self _ _ _, rfl, rfl, rfl, rfl, rfl⟩
/-- the frames among the outputs -/
def txFrames (o : List Out) : List Frame :=
  o.filterMap (fun x => match x with | .tx f => some f | _ => none)

theorem txFrames_map {α : Type} (l : List α) (g : α → Frame) : txFrames (l.map (fun k => Out.tx (g k))) = l.map g := by
  induction l with
  | nil => rfl
  | cons a l ih => simp only [List.map_cons, txFrames, List.filterMap_cons] at ih ⊢; rw [ih]

theorem txFrames_append (a b : List Out) : txFrames (a ++ b) = txFrames a ++ txFrames b := by
  simp [txFrames, List.filterMap_append]

/-- FD BROADCAST FROM END TO END (J1939-22): an accepted broadcast of more than 60 bytes takes a session number `i` from the
    broadcast pool; served by n + 1 due passes (n = ⌈len/60⌉) it puts exactly the announcement, the n FD.TP.DT frames
    in order and the end-of-message status on the bus, the record is deleted and number `i` returned to the pool.  ANY
    node without a stale record for (i, source) that handles these frames — at arbitrary times, under its own
    configuration — delivers the message EXACTLY ONCE: announced PGN, the originator's address, destination 255, the
    byte-identical payload; and keeps no receive record -/
theorem c02_bam_end_to_end (cfgO cfgR : Cfg) (sO sR : St) (midB mid : MessageId) (t0 dp pf ps prio tl ff : Nat) (msg : List Nat)
    (hl : 60 < msg.length) (hmax : msg.length < 16777216)
    (hsB : midB.source_address = mid.source_address) (hne : mid.source_address ≠ Const.Addr.GLOBAL)
    (hb : (ps == Const.Addr.GLOBAL || PGN.is_pdu2_format (PGN.ofFields 0 pf ps)) = true)
    (hacc : (sendPgn cfgO sO t0 dp pf ps prio mid.source_address msg tl ff).2 = true)
    (hwf : sO.bamPool.length = 4)
    (passes : List Nat) (hpl : passes.length = Tp22.num_segments msg.length + 1) (hdue : Due cfgO (t0 + cfgO.bamInterval) passes)
    (hfree : ∀ i, sR.rcv.contains (Tp22.buffer_hash i mid.source_address Const.Addr.GLOBAL) = false)
    (tB tE : Nat) (rxTimes : List Nat) (hrl : rxTimes.length = Tp22.num_segments msg.length) :
    ∃ i, i < 4 ∧
      let r0 := (sendPgn cfgO sO t0 dp pf ps prio mid.source_address msg tl ff).1
      let b := bamRec cfgO t0 dp pf ps prio mid.source_address i msg
      let run := bamRun cfgO passes b
      let bamF := Tp22.bam prio mid.source_address i (bamPgn dp pf ps) msg.length (Tp22.num_segments msg.length)
      let dtFs := (List.range' 0 (Tp22.num_segments msg.length)).map
        (fun k => Tp22.dt Const.LUT_FD_DLC mid.source_address Const.Addr.GLOBAL i (k + 1) ((msg.drop (60 * k)).take 60) 0)
      let eomF := Tp22.eom_status mid.source_address Const.Addr.GLOBAL i msg.length (Tp22.num_segments msg.length) (bamPgn dp pf ps) 0 0
      r0.st.snd.get? (Tp22.buffer_hash i mid.source_address Const.Addr.GLOBAL) = some b ∧
      txFrames r0.outs ++ txFrames run.1 = bamF :: (dtFs ++ [eomF]) ∧ run.2.1 = none ∧ run.2.2 = .bam i ∧
      let a1 := processCm cfgR sR tB midB Const.Addr.GLOBAL bamF.data
      let a2 := feedDt a1.st mid Const.Addr.GLOBAL (rxTimes.zip (dtFs.map (·.data)))
      let a3 := processCm cfgR a2.1 tE mid Const.Addr.GLOBAL eomF.data
      deliveries (a1.outs ++ a2.2 ++ a3.outs) = [(mid.priority, bamPgn dp pf ps, mid.source_address, Const.Addr.GLOBAL, msg)] ∧
      a3.err = none ∧ a3.st.rcv.get? (Tp22.buffer_hash i mid.source_address Const.Addr.GLOBAL) = none := by
  obtain ⟨i, pool, hg, hr0⟩ := sendPgn_bam cfgO sO t0 dp pf ps prio mid.source_address msg tl ff hl hb hacc
  obtain ⟨g1, _, _⟩ := poolGet_some _ _ _ hg
  have hi : i < 4 := by
    rcases Nat.lt_or_ge i sO.bamPool.length with hh | hh
    · omega
    · rw [List.getElem?_eq_none hh] at g1; cases g1
  refine ⟨i, hi, ?_⟩
  intro r0 b run bamF dtFs eomF
  have hn : 0 < Tp22.num_segments msg.length := by
    have := (num_segments_spec msg.length).1; omega
  have hn24 : Tp22.num_segments msg.length < 16777216 := by
    have := (num_segments_spec msg.length).2
    omega
  have hrun : run = _ := c02_bam_originator_frames cfgO msg (Tp22.num_segments msg.length) passes b 0 hpl hn rfl rfl rfl rfl (by omega) hdue
  refine ⟨by simp only [r0, hr0]; exact PyDict.get?_set_self _ _ _, ?_, by rw [hrun], by rw [hrun]; rfl, ?_⟩
  · simp only [r0, hr0, hrun, txFrames_append]
    rw [txFrames_map]
    simp [txFrames, bamF, dtFs, eomF, b, bamRec]
  · intro a1 a2 a3
    obtain ⟨e1, e2, e3, rc, e4, e5, e6, e7, e8, e9⟩ := rx_bam cfgR sR tB midB prio i (bamPgn dp pf ps) msg.length
      (Tp22.num_segments msg.length) (by rw [hsB]; exact hne) (by omega) hmax hn24 (bamPgn_lt dp pf ps) (by rw [hsB]; exact hfree i)
    rw [hsB] at e4
    -- the end-of-message status decodes to the announced fields
    have heom : eomF.data = Ref.fdCm 2 i msg.length (Tp22.num_segments msg.length) 0 0 (bamPgn dp pf ps) :=
      (J1939.Props.C03.c03_22_builders mid.source_address Const.Addr.GLOBAL 0 i (bamPgn dp pf ps) msg.length
        (Tp22.num_segments msg.length) 0 0 0 0 0 0).2.2.1
    obtain ⟨d1, d2, d3, d4, _, _, d7⟩ := J1939.Props.C03.c03_22_decode_cm 2 i msg.length (Tp22.num_segments msg.length) 0 0
      (bamPgn dp pf ps) (by omega) (by omega) hmax hn24 (by omega) (bamPgn_lt dp pf ps)
    have hframes : ∀ k (h : k < (rxTimes.zip (dtFs.map (·.data))).length),
        SegFrame msg i k ((rxTimes.zip (dtFs.map (·.data)))[k]).2 := by
      intro k hk
      have hk' : k < Tp22.num_segments msg.length := by
        simp only [List.length_zip, List.length_map, dtFs, List.length_range'] at hk; omega
      simp only [List.getElem_zip, dtFs, List.getElem_map, List.getElem_range', Nat.zero_add, Nat.one_mul]
      exact c02_built_frame_is_segframe msg mid.source_address Const.Addr.GLOBAL i k (by omega) hk' (by simp only [Nat.reducePow]; omega)
    have hrx := c02_reception_exact cfgR msg (by omega) mid Const.Addr.GLOBAL i (rxTimes.zip (dtFs.map (·.data)))
      (by simp only [List.length_zip, List.length_map, dtFs, List.length_range']; omega) hframes a1.st rc e4 e5 e7 e8
      (fun h => absurd rfl h) tE eomF.data (by rw [heom, d7]; omega) (by rw [heom]; exact d1) (by rw [heom]; exact d2)
      (by rw [heom]; exact d3) (by rw [heom, e6]; exact d4) hne
    simp only at hrx
    obtain ⟨x1, x2, x3, _⟩ := hrx
    refine ⟨?_, x2, x3⟩
    have ha1 : a1.outs = [.wake] := e2
    rw [List.append_assoc, deliveries_append, x1, e9, ha1]
    simp [deliveries]


/-! ## Connection mode (FD RTS/CTS) from end to end -/

/-- the FD.TP.DT frames of segments a, a+1, …, a+n-1 (0-based) of `msg` in a session -/
def dtFrames (src dest session : Nat) (msg : List Nat) (a n : Nat) : List Out :=
  (List.range' a n).map (fun k => Out.tx (Tp22.dt Const.LUT_FD_DLC src dest session (k + 1) ((msg.drop (60 * k)).take 60) 0))

theorem dtFrames_succ (src dest session : Nat) (msg : List Nat) (a n : Nat) :
    dtFrames src dest session msg a (n + 1) =
      Out.tx (Tp22.dt Const.LUT_FD_DLC src dest session (a + 1) ((msg.drop (60 * a)).take 60) 0) :: dtFrames src dest session msg (a + 1) n := by
  simp [dtFrames, List.range'_succ]

theorem pyIndex_chunk (msg : List Nat) (j : Nat) (hj : j < Tp22.num_segments msg.length) :
    pyIndex (chunks60 msg) (j : Int) = some ((msg.drop (60 * j)).take 60) := by
  unfold pyIndex
  have : (0 : Int) ≤ (j : Int) := by omega
  simp only [this, if_true, Int.toNat_natCast]
  exact c02_chunks_get msg j hj

/-- the whole window in one pass (no minimum interval): segments j … wn go out; after the LAST segment of the message the
    end-of-message status follows and the record waits for the acknowledgement (T5), otherwise it waits for the CTS (T3) -/
theorem sendWindow_all (cfg : Cfg) (now : Nat) (hiv : cfg.cmdtInterval = none) (msg : List Nat) (fuel : Nat) :
    ∀ (b : Snd) (o : List Out) (j wn : Nat), b.data = chunks60 msg → b.numSegments = Tp22.num_segments msg.length →
    b.next = (j : Int) → b.waitOn = some (wn : Int) → j ≤ wn → wn < Tp22.num_segments msg.length → wn - j < fuel →
    sendWindow cfg now fuel b o =
      (if wn + 1 = Tp22.num_segments msg.length then
        ({ b with next := ((wn + 1 : Nat) : Int), deadline := now + Const.T22.T5, state := S_WAITING_EOM_ACK },
         o ++ dtFrames b.src b.dest b.session msg j (wn + 1 - j) ++
           [.tx (Tp22.eom_status b.src b.dest b.session b.messageSize b.numSegments b.pgn 0 0)], none)
       else
        ({ b with next := ((wn + 1 : Nat) : Int), state := S_WAITING_CTS, deadline := now + Const.T22.T3 },
         o ++ dtFrames b.src b.dest b.session msg j (wn + 1 - j), none)) := by
  induction fuel with
  | zero => intro b o j wn _ _ _ _ _ _ h; omega
  | succ fuel ih =>
    intro b o j wn hdata hn hnext hw hle hwn hfuel
    obtain ⟨pgn, prio, sess, ms, np, data, st, dl, src, dst, nx, wo⟩ := b
    simp only at hdata hn hnext hw
    subst hdata hn hnext hw
    have hlt : (j : Int) < ((Tp22.num_segments msg.length : Nat) : Int) := by omega
    have hidx : pyIndex (chunks60 msg) (j : Int) = some ((msg.drop (60 * j)).take 60) := pyIndex_chunk msg j (by omega)
    have htn : ((j : Int) + 1).toNat = j + 1 := by omega
    unfold sendWindow
    simp only [hlt, if_true, hidx, htn]
    have hc : ((j + 1 : Nat) : Int) = (j : Int) + 1 := by omega
    by_cases hlast : j + 1 = Tp22.num_segments msg.length
    · -- the last segment of the message
      have hjw : j = wn := by omega
      subst hjw
      have e : ((j : Int) + 1 == ((Tp22.num_segments msg.length : Nat) : Int)) = true := by simp; omega
      have h1 : j + 1 - j = 1 := by omega
      rw [if_pos hlast]
      simp only [e, if_true]
      rw [h1, hc]
      simp only [dtFrames, List.range'_one, List.map_cons, List.map_nil]
    · have e : ((j : Int) + 1 == ((Tp22.num_segments msg.length : Nat) : Int)) = false := by
        simp only [beq_eq_false_iff_ne, ne_eq]; omega
      simp only [e, Bool.false_eq_true, if_false]
      by_cases hjw : j = wn
      · subst hjw
        have e3 : ((j : Int) == (j : Int)) = true := by simp
        have h1 : j + 1 - j = 1 := by omega
        rw [if_neg hlast]
        simp only [e3, if_true]
        rw [h1, hc]
        simp only [dtFrames, List.range'_one, List.map_cons, List.map_nil]
      · have e3 : ((j : Int) == (wn : Int)) = false := by
          simp only [beq_eq_false_iff_ne, ne_eq]; omega
        simp only [e3, Bool.false_eq_true, if_false, hiv]
        have := ih { pgn := pgn, priority := prio, session := sess, messageSize := ms, numSegments := Tp22.num_segments msg.length, data := chunks60 msg, state := st, deadline := dl, src := src, dest := dst, next := (j : Int) + 1, waitOn := some (wn : Int) }
          (o ++ [.tx (Tp22.dt Const.LUT_FD_DLC src dst sess (j + 1) ((msg.drop (60 * j)).take 60) 0)])
          (j + 1) wn rfl rfl (by simp only; omega) rfl (by omega) hwn (by omega)
        dsimp only at this
        rw [this]
        have hk : wn + 1 - j = (wn + 1 - (j + 1)) + 1 := by omega
        rw [hk, dtFrames_succ]
        split <;> simp [List.append_assoc]
/-- ORIGINATOR (FD), one due pass in SENDING_RTS_CTS with the window j … wn ahead (no minimum interval configured) -/
theorem tickSndOne_sending (cfg : Cfg) (now : Nat) (hiv : cfg.cmdtInterval = none) (msg : List Nat) (b : Snd) (j wn : Nat)
    (hs : b.state = S_SENDING_RTS_CTS) (hdata : b.data = chunks60 msg) (hn : b.numSegments = Tp22.num_segments msg.length)
    (hnext : b.next = (j : Int)) (hw : b.waitOn = some (wn : Int)) (hle : j ≤ wn) (hwn : wn < Tp22.num_segments msg.length)
    (hd0 : b.deadline ≠ 0) (hdt : b.deadline ≤ now) :
    tickSndOne cfg now b =
      (if wn + 1 = Tp22.num_segments msg.length then
        (some { b with next := ((wn + 1 : Nat) : Int), deadline := now + Const.T22.T5, state := S_WAITING_EOM_ACK },
         dtFrames b.src b.dest b.session msg j (wn + 1 - j) ++
           [.tx (Tp22.eom_status b.src b.dest b.session b.messageSize b.numSegments b.pgn 0 0)], none, some (now + Const.T22.T5), .none)
       else
        (some { b with next := ((wn + 1 : Nat) : Int), state := S_WAITING_CTS, deadline := now + Const.T22.T3 },
         dtFrames b.src b.dest b.session msg j (wn + 1 - j), none, some (now + Const.T22.T3), .none)) := by
  have e1 : (b.deadline != 0) = true := by simpa using hd0
  have e2 : ¬ b.deadline > now := by omega
  have n12 : (S_SENDING_RTS_CTS == S_WAITING_CTS) = false := by decide
  have n3 : (S_WAITING_EOM_ACK == S_SENDING_RTS_CTS) = false := by decide
  have n1 : (S_WAITING_CTS == S_SENDING_RTS_CTS) = false := by decide
  have hlt : b.next < (b.numSegments : Int) := by rw [hnext, hn]; omega
  have hfuel : wn - j < (↑b.numSegments - b.next).toNat + 1 := by rw [hnext, hn]; omega
  have hw' := sendWindow_all cfg now hiv msg ((↑b.numSegments - b.next).toNat + 1) b [] j wn hdata hn hnext hw hle hwn hfuel
  unfold tickSndOne
  simp only [e1, if_true, e2, if_false, hs, n12, Bool.false_eq_true, beq_self_eq_true, hlt, hw']
  split <;> simp [n1, n3]
/-- one segment per pass (a minimum interval is configured): segment j goes out; after the LAST segment of the message the
    end-of-message status follows (T5), after the last segment of the window the record waits for the CTS (T3), otherwise
    only `next` and the deadline (now + interval) change -/
theorem sendWindow_one (cfg : Cfg) (now iv : Nat) (hiv : cfg.cmdtInterval = some iv) (msg : List Nat) (fuel : Nat)
    (b : Snd) (o : List Out) (j wn : Nat) (hdata : b.data = chunks60 msg) (hn : b.numSegments = Tp22.num_segments msg.length)
    (hnext : b.next = (j : Int)) (hw : b.waitOn = some (wn : Int)) (hle : j ≤ wn) (hwn : wn < Tp22.num_segments msg.length) :
    sendWindow cfg now (fuel + 1) b o =
      (if j + 1 = Tp22.num_segments msg.length then
        ({ b with next := ((j + 1 : Nat) : Int), deadline := now + Const.T22.T5, state := S_WAITING_EOM_ACK },
         o ++ dtFrames b.src b.dest b.session msg j 1 ++
           [.tx (Tp22.eom_status b.src b.dest b.session b.messageSize b.numSegments b.pgn 0 0)], none)
       else if j = wn then
        ({ b with next := ((j + 1 : Nat) : Int), state := S_WAITING_CTS, deadline := now + Const.T22.T3 },
         o ++ dtFrames b.src b.dest b.session msg j 1, none)
       else
        ({ b with next := ((j + 1 : Nat) : Int), deadline := now + iv }, o ++ dtFrames b.src b.dest b.session msg j 1, none)) := by
  obtain ⟨pgn, prio, sess, ms, np, data, st, dl, src, dst, nx, wo⟩ := b
  simp only at hdata hn hnext hw
  subst hdata hn hnext hw
  have hlt : (j : Int) < ((Tp22.num_segments msg.length : Nat) : Int) := by omega
  have hidx : pyIndex (chunks60 msg) (j : Int) = some ((msg.drop (60 * j)).take 60) := pyIndex_chunk msg j (by omega)
  have htn : ((j : Int) + 1).toNat = j + 1 := by omega
  have hc : ((j + 1 : Nat) : Int) = (j : Int) + 1 := by omega
  unfold sendWindow
  simp only [hlt, if_true, hidx, htn]
  by_cases hlast : j + 1 = Tp22.num_segments msg.length
  · have e : ((j : Int) + 1 == ((Tp22.num_segments msg.length : Nat) : Int)) = true := by simp; omega
    rw [if_pos hlast]
    simp only [e, if_true]
    rw [hc]
    simp only [dtFrames, List.range'_one, List.map_cons, List.map_nil]
  · have e : ((j : Int) + 1 == ((Tp22.num_segments msg.length : Nat) : Int)) = false := by
      simp only [beq_eq_false_iff_ne, ne_eq]; omega
    rw [if_neg hlast]
    simp only [e, Bool.false_eq_true, if_false]
    by_cases hjw : j = wn
    · subst hjw
      have e3 : ((j : Int) == (j : Int)) = true := by simp
      simp only [e3, if_true]
      rw [hc]
      simp only [dtFrames, List.range'_one, List.map_cons, List.map_nil]
    · have e3 : ((j : Int) == (wn : Int)) = false := by
        simp only [beq_eq_false_iff_ne, ne_eq]; omega
      rw [if_neg hjw]
      simp only [e3, Bool.false_eq_true, if_false, hiv]
      rw [hc]
      simp only [dtFrames, List.range'_one, List.map_cons, List.map_nil]

/-- ORIGINATOR (FD), one due pass in SENDING_RTS_CTS with a minimum interval configured and more than one segment of the
    window left: exactly segment j goes out, the record stays in SENDING_RTS_CTS and is due again after the interval -/
theorem tickSndOne_partial (cfg : Cfg) (now iv : Nat) (hiv : cfg.cmdtInterval = some iv) (msg : List Nat) (b : Snd) (j wn : Nat)
    (hs : b.state = S_SENDING_RTS_CTS) (hdata : b.data = chunks60 msg) (hn : b.numSegments = Tp22.num_segments msg.length)
    (hnext : b.next = (j : Int)) (hw : b.waitOn = some (wn : Int)) (hlt' : j < wn) (hwn : wn < Tp22.num_segments msg.length)
    (hd0 : b.deadline ≠ 0) (hdt : b.deadline ≤ now) :
    tickSndOne cfg now b =
      (some { b with next := ((j + 1 : Nat) : Int), deadline := now + iv }, dtFrames b.src b.dest b.session msg j 1, none,
       some (now + iv), .none) := by
  have e1 : (b.deadline != 0) = true := by simpa using hd0
  have e2 : ¬ b.deadline > now := by omega
  have n12 : (S_SENDING_RTS_CTS == S_WAITING_CTS) = false := by decide
  have hlt : b.next < (b.numSegments : Int) := by rw [hnext, hn]; omega
  have hw' := sendWindow_one cfg now iv hiv msg (↑b.numSegments - b.next).toNat b [] j wn hdata hn hnext hw (by omega) hwn
  have x1 : ¬ j + 1 = Tp22.num_segments msg.length := by omega
  have x2 : ¬ j = wn := by omega
  rw [if_neg x1, if_neg x2] at hw'
  have hge : ¬ ((b.numSegments : Int) ≤ (j : Int) + 1) := by rw [hn]; omega
  unfold tickSndOne
  simp only [e1, if_true, e2, if_false, hs, n12, Bool.false_eq_true, beq_self_eq_true, hlt, hw', List.nil_append]
  simp [hge]

/-- … and when only ONE segment of the window is left (j = wn) the pass does exactly what it does without an interval -/
theorem tickSndOne_sending_last (cfg : Cfg) (now iv : Nat) (hiv : cfg.cmdtInterval = some iv) (msg : List Nat) (b : Snd) (j : Nat)
    (hs : b.state = S_SENDING_RTS_CTS) (hdata : b.data = chunks60 msg) (hn : b.numSegments = Tp22.num_segments msg.length)
    (hnext : b.next = (j : Int)) (hw : b.waitOn = some (j : Int)) (hwn : j < Tp22.num_segments msg.length)
    (hd0 : b.deadline ≠ 0) (hdt : b.deadline ≤ now) :
    tickSndOne cfg now b =
      (if j + 1 = Tp22.num_segments msg.length then
        (some { b with next := ((j + 1 : Nat) : Int), deadline := now + Const.T22.T5, state := S_WAITING_EOM_ACK },
         dtFrames b.src b.dest b.session msg j (j + 1 - j) ++
           [.tx (Tp22.eom_status b.src b.dest b.session b.messageSize b.numSegments b.pgn 0 0)], none, some (now + Const.T22.T5), .none)
       else
        (some { b with next := ((j + 1 : Nat) : Int), state := S_WAITING_CTS, deadline := now + Const.T22.T3 },
         dtFrames b.src b.dest b.session msg j (j + 1 - j), none, some (now + Const.T22.T3), .none)) := by
  have e1 : (b.deadline != 0) = true := by simpa using hd0
  have e2 : ¬ b.deadline > now := by omega
  have n12 : (S_SENDING_RTS_CTS == S_WAITING_CTS) = false := by decide
  have n3 : (S_WAITING_EOM_ACK == S_SENDING_RTS_CTS) = false := by decide
  have n1 : (S_WAITING_CTS == S_SENDING_RTS_CTS) = false := by decide
  have hlt : b.next < (b.numSegments : Int) := by rw [hnext, hn]; omega
  have hw' := sendWindow_one cfg now iv hiv msg (↑b.numSegments - b.next).toNat b [] j j hdata hn hnext hw (by omega) hwn
  have h1 : j + 1 - j = 1 := by omega
  rw [h1]
  unfold tickSndOne
  simp only [e1, if_true, e2, if_false, hs, n12, Bool.false_eq_true, beq_self_eq_true, hlt, hw', List.nil_append]
  split <;> simp [n1, n3]

/-! ### responder (FD), one in-order FD.TP.DT frame of a destination-specific session, exactly -/

/-- the receive record holds the first `j` segments of `msg`; the next CTS is due when segment number `border` arrives -/
structure RInv (msg : List Nat) (pgn j border mr : Nat) (r : Rcv) : Prop where
  hdata : r.data = msg.take (60 * j)
  hsize : r.messageSize = msg.length
  hnum  : r.numSegments = Tp22.num_segments msg.length
  hnext : r.nextPacket = j + 1
  hb    : r.ctsBorder = some border
  hmr   : r.maxRec = some mr
  hpgn  : r.pgn = pgn

theorem seg_data (msg : List Nat) (session j : Nat) (f : List Nat) (r : Rcv) (pgn border mr : Nat)
    (hf : SegFrame msg session j f) (hi : RInv msg pgn j border mr r) (hpos : 0 < msg.length) :
    (j + 1 < Tp22.num_segments msg.length →
      r.data ++ f.drop 4 = msg.take (60 * (j + 1)) ∧ (r.data ++ f.drop 4).length < r.messageSize) ∧
    (j + 1 = Tp22.num_segments msg.length →
      (r.data ++ f.drop 4).length ≥ r.messageSize ∧ (r.data ++ f.drop 4).take r.messageSize = msg) := by
  obtain ⟨pad, hpay, hpad⟩ := hf.pay
  have hspec := num_segments_spec msg.length
  have e : r.data ++ f.drop 4 = msg.take (60 * (j + 1)) ++ pad := by
    rw [hi.hdata, hpay, ← List.append_assoc, take_add_chunk]
  refine ⟨?_, ?_⟩
  · intro hj
    have hlt : 60 * (j + 1) < msg.length := by
      have := hspec.2 hpos; omega
    have hp : pad = [] := by
      rcases hpad with h | h
      · omega
      · exact h
    rw [e, hp, List.append_nil, hi.hsize]
    refine ⟨rfl, ?_⟩
    simp only [List.length_take]; omega
  · intro hj
    have hge : msg.length ≤ 60 * (j + 1) := by rw [hj]; exact hspec.1
    have ht : msg.take (60 * (j + 1)) = msg := List.take_of_length_le hge
    rw [e, ht, hi.hsize]
    refine ⟨by simp, ?_⟩
    simp
/-- the common prefix of `_process_tp_dt` for an in-order segment frame of an open session -/
theorem dt_prefix (s : St) (now : Nat) (mid : MessageId) (dest : Nat) (f : List Nat) (r : Rcv) (msg : List Nat) (session j pgn border mr : Nat)
    (hf : SegFrame msg session j f) (hr : s.rcv.get? (Tp22.buffer_hash session mid.source_address dest) = some r)
    (hi : RInv msg pgn j border mr r) :
    processDt s now mid dest f =
      (let h := Tp22.buffer_hash session mid.source_address dest
       let r1 : Rcv := { r with data := r.data ++ f.drop 4, nextPacket := j + 1 + 1 }
       if r1.data.length ≥ r1.messageSize then
         let r2 := { r1 with data := r1.data.take r1.messageSize }
         let r3 := if dest != Const.Addr.GLOBAL then { r2 with deadline := now + Const.T22.T1 } else r2
         { st := { s with rcv := s.rcv.set h r3 }, outs := [.wake] }
       else if dest != Const.Addr.GLOBAL then
         if j + 1 ≥ border then
           { st := { s with rcv := s.rcv.set h { r1 with ctsBorder := some (min (border + mr) r1.numSegments), deadline := now + Const.T22.T2 } },
             outs := [.tx (Tp22.cts dest mid.source_address session (min mr (r1.numSegments - border)) (border + 1) r1.pgn), .wake] }
         else { st := { s with rcv := s.rcv.set h { r1 with deadline := now + Const.T22.T1 } } }
       else { st := { s with rcv := s.rcv.set h { r1 with deadline := now + Const.T22.T1 } } }) := by
  have hl : ¬ f.length ≤ 4 := by have := hf.len; omega
  have hseg' : (j + 1 == 0) = false := by simp
  have hnx : (r.nextPacket != j + 1) = false := by simp [hi.hnext]
  unfold processDt
  simp only [hl, if_false, hf.sess, hf.seg, hseg', Bool.false_eq_true, hr, hnx, hi.hb, hi.hmr]

/-- inside a window, message incomplete: the segment is stored, T1 re-armed, nothing is sent -/
theorem dt22_mid (s : St) (now : Nat) (mid : MessageId) (dest : Nat) (f : List Nat) (r : Rcv) (msg : List Nat) (session j pgn border mr : Nat)
    (hpos : 0 < msg.length) (hd : dest ≠ Const.Addr.GLOBAL)
    (hf : SegFrame msg session j f) (hr : s.rcv.get? (Tp22.buffer_hash session mid.source_address dest) = some r)
    (hi : RInv msg pgn j border mr r) (hjb : j + 1 < border) (hjn : j + 1 < Tp22.num_segments msg.length) :
    (processDt s now mid dest f).outs = [] ∧ (processDt s now mid dest f).err = none ∧
    ∃ r', (processDt s now mid dest f).st.rcv.get? (Tp22.buffer_hash session mid.source_address dest) = some r' ∧
      RInv msg pgn (j + 1) border mr r' := by
  obtain ⟨e1, e2⟩ := (seg_data msg session j f r pgn border mr hf hi hpos).1 hjn
  have hd' : (dest != Const.Addr.GLOBAL) = true := by simpa using hd
  have hnb : ¬ j + 1 ≥ border := by omega
  rw [dt_prefix s now mid dest f r msg session j pgn border mr hf hr hi]
  have hnc : ¬ (r.data ++ f.drop 4).length ≥ r.messageSize := by omega
  simp only [hnc, if_false, hd', if_true, hnb]
  refine ⟨trivial, trivial, _, PyDict.get?_set_self _ _ _, ?_⟩
  exact ⟨e1, hi.hsize, hi.hnum, rfl, hi.hb, hi.hmr, hi.hpgn⟩

/-- the segment that reaches the CTS border, message incomplete: exactly one CTS for the segments after the border -/
theorem dt22_window_end (s : St) (now : Nat) (mid : MessageId) (dest : Nat) (f : List Nat) (r : Rcv) (msg : List Nat) (session j pgn border mr : Nat)
    (hpos : 0 < msg.length) (hd : dest ≠ Const.Addr.GLOBAL)
    (hf : SegFrame msg session j f) (hr : s.rcv.get? (Tp22.buffer_hash session mid.source_address dest) = some r)
    (hi : RInv msg pgn j border mr r) (hjb : border ≤ j + 1) (hjn : j + 1 < Tp22.num_segments msg.length) :
    (processDt s now mid dest f).outs =
      [.tx (Tp22.cts dest mid.source_address session (min mr (Tp22.num_segments msg.length - border)) (border + 1) pgn), .wake] ∧
    (processDt s now mid dest f).err = none ∧
    ∃ r', (processDt s now mid dest f).st.rcv.get? (Tp22.buffer_hash session mid.source_address dest) = some r' ∧
      RInv msg pgn (j + 1) (min (border + mr) (Tp22.num_segments msg.length)) mr r' := by
  obtain ⟨e1, e2⟩ := (seg_data msg session j f r pgn border mr hf hi hpos).1 hjn
  have hd' : (dest != Const.Addr.GLOBAL) = true := by simpa using hd
  have hb : j + 1 ≥ border := hjb
  rw [dt_prefix s now mid dest f r msg session j pgn border mr hf hr hi]
  have hnc : ¬ (r.data ++ f.drop 4).length ≥ r.messageSize := by omega
  simp only [hnc, if_false, hd', if_true, hb]
  refine ⟨by rw [hi.hnum, hi.hpgn], trivial, _, PyDict.get?_set_self _ _ _, ?_⟩
  exact ⟨e1, hi.hsize, hi.hnum, rfl, by rw [hi.hnum], hi.hmr, hi.hpgn⟩

/-- the last segment of the message: the record holds exactly `msg` (padding cut off); nothing is sent — the responder
    now waits for the end-of-message status -/
theorem dt22_last (s : St) (now : Nat) (mid : MessageId) (dest : Nat) (f : List Nat) (r : Rcv) (msg : List Nat) (session j pgn border mr : Nat)
    (hpos : 0 < msg.length) (hd : dest ≠ Const.Addr.GLOBAL)
    (hf : SegFrame msg session j f) (hr : s.rcv.get? (Tp22.buffer_hash session mid.source_address dest) = some r)
    (hi : RInv msg pgn j border mr r) (hjn : j + 1 = Tp22.num_segments msg.length) :
    (processDt s now mid dest f).outs = [.wake] ∧ (processDt s now mid dest f).err = none ∧
    ∃ r', (processDt s now mid dest f).st.rcv.get? (Tp22.buffer_hash session mid.source_address dest) = some r' ∧
      r'.data = msg ∧ r'.messageSize = msg.length ∧ r'.numSegments = Tp22.num_segments msg.length ∧ r'.pgn = pgn := by
  obtain ⟨e1, e2⟩ := (seg_data msg session j f r pgn border mr hf hi hpos).2 hjn
  have hd' : (dest != Const.Addr.GLOBAL) = true := by simpa using hd
  rw [dt_prefix s now mid dest f r msg session j pgn border mr hf hr hi]
  simp only [e1, if_true, hd']
  exact ⟨trivial, trivial, _, PyDict.get?_set_self _ _ _, e2, hi.hsize, hi.hnum, hi.hpgn⟩
/-! ### responder (FD), the frames of one pass -/

/-- the data bytes of the FD.TP.DT frames of segments a … a+n-1 -/
def dtDatas (src dest session : Nat) (msg : List Nat) (a n : Nat) : List (List Nat) :=
  (List.range' a n).map (fun k => (Tp22.dt Const.LUT_FD_DLC src dest session (k + 1) ((msg.drop (60 * k)).take 60) 0).data)

theorem dtDatas_succ (src dest session : Nat) (msg : List Nat) (a n : Nat) :
    dtDatas src dest session msg a (n + 1) =
      (Tp22.dt Const.LUT_FD_DLC src dest session (a + 1) ((msg.drop (60 * a)).take 60) 0).data :: dtDatas src dest session msg (a + 1) n := by
  simp [dtDatas, List.range'_succ]

/-- segments that stay inside the window and do not complete the message: nothing sent, nothing delivered -/
theorem feed_mid (msg : List Nat) (pgn border mr : Nat) (mid : MessageId) (dest session src t : Nat) (hpos : 0 < msg.length)
    (hd : dest ≠ Const.Addr.GLOBAL) (hs : session < 16) (h24 : Tp22.num_segments msg.length < 16777216) (k : Nat) :
    ∀ (j : Nat) (s : St) (r : Rcv), j + k < border → j + k < Tp22.num_segments msg.length →
    s.rcv.get? (Tp22.buffer_hash session mid.source_address dest) = some r → RInv msg pgn j border mr r →
    let q := feedDt s mid dest ((List.replicate k t).zip (dtDatas src dest session msg j k))
    txFrames q.2 = [] ∧ deliveries q.2 = [] ∧
    ∃ r', q.1.rcv.get? (Tp22.buffer_hash session mid.source_address dest) = some r' ∧ RInv msg pgn (j + k) border mr r' := by
  induction k with
  | zero =>
    intro j s r _ _ hr hi
    simp only [dtDatas, List.range'_zero, List.map_nil, List.zip_nil_right, feedDt]
    exact ⟨rfl, rfl, r, hr, hi⟩
  | succ k ih =>
    intro j s r hjb hjn hr hi
    simp only [List.replicate_succ, dtDatas_succ, List.zip_cons_cons, feedDt]
    have hf := c02_built_frame_is_segframe msg src dest session j hs (by omega) (by simp only [Nat.reducePow]; omega)
    obtain ⟨o1, o2, r', hr', hi'⟩ := dt22_mid s t mid dest _ r msg session j pgn border mr hpos hd hf hr hi (by omega) (by omega)
    have := ih (j + 1) _ r' (by omega) (by omega) hr' hi'
    simp only at this
    obtain ⟨a1, a2, r'', a3, a4⟩ := this
    rw [txFrames_append, deliveries_append, o1, a1, a2]
    refine ⟨rfl, rfl, r'', a3, ?_⟩
    have : j + (k + 1) = j + 1 + k := by omega
    rw [this]; exact a4
theorem feedDt_append (s : St) (mid : MessageId) (dest : Nat) (a b : List (Nat × List Nat)) :
    feedDt s mid dest (a ++ b) =
      ((feedDt (feedDt s mid dest a).1 mid dest b).1, (feedDt s mid dest a).2 ++ (feedDt (feedDt s mid dest a).1 mid dest b).2) := by
  induction a generalizing s with
  | nil => simp [feedDt]
  | cons x a ih =>
    obtain ⟨t, f⟩ := x
    simp only [List.cons_append, feedDt, ih, List.append_assoc]

theorem rep_zip_snoc {α : Type} (t : Nat) (xs : List α) (y : α) :
    (List.replicate (xs.length + 1) t).zip (xs ++ [y]) = (List.replicate xs.length t).zip xs ++ [(t, y)] := by
  induction xs with
  | nil => rfl
  | cons x xs ih =>
    simp only [List.length_cons, List.replicate_succ, List.cons_append, List.zip_cons_cons]
    rw [← List.replicate_succ, ih]

theorem dtDatas_length (src dest session : Nat) (msg : List Nat) (a n : Nat) : (dtDatas src dest session msg a n).length = n := by
  simp [dtDatas]

theorem dtDatas_snoc (src dest session : Nat) (msg : List Nat) (a n : Nat) :
    dtDatas src dest session msg a (n + 1) =
      dtDatas src dest session msg a n ++ [(Tp22.dt Const.LUT_FD_DLC src dest session (a + n + 1) ((msg.drop (60 * (a + n))).take 60) 0).data] := by
  simp only [dtDatas, List.range'_concat, List.map_append, List.map_cons, List.map_nil, Nat.one_mul]

/-- the frames of a pass that ends a window but not the message: exactly one CTS, nothing delivered -/
theorem feed_window (msg : List Nat) (pgn mr : Nat) (mid : MessageId) (dest session src t : Nat) (hpos : 0 < msg.length)
    (hd : dest ≠ Const.Addr.GLOBAL) (hs : session < 16) (h24 : Tp22.num_segments msg.length < 16777216)
    (j wn : Nat) (s : St) (r : Rcv) (hj : j ≤ wn) (hwn : wn + 1 < Tp22.num_segments msg.length)
    (hr : s.rcv.get? (Tp22.buffer_hash session mid.source_address dest) = some r) (hi : RInv msg pgn j (wn + 1) mr r) :
    let q := feedDt s mid dest ((List.replicate (wn + 1 - j) t).zip (dtDatas src dest session msg j (wn + 1 - j)))
    txFrames q.2 = [Tp22.cts dest mid.source_address session (min mr (Tp22.num_segments msg.length - (wn + 1))) (wn + 2) pgn] ∧
    deliveries q.2 = [] ∧
    ∃ r', q.1.rcv.get? (Tp22.buffer_hash session mid.source_address dest) = some r' ∧
      RInv msg pgn (wn + 1) (min (wn + 1 + mr) (Tp22.num_segments msg.length)) mr r' := by
  intro q
  have hk : wn + 1 - j = (wn - j) + 1 := by omega
  have hq : q = feedDt s mid dest ((List.replicate (wn - j) t).zip (dtDatas src dest session msg j (wn - j)) ++
      [(t, (Tp22.dt Const.LUT_FD_DLC src dest session (j + (wn - j) + 1) ((msg.drop (60 * (j + (wn - j)))).take 60) 0).data)]) := by
    show feedDt s mid dest ((List.replicate (wn + 1 - j) t).zip (dtDatas src dest session msg j (wn + 1 - j))) = _
    rw [hk, dtDatas_snoc]
    have := rep_zip_snoc t (dtDatas src dest session msg j (wn - j))
      ((Tp22.dt Const.LUT_FD_DLC src dest session (j + (wn - j) + 1) ((msg.drop (60 * (j + (wn - j)))).take 60) 0).data)
    rw [dtDatas_length] at this
    rw [this]
  obtain ⟨a1, a2, r1, a3, a4⟩ := feed_mid msg pgn (wn + 1) mr mid dest session src t hpos hd hs h24 (wn - j) j s r (by omega) (by omega) hr hi
  have hjw : j + (wn - j) = wn := by omega
  rw [hjw] at a4
  have hf := c02_built_frame_is_segframe msg src dest session wn hs (by omega) (by simp only [Nat.reducePow]; omega)
  obtain ⟨o1, o2, r', hr', hi'⟩ := dt22_window_end (feedDt s mid dest ((List.replicate (wn - j) t).zip (dtDatas src dest session msg j (wn - j)))).1
    t mid dest _ r1 msg session wn pgn (wn + 1) mr hpos hd hf a3 a4 (by omega) hwn
  rw [hq, feedDt_append, hjw]
  simp only [feedDt, List.append_nil]
  rw [txFrames_append, deliveries_append, a1, a2, o1]
  refine ⟨by simp [txFrames], by simp [deliveries], r', hr', hi'⟩
/-- RESPONDER (FD), the end-of-message status of the stack for a record that holds the whole message: ONE delivery,
    the acknowledgement, the record is removed -/
theorem eoms_accepted (cfg : Cfg) (s : St) (now : Nat) (mid : MessageId) (dest session pgn : Nat) (msg : List Nat) (r : Rcv)
    (hsrc : mid.source_address ≠ Const.Addr.GLOBAL) (hd : dest ≠ Const.Addr.GLOBAL) (hs : session < 16)
    (hlen : msg.length < 16777216) (h24 : Tp22.num_segments msg.length < 16777216) (hp : pgn < 16777216)
    (hr : s.rcv.get? (Tp22.buffer_hash session mid.source_address dest) = some r)
    (h1 : r.data = msg) (h2 : r.messageSize = msg.length) (h3 : r.numSegments = Tp22.num_segments msg.length) (h4 : r.pgn = pgn) :
    let f := Tp22.eom_status mid.source_address dest session msg.length (Tp22.num_segments msg.length) pgn 0 0
    (processCm cfg s now mid dest f.data).outs =
      [.notify mid.priority pgn mid.source_address dest msg,
       .tx (Tp22.eom_ack dest mid.source_address session msg.length (Tp22.num_segments msg.length) pgn)] ∧
    (processCm cfg s now mid dest f.data).err = none ∧
    (processCm cfg s now mid dest f.data).st.rcv.get? (Tp22.buffer_hash session mid.source_address dest) = none := by
  intro f
  have hfd : f.data = Ref.fdCm 2 session msg.length (Tp22.num_segments msg.length) 0 0 pgn :=
    (J1939.Props.C03.c03_22_builders mid.source_address dest 0 session pgn msg.length (Tp22.num_segments msg.length) 0 0 0 0 0 0).2.2.1
  obtain ⟨d1, d2, d3, d4, _, d6, d7⟩ := J1939.Props.C03.c03_22_decode_cm 2 session msg.length (Tp22.num_segments msg.length) 0 0 pgn
    (by omega) hs hlen h24 (by omega) hp
  rw [hfd]
  generalize Ref.fdCm 2 session msg.length (Tp22.num_segments msg.length) 0 0 pgn = data at *
  have hl : ¬ data.length < 12 := by omega
  have hsrc' : (mid.source_address == Const.Addr.GLOBAL) = false := by simpa using hsrc
  have hd' : (dest != Const.Addr.GLOBAL) = true := by simpa using hd
  have c1 : (2 == Const.CM22.RTS) = false := by decide
  have c2 : (2 == Const.CM22.CTS) = false := by decide
  have c3 : (2 == Const.CM22.EOM_STATUS) = true := by decide
  unfold processCm
  simp only [hl, if_false, hsrc', d1, d2, d3, d4, d6, c1, c2, c3, Bool.false_eq_true, if_true, hr, h1, h2, h3, h4, beq_self_eq_true,
    Bool.and_self, hd']
  exact ⟨rfl, trivial, PyDict.get?_erase_self _ _⟩
/-! ### originator (FD), the responder's answers -/

/-- a CTS of the responder for segment j+1 granting g segments: the record is due at once and will send j … j+g−1 -/
theorem cts_accepted (cfg : Cfg) (s : St) (now : Nat) (mid : MessageId) (dest session pgn : Nat) (b : Snd) (j g : Nat)
    (hsrc : mid.source_address ≠ Const.Addr.GLOBAL) (hs : session < 16) (hp : pgn < 16777216)
    (hb : s.snd.get? (Tp22.buffer_hash session dest mid.source_address) = some b)
    (hg : 0 < g) (hg256 : g < 256) (hgc : g ≤ cfg.maxCmdt) (hfit : j + g ≤ b.numSegments) (h24 : b.numSegments < 16777216) :
    processCm cfg s now mid dest (Tp22.cts mid.source_address dest session g (j + 1) pgn).data =
      { st := { s with snd := s.snd.set (Tp22.buffer_hash session dest mid.source_address)
                                ({ b with next := (j : Int), waitOn := some (((j + g - 1 : Nat) : Int)), state := S_SENDING_RTS_CTS,
                                          deadline := now }) },
        outs := [.wake] } := by
  have hfd : (Tp22.cts mid.source_address dest session g (j + 1) pgn).data = Ref.fdCm 1 session 16777215 (j + 1) g 0 pgn :=
    (J1939.Props.C03.c03_22_builders mid.source_address dest 0 session pgn 0 0 0 0 g (j + 1) 0 0).2.1
  obtain ⟨d1, d2, _, d4, d5, d6, d7⟩ := J1939.Props.C03.c03_22_decode_cm 1 session 16777215 (j + 1) g 0 pgn
    (by omega) hs (by omega) (by omega) hg256 hp
  rw [hfd]
  generalize Ref.fdCm 1 session 16777215 (j + 1) g 0 pgn = data at *
  have hl : ¬ data.length < 12 := by omega
  have hsrc' : (mid.source_address == Const.Addr.GLOBAL) = false := by simpa using hsrc
  have c1 : (1 == Const.CM22.RTS) = false := by decide
  have c2 : (1 == Const.CM22.CTS) = true := by decide
  have hg0 : (g == 0) = false := by simp; omega
  unfold processCm
  simp only [hl, if_false, hsrc', d1, d2, d4, d5, d6, c1, c2, Bool.false_eq_true, if_true, hb, hg0]
  have x1 : ¬ ((g : Int) > (b.numSegments : Int)) := by omega
  have x2 : ¬ ((g : Int) > (cfg.maxCmdt : Int)) := by omega
  have x3 : ¬ ((g : Int) > (b.numSegments : Int) - (((j + 1 : Nat) : Int) - 1)) := by omega
  simp only [x1, if_false, x2, x3]
  have y1 : (((j + 1 : Nat) : Int) - 1) = (j : Int) := by omega
  have y2 : ((j : Int) + (g : Int) - 1) = ((j + g - 1 : Nat) : Int) := by omega
  rw [y1, y2]

/-- the end-of-message acknowledgement of the responder: reported once, the record is finished and due at once -/
theorem eoma_accepted (cfg : Cfg) (s : St) (now : Nat) (mid : MessageId) (dest session pgn size n : Nat) (b : Snd)
    (hsrc : mid.source_address ≠ Const.Addr.GLOBAL) (hs : session < 16) (hp : pgn < 16777216) (hz : size < 16777216) (hn : n < 16777216)
    (hb : s.snd.get? (Tp22.buffer_hash session dest mid.source_address) = some b) :
    processCm cfg s now mid dest (Tp22.eom_ack mid.source_address dest session size n pgn).data =
      { st := { s with snd := s.snd.set (Tp22.buffer_hash session dest mid.source_address)
                                ({ b with state := S_EOM_ACK_RECEIVED, deadline := now }) },
        outs := [.notify mid.priority pgn mid.source_address dest (Tp22.eom_ack mid.source_address dest session size n pgn).data, .wake] } := by
  have hfd : (Tp22.eom_ack mid.source_address dest session size n pgn).data = Ref.fdCm 3 session size n 255 255 pgn :=
    (J1939.Props.C03.c03_22_builders mid.source_address dest 0 session pgn size n 0 0 0 0 0 0).2.2.2.1
  obtain ⟨d1, d2, _, _, _, d6, d7⟩ := J1939.Props.C03.c03_22_decode_cm 3 session size n 255 255 pgn (by omega) hs hz hn (by omega) hp
  rw [hfd]
  generalize Ref.fdCm 3 session size n 255 255 pgn = data at *
  have hl : ¬ data.length < 12 := by omega
  have hsrc' : (mid.source_address == Const.Addr.GLOBAL) = false := by simpa using hsrc
  have c1 : (3 == Const.CM22.RTS) = false := by decide
  have c2 : (3 == Const.CM22.CTS) = false := by decide
  have c3 : (3 == Const.CM22.EOM_STATUS) = false := by decide
  have c4 : (3 == Const.CM22.EOM_ACK) = true := by decide
  unfold processCm
  simp only [hl, if_false, hsrc', d1, d2, d6, c1, c2, c3, c4, Bool.false_eq_true, if_true, hb]

/-- RESPONDER, the RTS of the originator on a free (session, pair): a receive record and one CTS for segment 1 granting
    min(own maximum, announced limit, segments) -/
theorem rts_accepted (cfg : Cfg) (s : St) (now : Nat) (mid : MessageId) (dest prio session pgn size n mx : Nat)
    (hsrc : mid.source_address ≠ Const.Addr.GLOBAL) (hs : session < 16) (hp : pgn < 16777216) (hz : size < 16777216)
    (hn : n < 16777216) (hm : mx < 256)
    (hfree : s.rcv.contains (Tp22.buffer_hash session mid.source_address dest) = false) :
    processCm cfg s now mid dest (Tp22.rts prio mid.source_address dest session pgn size n mx 0).data =
      { st := { s with rcv := s.rcv.set (Tp22.buffer_hash session mid.source_address dest)
                                ({ pgn := pgn, session := session, messageSize := size, numSegments := n, nextPacket := 1,
                                   ctsBorder := some (min cfg.maxCmdt (min mx n)), maxRec := some (min cfg.maxCmdt (min mx n)),
                                   data := [], deadline := now + Const.T22.T2, src := mid.source_address, dest := dest }) },
        outs := [.tx (Tp22.cts dest mid.source_address session (min cfg.maxCmdt (min mx n)) 1 pgn), .wake] } := by
  have hfd : (Tp22.rts prio mid.source_address dest session pgn size n mx 0).data = Ref.fdCm 0 session size n mx 0 pgn :=
    (J1939.Props.C03.c03_22_builders mid.source_address dest prio session pgn size n mx 0 0 0 0 0).1
  obtain ⟨d1, d2, d3, d4, d5, d6, d7⟩ := J1939.Props.C03.c03_22_decode_cm 0 session size n mx 0 pgn (by omega) hs hz hn hm hp
  rw [hfd]
  generalize Ref.fdCm 0 session size n mx 0 pgn = data at *
  have hl : ¬ data.length < 12 := by omega
  have hsrc' : (mid.source_address == Const.Addr.GLOBAL) = false := by simpa using hsrc
  have c1 : (0 == Const.CM22.RTS) = true := by decide
  unfold processCm
  simp only [hl, if_false, hsrc', d1, d2, d3, d4, d5, d6, c1, if_true, hfree, Bool.false_eq_true]
/-! ### dispatch of the stack's own FD.TP frames through `notify` -/

theorem mask_fdcm : ∀ da, da < 256 → (19712 + da) &&& 130816 = 19712 := by decide +kernel
theorem mask_fddt : ∀ da, da < 256 → (19968 + da) &&& 130816 = 19968 := by decide +kernel

theorem npv_fdcm (da : Nat) (h : da < 256) :
    Tp21.notify_pgn_value { data_page := 0, pdu_format := 77, pdu_specific := da } = 19712 := by
  have hv : PGN.value { data_page := 0, pdu_format := 77, pdu_specific := da } = 19712 + da := by
    rw [Lemmas.pgn_value_arith _ (by simp only [Lemmas.PGN.WF]; omega)]; simp only
  rw [Tp21.notify_pgn_value, hv]; exact mask_fdcm da h

theorem npv_fddt (da : Nat) (h : da < 256) :
    Tp21.notify_pgn_value { data_page := 0, pdu_format := 78, pdu_specific := da } = 19968 := by
  have hv : PGN.value { data_page := 0, pdu_format := 78, pdu_specific := da } = 19968 + da := by
    rw [Lemmas.pgn_value_arith _ (by simp only [Lemmas.PGN.WF]; omega)]; simp only
  rw [Tp21.notify_pgn_value, hv]; exact mask_fddt da h

theorem notify_fd_cm (cfg : Cfg) (s : St) (now : Nat) (acc : Nat → Bool) (canId da : Nat) (data : List Nat)
    (h : PGN.from_message_id (MessageId.ofCanId canId) = { data_page := 0, pdu_format := 77, pdu_specific := da })
    (hda : da < 256) (hacc : da = 255 ∨ acc da = true) :
    notify cfg s now acc canId data = processCm cfg s now (MessageId.ofCanId canId) da data := by
  have hacc' : (da != Const.Addr.GLOBAL && !acc da) = false := by
    rcases hacc with hg | ha
    · simp [hg]
    · simp [ha]
  unfold notify
  simp only [h, hacc', npv_fdcm da hda]
  rfl

theorem notify_fd_dt (cfg : Cfg) (s : St) (now : Nat) (acc : Nat → Bool) (canId da : Nat) (data : List Nat)
    (h : PGN.from_message_id (MessageId.ofCanId canId) = { data_page := 0, pdu_format := 78, pdu_specific := da })
    (hda : da < 256) (hacc : da = 255 ∨ acc da = true) :
    notify cfg s now acc canId data = processDt s now (MessageId.ofCanId canId) da data := by
  have hacc' : (da != Const.Addr.GLOBAL && !acc da) = false := by
    rcases hacc with hg | ha
    · simp [hg]
    · simp [ha]
  unfold notify
  simp only [h, hacc', npv_fddt da hda]
  rfl

/-- DISPATCH (FD): the identifier the FD builders compose (priority, PF 0x4D / 0x4E, destination, source) parses back to
    those fields and `notify` hands the frame to `_process_tp_cm` / `_process_tp_dt` -/
theorem fd_dispatch (cfg : Cfg) (s : St) (now : Nat) (acc : Nat → Bool) (prio da sa : Nat) (data : List Nat)
    (hp : prio < 8) (hda : da < 256) (hsa : sa < 256) (hacc : da = 255 ∨ acc da = true) :
    let idCm := MessageId.can_id (MessageId.ofFields prio (PGN.value (PGN.ofFields 0 77 da)) sa)
    let idDt := MessageId.can_id (MessageId.ofFields prio (PGN.value (PGN.ofFields 0 78 da)) sa)
    (MessageId.ofCanId idCm).source_address = sa ∧ (MessageId.ofCanId idCm).priority = prio ∧
    (MessageId.ofCanId idDt).source_address = sa ∧ (MessageId.ofCanId idDt).priority = prio ∧
    notify cfg s now acc idCm data = processCm cfg s now (MessageId.ofCanId idCm) da data ∧
    notify cfg s now acc idDt data = processDt s now (MessageId.ofCanId idDt) da data := by
  intro idCm idDt
  obtain ⟨a1, a2, a3⟩ := Dll21.tp_id_parse prio 77 da sa hp (by omega) hda hsa
  obtain ⟨b1, b2, b3⟩ := Dll21.tp_id_parse prio 78 da sa hp (by omega) hda hsa
  exact ⟨a1, a2, b1, b2, notify_fd_cm cfg s now acc idCm da data a3 hda hacc, notify_fd_dt cfg s now acc idDt da data b3 hda hacc⟩

theorem fd_builder_ids (sa da prio ctl sess size seg b7 b8 pgn dtfi : Nat) (lut d : List Nat) :
    (Tp22.cm sa da ctl sess size seg b7 b8 pgn prio).id = MessageId.can_id (MessageId.ofFields prio (PGN.value (PGN.ofFields 0 77 da)) sa) ∧
    (Tp22.dt lut sa da sess seg d dtfi).id = MessageId.can_id (MessageId.ofFields 7 (PGN.value (PGN.ofFields 0 78 da)) sa) := by
  refine ⟨rfl, ?_⟩
  unfold Tp22.dt; rfl
/-! ### the two parties together (FD connection mode) -/

/-- a node receives the given frames through `notify`, all at time `t` -/
def rxAll (cfg : Cfg) (acc : Nat → Bool) (t : Nat) : St → List Frame → St × List Out
  | s, [] => (s, [])
  | s, f :: fs =>
    let r := notify cfg s t acc f.id f.data
    let q := rxAll cfg acc t r.st fs
    (q.1, r.outs ++ q.2)

theorem rxAll_append (cfg : Cfg) (acc : Nat → Bool) (t : Nat) (s : St) (a b : List Frame) :
    rxAll cfg acc t s (a ++ b) = ((rxAll cfg acc t (rxAll cfg acc t s a).1 b).1, (rxAll cfg acc t s a).2 ++ (rxAll cfg acc t (rxAll cfg acc t s a).1 b).2) := by
  induction a generalizing s with
  | nil => simp [rxAll]
  | cons f a ih => simp only [List.cons_append, rxAll, ih, List.append_assoc]

/-- the identifier FD.TP.DT frames from `sa` to `da` arrive with, parsed -/
def midDt (sa da : Nat) : MessageId :=
  MessageId.ofCanId (MessageId.can_id (MessageId.ofFields 7 (PGN.value (PGN.ofFields 0 78 da)) sa))
/-- … and FD.TP.CM frames of priority 7 -/
def midCm (sa da : Nat) : MessageId :=
  MessageId.ofCanId (MessageId.can_id (MessageId.ofFields 7 (PGN.value (PGN.ofFields 0 77 da)) sa))

theorem mid_facts (sa da : Nat) (hsa : sa < 256) (hda : da < 256) :
    (midDt sa da).source_address = sa ∧ (midDt sa da).priority = 7 ∧ (midCm sa da).source_address = sa ∧ (midCm sa da).priority = 7 := by
  obtain ⟨a1, a2, _⟩ := Dll21.tp_id_parse 7 77 da sa (by omega) (by omega) hda hsa
  obtain ⟨b1, b2, _⟩ := Dll21.tp_id_parse 7 78 da sa (by omega) (by omega) hda hsa
  exact ⟨b1, b2, a1, a2⟩

/-- receiving the FD.TP.DT frames of the stack through `notify` is `_process_tp_dt` frame by frame -/
theorem rxAll_dt (cfg : Cfg) (acc : Nat → Bool) (t sa da session : Nat) (msg : List Nat) (hsa : sa < 256) (hda : da < 256)
    (hacc : da = 255 ∨ acc da = true) (a n : Nat) (s : St) :
    rxAll cfg acc t s ((List.range' a n).map (fun k => Tp22.dt Const.LUT_FD_DLC sa da session (k + 1) ((msg.drop (60 * k)).take 60) 0)) =
      feedDt s (midDt sa da) da ((List.replicate n t).zip (dtDatas sa da session msg a n)) := by
  obtain ⟨_, _, h3⟩ := Dll21.tp_id_parse 7 78 da sa (by omega) (by omega) hda hsa
  induction n generalizing a s with
  | zero => simp [rxAll, dtDatas, feedDt]
  | succ n ih =>
    simp only [List.range'_succ, List.map_cons, rxAll, List.replicate_succ, dtDatas_succ, List.zip_cons_cons, feedDt]
    have hid := (fd_builder_ids sa da 0 0 session 0 (a + 1) 0 0 0 0 Const.LUT_FD_DLC ((msg.drop (60 * a)).take 60)).2
    rw [hid, notify_fd_dt cfg s t acc _ da _ h3 hda hacc, ih]
    rfl
/-- one ROUND of the session number `i` from `sa` to `da`: the originator's pass serves the send record at `x.1`; the
    responder receives that pass's frames through `notify` at `x.2.1`; the originator receives the responder's answers
    through `notify` at `x.2.2`.  None: the originator has no such record.  Result: both states, the responder's
    outputs, the originator's outputs while handling the answers, and the session number the pass released -/
def round (cfgO cfgR : Cfg) (accO accR : Nat → Bool) (i sa da : Nat) (x : Nat × Nat × Nat) (sO sR : St) :
    Option (St × St × List Out × List Out × Release) :=
  match sO.snd.get? (Tp22.buffer_hash i sa da) with
  | none => none
  | some b =>
    let p := tickSndOne cfgO x.1 b
    let sO1 := sndApply sO (Tp22.buffer_hash i sa da) p.1
    let q := rxAll cfgR accR x.2.1 sR (txFrames p.2.1)
    let a := rxAll cfgO accO x.2.2 sO1 (txFrames q.2)
    some (a.1, q.1, q.2, a.2, p.2.2.2.2)

/-- the originator's record between rounds: segments 0 … j−1 are out, it may send up to segment `wn` (0-based) -/
structure OInv (msg : List Nat) (i sa da pgn j wn : Nat) (b : Snd) : Prop where
  hdata  : b.data = chunks60 msg
  hnum   : b.numSegments = Tp22.num_segments msg.length
  hsize  : b.messageSize = msg.length
  hnext  : b.next = (j : Int)
  hwait  : b.waitOn = some (wn : Int)
  hstate : b.state = S_SENDING_RTS_CTS
  hdl    : b.deadline ≠ 0
  hsess  : b.session = i
  hsrc   : b.src = sa
  hdest  : b.dest = da
  hpgn   : b.pgn = pgn
/-- the frames of a pass that reaches the end of the message: nothing is sent yet, the record holds the whole message -/
theorem feed_last (msg : List Nat) (pgn mr : Nat) (mid : MessageId) (dest session src t : Nat) (hpos : 0 < msg.length)
    (hd : dest ≠ Const.Addr.GLOBAL) (hs : session < 16) (h24 : Tp22.num_segments msg.length < 16777216)
    (j wn : Nat) (s : St) (r : Rcv) (hj : j ≤ wn) (hwn : wn + 1 = Tp22.num_segments msg.length)
    (hr : s.rcv.get? (Tp22.buffer_hash session mid.source_address dest) = some r) (hi : RInv msg pgn j (wn + 1) mr r) :
    let q := feedDt s mid dest ((List.replicate (wn + 1 - j) t).zip (dtDatas src dest session msg j (wn + 1 - j)))
    txFrames q.2 = [] ∧ deliveries q.2 = [] ∧
    ∃ r', q.1.rcv.get? (Tp22.buffer_hash session mid.source_address dest) = some r' ∧
      r'.data = msg ∧ r'.messageSize = msg.length ∧ r'.numSegments = Tp22.num_segments msg.length ∧ r'.pgn = pgn := by
  intro q
  have hk : wn + 1 - j = (wn - j) + 1 := by omega
  have hq : q = feedDt s mid dest ((List.replicate (wn - j) t).zip (dtDatas src dest session msg j (wn - j)) ++
      [(t, (Tp22.dt Const.LUT_FD_DLC src dest session (j + (wn - j) + 1) ((msg.drop (60 * (j + (wn - j)))).take 60) 0).data)]) := by
    show feedDt s mid dest ((List.replicate (wn + 1 - j) t).zip (dtDatas src dest session msg j (wn + 1 - j))) = _
    rw [hk, dtDatas_snoc]
    have := rep_zip_snoc t (dtDatas src dest session msg j (wn - j))
      ((Tp22.dt Const.LUT_FD_DLC src dest session (j + (wn - j) + 1) ((msg.drop (60 * (j + (wn - j)))).take 60) 0).data)
    rw [dtDatas_length] at this
    rw [this]
  obtain ⟨a1, a2, r1, a3, a4⟩ := feed_mid msg pgn (wn + 1) mr mid dest session src t hpos hd hs h24 (wn - j) j s r (by omega) (by omega) hr hi
  have hjw : j + (wn - j) = wn := by omega
  rw [hjw] at a4
  have hf := c02_built_frame_is_segframe msg src dest session wn hs (by omega) (by simp only [Nat.reducePow]; omega)
  obtain ⟨o1, o2, r', hr', e1, e2, e3, e4⟩ := dt22_last (feedDt s mid dest ((List.replicate (wn - j) t).zip (dtDatas src dest session msg j (wn - j)))).1
    t mid dest _ r1 msg session wn pgn (wn + 1) mr hpos hd hf a3 a4 hwn
  rw [hq, feedDt_append, hjw]
  simp only [feedDt, List.append_nil]
  rw [txFrames_append, deliveries_append, a1, a2, o1]
  exact ⟨by simp [txFrames], by simp [deliveries], r', hr', e1, e2, e3, e4⟩

/-- a round in which the pass sends the WHOLE rest of the granted window (always so without a minimum interval; with one,
    when a single segment of the window is left) -/
theorem round_full (cfgO cfgR : Cfg) (accO accR : Nat → Bool) (msg : List Nat) (i sa da pgn mr : Nat)
    (hpos : 0 < msg.length) (hlen : msg.length < 16777216) (hp : pgn < 16777216) (hi16 : i < 16)
    (hsa : sa < 256) (hda : da < 256) (hdne : da ≠ 255) (hsne : sa ≠ 255) (haO : accO sa = true) (haR : accR da = true)
    (hmr : 0 < mr) (hmr256 : mr < 256) (hmrO : mr ≤ cfgO.maxCmdt)
    (x : Nat × Nat × Nat) (sO sR : St) (j wn : Nat) (b : Snd) (r : Rcv)
    (hj : j ≤ wn) (hwn : wn < Tp22.num_segments msg.length)
    (hb : sO.snd.get? (Tp22.buffer_hash i sa da) = some b) (hr : sR.rcv.get? (Tp22.buffer_hash i sa da) = some r)
    (ob : OInv msg i sa da pgn j wn b) (rb : RInv msg pgn j (wn + 1) mr r)
    (htO : 0 < x.2.2)
    (hpass0 : tickSndOne cfgO x.1 b =
      (if wn + 1 = Tp22.num_segments msg.length then
        (some { b with next := ((wn + 1 : Nat) : Int), deadline := x.1 + Const.T22.T5, state := S_WAITING_EOM_ACK },
         dtFrames b.src b.dest b.session msg j (wn + 1 - j) ++
           [.tx (Tp22.eom_status b.src b.dest b.session b.messageSize b.numSegments b.pgn 0 0)], none, some (x.1 + Const.T22.T5), .none)
       else
        (some { b with next := ((wn + 1 : Nat) : Int), state := S_WAITING_CTS, deadline := x.1 + Const.T22.T3 },
         dtFrames b.src b.dest b.session msg j (wn + 1 - j), none, some (x.1 + Const.T22.T3), .none))) :
    ∃ sO' sR' oR oO, round cfgO cfgR accO accR i sa da x sO sR = some (sO', sR', oR, oO, .none) ∧
      ((∃ wn' b' r', wn < wn' ∧ wn' < Tp22.num_segments msg.length ∧
          sO'.snd.get? (Tp22.buffer_hash i sa da) = some b' ∧ sR'.rcv.get? (Tp22.buffer_hash i sa da) = some r' ∧
          OInv msg i sa da pgn (wn + 1) wn' b' ∧ RInv msg pgn (wn + 1) (wn' + 1) mr r' ∧ b'.deadline = x.2.2 ∧
          deliveries oR = [] ∧ deliveries oO = []) ∨
       (deliveries oR = [(7, pgn, sa, da, msg)] ∧ sR'.rcv.get? (Tp22.buffer_hash i sa da) = none ∧
        deliveries oO = [(7, pgn, da, sa, (Tp22.eom_ack da sa i msg.length (Tp22.num_segments msg.length) pgn).data)] ∧
        ∃ bf, sO'.snd.get? (Tp22.buffer_hash i sa da) = some bf ∧ bf.state = S_EOM_ACK_RECEIVED ∧ bf.deadline = x.2.2 ∧
          bf.session = i)) := by
  have h24 : Tp22.num_segments msg.length < 16777216 := by
    have := (num_segments_spec msg.length).2 hpos; omega
  obtain ⟨m1, m2, m3, m4⟩ := mid_facts sa da hsa hda
  obtain ⟨n1, n2, n3, n4⟩ := mid_facts da sa hda hsa
  have hrR : sR.rcv.get? (Tp22.buffer_hash i (midDt sa da).source_address da) = some r := by rw [m1]; exact hr
  obtain ⟨_, _, c3⟩ := Dll21.tp_id_parse 7 77 sa da (by omega) (by omega) hsa hda
  by_cases hend : wn + 1 = Tp22.num_segments msg.length
  · -- the window reaches the end of the message: FD.TP.DT j … n−1, then the end-of-message status
    let bE : Snd := { b with next := ((wn + 1 : Nat) : Int), deadline := x.1 + Const.T22.T5, state := S_WAITING_EOM_ACK, src := sa,
                             dest := da, session := i, messageSize := msg.length, numSegments := Tp22.num_segments msg.length,
                             pgn := pgn }
    let eomsF : Frame := Tp22.eom_status sa da i msg.length (Tp22.num_segments msg.length) pgn 0 0
    have hpass : tickSndOne cfgO x.1 b =
        (some bE, dtFrames sa da i msg j (wn + 1 - j) ++ [.tx eomsF], none, some (x.1 + Const.T22.T5), .none) := by
      rw [hpass0, if_pos hend]; simp only [ob.hsrc, ob.hdest, ob.hsess, ob.hsize, ob.hnum, ob.hpgn]; rfl
    let sO1 : St := sndApply sO (Tp22.buffer_hash i sa da) (some bE)
    let q := rxAll cfgR accR x.2.1 sR (txFrames (dtFrames sa da i msg j (wn + 1 - j) ++ [.tx eomsF]))
    let a := rxAll cfgO accO x.2.2 sO1 (txFrames q.2)
    have hround : round cfgO cfgR accO accR i sa da x sO sR = some (a.1, q.1, q.2, a.2, .none) := by
      simp only [round, hb, hpass]; rfl
    -- the responder: the data frames
    let q1 := feedDt sR (midDt sa da) da ((List.replicate (wn + 1 - j) x.2.1).zip (dtDatas sa da i msg j (wn + 1 - j)))
    have hq1 : rxAll cfgR accR x.2.1 sR (txFrames (dtFrames sa da i msg j (wn + 1 - j))) = q1 := by
      rw [dtFrames, txFrames_map]
      exact rxAll_dt cfgR accR x.2.1 sa da i msg hsa hda (Or.inr haR) j (wn + 1 - j) sR
    have hR := feed_last msg pgn mr (midDt sa da) da i sa x.2.1 hpos hdne hi16 h24 j wn sR r hj hend hrR rb
    simp only at hR
    rw [m1] at hR
    obtain ⟨f1', f2', r1, f3', g1, g2, g3, g4⟩ := hR
    have f1 : txFrames q1.2 = [] := f1'
    have f2 : deliveries q1.2 = [] := f2'
    have f3 : q1.1.rcv.get? (Tp22.buffer_hash i sa da) = some r1 := f3'
    -- … and the end-of-message status
    obtain ⟨_, _, cR3⟩ := Dll21.tp_id_parse 7 77 da sa (by omega) (by omega) hda hsa
    have hide : eomsF.id = MessageId.can_id (MessageId.ofFields 7 (PGN.value (PGN.ofFields 0 77 da)) sa) := rfl
    have hE := eoms_accepted cfgR q1.1 x.2.1 (midCm sa da) da i pgn msg r1 (by rw [m3]; exact hsne) hdne hi16 hlen h24 hp
      (by rw [m3]; exact f3) g1 g2 g3 g4
    simp only at hE
    rw [m3, m4] at hE
    obtain ⟨e1', e2, e3'⟩ := hE
    have e1 : (processCm cfgR q1.1 x.2.1 (midCm sa da) da eomsF.data).outs =
        [.notify 7 pgn sa da msg, .tx (Tp22.eom_ack da sa i msg.length (Tp22.num_segments msg.length) pgn)] := e1'
    have e3 : (processCm cfgR q1.1 x.2.1 (midCm sa da) da eomsF.data).st.rcv.get? (Tp22.buffer_hash i sa da) = none := e3'
    have hq : q = ((processCm cfgR q1.1 x.2.1 (midCm sa da) da eomsF.data).st, q1.2 ++ ((processCm cfgR q1.1 x.2.1 (midCm sa da) da eomsF.data).outs ++ [])) := by
      show rxAll cfgR accR x.2.1 sR (txFrames (dtFrames sa da i msg j (wn + 1 - j) ++ [.tx eomsF])) = _
      rw [txFrames_append, rxAll_append, hq1]
      have : txFrames [Out.tx eomsF] = [eomsF] := rfl
      rw [this]
      simp only [rxAll, hide]
      rw [notify_fd_cm cfgR q1.1 x.2.1 accR _ da _ cR3 hda (Or.inr haR)]
      rfl
    -- the originator and the acknowledgement
    let eomaF : Frame := Tp22.eom_ack da sa i msg.length (Tp22.num_segments msg.length) pgn
    have hq2 : txFrames q.2 = [eomaF] := by
      rw [hq]; simp only [txFrames_append, f1, e1]; simp [txFrames, eomaF]
    have hbE : sO1.snd.get? (Tp22.buffer_hash i sa (midCm da sa).source_address) = some bE := by
      rw [n3]; exact PyDict.get?_set_self _ _ _
    have hA := eoma_accepted cfgO sO1 x.2.2 (midCm da sa) sa i pgn msg.length (Tp22.num_segments msg.length) bE
      (by rw [n3]; exact hdne) hi16 hp hlen h24 hbE
    rw [n3, n4] at hA
    have hida : eomaF.id = MessageId.can_id (MessageId.ofFields 7 (PGN.value (PGN.ofFields 0 77 sa)) da) := rfl
    have ha : a = ((processCm cfgO sO1 x.2.2 (midCm da sa) sa eomaF.data).st, (processCm cfgO sO1 x.2.2 (midCm da sa) sa eomaF.data).outs ++ []) := by
      show rxAll cfgO accO x.2.2 sO1 (txFrames q.2) = _
      rw [hq2]
      simp only [rxAll, hida]
      rw [notify_fd_cm cfgO sO1 x.2.2 accO _ sa _ c3 hsa (Or.inr haO)]
      rfl
    rw [hA] at ha
    refine ⟨a.1, q.1, q.2, a.2, hround, Or.inr ⟨?_, ?_, ?_, { bE with state := S_EOM_ACK_RECEIVED, deadline := x.2.2 }, ?_, rfl, rfl, rfl⟩⟩
    · rw [hq]; simp only [deliveries_append, f2, e1]; simp [deliveries]
    · rw [hq]; exact e3
    · rw [ha]; simp [deliveries]
    · rw [ha]; exact PyDict.get?_set_self _ _ _
  · -- the window ends before the message does
    have hlt : wn + 1 < Tp22.num_segments msg.length := by omega
    let bW : Snd := { b with next := ((wn + 1 : Nat) : Int), state := S_WAITING_CTS, deadline := x.1 + Const.T22.T3, src := sa,
                             dest := da, session := i }
    have hpass : tickSndOne cfgO x.1 b = (some bW, dtFrames sa da i msg j (wn + 1 - j), none, some (x.1 + Const.T22.T3), .none) := by
      rw [hpass0]; simp only [hend, if_false, ob.hsrc, ob.hdest, ob.hsess]; rfl
    let sO1 : St := sndApply sO (Tp22.buffer_hash i sa da) (some bW)
    let q := rxAll cfgR accR x.2.1 sR (txFrames (dtFrames sa da i msg j (wn + 1 - j)))
    let a := rxAll cfgO accO x.2.2 sO1 (txFrames q.2)
    have hround : round cfgO cfgR accO accR i sa da x sO sR = some (a.1, q.1, q.2, a.2, .none) := by
      simp only [round, hb, hpass]; rfl
    -- the responder
    have hq : q = feedDt sR (midDt sa da) da ((List.replicate (wn + 1 - j) x.2.1).zip (dtDatas sa da i msg j (wn + 1 - j))) := by
      show rxAll cfgR accR x.2.1 sR (txFrames (dtFrames sa da i msg j (wn + 1 - j))) = _
      rw [dtFrames, txFrames_map]
      exact rxAll_dt cfgR accR x.2.1 sa da i msg hsa hda (Or.inr haR) j (wn + 1 - j) sR
    have hR := feed_window msg pgn mr (midDt sa da) da i sa x.2.1 hpos hdne hi16 h24 j wn sR r hj hlt hrR rb
    simp only at hR
    rw [← hq, m1] at hR
    obtain ⟨f1, f2, r', f3, f4⟩ := hR
    -- the originator and the CTS
    have hg : 0 < min mr (Tp22.num_segments msg.length - (wn + 1)) := by omega
    have hbW : sO1.snd.get? (Tp22.buffer_hash i sa (midCm da sa).source_address) = some bW := by
      rw [n3]; exact PyDict.get?_set_self _ _ _
    have hcts := cts_accepted cfgO sO1 x.2.2 (midCm da sa) sa i pgn bW (wn + 1)
      (min mr (Tp22.num_segments msg.length - (wn + 1))) (by rw [n3]; exact hdne) hi16 hp hbW hg (by omega) (by omega)
      (by show wn + 1 + _ ≤ b.numSegments; rw [ob.hnum]; omega) (by show b.numSegments < _; rw [ob.hnum]; exact h24)
    rw [n3] at hcts
    have hidc : (Tp22.cts da sa i (min mr (Tp22.num_segments msg.length - (wn + 1))) (wn + 2) pgn).id =
        MessageId.can_id (MessageId.ofFields 7 (PGN.value (PGN.ofFields 0 77 sa)) da) := rfl
    have e2 : wn + 2 = wn + 1 + 1 := by omega
    have ha : a = rxAll cfgO accO x.2.2 sO1 [Tp22.cts da sa i (min mr (Tp22.num_segments msg.length - (wn + 1))) (wn + 2) pgn] := by
      show rxAll cfgO accO x.2.2 sO1 (txFrames q.2) = _
      rw [f1]
    have ha' : a = ((processCm cfgO sO1 x.2.2 (midCm da sa) sa (Tp22.cts da sa i (min mr (Tp22.num_segments msg.length - (wn + 1))) (wn + 1 + 1) pgn).data).st,
        (processCm cfgO sO1 x.2.2 (midCm da sa) sa (Tp22.cts da sa i (min mr (Tp22.num_segments msg.length - (wn + 1))) (wn + 1 + 1) pgn).data).outs ++ []) := by
      rw [ha]
      simp only [rxAll, hidc]
      rw [notify_fd_cm cfgO sO1 x.2.2 accO _ sa _ c3 hsa (Or.inr haO), e2]
      rfl
    rw [hcts] at ha'
    let bN : Snd := { bW with next := ((wn + 1 : Nat) : Int),
                              waitOn := some (((wn + 1 + min mr (Tp22.num_segments msg.length - (wn + 1)) - 1 : Nat) : Int)),
                              state := S_SENDING_RTS_CTS, deadline := x.2.2 }
    refine ⟨a.1, q.1, q.2, a.2, hround, Or.inl ⟨wn + min mr (Tp22.num_segments msg.length - (wn + 1)), bN, r', by omega, by omega, ?_, f3, ?_, ?_, ?_, f2, ?_⟩⟩
    · rw [ha']; exact PyDict.get?_set_self _ _ _
    · refine ⟨ob.hdata, ob.hnum, ob.hsize, rfl, ?_, rfl, ?_, rfl, rfl, rfl, ob.hpgn⟩
      · show some (((wn + 1 + min mr (Tp22.num_segments msg.length - (wn + 1)) - 1 : Nat) : Int)) = some (((wn + min mr (Tp22.num_segments msg.length - (wn + 1)) : Nat) : Int))
        congr 2; omega
      · show x.2.2 ≠ 0; omega
    · have e : min (wn + 1 + mr) (Tp22.num_segments msg.length) = wn + min mr (Tp22.num_segments msg.length - (wn + 1)) + 1 := by omega
      rw [← e]; exact f4
    · rfl
    · rw [ha']; simp [deliveries]
/-- a round in which a minimum interval holds the rest of the window back: ONE segment goes out and is stored, nothing is
    answered, the originator is due again after the interval -/
theorem round_partial (cfgO cfgR : Cfg) (accO accR : Nat → Bool) (iv : Nat) (hiv : cfgO.cmdtInterval = some iv) (msg : List Nat)
    (i sa da pgn mr : Nat) (hpos : 0 < msg.length) (hlen : msg.length < 16777216) (hi16 : i < 16)
    (hsa : sa < 256) (hda : da < 256) (hdne : da ≠ 255) (haR : accR da = true)
    (x : Nat × Nat × Nat) (sO sR : St) (j wn : Nat) (b : Snd) (r : Rcv)
    (hj : j < wn) (hwn : wn < Tp22.num_segments msg.length)
    (hb : sO.snd.get? (Tp22.buffer_hash i sa da) = some b) (hr : sR.rcv.get? (Tp22.buffer_hash i sa da) = some r)
    (ob : OInv msg i sa da pgn j wn b) (rb : RInv msg pgn j (wn + 1) mr r)
    (hdue : b.deadline ≤ x.1) (ht : 0 < x.1) :
    ∃ sO' sR' oR oO, round cfgO cfgR accO accR i sa da x sO sR = some (sO', sR', oR, oO, .none) ∧
      ∃ b' r', sO'.snd.get? (Tp22.buffer_hash i sa da) = some b' ∧ sR'.rcv.get? (Tp22.buffer_hash i sa da) = some r' ∧
        OInv msg i sa da pgn (j + 1) wn b' ∧ RInv msg pgn (j + 1) (wn + 1) mr r' ∧ b'.deadline = x.1 + iv ∧
        deliveries oR = [] ∧ deliveries oO = [] := by
  have h24 : Tp22.num_segments msg.length < 16777216 := by
    have := (num_segments_spec msg.length).2 hpos; omega
  obtain ⟨m1, m2, m3, m4⟩ := mid_facts sa da hsa hda
  have hpass0 := tickSndOne_partial cfgO x.1 iv hiv msg b j wn ob.hstate ob.hdata ob.hnum ob.hnext ob.hwait hj hwn ob.hdl hdue
  let bP : Snd := { b with next := ((j + 1 : Nat) : Int), deadline := x.1 + iv, src := sa, dest := da, session := i }
  have hpass : tickSndOne cfgO x.1 b = (some bP, dtFrames sa da i msg j 1, none, some (x.1 + iv), .none) := by
    rw [hpass0]; simp only [ob.hsrc, ob.hdest, ob.hsess]; rfl
  let sO1 : St := sndApply sO (Tp22.buffer_hash i sa da) (some bP)
  let q := rxAll cfgR accR x.2.1 sR (txFrames (dtFrames sa da i msg j 1))
  let a := rxAll cfgO accO x.2.2 sO1 (txFrames q.2)
  have hround : round cfgO cfgR accO accR i sa da x sO sR = some (a.1, q.1, q.2, a.2, .none) := by
    simp only [round, hb, hpass]; rfl
  have hq : q = feedDt sR (midDt sa da) da ((List.replicate 1 x.2.1).zip (dtDatas sa da i msg j 1)) := by
    show rxAll cfgR accR x.2.1 sR (txFrames (dtFrames sa da i msg j 1)) = _
    rw [dtFrames, txFrames_map]
    exact rxAll_dt cfgR accR x.2.1 sa da i msg hsa hda (Or.inr haR) j 1 sR
  have hrR : sR.rcv.get? (Tp22.buffer_hash i (midDt sa da).source_address da) = some r := by rw [m1]; exact hr
  have hR := feed_mid msg pgn (wn + 1) mr (midDt sa da) da i sa x.2.1 hpos hdne hi16 h24 1 j sR r (by omega) (by omega) hrR rb
  simp only at hR
  rw [← hq, m1] at hR
  obtain ⟨f1, f2, r', f3, f4⟩ := hR
  have ha : a = (sO1, []) := by
    show rxAll cfgO accO x.2.2 sO1 (txFrames q.2) = _
    rw [f1]; rfl
  refine ⟨a.1, q.1, q.2, a.2, hround, bP, r', ?_, f3, ?_, f4, rfl, f2, ?_⟩
  · rw [ha]; exact PyDict.get?_set_self _ _ _
  · exact ⟨ob.hdata, ob.hnum, ob.hsize, rfl, ob.hwait, ob.hstate, by show x.1 + iv ≠ 0; omega, rfl, rfl, rfl, ob.hpgn⟩
  · rw [ha]; rfl

/-- ONE ROUND (FD connection mode, with or without a minimum packet interval) keeps the session invariant with MORE
    segments transferred, or completes the transfer -/
theorem c02_rtscts_round (cfgO cfgR : Cfg) (accO accR : Nat → Bool) (msg : List Nat) (i sa da pgn mr : Nat)
    (hpos : 0 < msg.length) (hlen : msg.length < 16777216) (hp : pgn < 16777216) (hi16 : i < 16)
    (hsa : sa < 256) (hda : da < 256) (hdne : da ≠ 255) (hsne : sa ≠ 255) (haO : accO sa = true) (haR : accR da = true)
    (hmr : 0 < mr) (hmr256 : mr < 256) (hmrO : mr ≤ cfgO.maxCmdt)
    (x : Nat × Nat × Nat) (sO sR : St) (j wn : Nat) (b : Snd) (r : Rcv)
    (hj : j ≤ wn) (hwn : wn < Tp22.num_segments msg.length)
    (hb : sO.snd.get? (Tp22.buffer_hash i sa da) = some b) (hr : sR.rcv.get? (Tp22.buffer_hash i sa da) = some r)
    (ob : OInv msg i sa da pgn j wn b) (rb : RInv msg pgn j (wn + 1) mr r)
    (hdue : b.deadline ≤ x.1) (ht : 0 < x.1) (htO : 0 < x.2.2) :
    ∃ sO' sR' oR oO, round cfgO cfgR accO accR i sa da x sO sR = some (sO', sR', oR, oO, .none) ∧
      ((∃ j' wn' b' r', j < j' ∧ j' ≤ wn' ∧ wn' < Tp22.num_segments msg.length ∧
          sO'.snd.get? (Tp22.buffer_hash i sa da) = some b' ∧ sR'.rcv.get? (Tp22.buffer_hash i sa da) = some r' ∧
          OInv msg i sa da pgn j' wn' b' ∧ RInv msg pgn j' (wn' + 1) mr r' ∧
          b'.deadline ≤ max x.2.2 (x.1 + cfgO.cmdtInterval.getD 0) ∧ deliveries oR = [] ∧ deliveries oO = []) ∨
       (deliveries oR = [(7, pgn, sa, da, msg)] ∧ sR'.rcv.get? (Tp22.buffer_hash i sa da) = none ∧
        deliveries oO = [(7, pgn, da, sa, (Tp22.eom_ack da sa i msg.length (Tp22.num_segments msg.length) pgn).data)] ∧
        ∃ bf, sO'.snd.get? (Tp22.buffer_hash i sa da) = some bf ∧ bf.state = S_EOM_ACK_RECEIVED ∧ bf.deadline = x.2.2 ∧
          bf.session = i)) := by
  have lift : ∀ (hp0 : tickSndOne cfgO x.1 b =
      (if wn + 1 = Tp22.num_segments msg.length then
        (some { b with next := ((wn + 1 : Nat) : Int), deadline := x.1 + Const.T22.T5, state := S_WAITING_EOM_ACK },
         dtFrames b.src b.dest b.session msg j (wn + 1 - j) ++
           [.tx (Tp22.eom_status b.src b.dest b.session b.messageSize b.numSegments b.pgn 0 0)], none, some (x.1 + Const.T22.T5), .none)
       else
        (some { b with next := ((wn + 1 : Nat) : Int), state := S_WAITING_CTS, deadline := x.1 + Const.T22.T3 },
         dtFrames b.src b.dest b.session msg j (wn + 1 - j), none, some (x.1 + Const.T22.T3), .none))),
      ∃ sO' sR' oR oO, round cfgO cfgR accO accR i sa da x sO sR = some (sO', sR', oR, oO, .none) ∧
      ((∃ j' wn' b' r', j < j' ∧ j' ≤ wn' ∧ wn' < Tp22.num_segments msg.length ∧
          sO'.snd.get? (Tp22.buffer_hash i sa da) = some b' ∧ sR'.rcv.get? (Tp22.buffer_hash i sa da) = some r' ∧
          OInv msg i sa da pgn j' wn' b' ∧ RInv msg pgn j' (wn' + 1) mr r' ∧
          b'.deadline ≤ max x.2.2 (x.1 + cfgO.cmdtInterval.getD 0) ∧ deliveries oR = [] ∧ deliveries oO = []) ∨
       (deliveries oR = [(7, pgn, sa, da, msg)] ∧ sR'.rcv.get? (Tp22.buffer_hash i sa da) = none ∧
        deliveries oO = [(7, pgn, da, sa, (Tp22.eom_ack da sa i msg.length (Tp22.num_segments msg.length) pgn).data)] ∧
        ∃ bf, sO'.snd.get? (Tp22.buffer_hash i sa da) = some bf ∧ bf.state = S_EOM_ACK_RECEIVED ∧ bf.deadline = x.2.2 ∧
          bf.session = i)) := by
    intro hp0
    obtain ⟨sO', sR', oR, oO, h1, h2⟩ := round_full cfgO cfgR accO accR msg i sa da pgn mr hpos hlen hp hi16 hsa hda hdne hsne haO haR
      hmr hmr256 hmrO x sO sR j wn b r hj hwn hb hr ob rb htO hp0
    refine ⟨sO', sR', oR, oO, h1, ?_⟩
    rcases h2 with ⟨wn', b', r', c1, c2, c3, c4, c5, c6, c7, c8, c9⟩ | h2
    · exact Or.inl ⟨wn + 1, wn', b', r', by omega, by omega, c2, c3, c4, c5, c6, by rw [c7]; exact Nat.le_max_left _ _, c8, c9⟩
    · exact Or.inr h2
  cases hiv : cfgO.cmdtInterval with
  | none =>
    rw [hiv] at lift
    exact lift (tickSndOne_sending cfgO x.1 hiv msg b j wn ob.hstate ob.hdata ob.hnum ob.hnext ob.hwait hj hwn ob.hdl hdue)
  | some iv =>
    by_cases hjw : j = wn
    · subst hjw
      rw [hiv] at lift
      exact lift (tickSndOne_sending_last cfgO x.1 iv hiv msg b j ob.hstate ob.hdata ob.hnum ob.hnext ob.hwait hwn ob.hdl hdue)
    · obtain ⟨sO', sR', oR, oO, h1, b', r', c1, c2, c3, c4, c5, c6, c7⟩ := round_partial cfgO cfgR accO accR iv hiv msg i sa da pgn mr
        hpos hlen hi16 hsa hda hdne haR x sO sR j wn b r (by omega) hwn hb hr ob rb hdue ht
      exact ⟨sO', sR', oR, oO, h1, Or.inl ⟨j + 1, wn, b', r', by omega, by omega, hwn, c1, c2, c3, c4,
        by rw [c5]; simp only [Option.getD_some]; exact Nat.le_max_right _ _, c6, c7⟩⟩

/-- rounds until the list ends, the originator's record is gone, or a round released the session number -/
def run (cfgO cfgR : Cfg) (accO accR : Nat → Bool) (i sa da : Nat) : List (Nat × Nat × Nat) → St → St → St × St × List Out × List Out × Release
  | [], sO, sR => (sO, sR, [], [], .none)
  | x :: xs, sO, sR =>
    match round cfgO cfgR accO accR i sa da x sO sR with
    | none => (sO, sR, [], [], .none)
    | some (sO', sR', oR, oO, .none) =>
      let q := run cfgO cfgR accO accR i sa da xs sO' sR'
      (q.1, q.2.1, oR ++ q.2.2.1, oO ++ q.2.2.2.1, q.2.2.2.2)
    | some (sO', sR', oR, oO, rel) => (sO', sR', oR, oO, rel)

/-- every round's pass finds the record due: not before the deadline `d`, the next one not before the answers of this
    round were handled -/
def Sched (cfg : Cfg) : Nat → List (Nat × Nat × Nat) → Prop
  | _, [] => True
  | d, x :: xs => d ≤ x.1 ∧ 0 < x.1 ∧ 0 < x.2.2 ∧ Sched cfg (max x.2.2 (x.1 + cfg.cmdtInterval.getD 0)) xs

/-- the round after the acknowledgement: the record is deleted and its number goes back to the RTS/CTS pool -/
theorem round_final (cfgO cfgR : Cfg) (accO accR : Nat → Bool) (i sa da : Nat) (x : Nat × Nat × Nat) (sO sR : St) (b : Snd)
    (hb : sO.snd.get? (Tp22.buffer_hash i sa da) = some b) (hs : b.state = S_EOM_ACK_RECEIVED) (hd0 : b.deadline ≠ 0)
    (hdue : b.deadline ≤ x.1) (hsess : b.session = i) :
    round cfgO cfgR accO accR i sa da x sO sR =
      some ({ sO with snd := sO.snd.erase (Tp22.buffer_hash i sa da) }, sR, [], [], .rts i) := by
  have e1 : (b.deadline != 0) = true := by simpa using hd0
  have e2 : ¬ b.deadline > x.1 := by omega
  have n14 : (S_EOM_ACK_RECEIVED == S_WAITING_CTS) = false := by decide
  have n24 : (S_EOM_ACK_RECEIVED == S_SENDING_RTS_CTS) = false := by decide
  have n34 : (S_EOM_ACK_RECEIVED == S_WAITING_EOM_ACK) = false := by decide
  have ht : tickSndOne cfgO x.1 b = (none, [], none, none, .rts i) := by
    unfold tickSndOne
    simp only [e1, if_true, e2, if_false, hs, n14, n24, n34, Bool.false_eq_true, beq_self_eq_true, hsess]
  simp only [round, hb, ht, txFrames, List.filterMap_nil, rxAll, sndApply]

/-- THE SESSION RUNS TO COMPLETION (FD connection mode): from any state of the invariant, any schedule of due rounds that
    is long enough delivers the message exactly once, reports exactly one acknowledgement, leaves no record on either
    side and returns the session number to the RTS/CTS pool -/
theorem run_delivers (cfgO cfgR : Cfg) (accO accR : Nat → Bool) (msg : List Nat) (i sa da pgn mr : Nat)
    (hpos : 0 < msg.length) (hlen : msg.length < 16777216) (hp : pgn < 16777216) (hi16 : i < 16)
    (hsa : sa < 256) (hda : da < 256) (hdne : da ≠ 255) (hsne : sa ≠ 255) (haO : accO sa = true) (haR : accR da = true)
    (hmr : 0 < mr) (hmr256 : mr < 256) (hmrO : mr ≤ cfgO.maxCmdt) (m : Nat) :
    ∀ (xs : List (Nat × Nat × Nat)) (sO sR : St) (j wn d : Nat) (b : Snd) (r : Rcv),
    Tp22.num_segments msg.length - j ≤ m → j ≤ wn → wn < Tp22.num_segments msg.length →
    sO.snd.get? (Tp22.buffer_hash i sa da) = some b → sR.rcv.get? (Tp22.buffer_hash i sa da) = some r →
    OInv msg i sa da pgn j wn b → RInv msg pgn j (wn + 1) mr r → b.deadline ≤ d → Sched cfgO d xs → m + 1 ≤ xs.length →
    let q := run cfgO cfgR accO accR i sa da xs sO sR
    deliveries q.2.2.1 = [(7, pgn, sa, da, msg)] ∧ q.2.1.rcv.get? (Tp22.buffer_hash i sa da) = none ∧
    deliveries q.2.2.2.1 = [(7, pgn, da, sa, (Tp22.eom_ack da sa i msg.length (Tp22.num_segments msg.length) pgn).data)] ∧
    q.1.snd.get? (Tp22.buffer_hash i sa da) = none ∧ q.2.2.2.2 = .rts i := by
  induction m with
  | zero => intro xs sO sR j wn d b r h1 h2 h3; omega
  | succ m ih =>
    intro xs sO sR j wn d b r hm hj hwn hb hr ob rb hdl hsched hxs
    obtain ⟨x, xs, rfl⟩ : ∃ x xs', xs = x :: xs' := by
      cases xs with
      | nil => simp at hxs
      | cons x xs => exact ⟨x, xs, rfl⟩
    simp only [List.length_cons, Nat.add_le_add_iff_right] at hxs
    obtain ⟨s1, s1', s2, s3⟩ := hsched
    obtain ⟨sO', sR', oR, oO, hround, hcase⟩ := c02_rtscts_round cfgO cfgR accO accR msg i sa da pgn mr hpos hlen hp hi16 hsa hda hdne hsne
      haO haR hmr hmr256 hmrO x sO sR j wn b r hj hwn hb hr ob rb (by omega) s1' s2
    simp only [run, hround]
    rcases hcase with ⟨j', wn', b', r', c0, c1, c2, c3, c4, c5, c6, c7, c8, c9⟩ | ⟨c1, c2, c3, bf, c4, c5, c6, c7⟩
    · have := ih xs sO' sR' j' wn' _ b' r' (by omega) c1 c2 c3 c4 c5 c6 c7 s3 hxs
      simp only at this
      obtain ⟨i1, i2, i3, i4, i5⟩ := this
      rw [deliveries_append, deliveries_append, c8, c9, List.nil_append, List.nil_append]
      exact ⟨i1, i2, i3, i4, i5⟩
    · obtain ⟨x', xs', rfl⟩ : ∃ x xs', xs = x :: xs' := by
        cases xs with
        | nil => simp at hxs
        | cons x xs => exact ⟨x, xs, rfl⟩
      obtain ⟨t1, _, _, _⟩ := s3
      have hfin := round_final cfgO cfgR accO accR i sa da x' sO' sR' bf c4 c5 (by rw [c6]; omega) (by rw [c6]; omega) c7
      simp only [run, hfin, List.append_nil]
      exact ⟨c1, c2, c3, PyDict.get?_erase_self _ _, trivial⟩
/-- the PGN a destination-specific transfer announces: PS cleared -/
def rtsPgn (dp pf ps : Nat) : Nat := PGN.value { PGN.ofFields dp pf ps with pdu_specific := 0 }

theorem rtsPgn_lt (dp pf ps : Nat) : rtsPgn dp pf ps < 16777216 := by
  unfold rtsPgn
  have w := Lemmas.pgn_ofFields_wf dp pf ps
  have w0 : Lemmas.PGN.WF { PGN.ofFields dp pf ps with pdu_specific := 0 } := by
    obtain ⟨a, b, _⟩ := w
    exact ⟨a, b, by simp⟩
  rw [Lemmas.pgn_value_arith _ w0]; obtain ⟨a, b, c⟩ := w0; simp only at a b c ⊢; omega

/-- the send record of an FD destination-specific transfer that got session number `i` -/
def rtsRec (now dp pf ps prio sa i : Nat) (msg : List Nat) : Snd :=
  { pgn := rtsPgn dp pf ps, priority := prio, session := i, messageSize := msg.length, numSegments := Tp22.num_segments msg.length,
    data := chunks60 msg, state := S_WAITING_CTS, deadline := now + Const.T22.T3, src := sa, dest := ps, next := 0, waitOn := some 0 }

/-- an accepted destination-specific message of more than 60 bytes, exactly -/
theorem sendPgn_rts (cfg : Cfg) (s : St) (now dp pf ps prio sa : Nat) (msg : List Nat) (tl ff : Nat) (hl : 60 < msg.length)
    (hb : (ps == Const.Addr.GLOBAL || PGN.is_pdu2_format (PGN.ofFields 0 pf ps)) = false)
    (hacc : (sendPgn cfg s now dp pf ps prio sa msg tl ff).2 = true) :
    ∃ i pool, poolGet s.rtsPool = some (i, pool) ∧
      (sendPgn cfg s now dp pf ps prio sa msg tl ff).1 =
        { st := { s with rtsPool := pool, snd := s.snd.set (Tp22.buffer_hash i sa ps) (rtsRec now dp pf ps prio sa i msg) },
          outs := [.tx (Tp22.rts prio sa ps i (rtsPgn dp pf ps) msg.length (Tp22.num_segments msg.length)
                          (min cfg.maxCmdt (Tp22.num_segments msg.length)) 0), .wake] } := by
  have hl' : ¬ msg.length ≤ Const.DL22.TP := by
    have : Const.DL22.TP = 60 := rfl
    omega
  unfold sendPgn at hacc ⊢
  simp only [hl', if_false, hb, Bool.false_eq_true] at hacc ⊢
  cases hg : poolGet s.rtsPool with
  | none => simp [hg] at hacc
  | some r =>
    obtain ⟨i, pool⟩ := r
    exact ⟨i, pool, rfl, by simp [rtsRec, rtsPgn]⟩
/-- FD CONNECTION MODE FROM END TO END (J1939-22, handlers atomic, no timeouts): an accepted destination-specific message
    of 61 … 2^24−1 bytes takes session number i < 8 from the RTS/CTS pool; the responder (no record for (i, pair), any
    other state, own window limit ≥ 1) receives the RTS through `notify`, the originator the CTS, and then ROUNDS follow —
    originator pass, the responder receives that pass's frames (FD.TP.DT segments and, at the end, the end-of-message
    status) through `notify`, the originator receives the answers (CTS for the next window, or the end-of-message
    acknowledgement) through `notify` — under ANY schedule that finds the record due each time (`Sched`), whatever the
    two window limits and the originator's minimum packet interval (whole windows per pass, or one segment per pass).
    After at most ⌈len/60⌉ + 1 rounds: the responder has delivered the message EXACTLY ONCE — announced PGN, originator's
    address, its own address, byte-identical payload —, the originator has reported exactly one acknowledgement, neither
    side keeps a session record, and the session number has been returned to the RTS/CTS pool -/
theorem c02_rtscts_end_to_end (cfgO cfgR : Cfg) (accO accR : Nat → Bool) (sO sR : St) (t0 tR tO dp pf prio sa da tl ff : Nat) (msg : List Nat)
    (hcO : 0 < cfgO.maxCmdt) (hcO256 : cfgO.maxCmdt < 256) (hcR : 0 < cfgR.maxCmdt)
    (hl : 60 < msg.length) (hlen : msg.length < 16777216) (hprio : prio < 8)
    (hsa : sa < 256) (hda : da < 256) (hsne : sa ≠ 255) (haO : accO sa = true) (haR : accR da = true)
    (hb : (da == Const.Addr.GLOBAL || PGN.is_pdu2_format (PGN.ofFields 0 pf da)) = false)
    (hacc : (sendPgn cfgO sO t0 dp pf da prio sa msg tl ff).2 = true) (hpool : sO.rtsPool.length = 8)
    (hfree : ∀ i, sR.rcv.contains (Tp22.buffer_hash i sa da) = false)
    (htO : 0 < tO) (xs : List (Nat × Nat × Nat)) (hsched : Sched cfgO tO xs) (hxs : Tp22.num_segments msg.length + 1 ≤ xs.length) :
    ∃ i, i < 8 ∧
      let r0 := (sendPgn cfgO sO t0 dp pf da prio sa msg tl ff).1
      let a1 := rxAll cfgR accR tR sR (txFrames r0.outs)
      let a2 := rxAll cfgO accO tO r0.st (txFrames a1.2)
      let q := run cfgO cfgR accO accR i sa da xs a2.1 a1.1
      deliveries (a1.2 ++ q.2.2.1) = [(7, rtsPgn dp pf da, sa, da, msg)] ∧
      q.2.1.rcv.get? (Tp22.buffer_hash i sa da) = none ∧
      deliveries (a2.2 ++ q.2.2.2.1) =
        [(7, rtsPgn dp pf da, da, sa, (Tp22.eom_ack da sa i msg.length (Tp22.num_segments msg.length) (rtsPgn dp pf da)).data)] ∧
      q.1.snd.get? (Tp22.buffer_hash i sa da) = none ∧ q.2.2.2.2 = .rts i := by
  have hdne : da ≠ 255 := by
    intro h; simp [h] at hb
  have hpos : 0 < msg.length := by omega
  have hn : 0 < Tp22.num_segments msg.length := by
    have := (num_segments_spec msg.length).1; omega
  have h24 : Tp22.num_segments msg.length < 16777216 := by
    have := (num_segments_spec msg.length).2 hpos; omega
  obtain ⟨i, pool, hg, hr0⟩ := sendPgn_rts cfgO sO t0 dp pf da prio sa msg tl ff hl hb hacc
  obtain ⟨g1, _, _⟩ := poolGet_some _ _ _ hg
  have hi : i < 8 := by
    rcases Nat.lt_or_ge i sO.rtsPool.length with hh | hh
    · omega
    · rw [List.getElem?_eq_none hh] at g1; cases g1
  refine ⟨i, hi, ?_⟩
  intro r0 a1 a2 q
  obtain ⟨n1, n2, n3, n4⟩ := mid_facts da sa hda hsa
  -- the responder and the RTS
  obtain ⟨p1, p2, p3⟩ := Dll21.tp_id_parse prio 77 da sa hprio (by omega) hda hsa
  have hrts := rts_accepted cfgR sR tR
    (MessageId.ofCanId (MessageId.can_id (MessageId.ofFields prio (PGN.value (PGN.ofFields 0 77 da)) sa))) da prio i (rtsPgn dp pf da)
    msg.length (Tp22.num_segments msg.length) (min cfgO.maxCmdt (Tp22.num_segments msg.length))
    (by rw [p1]; exact hsne) (by omega) (rtsPgn_lt _ _ _) hlen h24 (by omega) (by rw [p1]; exact hfree i)
  rw [p1] at hrts
  generalize hgdef : min cfgR.maxCmdt (min (min cfgO.maxCmdt (Tp22.num_segments msg.length)) (Tp22.num_segments msg.length)) = g at hrts
  have hg0 : 0 < g := by omega
  have hgn : g ≤ Tp22.num_segments msg.length := by omega
  have hgO : g ≤ cfgO.maxCmdt := by omega
  have hr0outs : txFrames r0.outs = [Tp22.rts prio sa da i (rtsPgn dp pf da) msg.length (Tp22.num_segments msg.length)
      (min cfgO.maxCmdt (Tp22.num_segments msg.length)) 0] := by
    show txFrames (sendPgn cfgO sO t0 dp pf da prio sa msg tl ff).1.outs = _
    rw [hr0]; rfl
  have hidr : (Tp22.rts prio sa da i (rtsPgn dp pf da) msg.length (Tp22.num_segments msg.length)
      (min cfgO.maxCmdt (Tp22.num_segments msg.length)) 0).id =
      MessageId.can_id (MessageId.ofFields prio (PGN.value (PGN.ofFields 0 77 da)) sa) := rfl
  let rR : Rcv := { pgn := rtsPgn dp pf da, session := i, messageSize := msg.length, numSegments := Tp22.num_segments msg.length,
                    nextPacket := 1, ctsBorder := some g, maxRec := some g, data := [], deadline := tR + Const.T22.T2, src := sa,
                    dest := da }
  let sR1 : St := { sR with rcv := sR.rcv.set (Tp22.buffer_hash i sa da) rR }
  have ha1 : a1 = (sR1, [Out.tx (Tp22.cts da sa i g 1 (rtsPgn dp pf da)), Out.wake] ++ []) := by
    show rxAll cfgR accR tR sR (txFrames r0.outs) = _
    rw [hr0outs]
    simp only [rxAll, hidr]
    rw [notify_fd_cm cfgR sR tR accR _ da _ p3 hda (Or.inr haR), hrts]
  -- the originator and the first CTS
  obtain ⟨_, _, c3⟩ := Dll21.tp_id_parse 7 77 sa da (by omega) (by omega) hsa hda
  have hb0 : r0.st.snd.get? (Tp22.buffer_hash i sa (midCm da sa).source_address) = some (rtsRec t0 dp pf da prio sa i msg) := by
    rw [n3]
    show (sendPgn cfgO sO t0 dp pf da prio sa msg tl ff).1.st.snd.get? _ = _
    rw [hr0]; exact PyDict.get?_set_self _ _ _
  have hcts := cts_accepted cfgO r0.st tO (midCm da sa) sa i (rtsPgn dp pf da) (rtsRec t0 dp pf da prio sa i msg) 0 g
    (by rw [n3]; exact hdne) (by omega) (rtsPgn_lt _ _ _) hb0 hg0 (by omega) hgO (by show 0 + g ≤ Tp22.num_segments msg.length; omega)
    (by show Tp22.num_segments msg.length < _; exact h24)
  rw [n3] at hcts
  have hidc : (Tp22.cts da sa i g 1 (rtsPgn dp pf da)).id =
      MessageId.can_id (MessageId.ofFields 7 (PGN.value (PGN.ofFields 0 77 sa)) da) := rfl
  let bN : Snd := { rtsRec t0 dp pf da prio sa i msg with next := ((0 : Nat) : Int), waitOn := some (((0 + g - 1 : Nat) : Int)),
                                                          state := S_SENDING_RTS_CTS, deadline := tO }
  let sO1 : St := { r0.st with snd := r0.st.snd.set (Tp22.buffer_hash i sa da) bN }
  have ha2 : a2 = (sO1, [Out.wake] ++ []) := by
    show rxAll cfgO accO tO r0.st (txFrames a1.2) = _
    rw [ha1]
    have : txFrames ([Out.tx (Tp22.cts da sa i g 1 (rtsPgn dp pf da)), Out.wake] ++ []) = [Tp22.cts da sa i g 1 (rtsPgn dp pf da)] := rfl
    rw [this]
    simp only [rxAll, hidc]
    rw [notify_fd_cm cfgO r0.st tO accO _ sa _ c3 hsa (Or.inr haO)]
    have e : (1 : Nat) = 0 + 1 := rfl
    rw [e]
    show ((processCm cfgO r0.st tO (midCm da sa) sa (Tp22.cts da sa i g (0 + 1) (rtsPgn dp pf da)).data).st,
      (processCm cfgO r0.st tO (midCm da sa) sa (Tp22.cts da sa i g (0 + 1) (rtsPgn dp pf da)).data).outs ++ []) = _
    rw [hcts]
  have hrun := run_delivers cfgO cfgR accO accR msg i sa da (rtsPgn dp pf da) g hpos hlen (rtsPgn_lt _ _ _) (by omega) hsa hda hdne hsne
    haO haR hg0 (by omega) hgO (Tp22.num_segments msg.length) xs a2.1 a1.1 0 (g - 1) tO bN rR (by omega) (by omega) (by omega)
    (by rw [ha2]; exact PyDict.get?_set_self _ _ _) (by rw [ha1]; exact PyDict.get?_set_self _ _ _)
    ⟨rfl, rfl, rfl, rfl, by show some (((0 + g - 1 : Nat) : Int)) = some (((g - 1 : Nat) : Int)); congr 2; omega, rfl,
      by show tO ≠ 0; omega, rfl, rfl, rfl, rfl⟩
    ⟨rfl, rfl, rfl, rfl, by show some g = some (g - 1 + 1); congr 1; omega, rfl, rfl⟩ (by show tO ≤ tO; omega) hsched hxs
  simp only at hrun
  obtain ⟨i1, i2, i3, i4, i5⟩ := hrun
  refine ⟨?_, i2, ?_, i4, i5⟩
  · rw [deliveries_append, i1, ha1]; simp [deliveries]
  · rw [deliveries_append, i3, ha2]; simp [deliveries]


/-- the hypotheses of `c02_rtscts_end_to_end` / `c02_bam_end_to_end` are satisfiable: a 130-byte message 0x80 → 0x90 (and a
    130-byte PDU2 broadcast) on empty stacks, four rounds / passes 10 ms apart -/
example : (sendPgn {} {} 1000 0 208 0x90 6 0x80 (List.replicate 130 7) 0 3).2 = true ∧
    (0x90 == Const.Addr.GLOBAL || PGN.is_pdu2_format (PGN.ofFields 0 208 0x90)) = false ∧
    Sched {} 3000 [(10000, 10001, 10002), (20000, 20001, 20002), (30000, 30001, 30002), (40000, 40001, 40002)] ∧
    Tp22.num_segments (List.replicate 130 7).length + 1 ≤ 4 ∧
    (sendPgn {} {} 1000 0 254 202 6 0x80 (List.replicate 130 7) 0 3).2 = true ∧
    Due {} (1000 + ({} : Cfg).bamInterval) [11000, 21000, 31000, 41000] := by
  refine ⟨by decide +kernel, by decide, ?_, by decide +kernel, by decide +kernel, ?_⟩
  · simp [Sched]
  · simp [Due, Const.Default.bam_interval_22]

section SessionKeys
open J1939.Bits

/-- the J1939-22 session key in arithmetic form -/
theorem hash22_arith (i s d : Nat) : Tp22.buffer_hash i s d = i % 16 * 65536 + s % 256 * 256 + d % 256 := by
  simp only [Tp22.buffer_hash, and_255, and_15, shl_8, shl_16]
  have o1 : s % 256 * 256 ||| d % 256 = s % 256 * 256 + d % 256 := by
    have := mul_or (s % 256) (d % 256) 8 (by simp only [Nat.reducePow]; omega); simpa using this
  have o2 : i % 16 * 65536 ||| (s % 256 * 256 + d % 256) = i % 16 * 65536 + (s % 256 * 256 + d % 256) := by
    have := mul_or (i % 16) (s % 256 * 256 + d % 256) 16 (by simp only [Nat.reducePow]; omega); simpa using this
  rw [Nat.or_assoc, o1, o2]; omega

/-- CONCURRENT SESSIONS NEVER SHARE A BUFFER: the key under which a J1939-22 transport session is stored and looked up
    (regenerated from the source's `_buffer_hash`) is injective on all 16 session numbers × 256 sources × 256 destinations:
    the 8 RTS/CTS and 4 BAM sessions a stack may run at once, and the sessions of different peers, are kept apart -/
theorem c02_session_key_injective (i s d i' s' d' : Nat) (hi : i < 16) (hs : s < 256) (hd : d < 256)
    (hi' : i' < 16) (hs' : s' < 256) (hd' : d' < 256)
    (h : Tp22.buffer_hash i s d = Tp22.buffer_hash i' s' d') : i = i' ∧ s = s' ∧ d = d' := by
  rw [hash22_arith, hash22_arith] at h
  omega

end SessionKeys

end J1939.Props.C02
