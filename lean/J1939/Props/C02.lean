/-
  C02 — J1939-22 (FD) transport delivers every accepted message intact, exactly once; capacity refusal.
  (first part: capacity; the session theorems follow below)
-/
import J1939.Model.Dll22
import J1939.Props.C03
import J1939.Lemmas.Trace22
import J1939.Lemmas.Bits
import J1939.Lemmas.PyDict
import J1939.Lemmas.Tactics
namespace J1939.Props.C02
open J1939 J1939.Gen J1939.Dll22

/-- REFUSAL IS PURE: a message of more than 60 bytes for which no session number of the needed kind is free is refused:
    send_pgn returns False, emits nothing, raises nothing and leaves the state EQUAL -/
theorem c02_refusal_pure (cfg : Cfg) (s : St) (now dp pf ps prio sa : Nat) (data : List Nat) (tl ff : Nat) (hl : 60 < data.length)
    (hfull : (if ps == Const.Addr.GLOBAL || PGN.is_pdu2_format (PGN.ofFields 0 pf ps) then poolGet s.bamPool else poolGet s.rtsPool) = none) :
    sendPgn cfg s now dp pf ps prio sa data tl ff = ({ st := s, outs := [], err := none }, false) := by
  have hl' : ¬ data.length ≤ Const.DL22.TP := by
    have : Const.DL22.TP = 60 := by decide
    omega
  unfold sendPgn
  simp only [hl', if_false]
  simp only [hfull]

/-- a pool refuses iff every number is in use -/
theorem poolGet_none_iff (p : List Bool) : poolGet p = none ↔ ∀ b ∈ p, b = false := by
  induction p with
  | nil => simp [poolGet]
  | cons b p ih =>
    cases b with
    | true => simp [poolGet]
    | false => simp [poolGet, ih]

/-- taking a number: it was free, is marked used, every other flag is unchanged, the pool keeps its size -/
theorem poolGet_some (p : List Bool) (i : Nat) (q : List Bool) (h : poolGet p = some (i, q)) :
    p[i]? = some true ∧ q = p.set i false ∧ q.length = p.length := by
  induction p generalizing i q with
  | nil => simp [poolGet] at h
  | cons b p ih =>
    cases b with
    | true =>
      simp only [poolGet, Option.some.injEq, Prod.mk.injEq] at h
      obtain ⟨rfl, rfl⟩ := h
      simp
    | false =>
      simp only [poolGet, Option.map_eq_some_iff] at h
      obtain ⟨⟨j, r⟩, hj, he⟩ := h
      simp only [Prod.mk.injEq] at he
      obtain ⟨rfl, rfl⟩ := he
      obtain ⟨h1, h2, h3⟩ := ih j r hj
      simp [h1, h2, h3]

/-- an accepted long message takes exactly one number of its kind -/
theorem c02_accept_takes_one (cfg : Cfg) (s : St) (now dp pf ps prio sa : Nat) (data : List Nat) (tl ff : Nat) (hl : 60 < data.length)
    (hacc : (sendPgn cfg s now dp pf ps prio sa data tl ff).2 = true) :
    let s' := (sendPgn cfg s now dp pf ps prio sa data tl ff).1.st
    ((ps == Const.Addr.GLOBAL || PGN.is_pdu2_format (PGN.ofFields 0 pf ps)) = true →
        ∃ i, s.bamPool[i]? = some true ∧ s'.bamPool = s.bamPool.set i false ∧ s'.rtsPool = s.rtsPool) ∧
    ((ps == Const.Addr.GLOBAL || PGN.is_pdu2_format (PGN.ofFields 0 pf ps)) = false →
        ∃ i, s.rtsPool[i]? = some true ∧ s'.rtsPool = s.rtsPool.set i false ∧ s'.bamPool = s.bamPool) := by
  have hl' : ¬ data.length ≤ Const.DL22.TP := by
    have : Const.DL22.TP = 60 := by decide
    omega
  unfold sendPgn at hacc ⊢
  simp only [hl', if_false] at hacc ⊢
  refine ⟨?_, ?_⟩ <;> intro hb <;> simp only [hb, if_true, Bool.false_eq_true, if_false] at hacc ⊢
  · cases hg : poolGet s.bamPool with
    | none => simp [hg] at hacc
    | some r =>
      obtain ⟨i, q⟩ := r
      obtain ⟨h1, h2, _⟩ := poolGet_some _ _ _ hg
      exact ⟨i, h1, by simp [h2], by simp⟩
  · cases hg : poolGet s.rtsPool with
    | none => simp [hg] at hacc
    | some r =>
      obtain ⟨i, q⟩ := r
      obtain ⟨h1, h2, _⟩ := poolGet_some _ _ _ hg
      exact ⟨i, h1, by simp [h2], by simp⟩

theorem processCm_keeps_pools (cfg : Cfg) (s : St) (now : Nat) (mid : MessageId) (dest : Nat) (data : List Nat) :
    (processCm cfg s now mid dest data).st.rtsPool = s.rtsPool ∧ (processCm cfg s now mid dest data).st.bamPool = s.bamPool := by
  unfold processCm
  dsimp only
  split
  · exact ⟨rfl, rfl⟩
  · split
    · exact ⟨rfl, rfl⟩
    · (repeat' split) <;> exact ⟨rfl, rfl⟩

theorem processDt_keeps_pools (s : St) (now : Nat) (mid : MessageId) (dest : Nat) (data : List Nat) :
    (processDt s now mid dest data).st.rtsPool = s.rtsPool ∧ (processDt s now mid dest data).st.bamPool = s.bamPool := by
  unfold processDt; dsimp only; (repeat' split) <;> exact ⟨rfl, rfl⟩

/-- INBOUND NEVER TOUCHES THE POOLS: no received frame — whatever it is — changes either session pool -/
theorem c02_notify_keeps_pools (cfg : Cfg) (s : St) (now : Nat) (acc : Nat → Bool) (canId : Nat) (data : List Nat) :
    (notify cfg s now acc canId data).st.rtsPool = s.rtsPool ∧ (notify cfg s now acc canId data).st.bamPool = s.bamPool := by
  unfold notify
  dsimp only
  (repeat' split) <;> first
    | exact ⟨rfl, rfl⟩
    | exact processCm_keeps_pools ..
    | exact processDt_keeps_pools ..

/-- the advertised capacity is the reflected pool sizes: 8 destination-specific and 4 broadcast sessions -/
theorem c02_capacity : Const.Pool.rts_cts = 8 ∧ Const.Pool.bam = 4 ∧ (St.rtsPool {}).length = 8 ∧ (St.bamPool {}).length = 4 := by decide

-- ------------------------------------------------------------------------------------------------ the data path
/-- SEGMENTATION: the chunks the originator keeps are the consecutive 60-byte pieces of the message; concatenated
    they are the message (for every length; a length that is a multiple of 60 has an empty last chunk that is never sent) -/
theorem c02_chunks_get (data : List Nat) (k : Nat) (hk : k < Tp22.num_segments data.length) :
    (chunks60 data)[k]? = some ((data.drop (60 * k)).take 60) := by
  unfold chunks60
  have hTP : Const.DL22.TP = 60 := rfl
  simp only [hTP]
  by_cases hfull : k < data.length / 60
  · rw [List.getElem?_append_left (by simpa using hfull)]
    simp [hfull, Nat.mul_comm]
  · have hns : Tp22.num_segments data.length = data.length / 60 + (if data.length % 60 != 0 then 1 else 0) := by
      unfold Tp22.num_segments Py.b2n; rfl
    have hke : k = data.length / 60 := by
      rw [hns] at hk
      split at hk <;> omega
    rw [List.getElem?_append_right (by simp; omega)]
    simp only [List.length_map, List.length_range, hke, Nat.sub_self, List.getElem?_cons_zero, Option.some.injEq]
    rw [Nat.mul_comm]
    exact (List.take_of_length_le (by simp; omega)).symm

theorem c02_chunks_concat (data : List Nat) : (chunks60 data).flatten = data := by
  unfold chunks60
  have hTP : Const.DL22.TP = 60 := rfl
  simp only [hTP, List.flatten_append, List.flatten_cons, List.flatten_nil, List.append_nil]
  generalize data.length / 60 = n
  induction n with
  | zero => simp
  | succ n ih =>
    rw [List.range_succ, List.map_append, List.flatten_append]
    simp only [List.map_cons, List.map_nil, List.flatten_cons, List.flatten_nil, List.append_nil]
    have : (List.map (fun k => List.take 60 (List.drop (k * 60) data)) (List.range n)).flatten ++ List.take 60 (List.drop (n * 60) data) ++
        List.drop ((n + 1) * 60) data = (List.map (fun k => List.take 60 (List.drop (k * 60) data)) (List.range n)).flatten ++ List.drop (n * 60) data := by
      rw [List.append_assoc]
      congr 1
      have : (n + 1) * 60 = n * 60 + 60 := by omega
      rw [this, ← List.drop_drop, List.take_append_drop]
    rw [this]; exact ih

/-- the payload of the FD.TP.DT frame this stack builds: 4 header bytes, the chunk, and 0xFF up to the next CAN FD
    length — none after a full 60-byte chunk -/
theorem ins4 (l : List Nat) (a b c d : Nat) : Py.insert (Py.insert (Py.insert (Py.insert l 0 a) 1 b) 2 c) 3 d = a :: b :: c :: d :: l := by
  simp [Py.insert]
theorem dt22_data (src dest session seg : Nat) (chunk : List Nat) (hc : chunk.length ≤ 60) :
    ∃ pad, (Tp22.dt Const.LUT_FD_DLC src dest session seg chunk 0).data =
      [(0 &&& 15) ||| ((session &&& 15) <<< 4), seg &&& 255, (seg >>> 8) &&& 255, (seg >>> 16) &&& 255] ++ chunk ++ pad ∧
      (chunk.length = 60 → pad = []) := by
  unfold Tp22.dt
  simp only [ins4]
  by_cases h : chunk.length = 60
  · refine ⟨[], ?_, fun _ => rfl⟩
    have : decide ((((0 &&& 15) ||| ((session &&& 15) <<< 4)) :: (seg &&& 255) :: ((seg >>> 8) &&& 255) :: ((seg >>> 16) &&& 255) :: chunk).length ≥ 60 + 4) = true := by
      simp [h]
    simp only [this, if_true, List.append_nil, List.cons_append, List.nil_append]
    exact List.take_of_length_le (by simp [h])
  · have : decide ((((0 &&& 15) ||| ((session &&& 15) <<< 4)) :: (seg &&& 255) :: ((seg >>> 8) &&& 255) :: ((seg >>> 16) &&& 255) :: chunk).length ≥ 60 + 4) = false := by
      simp; omega
    simp only [this, Bool.false_eq_true, if_false, Py.pad]
    exact ⟨_, rfl, fun h' => absurd h' h⟩

/-- THE FRAMES THIS STACK BUILDS ARE SEGMENT FRAMES: the receive path extracts from the k-th FD.TP.DT frame of a message
    exactly the session, the segment number k+1 and the k-th chunk (plus padding on the last one only) -/
theorem c02_built_frame_is_segframe (data : List Nat) (src dest session k : Nat) (hs : session < 16)
    (hk : k < Tp22.num_segments data.length) (hk24 : k + 1 < 2 ^ 24) :
    SegFrame data session k (Tp22.dt Const.LUT_FD_DLC src dest session (k + 1) ((data.drop (60 * k)).take 60) 0).data := by
  have hcl : ((data.drop (60 * k)).take 60).length ≤ 60 := by simp; omega
  obtain ⟨pad, hd, hpad⟩ := dt22_data src dest session (k + 1) ((data.drop (60 * k)).take 60) hcl
  have hne : 0 < ((data.drop (60 * k)).take 60).length := by
    have := (num_segments_spec data.length)
    have hns : Tp22.num_segments data.length = data.length / 60 + (if data.length % 60 != 0 then 1 else 0) := by
      unfold Tp22.num_segments Py.b2n; rfl
    simp only [List.length_take, List.length_drop]
    rw [hns] at hk
    split at hk <;> rename_i h <;> simp at h <;> omega
  rw [hd]
  refine ⟨by simp only [List.length_append, List.length_cons, List.length_nil]; omega, ?_, ?_, ⟨pad, by simp, ?_⟩⟩
  · simp only [Tp22.dt_session, Py.idx, List.cons_append, List.getD_cons_zero]
    rw [Bits.and_15, Bits.and_15, Bits.shl_4, Bits.shr_4, Bits.and_15]
    have : 0 % 16 ||| session % 16 * 16 = session % 16 * 16 := by simp
    rw [this]; omega
  · simp only [Tp22.dt_segment, Py.idx, List.cons_append, List.getD_cons_succ, List.getD_cons_zero]
    have h24 : k + 1 < 16777216 := by simpa using hk24
    rw [Bits.and_255, Bits.and_255, Bits.and_255, Bits.and_255, Bits.and_255, Bits.and_255, Bits.shr_8, Bits.shr_16, Bits.shl_8, Bits.shl_16]
    have e1 : (k + 1) % 256 % 256 ||| (k + 1) / 256 % 256 % 256 * 256 = (k + 1) / 256 % 256 * 256 + (k + 1) % 256 := by
      have := Bits.mul_or ((k + 1) / 256 % 256) ((k + 1) % 256) 8 (by omega)
      simp only [Nat.mod_mod] at *
      rw [Nat.or_comm]; simpa using this
    rw [e1]
    have e2 : ((k + 1) / 256 % 256 * 256 + (k + 1) % 256) ||| (k + 1) / 65536 % 256 % 256 * 65536
        = (k + 1) / 65536 % 256 * 65536 + ((k + 1) / 256 % 256 * 256 + (k + 1) % 256) := by
      have := Bits.mul_or ((k + 1) / 65536 % 256) ((k + 1) / 256 % 256 * 256 + (k + 1) % 256) 16 (by omega)
      simp only [Nat.mod_mod] at *
      rw [Nat.or_comm]; simpa using this
    rw [e2]; omega
  · by_cases h60 : ((data.drop (60 * k)).take 60).length = 60
    · exact Or.inr (hpad h60)
    · left
      simp only [List.length_take, List.length_drop] at h60 hne
      omega

/-- C02, RECEPTION IS EXACT (FD.TP, broadcast and connection mode): a responder record opened for a message of
    `data.length` bytes, fed the segment frames of `data` in order at arbitrary times (the frames of this stack or of any
    conforming originator — its source address is not the global address, repair of D29) and then the end-of-message status, hands `data` up EXACTLY ONCE — byte-identical, with the
    announced PGN — removes the record and never touches the send table -/
theorem c02_reception_exact (cfg : Cfg) (data : List Nat) (hpos : 0 < data.length) (mid : MessageId) (dest session : Nat)
    (frames : List (Nat × List Nat)) (hfl : frames.length = Tp22.num_segments data.length)
    (hframes : ∀ i (h : i < frames.length), SegFrame data session i (frames[i]).2)
    (s : St) (r : Rcv) (hr : s.rcv.get? (Tp22.buffer_hash session mid.source_address dest) = some r)
    (hsize : r.messageSize = data.length) (hnext : r.nextPacket = 1) (hdata : r.data = [])
    (hmr : dest ≠ Const.Addr.GLOBAL → (∃ b, r.ctsBorder = some b) ∧ ∃ m, r.maxRec = some m)
    (now : Nat) (eom : List Nat) (hel : 12 ≤ eom.length) (hec : Tp22.cm_control eom = Const.CM22.EOM_STATUS)
    (hes : Tp22.cm_session eom = session) (hesz : Tp22.cm_size eom = data.length) (hen : Tp22.cm_segment eom = r.numSegments)
    (hsrc : mid.source_address ≠ Const.Addr.GLOBAL) :
    let s1 := (feedDt s mid dest frames).1
    deliveries ((feedDt s mid dest frames).2 ++ (processCm cfg s1 now mid dest eom).outs)
      = [(mid.priority, r.pgn, mid.source_address, dest, data)] ∧
    (processCm cfg s1 now mid dest eom).err = none ∧
    (processCm cfg s1 now mid dest eom).st.rcv.get? (Tp22.buffer_hash session mid.source_address dest) = none ∧
    (processCm cfg s1 now mid dest eom).st.snd = s.snd := by
  intro s1
  have hn : 0 < Tp22.num_segments data.length := by
    have := (num_segments_spec data.length).1; omega
  obtain ⟨a1, a2, r', hr', h1, h2, h3, h4⟩ := feed22_accumulates data hpos mid dest session (Tp22.num_segments data.length) 0
    (by omega) hn frames hfl (by intro i hi; simpa using hframes i hi) s r hr hsize (by simpa using hnext) (by simpa using hdata) hmr
  obtain ⟨e1, e2, e3, e4⟩ := eom22_delivers cfg s1 now mid dest eom r' session hel hec hes (by rw [hesz, h2]) (by rw [hen, h3]) hr'
    (by rw [h1, h2]) hsrc
  refine ⟨?_, e2, e3, by rw [e4, a2]⟩
  rw [deliveries_append, a1, e1, h4, h1]; rfl

/-! ## Broadcast (FD BAM) from end to end -/

/-- successive background passes over ONE broadcast record; frames and the record left -/
def bamRun (cfg : Cfg) : List Nat → Snd → List Out × Option Snd × Release
  | [], b => ([], some b, .none)
  | t :: ts, b =>
    let r := tickSndOne cfg t b
    match r.1 with
    | none => (r.2.1, none, r.2.2.2.2)
    | some b' => let q := bamRun cfg ts b'; (r.2.1 ++ q.1, q.2)

/-- every pass of the list finds the record due -/
def Due (cfg : Cfg) : Nat → List Nat → Prop
  | _, [] => True
  | d, t :: ts => d ≠ 0 ∧ d ≤ t ∧ Due cfg (t + cfg.bamInterval) ts

/-- one due pass over a broadcast record that still has segments to send -/
theorem tickSndOne_bam (cfg : Cfg) (t : Nat) (b : Snd) (msg : List Nat) (j : Nat) (hs : b.state = S_SENDING_BAM)
    (hd0 : b.deadline ≠ 0) (hdt : b.deadline ≤ t) (hdata : b.data = chunks60 msg) (hnext : b.next = (j : Int))
    (hj : j < Tp22.num_segments msg.length) :
    tickSndOne cfg t b =
      (some (if (j : Int) + 1 < (b.numSegments : Int) then { b with next := (j : Int) + 1, deadline := t + cfg.bamInterval }
             else { b with next := (j : Int) + 1, state := S_SENDING_EOM_STATUS, deadline := t + cfg.bamInterval }),
       [.tx (Tp22.dt Const.LUT_FD_DLC b.src b.dest b.session (j + 1) ((msg.drop (60 * j)).take 60) 0)], none,
       some (t + cfg.bamInterval), .none) := by
  have e1 : (b.deadline != 0) = true := by simpa using hd0
  have e2 : ¬ b.deadline > t := by omega
  have n15 : (S_SENDING_BAM == S_WAITING_CTS) = false := by decide
  have n25 : (S_SENDING_BAM == S_SENDING_RTS_CTS) = false := by decide
  have n35 : (S_SENDING_BAM == S_WAITING_EOM_ACK) = false := by decide
  have n45 : (S_SENDING_BAM == S_EOM_ACK_RECEIVED) = false := by decide
  have hidx : pyIndex b.data b.next = some ((msg.drop (60 * j)).take 60) := by
    rw [hdata, hnext]
    unfold pyIndex
    have : (0 : Int) ≤ (j : Int) := by omega
    simp only [this, if_true, Int.toNat_natCast]
    exact c02_chunks_get msg j hj
  have htn : ((j : Int) + 1).toNat = j + 1 := by omega
  rw [hnext] at hidx
  unfold tickSndOne
  simp only [e1, if_true, e2, if_false, hs, n15, n25, n35, n45, Bool.false_eq_true, beq_self_eq_true, hnext, hidx, htn]
  split <;> rfl
/-- the due pass over a record in SENDING_EOM_STATUS: the end-of-message status goes out, the record is deleted and its
    number returns to the broadcast pool -/
theorem tickSndOne_eoms (cfg : Cfg) (t : Nat) (b : Snd) (hs : b.state = S_SENDING_EOM_STATUS) (hd0 : b.deadline ≠ 0) (hdt : b.deadline ≤ t) :
    tickSndOne cfg t b =
      (none, [.tx (Tp22.eom_status b.src b.dest b.session b.messageSize b.numSegments b.pgn 0 0)], none, none, .bam b.session) := by
  have e1 : (b.deadline != 0) = true := by simpa using hd0
  have e2 : ¬ b.deadline > t := by omega
  have n16 : (S_SENDING_EOM_STATUS == S_WAITING_CTS) = false := by decide
  have n26 : (S_SENDING_EOM_STATUS == S_SENDING_RTS_CTS) = false := by decide
  have n36 : (S_SENDING_EOM_STATUS == S_WAITING_EOM_ACK) = false := by decide
  have n46 : (S_SENDING_EOM_STATUS == S_EOM_ACK_RECEIVED) = false := by decide
  have n56 : (S_SENDING_EOM_STATUS == S_SENDING_BAM) = false := by decide
  unfold tickSndOne
  simp only [e1, if_true, e2, if_false, hs, n16, n26, n36, n46, n56, Bool.false_eq_true, beq_self_eq_true]

/-- ORIGINATOR, broadcast (FD): m + 1 due passes over a record with m segments left put exactly the FD.TP.DT frames of
    those segments on the bus — one per pass, in order, the 60-byte chunks of the message — then the end-of-message
    status; the last pass deletes the record and returns its number to the broadcast pool -/
theorem c02_bam_originator_frames (cfg : Cfg) (msg : List Nat) (m : Nat) : ∀ (times : List Nat) (b : Snd) (j : Nat),
    times.length = m + 1 → 0 < m → b.state = S_SENDING_BAM → b.data = chunks60 msg → b.next = (j : Int) →
    b.numSegments = Tp22.num_segments msg.length → j + m = Tp22.num_segments msg.length → Due cfg b.deadline times →
    bamRun cfg times b =
      ((List.range' j m).map (fun k => Out.tx (Tp22.dt Const.LUT_FD_DLC b.src b.dest b.session (k + 1) ((msg.drop (60 * k)).take 60) 0)) ++
        [.tx (Tp22.eom_status b.src b.dest b.session b.messageSize b.numSegments b.pgn 0 0)], none, .bam b.session) := by
  induction m with
  | zero => intro times b j _ h; omega
  | succ m ih =>
    intro times b j ht _ hs hdata hnext hn hjm hdue
    obtain ⟨t, times, rfl⟩ : ∃ t ts, times = t :: ts := by
      cases times with
      | nil => simp at ht
      | cons t ts => exact ⟨t, ts, rfl⟩
    simp only [List.length_cons, Nat.add_right_cancel_iff] at ht
    obtain ⟨hd0, hdt, hrest⟩ := hdue
    have h1 := tickSndOne_bam cfg t b msg j hs hd0 hdt hdata hnext (by omega)
    by_cases hlast : m = 0
    · subst hlast
      have hc : ¬ ((j : Int) + 1 < (b.numSegments : Int)) := by rw [hn]; omega
      simp only [hc, if_false] at h1
      obtain ⟨t', rfl⟩ : ∃ t', times = [t'] := by
        match times, ht with
        | [t'], _ => exact ⟨t', rfl⟩
      obtain ⟨hd0', hdt', _⟩ := hrest
      have h2 := tickSndOne_eoms cfg t' { b with next := (j : Int) + 1, state := S_SENDING_EOM_STATUS, deadline := t + cfg.bamInterval }
        rfl hd0' hdt'
      simp only [bamRun, h1, h2, List.range'_one, List.map_cons, List.map_nil, List.append_nil, List.singleton_append, Nat.zero_add]
    · have hc : (j : Int) + 1 < (b.numSegments : Int) := by rw [hn]; omega
      simp only [hc, if_true] at h1
      have := ih times { b with next := (j : Int) + 1, deadline := t + cfg.bamInterval } (j + 1) ht (by omega) hs hdata
        (by simp only; omega) hn (by omega) hrest
      dsimp only at this
      simp only [bamRun, h1, this, List.range'_succ, List.map_cons, List.cons_append, List.nil_append]
/-- the PGN a broadcast announces: PS cleared for a PDU1 PGN -/
def bamPgn (dp pf ps : Nat) : Nat :=
  if PGN.is_pdu1_format (PGN.ofFields dp pf ps) then PGN.value { PGN.ofFields dp pf ps with pdu_specific := 0 }
  else PGN.value (PGN.ofFields dp pf ps)

theorem bamPgn_lt (dp pf ps : Nat) : bamPgn dp pf ps < 16777216 := by
  unfold bamPgn
  have w := Lemmas.pgn_ofFields_wf dp pf ps
  have w0 : Lemmas.PGN.WF { PGN.ofFields dp pf ps with pdu_specific := 0 } := by
    obtain ⟨a, b, _⟩ := w
    exact ⟨a, b, by simp⟩
  split
  · rw [Lemmas.pgn_value_arith _ w0]; obtain ⟨a, b, c⟩ := w0; simp only at a b c ⊢; omega
  · rw [Lemmas.pgn_value_arith _ w]; obtain ⟨a, b, c⟩ := w; omega

/-- the send record of an FD broadcast that got session number `i` -/
def bamRec (cfg : Cfg) (now dp pf ps prio sa i : Nat) (msg : List Nat) : Snd :=
  { pgn := bamPgn dp pf ps, priority := prio, session := i, messageSize := msg.length, numSegments := Tp22.num_segments msg.length,
    data := chunks60 msg, state := S_SENDING_BAM, deadline := now + cfg.bamInterval, src := sa, dest := Const.Addr.GLOBAL,
    next := 0, waitOn := none }

/-- an accepted broadcast of more than 60 bytes, exactly -/
theorem sendPgn_bam (cfg : Cfg) (s : St) (now dp pf ps prio sa : Nat) (msg : List Nat) (tl ff : Nat) (hl : 60 < msg.length)
    (hb : (ps == Const.Addr.GLOBAL || PGN.is_pdu2_format (PGN.ofFields 0 pf ps)) = true)
    (hacc : (sendPgn cfg s now dp pf ps prio sa msg tl ff).2 = true) :
    ∃ i pool, poolGet s.bamPool = some (i, pool) ∧
      (sendPgn cfg s now dp pf ps prio sa msg tl ff).1 =
        { st := { s with bamPool := pool, snd := s.snd.set (Tp22.buffer_hash i sa Const.Addr.GLOBAL) (bamRec cfg now dp pf ps prio sa i msg) },
          outs := [.tx (Tp22.bam prio sa i (bamPgn dp pf ps) msg.length (Tp22.num_segments msg.length)), .wake] } := by
  have hl' : ¬ msg.length ≤ Const.DL22.TP := by
    have : Const.DL22.TP = 60 := rfl
    omega
  unfold sendPgn at hacc ⊢
  simp only [hl', if_false, hb, if_true] at hacc ⊢
  cases hg : poolGet s.bamPool with
  | none => simp [hg] at hacc
  | some r =>
    obtain ⟨i, pool⟩ := r
    exact ⟨i, pool, rfl, by simp [bamRec, bamPgn]⟩
/-- RESPONDER, the broadcast announcement on a free (session, source) slot: a receive record for the announced size, segment
    count and PGN, no data yet; nothing delivered, nothing raised -/
theorem rx_bam (cfg : Cfg) (s : St) (now : Nat) (mid : MessageId) (prio i pgnv size n : Nat)
    (hsrc : mid.source_address ≠ Const.Addr.GLOBAL) (hi : i < 16) (hs : size < 16777216) (hn : n < 16777216) (hp : pgnv < 16777216)
    (hfree : s.rcv.contains (Tp22.buffer_hash i mid.source_address Const.Addr.GLOBAL) = false) :
    let r := processCm cfg s now mid Const.Addr.GLOBAL (Tp22.bam prio mid.source_address i pgnv size n).data
    r.err = none ∧ r.outs = [.wake] ∧ r.st.snd = s.snd ∧
    ∃ rc, r.st.rcv.get? (Tp22.buffer_hash i mid.source_address Const.Addr.GLOBAL) = some rc ∧ rc.messageSize = size ∧
      rc.numSegments = n ∧ rc.nextPacket = 1 ∧ rc.data = [] ∧ rc.pgn = pgnv := by
  intro r
  have hd : (Tp22.bam prio mid.source_address i pgnv size n).data = Ref.fdCm 4 i size n 255 0 pgnv :=
    (J1939.Props.C03.c03_22_builders mid.source_address 0 prio i pgnv size n 0 0 0 0 0 0).2.2.2.2.1
  obtain ⟨d1, d2, d3, d4, _, d6, d7⟩ := J1939.Props.C03.c03_22_decode_cm 4 i size n 255 0 pgnv (by omega) hi hs hn (by omega) hp
  have hsrc' : (mid.source_address == Const.Addr.GLOBAL) = false := by simpa using hsrc
  simp only [r]
  rw [hd]
  generalize Ref.fdCm 4 i size n 255 0 pgnv = data at *
  have hl : ¬ data.length < 12 := by omega
  have c1 : (4 == Const.CM22.RTS) = false := by decide
  have c2 : (4 == Const.CM22.CTS) = false := by decide
  have c3 : (4 == Const.CM22.EOM_STATUS) = false := by decide
  have c4 : (4 == Const.CM22.EOM_ACK) = false := by decide
  have c5 : (4 == Const.CM22.BAM) = true := by decide
  unfold processCm
  simp only [hl, if_false, hsrc', d1, d2, d3, d4, d6, c1, c2, c3, c4, c5, Bool.false_eq_true, if_true, hfree]
  exact ⟨trivial, trivial, trivial, _, PyDict.get?_set_self _ _ _, rfl, rfl, rfl, rfl, rfl⟩
/-- the frames among the outputs -/
def txFrames (o : List Out) : List Frame :=
  o.filterMap (fun x => match x with | .tx f => some f | _ => none)

theorem txFrames_map {α : Type} (l : List α) (g : α → Frame) : txFrames (l.map (fun k => Out.tx (g k))) = l.map g := by
  induction l with
  | nil => rfl
  | cons a l ih => simp only [List.map_cons, txFrames, List.filterMap_cons] at ih ⊢; rw [ih]

theorem txFrames_append (a b : List Out) : txFrames (a ++ b) = txFrames a ++ txFrames b := by
  simp [txFrames, List.filterMap_append]

/-- FD BROADCAST FROM END TO END (J1939-22): an accepted broadcast of more than 60 bytes takes a session number `i` from the
    broadcast pool; served by n + 1 due passes (n = ⌈len/60⌉) it puts exactly the announcement, the n FD.TP.DT frames
    in order and the end-of-message status on the bus, the record is deleted and number `i` returned to the pool.  ANY
    node without a stale record for (i, source) that handles these frames — at arbitrary times, under its own
    configuration — delivers the message EXACTLY ONCE: announced PGN, the originator's address, destination 255, the
    byte-identical payload; and keeps no receive record -/
theorem c02_bam_end_to_end (cfgO cfgR : Cfg) (sO sR : St) (midB mid : MessageId) (t0 dp pf ps prio tl ff : Nat) (msg : List Nat)
    (hl : 60 < msg.length) (hmax : msg.length < 16777216)
    (hsB : midB.source_address = mid.source_address) (hne : mid.source_address ≠ Const.Addr.GLOBAL)
    (hb : (ps == Const.Addr.GLOBAL || PGN.is_pdu2_format (PGN.ofFields 0 pf ps)) = true)
    (hacc : (sendPgn cfgO sO t0 dp pf ps prio mid.source_address msg tl ff).2 = true)
    (hwf : sO.bamPool.length = 4)
    (passes : List Nat) (hpl : passes.length = Tp22.num_segments msg.length + 1) (hdue : Due cfgO (t0 + cfgO.bamInterval) passes)
    (hfree : ∀ i, sR.rcv.contains (Tp22.buffer_hash i mid.source_address Const.Addr.GLOBAL) = false)
    (tB tE : Nat) (rxTimes : List Nat) (hrl : rxTimes.length = Tp22.num_segments msg.length) :
    ∃ i, i < 4 ∧
      let r0 := (sendPgn cfgO sO t0 dp pf ps prio mid.source_address msg tl ff).1
      let b := bamRec cfgO t0 dp pf ps prio mid.source_address i msg
      let run := bamRun cfgO passes b
      let bamF := Tp22.bam prio mid.source_address i (bamPgn dp pf ps) msg.length (Tp22.num_segments msg.length)
      let dtFs := (List.range' 0 (Tp22.num_segments msg.length)).map
        (fun k => Tp22.dt Const.LUT_FD_DLC mid.source_address Const.Addr.GLOBAL i (k + 1) ((msg.drop (60 * k)).take 60) 0)
      let eomF := Tp22.eom_status mid.source_address Const.Addr.GLOBAL i msg.length (Tp22.num_segments msg.length) (bamPgn dp pf ps) 0 0
      r0.st.snd.get? (Tp22.buffer_hash i mid.source_address Const.Addr.GLOBAL) = some b ∧
      txFrames r0.outs ++ txFrames run.1 = bamF :: (dtFs ++ [eomF]) ∧ run.2.1 = none ∧ run.2.2 = .bam i ∧
      let a1 := processCm cfgR sR tB midB Const.Addr.GLOBAL bamF.data
      let a2 := feedDt a1.st mid Const.Addr.GLOBAL (rxTimes.zip (dtFs.map (·.data)))
      let a3 := processCm cfgR a2.1 tE mid Const.Addr.GLOBAL eomF.data
      deliveries (a1.outs ++ a2.2 ++ a3.outs) = [(mid.priority, bamPgn dp pf ps, mid.source_address, Const.Addr.GLOBAL, msg)] ∧
      a3.err = none ∧ a3.st.rcv.get? (Tp22.buffer_hash i mid.source_address Const.Addr.GLOBAL) = none := by
  obtain ⟨i, pool, hg, hr0⟩ := sendPgn_bam cfgO sO t0 dp pf ps prio mid.source_address msg tl ff hl hb hacc
  obtain ⟨g1, _, _⟩ := poolGet_some _ _ _ hg
  have hi : i < 4 := by
    rcases Nat.lt_or_ge i sO.bamPool.length with hh | hh
    · omega
    · rw [List.getElem?_eq_none hh] at g1; cases g1
  refine ⟨i, hi, ?_⟩
  intro r0 b run bamF dtFs eomF
  have hn : 0 < Tp22.num_segments msg.length := by
    have := (num_segments_spec msg.length).1; omega
  have hn24 : Tp22.num_segments msg.length < 16777216 := by
    have := (num_segments_spec msg.length).2
    omega
  have hrun : run = _ := c02_bam_originator_frames cfgO msg (Tp22.num_segments msg.length) passes b 0 hpl hn rfl rfl rfl rfl (by omega) hdue
  refine ⟨by simp only [r0, hr0]; exact PyDict.get?_set_self _ _ _, ?_, by rw [hrun], by rw [hrun]; rfl, ?_⟩
  · simp only [r0, hr0, hrun, txFrames_append]
    rw [txFrames_map]
    simp [txFrames, bamF, dtFs, eomF, b, bamRec]
  · intro a1 a2 a3
    obtain ⟨e1, e2, e3, rc, e4, e5, e6, e7, e8, e9⟩ := rx_bam cfgR sR tB midB prio i (bamPgn dp pf ps) msg.length
      (Tp22.num_segments msg.length) (by rw [hsB]; exact hne) (by omega) hmax hn24 (bamPgn_lt dp pf ps) (by rw [hsB]; exact hfree i)
    rw [hsB] at e4
    -- the end-of-message status decodes to the announced fields
    have heom : eomF.data = Ref.fdCm 2 i msg.length (Tp22.num_segments msg.length) 0 0 (bamPgn dp pf ps) :=
      (J1939.Props.C03.c03_22_builders mid.source_address Const.Addr.GLOBAL 0 i (bamPgn dp pf ps) msg.length
        (Tp22.num_segments msg.length) 0 0 0 0 0 0).2.2.1
    obtain ⟨d1, d2, d3, d4, _, _, d7⟩ := J1939.Props.C03.c03_22_decode_cm 2 i msg.length (Tp22.num_segments msg.length) 0 0
      (bamPgn dp pf ps) (by omega) (by omega) hmax hn24 (by omega) (bamPgn_lt dp pf ps)
    have hframes : ∀ k (h : k < (rxTimes.zip (dtFs.map (·.data))).length),
        SegFrame msg i k ((rxTimes.zip (dtFs.map (·.data)))[k]).2 := by
      intro k hk
      have hk' : k < Tp22.num_segments msg.length := by
        simp only [List.length_zip, List.length_map, dtFs, List.length_range'] at hk; omega
      simp only [List.getElem_zip, dtFs, List.getElem_map, List.getElem_range', Nat.zero_add, Nat.one_mul]
      exact c02_built_frame_is_segframe msg mid.source_address Const.Addr.GLOBAL i k (by omega) hk' (by simp only [Nat.reducePow]; omega)
    have hrx := c02_reception_exact cfgR msg (by omega) mid Const.Addr.GLOBAL i (rxTimes.zip (dtFs.map (·.data)))
      (by simp only [List.length_zip, List.length_map, dtFs, List.length_range']; omega) hframes a1.st rc e4 e5 e7 e8
      (fun h => absurd rfl h) tE eomF.data (by rw [heom, d7]; omega) (by rw [heom]; exact d1) (by rw [heom]; exact d2)
      (by rw [heom]; exact d3) (by rw [heom, e6]; exact d4) hne
    simp only at hrx
    obtain ⟨x1, x2, x3, _⟩ := hrx
    refine ⟨?_, x2, x3⟩
    have ha1 : a1.outs = [.wake] := e2
    rw [List.append_assoc, deliveries_append, x1, e9, ha1]
    simp [deliveries]


end J1939.Props.C02
