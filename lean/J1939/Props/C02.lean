/-
  C02 — J1939-22 (FD) transport delivers every accepted message intact, exactly once; capacity refusal.
  (first part: capacity; the session theorems follow below)
-/
import J1939.Model.Dll22
import J1939.Lemmas.Trace22
import J1939.Lemmas.Bits
import J1939.Lemmas.PyDict
import J1939.Lemmas.Tactics
namespace J1939.Props.C02
open J1939 J1939.Gen J1939.Dll22

/-- REFUSAL IS PURE: a message of more than 60 bytes for which no session number of the needed kind is free is refused:
    send_pgn returns False, emits nothing, raises nothing and leaves the state EQUAL -/
theorem c02_refusal_pure (cfg : Cfg) (s : St) (now dp pf ps prio sa : Nat) (data : List Nat) (tl ff : Nat) (hl : 60 < data.length)
    (hfull : (if ps == Const.Addr.GLOBAL || PGN.is_pdu2_format (PGN.ofFields 0 pf ps) then poolGet s.bamPool else poolGet s.rtsPool) = none) :
    sendPgn cfg s now dp pf ps prio sa data tl ff = ({ st := s, outs := [], err := none }, false) := by
  have hl' : ¬ data.length ≤ Const.DL22.TP := by
    have : Const.DL22.TP = 60 := by decide
    omega
  unfold sendPgn
  simp only [hl', if_false]
  simp only [hfull]

/-- a pool refuses iff every number is in use -/
theorem poolGet_none_iff (p : List Bool) : poolGet p = none ↔ ∀ b ∈ p, b = false := by
  induction p with
  | nil => simp [poolGet]
  | cons b p ih =>
    cases b with
    | true => simp [poolGet]
    | false => simp [poolGet, ih]

/-- taking a number: it was free, is marked used, every other flag is unchanged, the pool keeps its size -/
theorem poolGet_some (p : List Bool) (i : Nat) (q : List Bool) (h : poolGet p = some (i, q)) :
    p[i]? = some true ∧ q = p.set i false ∧ q.length = p.length := by
  induction p generalizing i q with
  | nil => simp [poolGet] at h
  | cons b p ih =>
    cases b with
    | true =>
      simp only [poolGet, Option.some.injEq, Prod.mk.injEq] at h
      obtain ⟨rfl, rfl⟩ := h
      simp
    | false =>
      simp only [poolGet, Option.map_eq_some_iff] at h
      obtain ⟨⟨j, r⟩, hj, he⟩ := h
      simp only [Prod.mk.injEq] at he
      obtain ⟨rfl, rfl⟩ := he
      obtain ⟨h1, h2, h3⟩ := ih j r hj
      simp [h1, h2, h3]

/-- an accepted long message takes exactly one number of its kind -/
theorem c02_accept_takes_one (cfg : Cfg) (s : St) (now dp pf ps prio sa : Nat) (data : List Nat) (tl ff : Nat) (hl : 60 < data.length)
    (hacc : (sendPgn cfg s now dp pf ps prio sa data tl ff).2 = true) :
    let s' := (sendPgn cfg s now dp pf ps prio sa data tl ff).1.st
    ((ps == Const.Addr.GLOBAL || PGN.is_pdu2_format (PGN.ofFields 0 pf ps)) = true →
        ∃ i, s.bamPool[i]? = some true ∧ s'.bamPool = s.bamPool.set i false ∧ s'.rtsPool = s.rtsPool) ∧
    ((ps == Const.Addr.GLOBAL || PGN.is_pdu2_format (PGN.ofFields 0 pf ps)) = false →
        ∃ i, s.rtsPool[i]? = some true ∧ s'.rtsPool = s.rtsPool.set i false ∧ s'.bamPool = s.bamPool) := by
  have hl' : ¬ data.length ≤ Const.DL22.TP := by
    have : Const.DL22.TP = 60 := by decide
    omega
  unfold sendPgn at hacc ⊢
  simp only [hl', if_false] at hacc ⊢
  refine ⟨?_, ?_⟩ <;> intro hb <;> simp only [hb, if_true, Bool.false_eq_true, if_false] at hacc ⊢
  · cases hg : poolGet s.bamPool with
    | none => simp [hg] at hacc
    | some r =>
      obtain ⟨i, q⟩ := r
      obtain ⟨h1, h2, _⟩ := poolGet_some _ _ _ hg
      exact ⟨i, h1, by simp [h2], by simp⟩
  · cases hg : poolGet s.rtsPool with
    | none => simp [hg] at hacc
    | some r =>
      obtain ⟨i, q⟩ := r
      obtain ⟨h1, h2, _⟩ := poolGet_some _ _ _ hg
      exact ⟨i, h1, by simp [h2], by simp⟩

theorem processCm_keeps_pools (cfg : Cfg) (s : St) (now : Nat) (mid : MessageId) (dest : Nat) (data : List Nat) :
    (processCm cfg s now mid dest data).st.rtsPool = s.rtsPool ∧ (processCm cfg s now mid dest data).st.bamPool = s.bamPool := by
  unfold processCm
  dsimp only
  split
  · exact ⟨rfl, rfl⟩
  · split
    · exact ⟨rfl, rfl⟩
    · (repeat' split) <;> exact ⟨rfl, rfl⟩

theorem processDt_keeps_pools (s : St) (now : Nat) (mid : MessageId) (dest : Nat) (data : List Nat) :
    (processDt s now mid dest data).st.rtsPool = s.rtsPool ∧ (processDt s now mid dest data).st.bamPool = s.bamPool := by
  unfold processDt; dsimp only; (repeat' split) <;> exact ⟨rfl, rfl⟩

/-- INBOUND NEVER TOUCHES THE POOLS: no received frame — whatever it is — changes either session pool -/
theorem c02_notify_keeps_pools (cfg : Cfg) (s : St) (now : Nat) (acc : Nat → Bool) (canId : Nat) (data : List Nat) :
    (notify cfg s now acc canId data).st.rtsPool = s.rtsPool ∧ (notify cfg s now acc canId data).st.bamPool = s.bamPool := by
  unfold notify
  dsimp only
  (repeat' split) <;> first
    | exact ⟨rfl, rfl⟩
    | exact processCm_keeps_pools ..
    | exact processDt_keeps_pools ..

/-- the advertised capacity is the reflected pool sizes: 8 destination-specific and 4 broadcast sessions -/
theorem c02_capacity : Const.Pool.rts_cts = 8 ∧ Const.Pool.bam = 4 ∧ (St.rtsPool {}).length = 8 ∧ (St.bamPool {}).length = 4 := by decide

-- ------------------------------------------------------------------------------------------------ the data path
/-- SEGMENTATION: the chunks the originator keeps are the consecutive 60-byte pieces of the message; concatenated
    they are the message (for every length; a length that is a multiple of 60 has an empty last chunk that is never sent) -/
theorem c02_chunks_get (data : List Nat) (k : Nat) (hk : k < Tp22.num_segments data.length) :
    (chunks60 data)[k]? = some ((data.drop (60 * k)).take 60) := by
  unfold chunks60
  have hTP : Const.DL22.TP = 60 := rfl
  simp only [hTP]
  by_cases hfull : k < data.length / 60
  · rw [List.getElem?_append_left (by simpa using hfull)]
    simp [hfull, Nat.mul_comm]
  · have hns : Tp22.num_segments data.length = data.length / 60 + (if data.length % 60 != 0 then 1 else 0) := by
      unfold Tp22.num_segments Py.b2n; rfl
    have hke : k = data.length / 60 := by
      rw [hns] at hk
      split at hk <;> omega
    rw [List.getElem?_append_right (by simp; omega)]
    simp only [List.length_map, List.length_range, hke, Nat.sub_self, List.getElem?_cons_zero, Option.some.injEq]
    rw [Nat.mul_comm]
    exact (List.take_of_length_le (by simp; omega)).symm

theorem c02_chunks_concat (data : List Nat) : (chunks60 data).flatten = data := by
  unfold chunks60
  have hTP : Const.DL22.TP = 60 := rfl
  simp only [hTP, List.flatten_append, List.flatten_cons, List.flatten_nil, List.append_nil]
  generalize data.length / 60 = n
  induction n with
  | zero => simp
  | succ n ih =>
    rw [List.range_succ, List.map_append, List.flatten_append]
    simp only [List.map_cons, List.map_nil, List.flatten_cons, List.flatten_nil, List.append_nil]
    have : (List.map (fun k => List.take 60 (List.drop (k * 60) data)) (List.range n)).flatten ++ List.take 60 (List.drop (n * 60) data) ++
        List.drop ((n + 1) * 60) data = (List.map (fun k => List.take 60 (List.drop (k * 60) data)) (List.range n)).flatten ++ List.drop (n * 60) data := by
      rw [List.append_assoc]
      congr 1
      have : (n + 1) * 60 = n * 60 + 60 := by omega
      rw [this, ← List.drop_drop, List.take_append_drop]
    rw [this]; exact ih

/-- the payload of the FD.TP.DT frame this stack builds: 4 header bytes, the chunk, and 0xFF up to the next CAN FD
    length — none after a full 60-byte chunk -/
theorem ins4 (l : List Nat) (a b c d : Nat) : Py.insert (Py.insert (Py.insert (Py.insert l 0 a) 1 b) 2 c) 3 d = a :: b :: c :: d :: l := by
  simp [Py.insert]
theorem dt22_data (src dest session seg : Nat) (chunk : List Nat) (hc : chunk.length ≤ 60) :
    ∃ pad, (Tp22.dt Const.LUT_FD_DLC src dest session seg chunk 0).data =
      [(0 &&& 15) ||| ((session &&& 15) <<< 4), seg &&& 255, (seg >>> 8) &&& 255, (seg >>> 16) &&& 255] ++ chunk ++ pad ∧
      (chunk.length = 60 → pad = []) := by
  unfold Tp22.dt
  simp only [ins4]
  by_cases h : chunk.length = 60
  · refine ⟨[], ?_, fun _ => rfl⟩
    have : decide ((((0 &&& 15) ||| ((session &&& 15) <<< 4)) :: (seg &&& 255) :: ((seg >>> 8) &&& 255) :: ((seg >>> 16) &&& 255) :: chunk).length ≥ 60 + 4) = true := by
      simp [h]
    simp only [this, if_true, List.append_nil, List.cons_append, List.nil_append]
    exact List.take_of_length_le (by simp [h])
  · have : decide ((((0 &&& 15) ||| ((session &&& 15) <<< 4)) :: (seg &&& 255) :: ((seg >>> 8) &&& 255) :: ((seg >>> 16) &&& 255) :: chunk).length ≥ 60 + 4) = false := by
      simp; omega
    simp only [this, Bool.false_eq_true, if_false, Py.pad]
    exact ⟨_, rfl, fun h' => absurd h' h⟩

/-- THE FRAMES THIS STACK BUILDS ARE SEGMENT FRAMES: the receive path extracts from the k-th FD.TP.DT frame of a message
    exactly the session, the segment number k+1 and the k-th chunk (plus padding on the last one only) -/
theorem c02_built_frame_is_segframe (data : List Nat) (src dest session k : Nat) (hs : session < 16)
    (hk : k < Tp22.num_segments data.length) (hk24 : k + 1 < 2 ^ 24) :
    SegFrame data session k (Tp22.dt Const.LUT_FD_DLC src dest session (k + 1) ((data.drop (60 * k)).take 60) 0).data := by
  have hcl : ((data.drop (60 * k)).take 60).length ≤ 60 := by simp; omega
  obtain ⟨pad, hd, hpad⟩ := dt22_data src dest session (k + 1) ((data.drop (60 * k)).take 60) hcl
  have hne : 0 < ((data.drop (60 * k)).take 60).length := by
    have := (num_segments_spec data.length)
    have hns : Tp22.num_segments data.length = data.length / 60 + (if data.length % 60 != 0 then 1 else 0) := by
      unfold Tp22.num_segments Py.b2n; rfl
    simp only [List.length_take, List.length_drop]
    rw [hns] at hk
    split at hk <;> rename_i h <;> simp at h <;> omega
  rw [hd]
  refine ⟨by simp only [List.length_append, List.length_cons, List.length_nil]; omega, ?_, ?_, ⟨pad, by simp, ?_⟩⟩
  · simp only [Tp22.dt_session, Py.idx, List.cons_append, List.getD_cons_zero]
    rw [Bits.and_15, Bits.and_15, Bits.shl_4, Bits.shr_4, Bits.and_15]
    have : 0 % 16 ||| session % 16 * 16 = session % 16 * 16 := by simp
    rw [this]; omega
  · simp only [Tp22.dt_segment, Py.idx, List.cons_append, List.getD_cons_succ, List.getD_cons_zero]
    have h24 : k + 1 < 16777216 := by simpa using hk24
    rw [Bits.and_255, Bits.and_255, Bits.and_255, Bits.and_255, Bits.and_255, Bits.and_255, Bits.shr_8, Bits.shr_16, Bits.shl_8, Bits.shl_16]
    have e1 : (k + 1) % 256 % 256 ||| (k + 1) / 256 % 256 % 256 * 256 = (k + 1) / 256 % 256 * 256 + (k + 1) % 256 := by
      have := Bits.mul_or ((k + 1) / 256 % 256) ((k + 1) % 256) 8 (by omega)
      simp only [Nat.mod_mod] at *
      rw [Nat.or_comm]; simpa using this
    rw [e1]
    have e2 : ((k + 1) / 256 % 256 * 256 + (k + 1) % 256) ||| (k + 1) / 65536 % 256 % 256 * 65536
        = (k + 1) / 65536 % 256 * 65536 + ((k + 1) / 256 % 256 * 256 + (k + 1) % 256) := by
      have := Bits.mul_or ((k + 1) / 65536 % 256) ((k + 1) / 256 % 256 * 256 + (k + 1) % 256) 16 (by omega)
      simp only [Nat.mod_mod] at *
      rw [Nat.or_comm]; simpa using this
    rw [e2]; omega
  · by_cases h60 : ((data.drop (60 * k)).take 60).length = 60
    · exact Or.inr (hpad h60)
    · left
      simp only [List.length_take, List.length_drop] at h60 hne
      omega

/-- C02, RECEPTION IS EXACT (FD.TP, broadcast and connection mode): a responder record opened for a message of
    `data.length` bytes, fed the segment frames of `data` in order at arbitrary times (the frames of this stack or of any
    conforming originator — its source address is not the global address, repair of D29) and then the end-of-message status, hands `data` up EXACTLY ONCE — byte-identical, with the
    announced PGN — removes the record and never touches the send table -/
theorem c02_reception_exact (cfg : Cfg) (data : List Nat) (hpos : 0 < data.length) (mid : MessageId) (dest session : Nat)
    (frames : List (Nat × List Nat)) (hfl : frames.length = Tp22.num_segments data.length)
    (hframes : ∀ i (h : i < frames.length), SegFrame data session i (frames[i]).2)
    (s : St) (r : Rcv) (hr : s.rcv.get? (Tp22.buffer_hash session mid.source_address dest) = some r)
    (hsize : r.messageSize = data.length) (hnext : r.nextPacket = 1) (hdata : r.data = [])
    (hmr : dest ≠ Const.Addr.GLOBAL → (∃ b, r.ctsBorder = some b) ∧ ∃ m, r.maxRec = some m)
    (now : Nat) (eom : List Nat) (hel : 12 ≤ eom.length) (hec : Tp22.cm_control eom = Const.CM22.EOM_STATUS)
    (hes : Tp22.cm_session eom = session) (hesz : Tp22.cm_size eom = data.length) (hen : Tp22.cm_segment eom = r.numSegments)
    (hsrc : mid.source_address ≠ Const.Addr.GLOBAL) :
    let s1 := (feedDt s mid dest frames).1
    deliveries ((feedDt s mid dest frames).2 ++ (processCm cfg s1 now mid dest eom).outs)
      = [(mid.priority, r.pgn, mid.source_address, dest, data)] ∧
    (processCm cfg s1 now mid dest eom).err = none ∧
    (processCm cfg s1 now mid dest eom).st.rcv.get? (Tp22.buffer_hash session mid.source_address dest) = none ∧
    (processCm cfg s1 now mid dest eom).st.snd = s.snd := by
  intro s1
  have hn : 0 < Tp22.num_segments data.length := by
    have := (num_segments_spec data.length).1; omega
  obtain ⟨a1, a2, r', hr', h1, h2, h3, h4⟩ := feed22_accumulates data hpos mid dest session (Tp22.num_segments data.length) 0
    (by omega) hn frames hfl (by intro i hi; simpa using hframes i hi) s r hr hsize (by simpa using hnext) (by simpa using hdata) hmr
  obtain ⟨e1, e2, e3, e4⟩ := eom22_delivers cfg s1 now mid dest eom r' session hel hec hes (by rw [hesz, h2]) (by rw [hen, h3]) hr'
    (by rw [h1, h2]) hsrc
  refine ⟨?_, e2, e3, by rw [e4, a2]⟩
  rw [deliveries_append, a1, e1, h4, h1]; rfl

end J1939.Props.C02
