/-
  C05 — Messages reach only the addressed applications; foreign traffic is ignored.
  J1939-21 data link layer + ECU subscriber dispatch + CA acceptance + listener flag filter.
-/
import J1939.Model.Dll21
import J1939.Model.Ecu
import J1939.Model.Ca
import J1939.Model.Listener
import J1939.Lemmas.Tactics
import J1939.Lemmas.ConstCa
import J1939.Props.C13
import J1939.Lemmas.Trace22
import J1939.Model.Dll22
namespace J1939.Props.C05
open J1939 J1939.Gen

/-- FOREIGN TRAFFIC IS A NO-OP (J1939-21): a PDU1 frame whose destination is neither global nor accepted by a local
    listener/CA — whatever its PGN: TP.CM (RTS, CTS, ack, abort), TP.DT, request, address claim, anything — returns the
    SAME state, transmits nothing, delivers nothing, raises nothing -/
theorem c05_foreign_noop (cfg : Dll21.Cfg) (s : Dll21.St) (now : Nat) (acc : Nat → Bool) (canId : Nat) (data : List Nat)
    (hpdu1 : PGN.is_pdu2_format (PGN.from_message_id (MessageId.ofCanId canId)) = false)
    (hd : (PGN.from_message_id (MessageId.ofCanId canId)).pdu_specific ≠ 255)
    (hacc : acc (PGN.from_message_id (MessageId.ofCanId canId)).pdu_specific = false) :
    Dll21.notify cfg s now acc canId data = { st := s, outs := [], err := none } := by
  unfold Dll21.notify
  simp [hpdu1, hd, hacc]

/-- BYSTANDER: any sequence of frames of sessions between other nodes (destinations the stack does not own) leaves the
    stack exactly as it was and silent — induction over the sequence -/
def feed (cfg : Dll21.Cfg) (acc : Nat → Bool) (s : Dll21.St) : List (Nat × Nat × List Nat) → Dll21.St × List Dll21.Out
  | [] => (s, [])
  | (now, cid, d) :: fs =>
    let r := Dll21.notify cfg s now acc cid d
    let q := feed cfg acc r.st fs
    (q.1, r.outs ++ q.2)

theorem c05_bystander (cfg : Dll21.Cfg) (acc : Nat → Bool) (s : Dll21.St) (frames : List (Nat × Nat × List Nat))
    (h : ∀ f ∈ frames, PGN.is_pdu2_format (PGN.from_message_id (MessageId.ofCanId f.2.1)) = false ∧
          (PGN.from_message_id (MessageId.ofCanId f.2.1)).pdu_specific ≠ 255 ∧
          acc (PGN.from_message_id (MessageId.ofCanId f.2.1)).pdu_specific = false) :
    feed cfg acc s frames = (s, []) := by
  induction frames generalizing s with
  | nil => rfl
  | cons f fs ih =>
    obtain ⟨now, cid, d⟩ := f
    obtain ⟨h1, h2, h3⟩ := h (now, cid, d) (List.mem_cons_self ..)
    simp only [feed, c05_foreign_noop cfg s now acc cid d h1 h2 h3]
    rw [ih s (fun g hg => h g (List.mem_cons_of_mem _ hg))]
    rfl

/-- A CA WITHOUT AN ADDRESS RECEIVES NOTHING DESTINATION-SPECIFIC -/
theorem c05_ca_needs_address (c : Ca.Ca) (h : c.state ≠ Ca.NORMAL) (d : Nat) (hd : d ≠ 255) : Ca.messageAcceptable c d = false :=
  (J1939.Props.C13.c13_no_address_is_null c h).2 d hd

/-- … and an operational one accepts exactly its own address and the global one -/
theorem c05_ca_accepts (c : Ca.Ca) (a : Nat) (h : c.state = Ca.NORMAL) (ha : c.addr = some a) (d : Nat) :
    Ca.messageAcceptable c d = (d == 255 || d == a) := by
  have h' : (c.state != Ca.NORMAL) = false := by simp [h]
  simp only [Ca.messageAcceptable, Ca.deviceAddress, h', Bool.false_eq_true, if_false, ha]
  by_cases hd : d = 255
  · simp [hd]
  · have : (d == 255) = false := by simpa using hd
    simp only [this, Bool.false_or]
    by_cases hda : d = a
    · subst hda; simp
    · have h1 : (some a == some d) = false := by simp; exact fun h => hda h.symm
      have h2 : (d == a) = false := by simpa using hda
      simp [h1, h2, hd]

/-- which registrations a PDU for destination `dest` is handed to: no address → always; integer address → that address
    or global; predicate (a CA's message_acceptable) → global or predicate true -/
theorem c05_match_rule (accept : Nat → Nat → Bool) (d : Ecu.Sub) (dest : Nat) :
    Ecu.subMatches accept d dest =
      match d.addr with
      | .none => true
      | .int a => dest == 255 || dest == a
      | .pred p => dest == 255 || accept p dest := rfl

/-- DELIVERY RULE: with callbacks that do not touch the registrations, a PDU is handed to exactly the matching
    registrations, each once, in registration order -/
theorem notifyLoop_exact (accept : Nat → Nat → Bool) (prio pgn sa dest : Nat) (data : List Nat) (c : Ecu.Core)
    (hno : ∀ k, (c.cbOf k).ops = []) (fuel i clk : Nat) (obs : List Ecu.Obs) (hf : c.subs.length - i < fuel) :
    Ecu.notifyLoop accept prio pgn sa dest data fuel i c clk obs =
      (c, clk, obs ++ ((c.subs.drop i).filter (fun d => Ecu.subMatches accept d dest)).map
        (fun d => Ecu.Obs.deliver d.cb prio pgn sa data)) := by
  induction fuel generalizing i obs with
  | zero => omega
  | succ fuel ih =>
    unfold Ecu.notifyLoop
    cases hg : c.subs[i]? with
    | none =>
      have : c.subs.length ≤ i := List.getElem?_eq_none_iff.mp hg
      simp [List.drop_eq_nil_of_le this]
    | some d =>
      have hi : i < c.subs.length := by
        rcases Nat.lt_or_ge i c.subs.length with h | h
        · exact h
        · rw [List.getElem?_eq_none h] at hg; cases hg
      have hd : c.subs.drop i = d :: c.subs.drop (i + 1) := by
        rw [List.drop_eq_getElem_cons hi]
        congr 1
        have := List.getElem?_eq_getElem (l := c.subs) (i := i) hi
        rw [this] at hg; exact Option.some.inj hg
      simp only
      by_cases hm : Ecu.subMatches accept d dest = true
      · simp only [hm, if_true, hno, Ecu.Core.applyOps, List.foldl_nil]
        rw [ih (i + 1) _ (by omega), hd]
        simp [List.filter_cons, hm]
      · have hm' : Ecu.subMatches accept d dest = false := by simpa using hm
        simp only [hm', Bool.false_eq_true, if_false]
        rw [ih (i + 1) _ (by omega), hd]
        simp [List.filter_cons, hm']

theorem c05_delivery_rule (accept : Nat → Nat → Bool) (c : Ecu.Core) (hno : ∀ k, (c.cbOf k).ops = [])
    (clk prio pgn sa dest : Nat) (data : List Nat) :
    (c.notifySubscribers accept clk prio pgn sa dest data).2.2 =
      (c.subs.filter (fun d => Ecu.subMatches accept d dest)).map (fun d => Ecu.Obs.deliver d.cb prio pgn sa data) ∧
    (c.notifySubscribers accept clk prio pgn sa dest data).1 = c := by
  unfold Ecu.Core.notifySubscribers
  rw [notifyLoop_exact accept prio pgn sa dest data c hno _ 0 clk [] (by omega)]
  simp

/-- BROADCAST REACHES EVERYBODY: a PDU2 frame is handed up with destination 255, and destination 255 matches every
    registration whatever its address -/
theorem c05_broadcast_all (accept : Nat → Nat → Bool) (d : Ecu.Sub) : Ecu.subMatches accept d 255 = true := by
  unfold Ecu.subMatches; cases d.addr <;> simp

/-- the ECU-level acceptance gate: a destination is locally owned iff some registration has exactly this integer address -/
theorem c05_ecu_gate (c : Ecu.Core) (dest : Nat) : c.isAcceptable dest = c.subs.any (fun d => d.addr == Ecu.AddrSpec.int dest) := rfl

/-- LISTENER FLAGS: only extended-id data frames reach the ECU: all 16 flag combinations -/
theorem c05_listener_flags :
    ∀ stopped err remote ext, Listener.forwards stopped err remote ext = (!stopped && !err && !remote && ext) := by decide

end J1939.Props.C05

/-! ## J1939-22 (FD) -/
namespace J1939.Props.C05
open J1939 J1939.Gen

/-- FOREIGN TRAFFIC IS A NO-OP (J1939-22): a PDU1 frame whose destination is neither global nor accepted by a local
    listener/CA — whatever its PGN: FD.TP.CM (RTS, CTS, end-of-message status/ack, BAM announcement, abort), FD.TP.DT,
    multi-PG, request, address claim, anything — returns the SAME state, transmits nothing, delivers nothing, raises
    nothing -/
theorem c05_22_foreign_noop (cfg : Dll22.Cfg) (s : Dll22.St) (now : Nat) (acc : Nat → Bool) (canId : Nat) (data : List Nat)
    (hpdu1 : PGN.is_pdu2_format (PGN.from_message_id (MessageId.ofCanId canId)) = false)
    (hd : (PGN.from_message_id (MessageId.ofCanId canId)).pdu_specific ≠ 255)
    (hacc : acc (PGN.from_message_id (MessageId.ofCanId canId)).pdu_specific = false) :
    Dll22.notify cfg s now acc canId data = { st := s, outs := [], err := none } := by
  have hG : Const.Addr.GLOBAL = 255 := rfl
  have hcond : ((PGN.from_message_id (MessageId.ofCanId canId)).pdu_specific != Const.Addr.GLOBAL &&
      !acc (PGN.from_message_id (MessageId.ofCanId canId)).pdu_specific) = true := by
    rw [hacc, hG]
    simp only [Bool.not_false, Bool.and_true, bne_iff_ne, ne_eq]
    exact hd
  unfold Dll22.notify
  simp only [hpdu1, Bool.false_eq_true, if_false, hcond, if_true]

/-- J1939-22 BYSTANDER: any sequence of frames between other nodes leaves the stack exactly as it was and silent -/
def feed22 (cfg : Dll22.Cfg) (acc : Nat → Bool) (s : Dll22.St) : List (Nat × Nat × List Nat) → Dll22.St × List Dll22.Out
  | [] => (s, [])
  | (now, cid, d) :: fs =>
    let r := Dll22.notify cfg s now acc cid d
    let q := feed22 cfg acc r.st fs
    (q.1, r.outs ++ q.2)

theorem c05_22_bystander (cfg : Dll22.Cfg) (acc : Nat → Bool) (s : Dll22.St) (frames : List (Nat × Nat × List Nat))
    (h : ∀ f ∈ frames, PGN.is_pdu2_format (PGN.from_message_id (MessageId.ofCanId f.2.1)) = false ∧
          (PGN.from_message_id (MessageId.ofCanId f.2.1)).pdu_specific ≠ 255 ∧
          acc (PGN.from_message_id (MessageId.ofCanId f.2.1)).pdu_specific = false) :
    feed22 cfg acc s frames = (s, []) := by
  induction frames generalizing s with
  | nil => rfl
  | cons f fs ih =>
    obtain ⟨now, cid, d⟩ := f
    obtain ⟨h1, h2, h3⟩ := h (now, cid, d) (by simp)
    simp only [feed22, c05_22_foreign_noop cfg s now acc cid d h1 h2 h3]
    rw [ih s (fun g hg => h g (by simp [hg]))]
    rfl

/-- J1939-22 (repair of D18): a PDU2 frame is a broadcast — it is handed up with destination 255 whatever its group
    extension byte is, and never touches the transport state -/
theorem c05_22_pdu2_is_broadcast (cfg : Dll22.Cfg) (s : Dll22.St) (now : Nat) (acc : Nat → Bool) (canId : Nat) (data : List Nat)
    (h : PGN.is_pdu2_format (PGN.from_message_id (MessageId.ofCanId canId)) = true) :
    Dll22.notify cfg s now acc canId data =
      { st := s, outs := [.notify (MessageId.ofCanId canId).priority (PGN.value (PGN.from_message_id (MessageId.ofCanId canId)))
                            (MessageId.ofCanId canId).source_address Const.Addr.GLOBAL data], err := none } := by
  unfold Dll22.notify
  simp [h]

/-- J1939-22, A COMPLETED DESTINATION-SPECIFIC TRANSFER IS HANDED UP WITH ITS SESSION'S DESTINATION — whatever parameter
    group it carried (a peer may move a PDU2 group in connection mode; it is then still addressed to `dest`, not to
    everybody): the delivery rule of the ECU (`c05_delivery_rule`) then gives it to exactly the listeners entitled to
    `dest` -/
theorem c05_22_tp_delivery_keeps_destination (cfg : Dll22.Cfg) (s : Dll22.St) (now : Nat) (mid : MessageId) (dest : Nat) (f : List Nat)
    (r : Dll22.Rcv) (session : Nat)
    (hlen : 12 ≤ f.length) (hc : Tp22.cm_control f = Const.CM22.EOM_STATUS) (hs : Tp22.cm_session f = session)
    (hsz : Tp22.cm_size f = r.messageSize) (hn : Tp22.cm_segment f = r.numSegments)
    (hr : s.rcv.get? (Tp22.buffer_hash session mid.source_address dest) = some r) (hd : r.data.length = r.messageSize)
    (hsrc : mid.source_address ≠ Const.Addr.GLOBAL) :
    ∀ d ∈ Dll22.deliveries (Dll22.processCm cfg s now mid dest f).outs, d.2.2.2.1 = dest ∧ d.2.1 = r.pgn := by
  intro d hdm
  rw [(Dll22.eom22_delivers cfg s now mid dest f r session hlen hc hs hsz hn hr hd hsrc).1] at hdm
  simp only [List.mem_singleton] at hdm
  subst hdm
  exact ⟨rfl, rfl⟩

end J1939.Props.C05

