/-
  C03 — Wire format interoperates with an independent SAE J1939-21 implementation.   (J1939-21 part)
  `Model/Ref.lean` is the reference written from the standard's tables; the builders and field extractions are the
  definitions regenerated from j1939_21.py.
-/
import J1939.Lemmas.Seg21
import J1939.Lemmas.Trace21
namespace J1939.Props.C03
open J1939 J1939.Gen J1939.Dll21 J1939.Lemmas J1939.Bits

/-- identifier of every TP.CM frame: priority, PF 0xEC, destination in PS, source address -/
theorem c03_cm_id (sa da prio : Nat) (hs : sa < 256) (hd : da < 256) (hp : prio < 8) (size n mx pgn : Nat) :
    (Tp21.rts sa da prio pgn size n mx).id = Ref.tpCmId prio da sa ∧
    (Tp21.cts sa da n mx pgn).id = Ref.tpCmId 7 da sa ∧ (Tp21.eom_ack sa da size n pgn).id = Ref.tpCmId 7 da sa ∧
    (Tp21.abort sa da n pgn).id = Ref.tpCmId 7 da sa ∧ (Tp21.bam sa prio pgn size n).id = Ref.tpCmId prio 255 sa ∧
    (Tp21.dt sa da []).id = Ref.tpDtId da sa := by
  simp only [Tp21.rts, Tp21.cts, Tp21.eom_ack, Tp21.abort, Tp21.bam, Tp21.dt, Ref.tpCmId, Ref.tpDtId, Ref.canId, pdu1_id, Nat.reducePow]
  refine ⟨?_, ?_, ?_, ?_, ?_, ?_⟩ <;> omega

/-- data bytes of the five TP.CM frames: control byte, little-endian size, packet counts, 0xFF fill, little-endian PGN -/
theorem c03_cm_data (sa da prio size n mx nxt reason pgn : Nat) :
    (Tp21.rts sa da prio pgn size n mx).data = [16, size % 256, size / 256 % 256, n, mx] ++ Ref.pgnLE pgn ∧
    (Tp21.cts sa da n nxt pgn).data = Ref.tpCts n nxt pgn ∧
    (Tp21.eom_ack sa da size n pgn).data = [19, size % 256, size / 256 % 256, n, 255] ++ Ref.pgnLE pgn ∧
    (Tp21.bam sa prio pgn size n).data = [32, size % 256, size / 256 % 256, n, 255] ++ Ref.pgnLE pgn ∧
    (Tp21.abort sa da reason pgn).data = Ref.tpAbort reason pgn := by
  simp only [Tp21.rts, Tp21.cts, Tp21.eom_ack, Tp21.bam, Tp21.abort, Ref.tpCts, Ref.tpAbort, Ref.pgnLE, and_255, shr_8, shr_16]
  exact ⟨rfl, rfl, rfl, rfl, rfl⟩

/-- with in-range size these are exactly the reference frames -/
theorem c03_cm_ref (sa da prio size n mx pgn : Nat) :
    (Tp21.rts sa da prio pgn size n mx).data = Ref.tpRts size n mx pgn ∧
    (Tp21.eom_ack sa da size n pgn).data = Ref.tpEomAck size n pgn ∧ (Tp21.bam sa prio pgn size n).data = Ref.tpBam size n pgn := by
  simp only [Tp21.rts, Tp21.eom_ack, Tp21.bam, Ref.tpRts, Ref.tpEomAck, Ref.tpBam, Ref.pgnLE, Ref.le16, and_255, shr_8, shr_16]
  exact ⟨rfl, rfl, rfl⟩

/-- TP.DT: 1-based sequence number, 7 data bytes, 0xFF padding — the reference layout; always 8 bytes -/
theorem c03_dt_layout (data : List Nat) (k : Nat) :
    chunk data k = Ref.tpDt (k + 1) ((data.drop (k * 7)).take 7) ∧ (chunk data k).length = 8 :=
  ⟨chunk_ref data k, chunk_length data k⟩

/-- DECODING what a conforming peer sends: the field extraction of the receive path inverts the reference layout -/
theorem c03_decode_rts (size n mx pgn : Nat) (hs : size < 65536) (hn : n < 256) (hm : mx < 256) (hp : pgn < 16777216) :
    let d := Ref.tpRts size n mx pgn
    Tp21.cm_control d = 16 ∧ Tp21.rts_size d = size ∧ Tp21.rts_packets d = n ∧ Tp21.rts_max d = mx ∧ Tp21.cm_pgn d = pgn ∧ d.length = 8 := by
  simp only [Ref.tpRts, Ref.le16, Ref.pgnLE, Tp21.cm_control, Tp21.rts_size, Tp21.rts_packets, Tp21.rts_max, Tp21.cm_pgn, Py.idx,
    List.cons_append, List.nil_append, List.getD_cons_zero, List.getD_cons_succ, shl_8, shl_16]
  refine ⟨trivial, ?_, trivial, trivial, ?_, rfl⟩
  · rw [Nat.or_comm]; have := mul_or (size / 256 % 256) (size % 256) 8 (by simp only [Nat.reducePow]; omega); simp at this; rw [this]; omega
  · have o1 : pgn % 256 ||| pgn / 256 % 256 * 256 = pgn / 256 % 256 * 256 + pgn % 256 := by
      rw [Nat.or_comm]; have := mul_or (pgn / 256 % 256) (pgn % 256) 8 (by simp only [Nat.reducePow]; omega); simpa using this
    have o2 : (pgn / 256 % 256 * 256 + pgn % 256) ||| pgn / 65536 % 256 * 65536 = pgn / 65536 % 256 * 65536 + (pgn / 256 % 256 * 256 + pgn % 256) := by
      rw [Nat.or_comm]; have := mul_or (pgn / 65536 % 256) (pgn / 256 % 256 * 256 + pgn % 256) 16 (by simp only [Nat.reducePow]; omega); simpa using this
    rw [o1, o2]; omega

theorem c03_decode_cts (n nxt pgn : Nat) (hx : 1 ≤ nxt) :
    let d := Ref.tpCts n nxt pgn
    Tp21.cm_control d = 17 ∧ Tp21.cts_packets d = n ∧ Tp21.cts_next d = (nxt : Int) - 1 ∧ d.length = 8 := by
  simp only [Ref.tpCts, Ref.pgnLE, Tp21.cm_control, Tp21.cts_packets, Tp21.cts_next, Py.idx, List.cons_append, List.nil_append,
    List.getD_cons_zero, List.getD_cons_succ]
  exact ⟨trivial, trivial, by omega, rfl⟩

/-- RESPONDER ROLE: every frame sequence a conforming originator produces for `data` — RTS, then the TP.DT frames of the
    reference layout in order (whatever windows and pacing) — is reassembled to exactly `data`, once (C01 responder trace
    over the reference frames) -/
theorem c03_responder_decodes (data : List Nat) (hlen : 0 < data.length) (mid : MessageId) (dest : Nat)
    (times : List Nat) (ht : times.length = Tp21.num_packets data.length) (s : St) (r : Rcv)
    (hr : s.rcv.get? (Tp21.buffer_hash mid.source_address dest) = some r)
    (hsize : r.messageSize = data.length) (hdata : r.data = []) (hmr : dest ≠ Const.Addr.GLOBAL → ∃ mr, r.maxRec = some mr) :
    let frames := (List.range' 0 (Tp21.num_packets data.length)).map (fun k => Ref.tpDt (k + 1) ((data.drop (k * 7)).take 7))
    deliveries (feedDt s mid dest (times.zip frames)).2 = [(mid.priority, r.pgn, mid.source_address, dest, data)] := by
  have hn : 0 < Tp21.num_packets data.length := by
    have := (num_packets_spec data.length).1; omega
  have hf : (fun k => Ref.tpDt (k + 1) ((data.drop (k * 7)).take 7)) = chunk data := by
    funext k; exact (chunk_ref data k).symm
  simp only [hf]
  exact (feed_delivers data hlen mid dest _ 0 (by omega) hn times ht s r hr hsize (by rw [hdata]; rfl) hmr).1

/-- TIMING ENVELOPE (side conditions on the reflected constants): a peer that replies within 150 ms, spaces hold CTS
    by less than 0.5 s, BAM packets by at most 200 ms and TP.DT by less than 200 ms never runs into a timeout of the
    stack: T3 (wait for CTS / ack) and T2 (wait for DT after CTS) exceed 150 ms and 200 ms, T1 (between DT) exceeds
    200 ms, the hold time re-armed by a hold CTS is 0.5 s -/
theorem c03_timing_envelope :
    150000 < Const.T21.T3 ∧ 200000 < Const.T21.T2 ∧ 200000 < Const.T21.T1 ∧ 500000 ≤ Const.T21.Th := by decide

end J1939.Props.C03
