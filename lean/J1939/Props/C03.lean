/-
  C03 — Wire format interoperates with an independent SAE J1939-21 implementation.   (J1939-21 part)
  `Model/Ref.lean` is the reference written from the standard's tables; the builders and field extractions are the
  definitions regenerated from j1939_21.py.
-/
import J1939.Lemmas.Seg21
import J1939.Lemmas.Trace21
import J1939.Props.C11
namespace J1939.Props.C03
open J1939 J1939.Gen J1939.Dll21 J1939.Lemmas J1939.Bits

/-- identifier of every TP.CM frame: priority, PF 0xEC, destination in PS, source address -/
theorem c03_cm_id (sa da prio : Nat) (hs : sa < 256) (hd : da < 256) (hp : prio < 8) (size n mx pgn : Nat) :
    (Tp21.rts sa da prio pgn size n mx).id = Ref.tpCmId prio da sa ∧
    (Tp21.cts sa da n mx pgn).id = Ref.tpCmId 7 da sa ∧ (Tp21.eom_ack sa da size n pgn).id = Ref.tpCmId 7 da sa ∧
    (Tp21.abort sa da n pgn).id = Ref.tpCmId 7 da sa ∧ (Tp21.bam sa prio pgn size n).id = Ref.tpCmId prio 255 sa ∧
    (Tp21.dt sa da []).id = Ref.tpDtId da sa := by
  simp only [Tp21.rts, Tp21.cts, Tp21.eom_ack, Tp21.abort, Tp21.bam, Tp21.dt, Ref.tpCmId, Ref.tpDtId, Ref.canId, pdu1_id, Nat.reducePow]
  refine ⟨?_, ?_, ?_, ?_, ?_, ?_⟩ <;> omega

/-- data bytes of the five TP.CM frames: control byte, little-endian size, packet counts, 0xFF fill, little-endian PGN -/
theorem c03_cm_data (sa da prio size n mx nxt reason pgn : Nat) :
    (Tp21.rts sa da prio pgn size n mx).data = [16, size % 256, size / 256 % 256, n, mx] ++ Ref.pgnLE pgn ∧
    (Tp21.cts sa da n nxt pgn).data = Ref.tpCts n nxt pgn ∧
    (Tp21.eom_ack sa da size n pgn).data = [19, size % 256, size / 256 % 256, n, 255] ++ Ref.pgnLE pgn ∧
    (Tp21.bam sa prio pgn size n).data = [32, size % 256, size / 256 % 256, n, 255] ++ Ref.pgnLE pgn ∧
    (Tp21.abort sa da reason pgn).data = Ref.tpAbort reason pgn := by
  simp only [Tp21.rts, Tp21.cts, Tp21.eom_ack, Tp21.bam, Tp21.abort, Ref.tpCts, Ref.tpAbort, Ref.pgnLE, and_255, shr_8, shr_16]
  exact ⟨rfl, rfl, rfl, rfl, rfl⟩

/-- with in-range size these are exactly the reference frames -/
theorem c03_cm_ref (sa da prio size n mx pgn : Nat) :
    (Tp21.rts sa da prio pgn size n mx).data = Ref.tpRts size n mx pgn ∧
    (Tp21.eom_ack sa da size n pgn).data = Ref.tpEomAck size n pgn ∧ (Tp21.bam sa prio pgn size n).data = Ref.tpBam size n pgn := by
  simp only [Tp21.rts, Tp21.eom_ack, Tp21.bam, Ref.tpRts, Ref.tpEomAck, Ref.tpBam, Ref.pgnLE, Ref.le16, and_255, shr_8, shr_16]
  exact ⟨rfl, rfl, rfl⟩

/-- TP.DT: 1-based sequence number, 7 data bytes, 0xFF padding — the reference layout; always 8 bytes -/
theorem c03_dt_layout (data : List Nat) (k : Nat) :
    chunk data k = Ref.tpDt (k + 1) ((data.drop (k * 7)).take 7) ∧ (chunk data k).length = 8 :=
  ⟨chunk_ref data k, chunk_length data k⟩

/-- DECODING what a conforming peer sends: the field extraction of the receive path inverts the reference layout -/
theorem c03_decode_rts (size n mx pgn : Nat) (hs : size < 65536) (hn : n < 256) (hm : mx < 256) (hp : pgn < 16777216) :
    let d := Ref.tpRts size n mx pgn
    Tp21.cm_control d = 16 ∧ Tp21.rts_size d = size ∧ Tp21.rts_packets d = n ∧ Tp21.rts_max d = mx ∧ Tp21.cm_pgn d = pgn ∧ d.length = 8 := by
  simp only [Ref.tpRts, Ref.le16, Ref.pgnLE, Tp21.cm_control, Tp21.rts_size, Tp21.rts_packets, Tp21.rts_max, Tp21.cm_pgn, Py.idx,
    List.cons_append, List.nil_append, List.getD_cons_zero, List.getD_cons_succ, shl_8, shl_16]
  refine ⟨trivial, ?_, trivial, trivial, ?_, rfl⟩
  · rw [Nat.or_comm]; have := mul_or (size / 256 % 256) (size % 256) 8 (by simp only [Nat.reducePow]; omega); simp at this; rw [this]; omega
  · have o1 : pgn % 256 ||| pgn / 256 % 256 * 256 = pgn / 256 % 256 * 256 + pgn % 256 := by
      rw [Nat.or_comm]; have := mul_or (pgn / 256 % 256) (pgn % 256) 8 (by simp only [Nat.reducePow]; omega); simpa using this
    have o2 : (pgn / 256 % 256 * 256 + pgn % 256) ||| pgn / 65536 % 256 * 65536 = pgn / 65536 % 256 * 65536 + (pgn / 256 % 256 * 256 + pgn % 256) := by
      rw [Nat.or_comm]; have := mul_or (pgn / 65536 % 256) (pgn / 256 % 256 * 256 + pgn % 256) 16 (by simp only [Nat.reducePow]; omega); simpa using this
    rw [o1, o2]; omega

theorem c03_decode_cts (n nxt pgn : Nat) (hx : 1 ≤ nxt) :
    let d := Ref.tpCts n nxt pgn
    Tp21.cm_control d = 17 ∧ Tp21.cts_packets d = n ∧ Tp21.cts_next d = (nxt : Int) - 1 ∧ d.length = 8 := by
  simp only [Ref.tpCts, Ref.pgnLE, Tp21.cm_control, Tp21.cts_packets, Tp21.cts_next, Py.idx, List.cons_append, List.nil_append,
    List.getD_cons_zero, List.getD_cons_succ]
  exact ⟨trivial, trivial, by omega, rfl⟩

/-- RESPONDER ROLE: every frame sequence a conforming originator produces for `data` — RTS, then the TP.DT frames of the
    reference layout in order (whatever windows and pacing) — is reassembled to exactly `data`, once (C01 responder trace
    over the reference frames) -/
theorem c03_responder_decodes (data : List Nat) (hlen : 0 < data.length) (mid : MessageId) (dest : Nat)
    (times : List Nat) (ht : times.length = Tp21.num_packets data.length) (s : St) (r : Rcv)
    (hr : s.rcv.get? (Tp21.buffer_hash mid.source_address dest) = some r)
    (hsize : r.messageSize = data.length) (hdata : r.data = []) (hmr : dest ≠ Const.Addr.GLOBAL → ∃ mr, r.maxRec = some mr) :
    let frames := (List.range' 0 (Tp21.num_packets data.length)).map (fun k => Ref.tpDt (k + 1) ((data.drop (k * 7)).take 7))
    deliveries (feedDt s mid dest (times.zip frames)).2 = [(mid.priority, r.pgn, mid.source_address, dest, data)] := by
  have hn : 0 < Tp21.num_packets data.length := by
    have := (num_packets_spec data.length).1; omega
  have hf : (fun k => Ref.tpDt (k + 1) ((data.drop (k * 7)).take 7)) = chunk data := by
    funext k; exact (chunk_ref data k).symm
  simp only [hf]
  exact (feed_delivers data hlen mid dest _ 0 (by omega) hn times ht s r hr hsize (by rw [hdata]; rfl) hmr).1

/-- TIMING ENVELOPE (side conditions on the reflected constants): a peer that replies within 150 ms, spaces hold CTS
    by less than 0.5 s, BAM packets by at most 200 ms and TP.DT by less than 200 ms never runs into a timeout of the
    stack: T3 (wait for CTS / ack) and T2 (wait for DT after CTS) exceed 150 ms and 200 ms, T1 (between DT) exceeds
    200 ms, the hold time re-armed by a hold CTS is 0.5 s -/
theorem c03_timing_envelope :
    150000 < Const.T21.T3 ∧ 200000 < Const.T21.T2 ∧ 200000 < Const.T21.T1 ∧ 500000 ≤ Const.T21.Th := by decide

/-! ## J1939-22 (FD) wire format -/

theorem nib (a b : Nat) : ((a &&& 15) ||| ((b &&& 15) <<< 4)) = a % 16 + (b % 16) * 16 := by
  rw [and_15, and_15, shl_4, Nat.or_comm]
  have := mul_or (b % 16) (a % 16) 4 (by simp only [Nat.reducePow]; omega)
  simp only [Nat.reducePow] at this
  rw [this]; omega

/-- J1939-22: data bytes of EVERY FD.TP.CM frame the stack builds = the reference layout; always 12 bytes, FD frame -/
theorem c03_22_cm_data (sa da ctl sess size seg b7 b8 pgn prio : Nat) :
    (Tp22.cm sa da ctl sess size seg b7 b8 pgn prio).data = Ref.fdCm ctl sess size seg b7 b8 pgn ∧
    (Tp22.cm sa da ctl sess size seg b7 b8 pgn prio).fd = true := by
  refine ⟨?_, rfl⟩
  simp only [Tp22.cm, Py.set, List.replicate, List.set_cons_zero, List.set_cons_succ, Ref.fdCm, Ref.le24, nib, and_255, shr_8, shr_16,
    List.cons_append, List.nil_append]
/-- identifiers: priority, PF 0x4D (FD.TP.CM) / 0x4E (FD.TP.DT), destination in PS, source address -/
theorem c03_22_ids (sa da prio : Nat) (hs : sa < 256) (hd : da < 256) (hp : prio < 8)
    (ctl sess size seg b7 b8 pgn dtfi : Nat) (lut d : List Nat) :
    (Tp22.cm sa da ctl sess size seg b7 b8 pgn prio).id = Ref.fdCmId prio da sa ∧
    (Tp22.dt lut sa da sess seg d dtfi).id = Ref.fdDtId da sa := by
  have e1 : (Tp22.cm sa da ctl sess size seg b7 b8 pgn prio).id =
      MessageId.can_id (MessageId.ofFields prio (PGN.value (PGN.ofFields 0 77 da)) sa) := rfl
  have e2 : (Tp22.dt lut sa da sess seg d dtfi).id =
      MessageId.can_id (MessageId.ofFields 7 (PGN.value (PGN.ofFields 0 78 da)) sa) := by
    unfold Tp22.dt; rfl
  rw [e1, e2, Dll21.pdu1_id, Dll21.pdu1_id]
  simp only [Ref.fdCmId, Ref.fdDtId, Ref.canId, Nat.reducePow]
  refine ⟨?_, ?_⟩ <;> omega

/-- the seven named builders are the reference frame with their control code and field placement: RTS 0 (limit, ADT),
    CTS 1 (size field all ones, next segment in the segment field, grant in byte 8), EndOfMsgStatus 2, EndOfMsgACK 3,
    BAM 4 (to 255), Abort 15 (all ones, reason in byte 9) -/
theorem c03_22_builders (sa da prio sess pgn size seg mx adt n nxt reason asz : Nat) :
    (Tp22.rts prio sa da sess pgn size seg mx adt).data = Ref.fdCm 0 sess size seg mx adt pgn ∧
    (Tp22.cts sa da sess n nxt pgn).data = Ref.fdCm 1 sess 16777215 nxt n 0 pgn ∧
    (Tp22.eom_status sa da sess size seg pgn asz adt).data = Ref.fdCm 2 sess size seg asz adt pgn ∧
    (Tp22.eom_ack sa da sess size seg pgn).data = Ref.fdCm 3 sess size seg 255 255 pgn ∧
    (Tp22.bam prio sa sess pgn size seg).data = Ref.fdCm 4 sess size seg 255 0 pgn ∧
    (Tp22.abort sa da sess reason pgn).data = Ref.fdCm 15 sess 16777215 16777215 16777215 reason pgn :=
  ⟨(c03_22_cm_data ..).1, (c03_22_cm_data ..).1, (c03_22_cm_data ..).1, (c03_22_cm_data ..).1, (c03_22_cm_data ..).1,
   (c03_22_cm_data ..).1⟩

theorem le24_decode (v : Nat) (h : v < 16777216) :
    (((v % 256) &&& 255) ||| (((v / 256 % 256) &&& 255) <<< 8)) ||| (((v / 65536 % 256) &&& 255) <<< 16) = v := by
  simp only [and_255, shl_8, shl_16, Nat.mod_mod]
  have o1 : v % 256 ||| v / 256 % 256 * 256 = v / 256 % 256 * 256 + v % 256 := by
    rw [Nat.or_comm]; have := mul_or (v / 256 % 256) (v % 256) 8 (by simp only [Nat.reducePow]; omega); simpa using this
  have o2 : (v / 256 % 256 * 256 + v % 256) ||| v / 65536 % 256 * 65536 = v / 65536 % 256 * 65536 + (v / 256 % 256 * 256 + v % 256) := by
    rw [Nat.or_comm]; have := mul_or (v / 65536 % 256) (v / 256 % 256 * 256 + v % 256) 16 (by simp only [Nat.reducePow]; omega); simpa using this
  rw [o1, o2]; omega

/-- DECODING what a conforming peer sends: the field extraction of the receive path inverts the reference layout -/
theorem c03_22_decode_cm (ctl sess size seg b7 b8 pgn : Nat) (hc : ctl < 16) (hs : sess < 16) (hz : size < 16777216)
    (hg : seg < 16777216) (h7 : b7 < 256) (hp : pgn < 16777216) :
    let d := Ref.fdCm ctl sess size seg b7 b8 pgn
    Tp22.cm_control d = ctl ∧ Tp22.cm_session d = sess ∧ Tp22.cm_size d = size ∧ Tp22.cm_segment d = seg ∧
    Tp22.cm_byte7 d = b7 ∧ Tp22.cm_pgn d = pgn ∧ d.length = 12 := by
  simp only [Ref.fdCm, Ref.le24, Tp22.cm_control, Tp22.cm_session, Tp22.cm_size, Tp22.cm_segment, Tp22.cm_byte7, Tp22.cm_pgn, Py.idx,
    List.cons_append, List.nil_append, List.getD_cons_zero, List.getD_cons_succ]
  refine ⟨?_, ?_, le24_decode size hz, le24_decode seg hg, by omega, le24_decode pgn hp, rfl⟩
  · rw [and_15]; omega
  · rw [shr_4, and_15]; omega
/-- the reflected length table gives the SMALLEST legal CAN FD length that fits -/
theorem lut_minimal : ∀ n < 65, ∀ m < 65, J1939.Props.C11.legalFd m = true → n ≤ m → Py.idx Const.LUT_FD_DLC n ≤ m := by
  decide +kernel

theorem legal_le_64 (m : Nat) (h : J1939.Props.C11.legalFd m = true) : m ≤ 64 := by
  simp [J1939.Props.C11.legalFd] at h; omega

/-- FD.TP.DT: header (format indicator | session, 24-bit segment number), the segment's bytes, 0xFF padding up to the
    smallest legal CAN FD length; an FD frame of at most 64 bytes -/
theorem c03_22_dt_layout (sa da sess seg dtfi : Nat) (data : List Nat) (hl : data.length ≤ 60) :
    let f := Tp22.dt Const.LUT_FD_DLC sa da sess seg data dtfi
    (∃ k, f.data = Ref.fdDtHeader dtfi sess seg ++ data ++ List.replicate k 255) ∧
    J1939.Props.C11.legalFd f.data.length = true ∧ 4 + data.length ≤ f.data.length ∧
    (∀ m, J1939.Props.C11.legalFd m = true → 4 + data.length ≤ m → f.data.length ≤ m) ∧ f.fd = true := by
  intro f
  have hbody : ∀ (d : List Nat) (a b c e : Nat),
      Py.insert (Py.insert (Py.insert (Py.insert d 0 a) 1 b) 2 c) 3 e = [a, b, c, e] ++ d := by
    intro d a b c e; simp [Py.insert]
  have hf : f.data = (if (4 + data.length ≥ 64) then (Ref.fdDtHeader dtfi sess seg ++ data).take 64
      else Py.pad (Ref.fdDtHeader dtfi sess seg ++ data) (Py.idx Const.LUT_FD_DLC (4 + data.length)) 255) := by
    have hl4 : ∀ a b c e : Nat, ((a :: b :: c :: e :: data).length) = 4 + data.length := by
      intro a b c e; simp only [List.length_cons]; omega
    simp only [f, Tp22.dt, hbody, nib, and_255, shr_8, shr_16, Ref.fdDtHeader, Ref.le24, List.cons_append, List.nil_append, hl4]
    by_cases h : 4 + data.length ≥ 64
    · have h' : decide (4 + data.length ≥ 60 + 4) = true := by simpa using h
      have e60 : (60 : Nat) + 4 = 64 := rfl
      simp only [if_true, h, decide_true, e60]
    · have h' : decide (4 + data.length ≥ 60 + 4) = false := by simpa using h
      have h0 : ¬ Py.idx Const.LUT_FD_DLC (4 + data.length) < 0 := by omega
      simp only [Bool.false_eq_true, if_false, h, h0, decide_false]
  have hlen : (Ref.fdDtHeader dtfi sess seg ++ data).length = 4 + data.length := by
    simp [Ref.fdDtHeader, Ref.le24]; omega
  obtain ⟨_, hlut⟩ := J1939.Props.C11.c11_lut
  by_cases h64 : 4 + data.length ≥ 64
  · have hd : data.length = 60 := by omega
    have hfd : f.data = Ref.fdDtHeader dtfi sess seg ++ data := by
      rw [hf]; simp only [h64, if_true]; exact List.take_of_length_le (by omega)
    refine ⟨⟨0, by simp [hfd]⟩, by rw [hfd, hlen, hd]; decide, by rw [hfd, hlen]; omega, ?_, rfl⟩
    intro m _ hm; rw [hfd, hlen]; exact hm
  · obtain ⟨l1, l2, l3⟩ := hlut (4 + data.length) (by omega)
    have hfd : f.data = Ref.fdDtHeader dtfi sess seg ++ data ++
        List.replicate (Py.idx Const.LUT_FD_DLC (4 + data.length) - (4 + data.length)) 255 := by
      rw [hf]; simp only [h64, if_false, Py.pad, hlen]
    have hfl : f.data.length = Py.idx Const.LUT_FD_DLC (4 + data.length) := by
      rw [hfd]; simp only [List.length_append, hlen, List.length_replicate]; omega
    refine ⟨⟨_, hfd⟩, by rw [hfl]; exact l3, by rw [hfl]; exact l1, ?_, rfl⟩
    intro m hm1 hm2
    rw [hfl]
    have := legal_le_64 m hm1
    exact lut_minimal (4 + data.length) (by omega) m (by omega) hm1 hm2

/-- … and the receive path reads session and segment number back from that header -/
theorem c03_22_decode_dt (dtfi sess seg : Nat) (rest : List Nat) (hs : sess < 16) (hd : dtfi < 16) (hg : seg < 16777216) :
    Tp22.dt_session (Ref.fdDtHeader dtfi sess seg ++ rest) = sess ∧ Tp22.dt_segment (Ref.fdDtHeader dtfi sess seg ++ rest) = seg := by
  simp only [Ref.fdDtHeader, Ref.le24, Tp22.dt_session, Tp22.dt_segment, Py.idx, List.cons_append, List.nil_append,
    List.getD_cons_zero, List.getD_cons_succ]
  refine ⟨?_, le24_decode seg hg⟩
  rw [shr_4, and_15]; omega


end J1939.Props.C03
