/-
  C06 — Lost frames or a vanished peer end a transfer cleanly, never with corrupt data.   (J1939-21 part)
-/
import J1939.Lemmas.Trace21
import J1939.Lemmas.Dll21Tick
import J1939.Lemmas.Trace22
namespace J1939.Props.C06
open J1939 J1939.Gen J1939.Dll21

/-- NOTHING FROM TOO FEW FRAMES: a receive record that holds `j` packets of a message announced with `size` bytes, fed
    ANY `k` further 8-byte TP.DT frames (any content, any sequence numbers — whatever survives of the transfer) with
    j + k < ⌈size/7⌉, delivers nothing, raises nothing and still holds the record: a transfer that lost a frame can
    never complete with truncated or shifted data -/
theorem c06_no_early_delivery (size : Nat) (hsize : 0 < size) (mid : MessageId) (dest : Nat)
    (frames : List (Nat × List Nat)) (hfl : ∀ f ∈ frames, f.2.length = 8)
    (s : St) (r : Rcv) (j : Nat) (hr : s.rcv.get? (Tp21.buffer_hash mid.source_address dest) = some r)
    (hs : r.messageSize = size) (hd : r.data.length = 7 * j)
    (hmr : dest ≠ Const.Addr.GLOBAL → ∃ mr, r.maxRec = some mr)
    (hk : j + frames.length < Tp21.num_packets size) :
    deliveries (feedDt s mid dest frames).2 = [] ∧
    ∃ r', (feedDt s mid dest frames).1.rcv.get? (Tp21.buffer_hash mid.source_address dest) = some r' ∧
      r'.data.length = 7 * (j + frames.length) ∧ r'.messageSize = size := by
  induction frames generalizing s r j with
  | nil => exact ⟨rfl, r, hr, by simpa using hd, hs⟩
  | cons f fs ih =>
    obtain ⟨t, f⟩ := f
    simp only [feedDt]
    have hf8 : f.length = 8 := hfl (t, f) (List.mem_cons_self ..)
    have hshort := partial_too_short size (j + 1) hsize (by simp only [List.length_cons] at hk; omega)
    obtain ⟨d1, _, r', hr', hd', hs', _, hm', _⟩ := dt_incomplete s t mid dest f r hf8 hr hmr (by rw [hs, hd]; omega)
    have := ih (fun g hg => hfl g (List.mem_cons_of_mem _ hg)) (processDt s t mid dest f).st r' (j + 1) hr'
      (by rw [hs', hs]) (by rw [hd', List.length_append, hd, List.length_drop, hf8]; omega)
      (by intro h; rw [hm']; exact hmr h) (by simp only [List.length_cons] at hk; omega)
    obtain ⟨e1, r'', e2, e3, e4⟩ := this
    refine ⟨by rw [deliveries_append, d1, e1]; rfl, r'', e2, ?_, e4⟩
    rw [e3]; simp only [List.length_cons]; omega

/-- EXACT WHEN COMPLETE: all packets, in order → the exact payload, once (the responder trace of C01) -/
theorem c06_exact_when_complete (data : List Nat) (hlen : 0 < data.length) (mid : MessageId) (dest : Nat)
    (times : List Nat) (ht : times.length = Tp21.num_packets data.length) (s : St) (r : Rcv)
    (hr : s.rcv.get? (Tp21.buffer_hash mid.source_address dest) = some r)
    (hsize : r.messageSize = data.length) (hdata : r.data = [])
    (hmr : dest ≠ Const.Addr.GLOBAL → ∃ mr, r.maxRec = some mr) :
    deliveries (feedDt s mid dest (times.zip ((List.range' 0 (Tp21.num_packets data.length)).map (chunk data)))).2
      = [(mid.priority, r.pgn, mid.source_address, dest, data)] := by
  have hn : 0 < Tp21.num_packets data.length := by
    have := (num_packets_spec data.length).1; omega
  exact (feed_delivers data hlen mid dest _ 0 (by omega) hn times ht s r hr hsize (by rw [hdata]; rfl) hmr).1

/-- GIVE UP, RESPONDER SIDE: a receive record whose deadline has passed is removed by the pass; for a
    connection-mode (destination specific) session a TP.Conn_Abort with reason 3 (timeout) and the session's PGN goes
    to the originator, for a broadcast session nothing is sent -/
theorem c06_rcv_giveup (now : Nat) (r : Rcv) (hd : r.deadline ≠ 0) (hdue : r.deadline ≤ now) :
    (tickRcvOne now r).1 = none ∧
    (tickRcvOne now r).2.1 = (if r.dest != Const.Addr.GLOBAL then [.tx (Tp21.abort r.dest r.src Const.Abort21.TIMEOUT r.pgn)] else []) ∧
    Const.Abort21.TIMEOUT = 3 := by
  have e1 : (r.deadline != 0) = true := by simpa using hd
  have e2 : ¬ r.deadline > now := by omega
  unfold tickRcvOne
  simp only [e1, if_true, e2, if_false]
  exact ⟨trivial, trivial, by decide⟩

/-- GIVE UP, ORIGINATOR SIDE: a send record waiting for a CTS (or for the end-of-message ack) whose deadline has
    passed is removed and a TP.Conn_Abort (reason 3) with the session's PGN goes to the responder -/
theorem c06_snd_giveup (cfg : Cfg) (now : Nat) (b : Snd) (hs : b.state = S_WAITING_CTS) (hd : b.deadline ≠ 0) (hdue : b.deadline ≤ now) :
    (tickSndOne cfg now b).1 = none ∧
    (tickSndOne cfg now b).2.1 = [.tx (Tp21.abort b.src b.dest Const.Abort21.TIMEOUT b.pgn)] := by
  have e1 : (b.deadline != 0) = true := by simpa using hd
  have e2 : ¬ b.deadline > now := by omega
  unfold tickSndOne
  simp [e1, e2, hs]

/-- BOUND: every deadline a J1939-21 handler writes while a session waits is `now + T` with T ≤ 1.25 s
    (T1, T2, T3, Th as reflected from the source) — with `c07_pass_ok` (no record with a past deadline survives a
    pass): a session that hears nothing is given up within 1.25 s plus scheduling latency -/
theorem c06_timeouts : Const.T21.T1 ≤ 1250000 ∧ Const.T21.T2 ≤ 1250000 ∧ Const.T21.T3 ≤ 1250000 ∧ Const.T21.Th ≤ 1250000 := by
  decide

/-- AFTERWARDS the pair is free again: the key is absent, so a new RTS is accepted (C09 first grant) and a new
    send_pgn is accepted (C10 refusal iff busy) -/
theorem c06_followup (now : Nat) (s : St) (k : Nat) :
    ({ s with rcv := s.rcv.erase k } : St).rcv.contains k = false ∧ ({ s with snd := s.snd.erase k } : St).snd.contains k = false :=
  ⟨PyDict.contains_erase_self _ _, PyDict.contains_erase_self _ _⟩

end J1939.Props.C06

/-! ## J1939-22 (FD) -/
namespace J1939.Props.C06
open J1939 J1939.Gen J1939.Dll22

/-- J1939-22, A SEGMENT OUT OF ORDER IS IGNORED: an FD.TP.DT frame whose segment number is not the one the record
    expects next (a segment was lost, duplicated or reordered) changes nothing and emits nothing — so after a lost segment
    the record never grows again -/
theorem c06_22_out_of_order_ignored (s : St) (now : Nat) (mid : MessageId) (dest : Nat) (f : List Nat) (r : Rcv)
    (hr : s.rcv.get? (Tp22.buffer_hash (Tp22.dt_session f) mid.source_address dest) = some r)
    (hne : r.nextPacket ≠ Tp22.dt_segment f) :
    processDt s now mid dest f = { st := s } := by
  unfold processDt
  have : (r.nextPacket != Tp22.dt_segment f) = true := by simpa using hne
  simp only [hr, this, if_true]
  split
  · rfl
  · split <;> rfl

/-- J1939-22, NEVER A TRUNCATED MESSAGE (repair of D4): the end-of-message status hands a message up only when the
    record holds EXACTLY the announced number of bytes and the announced size and segment count are the ones of the
    session; in every other case the session is aborted (reason 2), nothing is handed up, nothing is acknowledged, and
    the record is removed -/
theorem c06_22_eom_exact_or_nothing (cfg : Cfg) (s : St) (now : Nat) (mid : MessageId) (dest : Nat) (f : List Nat) (r : Rcv)
    (hlen : 12 ≤ f.length) (hc : Tp22.cm_control f = Const.CM22.EOM_STATUS)
    (hr : s.rcv.get? (Tp22.buffer_hash (Tp22.cm_session f) mid.source_address dest) = some r)
    (hsrc : mid.source_address ≠ Const.Addr.GLOBAL) :
    (deliveries (processCm cfg s now mid dest f).outs ≠ [] →
        r.data.length = r.messageSize ∧ r.messageSize = Tp22.cm_size f ∧ r.numSegments = Tp22.cm_segment f ∧
        deliveries (processCm cfg s now mid dest f).outs = [(mid.priority, r.pgn, mid.source_address, dest, r.data)]) ∧
    (¬ (r.messageSize = Tp22.cm_size f ∧ r.numSegments = Tp22.cm_segment f ∧ r.data.length = Tp22.cm_size f) →
        (processCm cfg s now mid dest f).outs = [.tx (Tp22.abort dest mid.source_address (Tp22.cm_session f) Const.Abort22.RESOURCES r.pgn)]) ∧
    (processCm cfg s now mid dest f).st.rcv.get? (Tp22.buffer_hash (Tp22.cm_session f) mid.source_address dest) = none := by
  have hl : ¬ f.length < 12 := by omega
  have c1 : (Const.CM22.EOM_STATUS == Const.CM22.RTS) = false := by decide
  have c2 : (Const.CM22.EOM_STATUS == Const.CM22.CTS) = false := by decide
  have hsrc' : (mid.source_address == Const.Addr.GLOBAL) = false := by simpa using hsrc
  unfold processCm
  simp only [hl, if_false, hsrc', hc, c1, c2, Bool.false_eq_true, hr, beq_self_eq_true, if_true]
  by_cases hok : (r.messageSize == Tp22.cm_size f && r.numSegments == Tp22.cm_segment f && r.data.length == Tp22.cm_size f) = true
  · simp only [hok, if_true]
    simp only [Bool.and_eq_true, beq_iff_eq] at hok
    obtain ⟨⟨h1, h2⟩, h3⟩ := hok
    refine ⟨fun _ => ⟨by omega, h1, h2, ?_⟩, fun hn => absurd ⟨h1, h2, h3⟩ hn, PyDict.get?_erase_self _ _⟩
    split <;> simp [deliveries]
  · have hok' : (r.messageSize == Tp22.cm_size f && r.numSegments == Tp22.cm_segment f && r.data.length == Tp22.cm_size f) = false := by
      cases h : (r.messageSize == Tp22.cm_size f && r.numSegments == Tp22.cm_segment f && r.data.length == Tp22.cm_size f) with
      | false => rfl
      | true => exact absurd h hok
    simp only [hok', Bool.false_eq_true, if_false]
    exact ⟨fun h => absurd (by simp [deliveries]) h, fun _ => trivial, PyDict.get?_erase_self _ _⟩

/-- J1939-22, GIVE UP, RESPONDER SIDE: a receive record whose deadline has passed is removed by the pass; for a
    destination-specific session an abort (reason TIMEOUT = 3) with the session number and PGN goes to the originator, for
    a broadcast session nothing is sent -/
theorem c06_22_rcv_giveup (now : Nat) (r : Rcv) (hd : r.deadline ≠ 0) (hdue : r.deadline ≤ now) :
    (tickRcvOne now r).1 = none ∧
    (tickRcvOne now r).2.1 = (if r.dest != Const.Addr.GLOBAL then [.tx (Tp22.abort r.dest r.src r.session Const.Abort22.TIMEOUT r.pgn)] else []) ∧
    Const.Abort22.TIMEOUT = 3 := by
  have e1 : (r.deadline != 0) = true := by simpa using hd
  have e2 : ¬ r.deadline > now := by omega
  unfold tickRcvOne
  simp only [e1, if_true, e2, if_false]
  exact ⟨trivial, trivial, by decide⟩

/-- J1939-22, GIVE UP, ORIGINATOR SIDE: a send record whose deadline has passed while it waits for a CTS is removed with
    an abort (reason 3) to the responder; one that waits for the end-of-message acknowledgement is removed silently; in
    both cases its session number goes back to the RTS/CTS pool -/
theorem c06_22_snd_giveup (cfg : Cfg) (now : Nat) (b : Snd) (hd : b.deadline ≠ 0) (hdue : b.deadline ≤ now) :
    (b.state = S_WAITING_CTS →
      tickSndOne cfg now b = (none, [.tx (Tp22.abort b.src b.dest b.session Const.Abort22.TIMEOUT b.pgn)], none, none, .rts b.session)) ∧
    (b.state = S_WAITING_EOM_ACK → tickSndOne cfg now b = (none, [], none, none, .rts b.session)) := by
  have e1 : (b.deadline != 0) = true := by simpa using hd
  have e2 : ¬ b.deadline > now := by omega
  have n13 : (S_WAITING_EOM_ACK == S_WAITING_CTS) = false := by decide
  have n23 : (S_WAITING_EOM_ACK == S_SENDING_RTS_CTS) = false := by decide
  refine ⟨?_, ?_⟩ <;> intro hs <;> unfold tickSndOne
  · simp only [e1, if_true, e2, if_false, hs, beq_self_eq_true]
  · simp only [e1, if_true, e2, if_false, hs, n13, n23, Bool.false_eq_true, beq_self_eq_true]

/-- J1939-22, BOUND: every deadline a handler writes while a session waits is `now + T` with T ≤ 1.25 s, except the wait
    for the end-of-message acknowledgement (T5 = 3 s) — the longest time a silent peer can keep a session alive -/
theorem c06_22_timeouts : Const.T22.T1 ≤ 1250000 ∧ Const.T22.T2 ≤ 1250000 ∧ Const.T22.T3 ≤ 1250000 ∧ Const.T22.Th ≤ 1250000 ∧
    Const.T22.T5 = 3000000 := by
  decide

/-! ### the thread is told about every new deadline -/

/-- EVERY NEW SESSION WAKES THE THREAD (J1939-21): a multi-packet send that is accepted — broadcast or connection mode —
    asks for a background pass, so the deadline it armed (BAM interval, T3 for the CTS) is known to a thread that was
    asleep: the give-up bound counts from the frame, not from the thread's next idle wake-up -/
theorem c06_send_wakes (cfg : Dll21.Cfg) (s : Dll21.St) (now dp pf ps prio sa : Nat) (data : List Nat) (hl : 8 < data.length)
    (hacc : (Dll21.sendPgn cfg s now dp pf ps prio sa data).2 = true) :
    Dll21.Out.wake ∈ (Dll21.sendPgn cfg s now dp pf ps prio sa data).1.outs := by
  have hl' : ¬ data.length ≤ 8 := by omega
  unfold Dll21.sendPgn at hacc ⊢
  simp only [hl', if_false] at hacc ⊢
  repeat' split
  all_goals simp_all

/-- … and on J1939-22: an accepted transport send (more than 60 bytes) asks for a pass -/
theorem c06_22_send_wakes (cfg : Dll22.Cfg) (s : Dll22.St) (now dp pf ps prio sa : Nat) (data : List Nat) (tl ff : Nat)
    (hl : 60 < data.length) (hacc : (Dll22.sendPgn cfg s now dp pf ps prio sa data tl ff).2 = true) :
    Dll22.Out.wake ∈ (Dll22.sendPgn cfg s now dp pf ps prio sa data tl ff).1.outs := by
  have hl' : ¬ data.length ≤ Const.DL22.TP := by
    have : Const.DL22.TP = 60 := rfl
    omega
  unfold Dll22.sendPgn at hacc ⊢
  simp only [hl', if_false] at hacc ⊢
  repeat' split
  all_goals simp_all

end J1939.Props.C06
